//! Harness for the correspondence suites: runs the implementation (built from /repo's
//! working tree with the `verif-hooks` feature) on case files and prints what it did.
use pf::mutators::*;
#[allow(unused_imports)]
use pf::verif::{EntropySource, GenerationSource};
use pf::{Generator, Mutator, Version};
use rand::SeedableRng;
use rand_chacha::ChaCha8Rng;
use std::collections::HashMap;
use std::io::{BufRead, Write};
use std::panic::{catch_unwind, AssertUnwindSafe};

fn hex(b: &[u8]) -> String {
    if b.is_empty() {
        return "-".into();
    }
    b.iter().map(|x| format!("{:02x}", x)).collect()
}
fn unhex(s: &str) -> Vec<u8> {
    if s == "-" {
        return vec![];
    }
    (0..s.len() / 2)
        .map(|i| u8::from_str_radix(&s[2 * i..2 * i + 2], 16).unwrap())
        .collect()
}

fn kv(line: &str) -> HashMap<String, String> {
    line.split_whitespace()
        .filter_map(|t| t.split_once('='))
        .map(|(a, b)| (a.to_string(), b.to_string()))
        .collect()
}

fn mk_mutator(name: &str) -> Box<dyn Mutator> {
    match name {
        "bitflip" => Box::new(BitFlipMutator),
        "boundary" => Box::new(BoundaryMutator),
        "offbyone" => Box::new(OffByOneMutator),
        "stringlen" => Box::new(StringLengthMutator),
        "character" => Box::new(CharacterMutator),
        "memoindex:0" => Box::new(MemoIndexMutator::new(false)),
        "memoindex:1" => Box::new(MemoIndexMutator::new(true)),
        "typeconf:0" => Box::new(TypeConfusionMutator::new(false)),
        "typeconf:1" => Box::new(TypeConfusionMutator::new(true)),
        _ => panic!("unknown mutator {}", name),
    }
}

fn mk_generator(m: &HashMap<String, String>) -> Generator {
    let v = Version::try_from(m["v"].parse::<usize>().unwrap()).unwrap();
    let mut g = Generator::new(v)
        .with_opcode_range(m["min"].parse().unwrap(), m["max"].parse().unwrap())
        .with_unsafe_mutations(m["unsafe"] == "1")
        .with_ext_opcodes(m["ext"] == "1")
        .with_buffer_opcodes(m["buf"] == "1");
    if m["muts"] != "-" {
        g = g.with_mutators(m["muts"].split(',').map(mk_mutator).collect());
    }
    // the field is public: any f64 bit pattern is a reachable configuration
    g.mutation_rate = f64::from_bits(u64::from_str_radix(&m["rate"], 16).unwrap());
    g
}

fn panic_msg(e: Box<dyn std::any::Any + Send>) -> String {
    if let Some(s) = e.downcast_ref::<&str>() {
        s.to_string()
    } else if let Some(s) = e.downcast_ref::<String>() {
        s.clone()
    } else {
        "?".into()
    }
}

/// run one generation according to `src=` and return the result line
fn run_src(g: &mut Generator, src: &str) -> String {
    let r = catch_unwind(AssertUnwindSafe(|| {
        if let Some(s) = src.strip_prefix("seed:") {
            g.seed = Some(s.parse().unwrap());
            g.generate()
        } else {
            let data = unhex(src.strip_prefix("bytes:").unwrap());
            g.generate_from_arbitrary(&data)
        }
    }));
    match r {
        Ok(Ok(out)) => format!("RESULT ok {}", hex(&out)),
        Ok(Err(e)) => format!("RESULT err {}", e.to_string().replace('\n', " ")),
        Err(e) => format!("RESULT panic {}", panic_msg(e).replace('\n', " ")),
    }
}

fn trace_case(line: &str) -> Vec<String> {
    let m = kv(line);
    let mut out = vec![format!("CASE {}", line)];
    let mut g = mk_generator(&m);
    pf::verif::set_aliases(m.get("alias").map(|s| s == "1").unwrap_or(false));
    pf::verif::start();
    let res = run_src(&mut g, &m["src"]);
    out.extend(pf::verif::take());
    out.push(res);
    out.push("END".into());
    out
}

fn cmd_trace(path: &str, threads: usize) {
    let lines: Vec<String> = std::io::BufReader::new(std::fs::File::open(path).unwrap())
        .lines()
        .map(|l| l.unwrap())
        .filter(|l| !l.trim().is_empty() && !l.starts_with('#'))
        .collect();
    let n = lines.len();
    let chunk = n.div_ceil(threads.max(1)).max(1);
    let results: Vec<Vec<String>> = std::thread::scope(|s| {
        let hs: Vec<_> = lines
            .chunks(chunk)
            .map(|c| {
                std::thread::Builder::new()
                    .stack_size(256 << 20)
                    .spawn_scoped(s, move || {
                        let mut v = Vec::new();
                        for l in c {
                            v.extend(trace_case(l));
                        }
                        v
                    })
                    .unwrap()
            })
            .collect();
        hs.into_iter().map(|h| h.join().unwrap()).collect()
    });
    let stdout = std::io::stdout();
    let mut w = std::io::BufWriter::new(stdout.lock());
    for r in results {
        for l in r {
            writeln!(w, "{}", l).unwrap();
        }
    }
}

/// first n 32-bit words of ChaCha8Rng::seed_from_u64(seed)
fn cmd_words(seed: u64, n: usize) {
    use rand::RngCore;
    let mut rng = ChaCha8Rng::seed_from_u64(seed);
    let w: Vec<String> = (0..n).map(|_| format!("{:08x}", rng.next_u32())).collect();
    println!("WORDS {} {}", seed, w.join(" "));
}

fn main() {
    std::panic::set_hook(Box::new(|_| {}));
    let a: Vec<String> = std::env::args().collect();
    match a.get(1).map(|s| s.as_str()) {
        Some("trace") => cmd_trace(&a[2], a.get(3).map(|s| s.parse().unwrap()).unwrap_or(16)),
        Some("words") => cmd_words(a[2].parse().unwrap(), a[3].parse().unwrap()),
        _ => {
            eprintln!("usage: pf-harness trace <cases> [threads] | words <seed> <n>");
            std::process::exit(2);
        }
    }
}
