//! Harness for the correspondence suites: runs the implementation (built from /repo's
//! working tree with the `verif-hooks` feature) on case files and prints what it did.
use pf::mutators::*;
#[allow(unused_imports)]
use pf::verif::{EntropySource, GenerationSource};
use pf::{EmissionSnapshot, Generator, Mutator, Version};
use rand::SeedableRng;
use rand_chacha::ChaCha8Rng;
use std::collections::HashMap;
use std::io::{BufRead, Write};
use std::panic::{catch_unwind, AssertUnwindSafe};

// ---------------------------------------------------------------- counting allocator (suite S7)
struct Counting;
static LIVE: std::sync::atomic::AtomicIsize = std::sync::atomic::AtomicIsize::new(0);
// counting is switched on by the single-threaded `leak` mode only (a shared counter would serialise the threaded modes)
static COUNTING: std::sync::atomic::AtomicBool = std::sync::atomic::AtomicBool::new(false);
// ... and only on the thread that is measuring, while it measures: the pool's monitor thread allocates and frees on its own
// (records handed over, the memory guard's read of /proc) and must not show up in a case's balance
thread_local! {
    static MEASURING: std::cell::Cell<bool> = const { std::cell::Cell::new(false) };
}
fn counted() -> bool {
    COUNTING.load(std::sync::atomic::Ordering::Relaxed) && MEASURING.try_with(|m| m.get()).unwrap_or(false)
}
unsafe impl std::alloc::GlobalAlloc for Counting {
    unsafe fn alloc(&self, l: std::alloc::Layout) -> *mut u8 {
        if counted() {
            LIVE.fetch_add(l.size() as isize, std::sync::atomic::Ordering::Relaxed);
        }
        std::alloc::System.alloc(l)
    }
    unsafe fn dealloc(&self, p: *mut u8, l: std::alloc::Layout) {
        if counted() {
            LIVE.fetch_sub(l.size() as isize, std::sync::atomic::Ordering::Relaxed);
        }
        std::alloc::System.dealloc(p, l)
    }
    unsafe fn realloc(&self, p: *mut u8, l: std::alloc::Layout, n: usize) -> *mut u8 {
        if counted() {
            LIVE.fetch_add(n as isize - l.size() as isize, std::sync::atomic::Ordering::Relaxed);
        }
        std::alloc::System.realloc(p, l, n)
    }
}
#[global_allocator]
static GLOBAL: Counting = Counting;
fn live() -> isize {
    LIVE.load(std::sync::atomic::Ordering::Relaxed)
}

// ---------------------------------------------------------------- worker pool with a watchdog (C09: a call must return)
// The cases of a file are handed out one by one to `threads` long-lived workers (so histories per thread stay as they are).
// A monitor declares a case hung when it runs longer than VERIF_CASE_DEADLINE seconds (default 60) plus 1 s per 50 opcodes
// of its budget: its record becomes `CASE ..` / `RESULT hang ..` / `END`, the stuck worker is abandoned (it cannot be killed) and
// a fresh worker takes over the remaining cases.  After MAX_STUCK abandoned workers the remaining cases are skipped
// (`RESULT skipped`), so a change that makes most calls diverge still ends the run with a verdict.
fn deadline_secs() -> u64 {
    std::env::var("VERIF_CASE_DEADLINE").ok().and_then(|s| s.parse::<u64>().ok()).unwrap_or(60)
}
const MAX_STUCK: usize = 48;
/// resident set size of this process in kB (Linux: /proc/self/statm, pages of 4 kB); 0 when it cannot be read
fn rss_kb() -> u64 {
    std::fs::read_to_string("/proc/self/statm")
        .ok()
        .and_then(|s| s.split_whitespace().nth(1).and_then(|x| x.parse::<u64>().ok()))
        .map(|pages| pages * 4)
        .unwrap_or(0)
}
/// memory budget of one harness process (`VERIF_MEM_LIMIT_MB`, default 8 GB)
fn mem_limit_kb() -> u64 {
    std::env::var("VERIF_MEM_LIMIT_MB").ok().and_then(|s| s.parse::<u64>().ok()).unwrap_or(8 * 1024) * 1024
}

fn run_pool(lines: Vec<String>, threads: usize, f: fn(&str) -> Vec<String>) -> Vec<Vec<String>> {
    use std::sync::atomic::{AtomicUsize, Ordering};
    use std::sync::{Arc, Mutex};
    let n = lines.len();
    let lines = Arc::new(lines);
    let next = Arc::new(AtomicUsize::new(0));
    let results: Arc<Mutex<Vec<Option<Vec<String>>>>> = Arc::new(Mutex::new(vec![None; n]));
    // worker id -> (case index, start)
    let running: Arc<Mutex<HashMap<usize, (usize, std::time::Instant)>>> = Arc::new(Mutex::new(HashMap::new()));
    let spawn = |id: usize| {
        let (lines, next, results, running) = (lines.clone(), next.clone(), results.clone(), running.clone());
        std::thread::Builder::new()
            .stack_size(256 << 20)
            .spawn(move || loop {
                let i = next.fetch_add(1, Ordering::SeqCst);
                if i >= lines.len() {
                    break;
                }
                running.lock().unwrap().insert(id, (i, std::time::Instant::now()));
                let r = f(&lines[i]);
                let mut g = running.lock().unwrap();
                if matches!(g.get(&id), Some((j, _)) if *j == i) {
                    g.remove(&id);
                    drop(g);
                    results.lock().unwrap()[i] = Some(r);
                } else {
                    break; // declared hung meanwhile: the record is already written, this worker was replaced
                }
            })
            .unwrap();
    };
    let mut ids = 0;
    for _ in 0..threads.max(1).min(n.max(1)) {
        spawn(ids);
        ids += 1;
    }
    let mut stuck = 0usize;
    // records are written in case order as soon as they are there (a large case file never sits in memory as a whole)
    let stdout = std::io::stdout();
    let mut w = std::io::BufWriter::with_capacity(1 << 20, stdout.lock());
    let mut next_print = 0usize;
    // a case may take its time in proportion to the opcode budget it asks for (`max=`): 1 s per 50 opcodes on top of the base
    let budget: Vec<u64> = lines
        .iter()
        .map(|l| kv(l).get("max").and_then(|m| m.parse::<u64>().ok()).unwrap_or(0) / 50)
        .collect();
    let base = deadline_secs();
    loop {
        std::thread::sleep(std::time::Duration::from_millis(20));
        {
            let mut res = results.lock().unwrap();
            while next_print < n && res[next_print].is_some() {
                for l in res[next_print].take().unwrap() {
                    writeln!(w, "{}", l).unwrap();
                }
                res[next_print] = Some(Vec::new());
                next_print += 1;
            }
        }
        if next_print >= n {
            break;
        }
        // memory guard: a call that neither returns nor stops allocating would have the whole process killed by the kernel
        // (and with it every record not yet written).  Past the limit, the calls still running are recorded as not returning,
        // everything not yet started as skipped, and the process ends.
        if rss_kb() > mem_limit_kb() {
            next.store(n, Ordering::SeqCst);
            let run_now: Vec<usize> = running.lock().unwrap().values().map(|(i, _)| *i).collect();
            let mut res = results.lock().unwrap();
            for i in 0..n {
                if res[i].is_none() {
                    res[i] = Some(if run_now.contains(&i) {
                        vec![
                            format!("CASE {}", lines[i]),
                            format!("RESULT hang the call did not return before the process held more than {} MB (it keeps allocating)", mem_limit_kb() / 1024),
                            "END".to_string(),
                        ]
                    } else {
                        vec![format!("CASE {}", lines[i]), "RESULT skipped the process ran out of its memory budget".to_string(), "END".to_string()]
                    });
                }
            }
            while next_print < n {
                for l in res[next_print].take().unwrap() {
                    writeln!(w, "{}", l).unwrap();
                }
                next_print += 1;
            }
            w.flush().unwrap();
            std::process::exit(0);
        }
        let hung: Vec<(usize, usize)> = running
            .lock()
            .unwrap()
            .iter()
            .filter(|(_, (i, t))| t.elapsed().as_secs() >= base + budget[*i])
            .map(|(id, (i, _))| (*id, *i))
            .collect();
        for (id, i) in hung {
            running.lock().unwrap().remove(&id);
            results.lock().unwrap()[i] = Some(vec![
                format!("CASE {}", lines[i]),
                format!("RESULT hang the call did not return within {} s", base + budget[i]),
                "END".to_string(),
            ]);
            stuck += 1;
            if stuck < MAX_STUCK {
                spawn(ids);
                ids += 1;
            }
        }
        if stuck >= MAX_STUCK {
            // give up on what nobody has started or finished
            next.store(n, Ordering::SeqCst);
            let run_now: Vec<usize> = running.lock().unwrap().values().map(|(i, _)| *i).collect();
            let mut res = results.lock().unwrap();
            for i in 0..n {
                if res[i].is_none() && !run_now.contains(&i) {
                    res[i] = Some(vec![format!("CASE {}", lines[i]), "RESULT skipped too many calls did not return".to_string(), "END".to_string()]);
                }
            }
        }
    }
    w.flush().unwrap();
    Vec::new()
}
fn read_lines(path: &str) -> Vec<String> {
    std::io::BufReader::new(std::fs::File::open(path).unwrap())
        .lines()
        .map(|l| l.unwrap())
        .filter(|l| !l.trim().is_empty() && !l.starts_with('#'))
        .collect()
}
fn print_all(results: Vec<Vec<String>>) {
    let stdout = std::io::stdout();
    let mut w = std::io::BufWriter::new(stdout.lock());
    for r in results {
        for l in r {
            writeln!(w, "{}", l).unwrap();
        }
    }
    w.flush().unwrap();
    // abandoned workers may still be spinning
    std::process::exit(0);
}
// single calls outside the pool (child processes of `isolated`, deep runs): end the process when the call does not return
fn watched<T>(line: &str, f: impl FnOnce() -> T) -> T {
    let done = std::sync::Arc::new(std::sync::atomic::AtomicBool::new(false));
    let budget = kv(line).get("max").and_then(|m| m.parse::<u64>().ok()).unwrap_or(0) / 50;
    let (d2, l2, limit) = (done.clone(), line.to_string(), deadline_secs() + budget);
    std::thread::spawn(move || {
        let t = std::time::Instant::now();
        while !d2.load(std::sync::atomic::Ordering::Relaxed) {
            std::thread::sleep(std::time::Duration::from_millis(200));
            if t.elapsed().as_secs() >= limit {
                println!("CASE {}\nRESULT hang the call did not return within {} s\nEND", l2, limit);
                std::process::exit(0);
            }
        }
    });
    let r = f();
    done.store(true, std::sync::atomic::Ordering::Relaxed);
    r
}

fn hex(b: &[u8]) -> String {
    if b.is_empty() {
        return "-".into();
    }
    b.iter().map(|x| format!("{:02x}", x)).collect()
}
fn unhex(s: &str) -> Vec<u8> {
    if s == "-" {
        return vec![];
    }
    (0..s.len() / 2)
        .map(|i| u8::from_str_radix(&s[2 * i..2 * i + 2], 16).unwrap())
        .collect()
}

fn kv(line: &str) -> HashMap<String, String> {
    line.split_whitespace()
        .filter_map(|t| t.split_once('='))
        .map(|(a, b)| (a.to_string(), b.to_string()))
        .collect()
}

/// a mutator that mutates nothing and draws nothing, but takes its time: `sleep:<ms>` per post-processed opcode.
/// Outputs must be the same with and without it (slow-motion run: nothing may depend on elapsed time).
#[derive(Debug)]
struct SleepMutator(u64);
impl Mutator for SleepMutator {
    fn name(&self) -> &str {
        "sleep"
    }
    fn post_process(&self, _s: &EmissionSnapshot, _o: &mut Vec<u8>, _src: &mut GenerationSource, _rate: f64) -> bool {
        std::thread::sleep(std::time::Duration::from_millis(self.0));
        false
    }
}

fn mk_mutator(name: &str) -> Box<dyn Mutator> {
    if let Some(ms) = name.strip_prefix("sleep:") {
        return Box::new(SleepMutator(ms.parse().unwrap()));
    }
    match name {
        "bitflip" => Box::new(BitFlipMutator),
        "boundary" => Box::new(BoundaryMutator),
        "offbyone" => Box::new(OffByOneMutator),
        "stringlen" => Box::new(StringLengthMutator),
        "character" => Box::new(CharacterMutator),
        "memoindex:0" => Box::new(MemoIndexMutator::new(false)),
        "memoindex:1" => Box::new(MemoIndexMutator::new(true)),
        "typeconf:0" => Box::new(TypeConfusionMutator::new(false)),
        "typeconf:1" => Box::new(TypeConfusionMutator::new(true)),
        _ => panic!("unknown mutator {}", name),
    }
}

fn mk_generator(m: &HashMap<String, String>) -> Generator {
    let v = Version::try_from(m["v"].parse::<usize>().unwrap()).unwrap();
    let (mn, mx): (usize, usize) = (m["min"].parse().unwrap(), m["max"].parse().unwrap());
    let rate = f64::from_bits(u64::from_str_radix(&m["rate"], 16).unwrap());
    // `api=1`: the other spelling of the same configuration (with_min_opcodes / with_max_opcodes, one with_mutator per
    // mutator, with_mutation_rate for rates inside [0, 1], flags set before the range)
    let alt = m.get("api").map(|s| s == "1").unwrap_or(false);
    // `api=2`: every builder is called twice, first with OTHER values (flags on, another range, another rate): a builder
    // sets its field - the last call wins, nothing an earlier call set may survive
    let twice = m.get("api").map(|s| s == "2").unwrap_or(false);
    let mut g = if twice {
        Generator::new(v)
            .with_ext_opcodes(true)
            .with_buffer_opcodes(true)
            .with_unsafe_mutations(true)
            .with_opcode_range(mx + 7, mn + 3)
            .with_mutation_rate(0.9)
            .with_min_opcodes(1)
            .with_max_opcodes(2)
            .with_opcode_range(mn, mx)
            .with_unsafe_mutations(m["unsafe"] == "1")
            .with_ext_opcodes(m["ext"] == "1")
            .with_buffer_opcodes(m["buf"] == "1")
    } else if alt {
        Generator::new(v)
            .with_buffer_opcodes(m["buf"] == "1")
            .with_ext_opcodes(m["ext"] == "1")
            .with_unsafe_mutations(m["unsafe"] == "1")
            .with_max_opcodes(mx)
            .with_min_opcodes(mn)
    } else {
        Generator::new(v)
            .with_opcode_range(mn, mx)
            .with_unsafe_mutations(m["unsafe"] == "1")
            .with_ext_opcodes(m["ext"] == "1")
            .with_buffer_opcodes(m["buf"] == "1")
    };
    if m["muts"] != "-" {
        if alt {
            for name in m["muts"].split(',') {
                g = g.with_mutator(mk_mutator(name));
            }
        } else {
            g = g.with_mutators(m["muts"].split(',').map(mk_mutator).collect());
        }
    }
    // `bufsz=n`: with_buffer_size(n) - documented as the PRNG buffer size, read by nothing: no output may depend on it
    if let Some(b) = m.get("bufsz") {
        g = g.with_buffer_size(b.parse().unwrap());
    }
    if alt && (0.0..=1.0).contains(&rate) {
        g = g.with_mutation_rate(rate);
    } else {
        // the field is public: any f64 bit pattern is a reachable configuration
        g.mutation_rate = rate;
    }
    g
}

fn panic_msg(e: Box<dyn std::any::Any + Send>) -> String {
    if let Some(s) = e.downcast_ref::<&str>() {
        s.to_string()
    } else if let Some(s) = e.downcast_ref::<String>() {
        s.clone()
    } else {
        "?".into()
    }
}

/// run one generation according to `src=` and return the result line
fn run_src(g: &mut Generator, src: &str) -> String {
    let r = catch_unwind(AssertUnwindSafe(|| {
        if let Some(s) = src.strip_prefix("seed:") {
            g.seed = Some(s.parse().unwrap());
            g.generate()
        } else {
            let data = unhex(src.strip_prefix("bytes:").unwrap());
            g.generate_from_arbitrary(&data)
        }
    }));
    match r {
        Ok(Ok(out)) => format!("RESULT ok {}", hex(&out)),
        Ok(Err(e)) => format!("RESULT err {}", e.to_string().replace('\n', " ")),
        Err(e) => format!("RESULT panic {}", panic_msg(e).replace('\n', " ")),
    }
}

fn trace_case(line: &str) -> Vec<String> {
    let m = kv(line);
    let mut out = vec![format!("CASE {}", line)];
    let mut g = mk_generator(&m);
    pf::verif::set_aliases(m.get("alias").map(|s| s == "1").unwrap_or(false));
    // `pre=`: earlier, unrecorded calls on the same generator ("r" = reset()); the traced call must behave as on a fresh one
    if let Some(pre) = m.get("pre") {
        for p in pre.split('+') {
            if p == "r" {
                g.reset();
            } else {
                let _ = run_src(&mut g, p);
            }
        }
    }
    pf::verif::start();
    let res = run_src(&mut g, &m["src"]);
    out.extend(pf::verif::take());
    out.push(res);
    out.push("END".into());
    out
}

fn cmd_trace(path: &str, threads: usize) {
    print_all(run_pool(read_lines(path), threads, trace_case));
}

// ---------------------------------------------------------------- S3/S4: direct calls
fn hexu(s: &str) -> u64 {
    u64::from_str_radix(s, 16).unwrap()
}

fn src_pos(src: &GenerationSource) -> String {
    match src {
        GenerationSource::Arbitrary(u) => format!("{}", u.len()),
        GenerationSource::Rand(rng) => format!("{}", rng.get_word_pos()),
    }
}

fn opt<T, F: Fn(T) -> String>(o: Option<T>, f: F) -> String {
    match o {
        Some(x) => format!("some:{}", f(x)),
        None => "none".into(),
    }
}

fn adapt_op(op: &str, rate: f64, src: &mut GenerationSource) -> String {
    let a: Vec<&str> = op.split(':').collect();
    match a[0] {
        "ci" => format!("{:x}", src.choose_index(hexu(a[1]) as usize)),
        "gr" => format!("{:x}", src.gen_range(hexu(a[1]) as usize, hexu(a[2]) as usize)),
        "u8" => format!("{:x}", src.gen_u8()),
        "u16" => format!("{:x}", src.gen_u16()),
        "u32" => format!("{:x}", src.gen_u32()),
        "i32" => format!("{:x}", src.gen_i32() as u32),
        "i64" => format!("{:x}", src.gen_i64() as u64),
        "f64" => format!("{:x}", src.gen_f64().to_bits()),
        "bool" => format!("{}", src.gen_bool() as u8),
        "sm" => format!("{}", src.should_mutate(rate) as u8),
        "by" => hex(&src.gen_bytes(hexu(a[1]) as usize)),
        "ac" => format!("{:x}", src.gen_ascii_char() as u32),
        "mi" => opt(mk_mutator(&a[1].replace('.', ":")).mutate_int(hexu(a[2]) as u32 as i32, src, rate), |x| format!("{:x}", x as u32)),
        "ml" => opt(mk_mutator(&a[1].replace('.', ":")).mutate_long(hexu(a[2]) as i64, src, rate), |x| format!("{:x}", x as u64)),
        "mf" => opt(mk_mutator(&a[1].replace('.', ":")).mutate_float(f64::from_bits(hexu(a[2])), src, rate), |x| format!("{:x}", x.to_bits())),
        "ms" => opt(
            mk_mutator(&a[1].replace('.', ":")).mutate_string(String::from_utf8(unhex(a[2])).unwrap(), src, rate),
            |x| hex(x.as_bytes()),
        ),
        "mb" => opt(mk_mutator(&a[1].replace('.', ":")).mutate_bytes(unhex(a[2]), src, rate), |x| hex(&x)),
        "mm" => opt(mk_mutator(&a[1].replace('.', ":")).mutate_memo_index(hexu(a[2]) as usize, src, rate), |x| format!("{:x}", x)),
        // the generator's own dispatch over a LIST of mutators ('+' separated): first one that fires wins
        #[cfg(not(feature = "ext"))]
        "di" | "df" | "ds" | "db" | "dm" => "unsupported-without-ext-hooks".to_string(),
        #[cfg(feature = "ext")]
        "di" | "df" | "ds" | "db" | "dm" => {
            let mut g = Generator::new(Version::V2).with_mutators(a[1].split('+').map(|n| mk_mutator(&n.replace('.', ":"))).collect());
            g.mutation_rate = rate;
            match a[0] {
                "di" => format!("{:x}", pf::verif::dispatch_int(&g, hexu(a[2]) as u32 as i32, src) as u32),
                "df" => format!("{:x}", pf::verif::dispatch_float(&g, f64::from_bits(hexu(a[2])), src).to_bits()),
                "ds" => {
                    let r = pf::verif::dispatch_string(&g, String::from_utf8(unhex(a[2])).unwrap(), src);
                    format!("v{}", hex(r.as_bytes()))
                }
                "db" => format!("v{}", hex(&pf::verif::dispatch_bytes(&g, unhex(a[2]), src))),
                _ => format!("{:x}", pf::verif::dispatch_memo_index(&g, hexu(a[2]) as usize, src)),
            }
        }
        "pp" => {
            let delta = unhex(a[2]);
            let prefix = unhex(a[3]);
            let snap = EmissionSnapshot {
                stack_depth: 0,
                output_len: prefix.len(),
                memo_size: 0,
                stack_delta: Vec::new(),
                output_delta: delta.clone(),
                memo_delta: Vec::new(),
            };
            let mut out = prefix.clone();
            out.extend_from_slice(&delta);
            let fired = mk_mutator(&a[1].replace('.', ":")).post_process(&snap, &mut out, src, rate);
            format!("{}:{}", fired as u8, hex(&out))
        }
        _ => panic!("unknown op {}", op),
    }
}

fn adapt_case(line: &str) -> Vec<String> {
    let m = kv(line);
    let mut out = vec![format!("CASE {}", line)];
    let rate = f64::from_bits(u64::from_str_radix(&m["rate"], 16).unwrap());
    let ops: Vec<&str> = m["ops"].split(';').collect();
    let srcs = &m["src"];
    let run = |src: &mut GenerationSource, out: &mut Vec<String>| {
        for (i, op) in ops.iter().enumerate() {
            let r = catch_unwind(AssertUnwindSafe(|| adapt_op(op, rate, src)));
            match r {
                Ok(v) => out.push(format!("R {} {} {} pos={}", i, op, v, src_pos(src))),
                Err(e) => {
                    out.push(format!("R {} {} panic:{} pos=?", i, op, panic_msg(e).replace(' ', "_")));
                    break;
                }
            }
        }
    };
    if let Some(s) = srcs.strip_prefix("seed:") {
        let mut rng = ChaCha8Rng::seed_from_u64(s.parse().unwrap());
        let mut src = GenerationSource::Rand(&mut rng);
        run(&mut src, &mut out);
    } else {
        let data = unhex(srcs.strip_prefix("bytes:").unwrap());
        let mut u = arbitrary::Unstructured::new(&data);
        let mut src = GenerationSource::Arbitrary(&mut u);
        run(&mut src, &mut out);
    }
    out.push("END".into());
    out
}


// ---------------------------------------------------------------- S8: one step from every small state
/// the state is built by hand (kinds of the stack slots bottom to top, memo entries), then (a) the candidate set,
/// (b) for every listed opcode - candidate or not - one emission on the given fuzzer bytes from a fresh copy of that
/// state: appended bytes, simulated state afterwards, bytes left; (c) the collapse tail + STOP from that state
#[cfg(feature = "ext")]
fn s8_case(line: &str) -> Vec<String> {
    let m = kv(line);
    let mut out = vec![format!("CASE {}", line)];
    let data = unhex(m["src"].strip_prefix("bytes:").unwrap());
    let build = || -> Generator {
        let mut g = mk_generator(&m);
        let empty: [u8; 0] = [];
        let mut u = arbitrary::Unstructured::new(&empty);
        let mut src = GenerationSource::Arbitrary(&mut u);
        pf::verif::begin(&mut g, &mut src);
        // `fill=1`: containers and objects with mixed contents - decisions must depend on the kinds of the slots only
        let filled = m.get("fill").map(|s| s == "1").unwrap_or(false);
        if m["stack"] != "-" {
            for k in m["stack"].chars() {
                let ok = if filled { pf::verif::push_filled(&mut g, k) } else { pf::verif::push_kind(&mut g, k) };
                assert!(ok, "kind {}", k);
            }
        }
        // `alias=1`: a slot of the same kind as the slot below it IS the slot below it (one shared cell, what DUP leaves
        // behind); the kind-level model cannot tell, so nothing the implementation does may depend on it
        if m.get("alias").map(|s| s == "1").unwrap_or(false) {
            let ks: Vec<char> = m["stack"].chars().collect();
            for i in 1..ks.len() {
                if ks[i] == ks[i - 1] && ks[i] != 'M' {
                    let below = g.state.stack.inner[i - 1].clone();
                    g.state.stack.inner[i] = below;
                }
            }
        }
        if m["memo"] != "-" {
            for e in m["memo"].split(',') {
                let (i, k) = e.split_once(':').unwrap();
                assert!(pf::verif::memo_kind(&mut g, i.parse().unwrap(), k.chars().next().unwrap()));
            }
        }
        g
    };
    {
        let g0 = build();
        let valid = pf::verif::valid_opcodes(&g0);
        out.push(format!("VALID {}", if valid.is_empty() { "-".to_string() } else { valid.join(",") }));
        // the same state built again and again: every construction gives the hash containers inside the objects fresh
        // SipHash keys and the cells fresh addresses, so a decision that iterates one of them shows as a changing candidate set
        for _ in 0..m.get("rebuild").and_then(|s| s.parse::<usize>().ok()).unwrap_or(0) {
            let g1 = build();
            let v1 = pf::verif::valid_opcodes(&g1);
            if v1 != valid {
                out.push(format!("NONDET {} | {}", valid.join(","), v1.join(",")));
                break;
            }
        }
    }
    if m["ops"] != "-" {
        for op in m["ops"].split(',') {
            let mut g = build();
            let r = catch_unwind(AssertUnwindSafe(|| {
                let mut u = arbitrary::Unstructured::new(&data);
                let mut src = GenerationSource::Arbitrary(&mut u);
                let r = pf::verif::emit_one(&mut g, op, &mut src);
                (r, src_pos(&src))
            }));
            match r {
                Ok((Ok(bytes), left)) => out.push(format!("EMIT {} ok {} {} left={}", op, hex(&bytes), pf::verif::state(&g), left)),
                Ok((Err(e), _)) => out.push(format!("EMIT {} err {}", op, e.replace('\n', " ").replace(' ', "_"))),
                Err(e) => out.push(format!("EMIT {} panic {}", op, panic_msg(e).replace('\n', " ").replace(' ', "_"))),
            }
        }
    }
    {
        let mut g = build();
        let r = catch_unwind(AssertUnwindSafe(|| pf::verif::finish(&mut g)));
        match r {
            Ok(bytes) => out.push(format!("FINISH ok {} {}", hex(&bytes), pf::verif::state(&g))),
            Err(e) => out.push(format!("FINISH panic {}", panic_msg(e).replace('\n', " ").replace(' ', "_"))),
        }
    }
    out.push("END".into());
    out
}

// ---------------------------------------------------------------- steering with the original history (aliasing preserved)
/// `path=OP;OP;..` (the opcodes a traced run emitted before the disagreeing step) is applied through the hook `emit_one` -
/// same opcodes, hence the same aliasing between cells, arguments drawn from zeros -, then `final=OP` must be among the
/// candidates the implementation offers and is emitted, then the collapse tail and STOP: CASE / RESULT ok <whole output> / END
#[cfg(feature = "ext")]
fn steer_case(line: &str) -> Vec<String> {
    let m = kv(line);
    let mut out = vec![format!("CASE {}", line)];
    let mut g = mk_generator(&m);
    let empty: [u8; 0] = [];
    let r = catch_unwind(AssertUnwindSafe(|| {
        let mut u0 = arbitrary::Unstructured::new(&empty);
        let mut s0 = GenerationSource::Arbitrary(&mut u0);
        pf::verif::begin(&mut g, &mut s0);
        if m["path"] != "-" {
            for op in m["path"].split(';') {
                let mut u = arbitrary::Unstructured::new(&empty);
                let mut src = GenerationSource::Arbitrary(&mut u);
                pf::verif::emit_one(&mut g, op, &mut src).map_err(|e| format!("{}: {}", op, e))?;
            }
        }
        let norm = |n: &str| n.replace('_', "").to_lowercase();
        if !pf::verif::valid_opcodes(&g).iter().any(|o| norm(o) == norm(&m["final"])) {
            return Err("NOREPRO".to_string());
        }
        let mut u = arbitrary::Unstructured::new(&empty);
        let mut src = GenerationSource::Arbitrary(&mut u);
        pf::verif::emit_one(&mut g, &m["final"], &mut src)?;
        pf::verif::finish(&mut g);
        Ok(g.output.clone())
    }));
    match r {
        Ok(Ok(bytes)) => out.push(format!("RESULT ok {}", hex(&bytes))),
        Ok(Err(e)) => out.push(format!("RESULT norepro {}", e.replace(' ', "_"))),
        Err(e) => out.push(format!("RESULT panic {}", panic_msg(e).replace('\n', " "))),
    }
    out.push("END".into());
    out
}

// ---------------------------------------------------------------- S5: call histories on one generator
fn hist_case(line: &str) -> Vec<String> {
    let m = kv(line);
    let mut out = vec![format!("CASE {}", line)];
    let mut g = mk_generator(&m);
    let calls: Vec<&str> = m["hist"].split(';').collect();
    // `c:<field>=<value>`: the caller changes a public setting of the generator between two calls (fields are `pub`; the
    // builder methods take `self` by value and give the same object back)
    let set_field = |g: &mut Generator, kvs: &str| {
        let (k, v) = kvs.split_once('=').unwrap();
        match k {
            "unsafe" => g.unsafe_mutations = v == "1",
            "ext" => g.allow_ext_opcodes = v == "1",
            "buf" => g.allow_buffer_opcodes = v == "1",
            "min" => g.min_opcodes = v.parse().unwrap(),
            "max" => g.max_opcodes = v.parse().unwrap(),
            "rate" => g.mutation_rate = f64::from_bits(u64::from_str_radix(v, 16).unwrap()),
            _ => panic!("unknown field {}", k),
        }
    };
    let do_call = |g: &mut Generator, c: &str| -> Option<String> {
        if c == "r" {
            g.reset();
            None
        } else if let Some(kvs) = c.strip_prefix("c:") {
            set_field(g, kvs);
            None
        } else if let Some(s) = c.strip_prefix("s:") {
            Some(run_src(g, &format!("seed:{}", s)))
        } else {
            Some(run_src(g, &format!("bytes:{}", c.strip_prefix("b:").unwrap())))
        }
    };
    for (i, c) in calls.iter().enumerate() {
        match do_call(&mut g, c) {
            Some(r) => out.push(format!("H {} {}", i, r)),
            None => out.push(format!("H {} reset", i)),
        }
    }
    // the property's own comparison: a fresh generator (with the settings in force at the end) receiving only the last call
    let mut fresh = mk_generator(&m);
    for c in calls.iter().filter(|c| c.starts_with("c:")) {
        set_field(&mut fresh, c.strip_prefix("c:").unwrap());
    }
    if let Some(r) = do_call(&mut fresh, calls[calls.len() - 1]) {
        out.push(format!("FRESH {}", r));
    }
    out.push("END".into());
    out
}

/// results only (no trace recording): CASE / RESULT / END per case, on `threads` threads, in the given order
fn result_case(l: &str) -> Vec<String> {
    let m = kv(l);
    let mut g = mk_generator(&m);
    vec![format!("CASE {}", l), run_src(&mut g, &m["src"]), "END".to_string()]
}
fn cmd_results(path: &str, threads: usize) {
    print_all(run_pool(read_lines(path), threads, result_case));
}

/// every case in a process of its own (this binary re-executed with `one <case line>`): no earlier call, no other
/// generator, fresh hash seeds and address space - the reference against which process-wide state shows
fn cmd_isolated(path: &str, threads: usize) {
    let lines: Vec<String> = std::io::BufReader::new(std::fs::File::open(path).unwrap())
        .lines()
        .map(|l| l.unwrap())
        .filter(|l| !l.trim().is_empty() && !l.starts_with('#'))
        .collect();
    let exe = std::env::current_exe().unwrap();
    let chunk = lines.len().div_ceil(threads.max(1)).max(1);
    let results: Vec<Vec<String>> = std::thread::scope(|s| {
        let hs: Vec<_> = lines
            .chunks(chunk)
            .map(|c| {
                let exe = exe.clone();
                s.spawn(move || {
                    c.iter()
                        .map(|l| {
                            let out = std::process::Command::new(&exe).arg("one").arg(l).output();
                            match out {
                                Ok(o) if o.status.success() => String::from_utf8_lossy(&o.stdout).trim_end().to_string(),
                                Ok(o) => format!("CASE {}\nRESULT panic child exited with {:?}\nEND", l, o.status.code()),
                                Err(e) => format!("CASE {}\nRESULT panic spawn failed: {}\nEND", l, e),
                            }
                        })
                        .collect::<Vec<String>>()
                })
            })
            .collect();
        hs.into_iter().map(|h| h.join().unwrap()).collect()
    });
    let stdout = std::io::stdout();
    let mut w = std::io::BufWriter::new(stdout.lock());
    for r in results {
        for l in r {
            writeln!(w, "{}", l).unwrap();
        }
    }
}

fn cmd_one(line: &str) {
    let h = std::thread::Builder::new()
        .stack_size(256 << 20)
        .spawn({
            let line = line.to_string();
            move || {
                let m = kv(&line);
                let mut g = mk_generator(&m);
                println!("CASE {}\n{}\nEND", line, watched(&line, || run_src(&mut g, &m["src"])));
            }
        })
        .unwrap();
    h.join().unwrap();
}

/// nesting-depth witness NONE, TUPLE1 x n at the given protocol on a thread with `stack_kb` KiB of
/// stack (0 = the main thread); prints DEEP-OK when generation AND teardown survive. Run in a child process.
fn cmd_deep(v: usize, n: usize, stack_kb: usize) {
    let run = move || {
        let version = Version::try_from(v).unwrap();
        let mut data = vec![];
        if v >= 4 {
            data.push(0u8);
        }
        // choice bytes: index of NONE among the candidates of the empty stack, then TUPLE1's index
        let probe = |g: &mut Generator, d: &[u8]| g.generate_from_arbitrary(d).unwrap();
        let mut g = Generator::new(version).with_opcode_range(n + 1, n + 1);
        // find the byte that selects NONE first and TUPLE1 afterwards by trial on short runs
        let mut none_b = 0u8;
        let mut t1_b = 0u8;
        for b in 0..=255u8 {
            let mut g1 = Generator::new(version).with_opcode_range(1, 1);
            let mut d = data.clone();
            d.push(b);
            let out = probe(&mut g1, &d);
            let body = if v >= 2 { &out[2..] } else { &out[..] };
            if body.first() == Some(&0x4e) && body.len() == 2 {
                none_b = b;
                break;
            }
        }
        for b in 0..=255u8 {
            let mut g1 = Generator::new(version).with_opcode_range(2, 2);
            let mut d = data.clone();
            d.push(none_b);
            d.push(b);
            let out = probe(&mut g1, &d);
            let body = if v >= 2 { &out[2..] } else { &out[..] };
            if body.len() == 3 && body[1] == 0x85 {
                t1_b = b;
                break;
            }
        }
        data.push(none_b);
        data.extend(std::iter::repeat(t1_b).take(n));
        let out = g.generate_from_arbitrary(&data).unwrap();
        let t1 = out.iter().filter(|&&b| b == 0x85).count();
        drop(g);
        println!("DEEP-OK v={} n={} tuple1={} len={}", v, n, t1, out.len());
    };
    if stack_kb == 0 {
        run();
    } else {
        std::thread::Builder::new().stack_size(stack_kb << 10).spawn(run).unwrap().join().unwrap();
    }
}

/// C09, native stack: run the cases of a file (directed paths that nest objects deeply at chosen positions) on a thread
/// with a stack of `stack_kb` KiB (0 = the main thread): generation AND teardown of the generator
fn cmd_deepcase(path: &str, stack_kb: usize) {
    let lines: Vec<String> = std::io::BufReader::new(std::fs::File::open(path).unwrap())
        .lines()
        .map(|l| l.unwrap())
        .filter(|l| !l.trim().is_empty() && !l.starts_with('#'))
        .collect();
    let run = move || {
        for l in &lines {
            let m = kv(l);
            let r = watched(l, || {
                let mut g = mk_generator(&m);
                let r = run_src(&mut g, &m["src"]);
                drop(g);
                r
            });
            let short: String = r.chars().take(60).collect();
            println!("DEEP-OK {} {}", m["id"], short);
        }
    };
    if stack_kb == 0 {
        run();
    } else {
        std::thread::Builder::new().stack_size(stack_kb << 10).spawn(run).unwrap().join().unwrap();
    }
}

/// C09, native stack, independent of anybody's guards: the opcode path is applied to the implementation directly (hook
/// `emit_one`, so no candidate list decides what comes next), and the guards (`valid_opcodes` = can_emit for every opcode,
/// as the generation loop evaluates it before every step) are evaluated on the way and on the final state; then the
/// collapse tail, STOP and the teardown - all on a thread with `stack_kb` KiB of stack.
#[cfg(feature = "ext")]
fn cmd_deeppath(v: usize, stack_kb: usize, path: &str) {
    let path = path.to_string();
    let run = move || {
        // OP;OP*n;(OP;OP)*n  - `*n` repeats an opcode or a parenthesised group
        let mut ops: Vec<String> = Vec::new();
        let mut rest = path.as_str();
        while !rest.is_empty() {
            let (item, tail) = if rest.starts_with('(') {
                let close = rest.find(')').expect("unbalanced group");
                let after = &rest[close + 1..];
                let end = after.find(';').unwrap_or(after.len());
                (&rest[..close + 1 + end], after[end..].trim_start_matches(';'))
            } else {
                let end = rest.find(';').unwrap_or(rest.len());
                (&rest[..end], rest[end..].trim_start_matches(';'))
            };
            let (body, count) = match item.rsplit_once('*') {
                Some((b, n)) => (b, n.parse::<usize>().unwrap()),
                None => (item, 1),
            };
            let group: Vec<&str> = body.trim_start_matches('(').trim_end_matches(')').split(';').collect();
            for _ in 0..count {
                for o in &group {
                    ops.push(o.to_string());
                }
            }
            rest = tail;
        }
        let version = Version::try_from(v).unwrap();
        let mut g = Generator::new(version).with_ext_opcodes(true).with_buffer_opcodes(v >= 5);
        let empty: [u8; 0] = [];
        let mut u0 = arbitrary::Unstructured::new(&empty);
        let mut s0 = GenerationSource::Arbitrary(&mut u0);
        pf::verif::begin(&mut g, &mut s0);
        let n = ops.len();
        let mut guards = 0usize;
        for (i, op) in ops.iter().enumerate() {
            if i % 2000 == 0 || i + 4 >= n {
                guards += pf::verif::valid_opcodes(&g).len();
            }
            let mut u = arbitrary::Unstructured::new(&empty);
            let mut src = GenerationSource::Arbitrary(&mut u);
            pf::verif::emit_one(&mut g, op, &mut src).unwrap();
        }
        guards += pf::verif::valid_opcodes(&g).len();
        let tail = pf::verif::finish(&mut g);
        let st = pf::verif::state(&g);
        drop(g);
        println!("DEEP-OK v={} steps={} guards={} tail={} state={}", v, n, guards, tail.len(), st);
    };
    let r = if stack_kb == 0 {
        run();
        Ok(())
    } else {
        std::thread::Builder::new().stack_size(stack_kb << 10).spawn(run).unwrap().join()
    };
    if r.is_err() {
        std::process::exit(4);
    }
}

/// C12: for each protocol, which opcode bytes occur (as opcodes, taken from the per-step trace, never from
/// payload bytes) in the outputs of seeds 0..n with default settings; first seed per opcode; framed / unframed seeds
fn cmd_census(nseeds: u64, ext: bool, buf: bool) {
    let per_v: Vec<String> = std::thread::scope(|s| {
        let hs: Vec<_> = (0..6usize)
            .map(|v| {
                std::thread::Builder::new()
                    .stack_size(256 << 20)
                    .spawn_scoped(s, move || {
                        let mut first: [Option<u64>; 256] = [None; 256];
                        let mut count = [0u64; 256];
                        let (mut framed, mut unframed): (Option<u64>, Option<u64>) = (None, None);
                        for seed in 0..nseeds {
                            let mut g = Generator::new(Version::try_from(v).unwrap())
                                .with_seed(seed)
                                .with_ext_opcodes(ext)
                                .with_buffer_opcodes(buf);
                            pf::verif::start();
                            let out = g.generate().unwrap();
                            let tr = pf::verif::take();
                            let mut seen = [false; 256];
                            for l in &tr {
                                let w: Vec<&str> = l.split(' ').collect();
                                if w[0] == "STEP" && w[5] != "-" && w[5] != "!" {
                                    seen[usize::from_str_radix(&w[5][0..2], 16).unwrap()] = true;
                                } else if w[0] == "META" {
                                    if w[1] == "frame=1" {
                                        seen[0x95] = true;
                                        framed.get_or_insert(seed);
                                    } else {
                                        unframed.get_or_insert(seed);
                                    }
                                }
                            }
                            if v >= 2 && out.first() == Some(&0x80) {
                                seen[0x80] = true;
                            }
                            for b in 0..256 {
                                if seen[b] {
                                    first[b].get_or_insert(seed);
                                    count[b] += 1;
                                }
                            }
                        }
                        let ops: Vec<String> = (0..256)
                            .filter(|&b| first[b].is_some())
                            .map(|b| format!("{:02x}:{}:{}", b, first[b].unwrap(), count[b]))
                            .collect();
                        format!(
                            "CENSUS v={} seeds={} framed={} unframed={} ops={}",
                            v,
                            nseeds,
                            framed.map(|x| x.to_string()).unwrap_or("-".into()),
                            unframed.map(|x| x.to_string()).unwrap_or("-".into()),
                            ops.join(",")
                        )
                    })
                    .unwrap()
            })
            .collect();
        hs.into_iter().map(|h| h.join().unwrap()).collect()
    });
    for l in per_v {
        println!("{}", l);
    }
}

/// S7: one traced run (with Rc identities) for the model, then the same call again, measured: live heap bytes before
/// constructing the generator and after dropping it and its output (single-threaded; warmed up by the first run)
fn leak_case(line: &str) -> Vec<String> {
    let m = kv(line);
    {
        // warm-up of everything lazily initialised, with OTHER inputs than the measured call (a cache keyed by the values
        // seen would otherwise look warm): one rich generation touching every opcode family, then this case's
        // configuration on different entropy inputs
        let mut rich = Generator::new(Version::V5)
            .with_opcode_range(3000, 3001)
            .with_ext_opcodes(true)
            .with_buffer_opcodes(true)
            .with_seed(12345);
        let _ = rich.generate();
        let mut g = mk_generator(&m);
        let _ = run_src(&mut g, "seed:987654321");
        let _ = run_src(&mut g, "bytes:0102030405060708090a0b0c0d0e0f");
    }
    // the measured call comes BEFORE the traced run of the same input
    let measure = |src: &str| -> isize {
        MEASURING.with(|f| f.set(true));
        let before = live();
        {
            let mut g = mk_generator(&m);
            let r = run_src(&mut g, src);
            drop(r);
            g.reset();
            drop(g);
        }
        let d = live() - before;
        MEASURING.with(|f| f.set(false));
        d
    };
    let d1 = measure(&m["src"]);
    // bytes that stay allocated once only (a lazily initialised table on a rarely taken path) are not a leak: a leak
    // either repeats for the same input (reference cycles) or repeats for fresh inputs (a cache keyed by the values seen)
    let (leaked, note) = if d1 == 0 {
        (0, "none")
    } else {
        let d2 = measure(&m["src"]);
        if d2 != 0 {
            (d2, "repeats-for-the-same-input")
        } else {
            let y1 = measure("seed:192837465");
            let y2 = measure("seed:564738291");
            if y1 != 0 && y2 != 0 {
                (d1, "repeats-for-fresh-inputs")
            } else {
                (0, "one-time-initialisation")
            }
        }
    };
    let (before, after) = (0isize, leaked);
    let mut out = trace_case(&format!("{} alias=1", line));
    out.pop(); // END
    out.push(format!("LIVE {} {}", before, after));
    out.push(format!("LEAKNOTE {} first={}", note, d1));
    out.push("END".into());
    out
}

fn cmd_lines(path: &str, f: fn(&str) -> Vec<String>) {
    // one worker: these modes are sequential by nature (the counting allocator of `leak` is process-wide)
    print_all(run_pool(read_lines(path), 1, f));
}

/// first n 32-bit words of ChaCha8Rng::seed_from_u64(seed)
fn cmd_words(seed: u64, n: usize) {
    use rand::RngCore;
    let mut rng = ChaCha8Rng::seed_from_u64(seed);
    let w: Vec<String> = (0..n).map(|_| format!("{:08x}", rng.next_u32())).collect();
    println!("WORDS {} {}", seed, w.join(" "));
}

fn main() {
    std::panic::set_hook(Box::new(|_| {}));
    let a: Vec<String> = std::env::args().collect();
    match a.get(1).map(|s| s.as_str()) {
        Some("trace") => cmd_trace(&a[2], a.get(3).map(|s| s.parse().unwrap()).unwrap_or(16)),
        Some("results") => cmd_results(&a[2], a.get(3).map(|s| s.parse().unwrap()).unwrap_or(16)),
        Some("isolated") => cmd_isolated(&a[2], a.get(3).map(|s| s.parse().unwrap()).unwrap_or(16)),
        Some("one") => cmd_one(&a[2]),
        Some("deep") => {
            let _ = std::panic::take_hook();
            cmd_deep(a[2].parse().unwrap(), a[3].parse().unwrap(), a[4].parse().unwrap())
        }
        #[cfg(feature = "ext")]
        Some("deeppath") => {
            let _ = std::panic::take_hook();
            cmd_deeppath(a[2].parse().unwrap(), a[3].parse().unwrap(), &a[4])
        }
        Some("deepcase") => {
            let _ = std::panic::take_hook();
            cmd_deepcase(&a[2], a[3].parse().unwrap())
        }
        Some("census") => cmd_census(a[2].parse().unwrap(), a[3] == "1", a[4] == "1"),
        Some("leak") => {
            COUNTING.store(true, std::sync::atomic::Ordering::Relaxed);
            cmd_lines(&a[2], leak_case)
        }
        Some("adapt") => cmd_lines(&a[2], adapt_case),
        Some("hist") => cmd_lines(&a[2], hist_case),
        #[cfg(feature = "ext")]
        Some("s8") => cmd_lines(&a[2], s8_case),
        #[cfg(feature = "ext")]
        Some("steer") => cmd_lines(&a[2], steer_case),
        // which hooks this binary was built with
        Some("hooks") => println!("{}", if cfg!(feature = "ext") { "ext" } else { "core" }),
        Some("words") => cmd_words(a[2].parse().unwrap(), a[3].parse().unwrap()),
        _ => {
            eprintln!("usage: pf-harness trace <cases> [threads] | adapt <cases> | hist <cases> | words <seed> <n>");
            std::process::exit(2);
        }
    }
}
