(* The translator tie for the numeric mutators: every `mutate_int / mutate_long / mutate_float /
   mutate_memo_index` of bitflip.rs, boundary.rs, offbyone.rs and memoindex.rs, regenerated from the
   current source (gen/SrcMutFns.v), equals the hand-written model (Mutators.v) that the theorems of
   C15 / C16 are about - for every value, every entropy source and every rate. *)
From Coq Require Import List NArith ZArith Bool Lia.
Import ListNotations.
From PF Require Import Opcodes Config Lex Entropy Mutators SrcPrims.
From PF.gen Require SrcMutFns.
From PF.proofs Require Import MutatorsP.
Local Open Scope N_scope.
Import SrcMutFns.

Lemma shl_one_bit : forall w p, 0 < w -> p < w ->
  to_unsigned w (to_signed w (N.land (N.shiftl (to_unsigned w 1%Z) p) (2 ^ w - 1))) = 2 ^ p.
Proof.
  intros w p Hw Hp.
  assert (E1 : to_unsigned w 1%Z = 1).
  { unfold to_unsigned. rewrite Z.mod_small; [reflexivity|]. split; [lia|].
    change 1%Z with (Z.of_N 1). apply N2Z.inj_lt. apply N.pow_gt_1; lia. }
  rewrite E1, N.shiftl_1_l.
  assert (E2 : N.land (2 ^ p) (2 ^ w - 1) = 2 ^ p).
  { replace (2 ^ w - 1) with (N.ones w) by (rewrite N.ones_equiv; lia). rewrite N.land_ones. apply N.mod_small.
    apply N.pow_lt_mono_r; lia. }
  rewrite E2. apply unsigned_signed; [exact Hw | apply N.pow_lt_mono_r; lia].
Qed.

Lemma sat_add_one : forall v, v < M64 -> u_saturating_add v 1 = sat_add1 v.
Proof.
  intros v Hv. unfold u_saturating_add, sat_add1, usize_max, M64 in *.
  destruct (N.eqb_spec v (2 ^ 64 - 1)) as [->|Hne]; [reflexivity|].
  destruct (N.ltb_spec (2 ^ 64 - 1) (v + 1)) as [H|H]; [lia | reflexivity].
Qed.

Lemma sat_sub_one : forall v, u_saturating_sub v 1 = sat_sub1 v.
Proof. reflexivity. Qed.

Ltac gate := match goal with |- context [should_mutate ?r ?s] => destruct (should_mutate r s) as [[|] ?s1] end; cbn [negb].

(* ---------- bitflip.rs ---------- *)
Lemma src_bitflip_int : forall u v s rate, Src.bitflip_mutate_int u v s rate = mutate_int_one MBitflip v rate s.
Proof.
  intros u v s rate. unfold Src.bitflip_mutate_int, mutate_int_one, mut_int. gate; [|reflexivity].
  destruct (gen_range 0 32 s1) as [[p s2]|w]; [|reflexivity]. cbn [bind]. unfold i_shl.
  destruct (N.leb_spec 32 p) as [H|H]; [reflexivity|]. cbn [bind]. unfold i_xor, flip.
  rewrite shl_one_bit by lia. reflexivity.
Qed.

Lemma src_bitflip_long : forall u v s rate, Src.bitflip_mutate_long u v s rate = mutate_long_one MBitflip v rate s.
Proof.
  intros u v s rate. unfold Src.bitflip_mutate_long, mutate_long_one, mut_int. gate; [|reflexivity].
  destruct (gen_range 0 64 s1) as [[p s2]|w]; [|reflexivity]. cbn [bind]. unfold i_shl.
  destruct (N.leb_spec 64 p) as [H|H]; [reflexivity|]. cbn [bind]. unfold i_xor, flip.
  rewrite shl_one_bit by lia. reflexivity.
Qed.

(* ---------- boundary.rs ---------- *)
Lemma src_boundary_int : forall u v s rate, Src.boundary_mutate_int u v s rate = mutate_int_one MBoundary v rate s.
Proof. intros u v s rate. unfold Src.boundary_mutate_int, mutate_int_one, mut_int. gate; reflexivity. Qed.

Lemma src_boundary_long : forall u v s rate, Src.boundary_mutate_long u v s rate = mutate_long_one MBoundary v rate s.
Proof. intros u v s rate. unfold Src.boundary_mutate_long, mutate_long_one, mut_int. gate; reflexivity. Qed.

Lemma src_boundary_float : forall u v s rate, Src.boundary_mutate_float u v s rate = mutate_float_one MBoundary v rate s.
Proof. intros u v s rate. unfold Src.boundary_mutate_float, mutate_float_one. gate; reflexivity. Qed.

(* ---------- offbyone.rs ---------- *)
Lemma src_offbyone_int : forall u v s rate, Src.offbyone_mutate_int u v s rate = mutate_int_one MOffByOne v rate s.
Proof.
  intros u v s rate. unfold Src.offbyone_mutate_int, mutate_int_one, mut_int. gate; [|reflexivity].
  destruct (gen_bool s1) as [[|] s2]; reflexivity.
Qed.

Lemma src_offbyone_long : forall u v s rate, Src.offbyone_mutate_long u v s rate = mutate_long_one MOffByOne v rate s.
Proof.
  intros u v s rate. unfold Src.offbyone_mutate_long, mutate_long_one, mut_int. gate; [|reflexivity].
  destruct (gen_bool s1) as [[|] s2]; reflexivity.
Qed.

Lemma src_offbyone_memo : forall u v s rate, v < M64 ->
  Src.offbyone_mutate_memo_index u v s rate = mutate_memo_one MOffByOne v rate s.
Proof.
  intros u v s rate Hv. unfold Src.offbyone_mutate_memo_index, mutate_memo_one. gate; [|reflexivity].
  destruct (gen_bool s1) as [[|] s2]; [rewrite sat_add_one by exact Hv; reflexivity | reflexivity].
Qed.

(* ---------- memoindex.rs ---------- *)
Lemma src_memoindex_int : forall u v s rate, Src.memoindex_mutate_int u v s rate = mutate_int_one (MMemoIndex u) v rate s.
Proof. reflexivity. Qed.
Lemma src_memoindex_long : forall u v s rate, Src.memoindex_mutate_long u v s rate = mutate_long_one (MMemoIndex u) v rate s.
Proof. reflexivity. Qed.

Lemma src_memoindex_memo : forall u v s rate, v < M64 ->
  Src.memoindex_mutate_memo_index u v s rate = mutate_memo_one (MMemoIndex u) v rate s.
Proof.
  intros u v s rate Hv. unfold Src.memoindex_mutate_memo_index, mutate_memo_one. gate; [|reflexivity].
  destruct u; [reflexivity|].
  destruct (gen_range 0 3 s1) as [[k s2]|w]; [|reflexivity]. cbn [bind].
  destruct (N.eqb k 0); [rewrite sat_add_one by exact Hv; reflexivity|]. destruct (N.eqb k 1); reflexivity.
Qed.

(* mutators that do not implement a method fall back to the trait's default: never Some, no draw *)
Lemma src_offbyone_float_default : forall v s rate, mutate_float_one MOffByOne v rate s = Ok (None, s).
Proof. reflexivity. Qed.
