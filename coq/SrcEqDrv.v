(* The driver decisions regenerated from core.rs / stack_ops.rs (gen/SrcDrv.v) are the ones the hand-written model
   makes: the FRAME decision and the target draw of Gen.generate_internal, and Sim.cleanup_for_stop rebuilt from the
   source's loop guards and if-chain. *)
From Coq Require Import List Arith NArith Bool Lia.
Import ListNotations.
From PF Require Import Opcodes Config Lex RefTable Entropy Sim Gen SrcPrims SrcDrvPrims.
From PF.gen Require Import SrcDrv.
Local Open Scope N_scope.

(* derive(PartialOrd) compares by declaration order; the source declares the variants in the order of their numbers, so
   the comparisons of SrcDrvPrims.v (on vnum) are the source's *)
Lemma src_version_order_ok : map vnum src_version_order = [0; 1; 2; 3; 4; 5].
Proof. reflexivity. Qed.

Lemma version_ge_V4 v : version_ge v V4 = v_ge4 v.
Proof. destruct v; reflexivity. Qed.

Lemma version_in_lt2 v : version_in v [V0; V1] = v_lt2 v.
Proof. destruct v; reflexivity. Qed.

(* `let use_frame = self.state.version >= Version::V4 && source.gen_bool();` *)
Lemma src_use_frame_eq v s :
  src_use_frame v s = Ok (if v_ge4 v then gen_bool s else (false, s)).
Proof.
  unfold src_use_frame, m_and, mbind, ret, m_gen_bool. rewrite version_ge_V4.
  destruct (v_ge4 v); reflexivity.
Qed.

(* the model's target draw, as it stands inside Gen.generate_internal *)
Definition model_target (c : config) (s0 : source) : res (N * source) :=
  let range := c_max c - c_min c in
  if 0 <? range
  then do (i, s') <- choose_index range s0;
       if M64 <=? c_min c + i then Panic P_overflow else Ok (c_min c + i, s')
  else Ok (c_min c, s0).

Lemma src_target_eq c s : src_target (c_min c) (c_max c) s = model_target c s.
Proof.
  unfold src_target, model_target, u_saturating_sub, mbind, ret, m_choose_index, m_add, bind.
  destruct (0 <? c_max c - c_min c); [|reflexivity].
  destruct (choose_index (c_max c - c_min c) s) as [[i s']|p]; reflexivity.
Qed.

(* nine bytes are reserved, and the same nine are left out of the frame's length *)
Lemma src_frame_bytes : src_frame_reserve = 9 /\ src_frame_skip = src_frame_reserve
                        /\ src_frame_reserve = N.of_nat (length (ref_code FRAME :: le_bytes 8 0)).
Proof. repeat split. Qed.

(* ---- cleanup_for_stop rebuilt from the source's pieces ---- *)
Fixpoint src_close_marks (fuel : nat) (v : version) (s : sim) : list opcode * sim :=
  match fuel with
  | O => ([], s)
  | S f => if has_mark s then
             let (ops, s') := src_close_marks f v (step0 v s src_close_marks_op) in (src_close_marks_op :: ops, s')
           else ([], s)
  end.

Fixpoint src_collapse (fuel : nat) (v : version) (s : sim) : list opcode * sim :=
  match fuel with
  | O => ([], s)
  | S f =>
      if src_collapse_guard (N.of_nat (stack_len s)) then
        match src_collapse_choice v (N.of_nat (stack_len s)) with
        | Some o => let (ops, s') := src_collapse f v (step0 v s o) in (o :: ops, s')
        | None => ([], s)                       (* `break` *)
        end
      else ([], s)
  end.

Definition src_cleanup (v : version) (s : sim) : list opcode * sim :=
  let (ops1, s1) := src_close_marks (S (stack_len s)) v s in
  let (ops2, s2) := src_collapse (S (stack_len s1)) v s1 in
  let (ops3, s3) := if src_empty_guard (N.of_nat (stack_len s2))
                    then match src_empty_op with
                         | Some o => ([o], step0 v s2 o)
                         | None => ([], s2)
                         end
                    else ([], s2) in
  let (ops4, s4) := match stk s3 with
                    | KMark :: r => match r with
                                    | [] => ([NONE], step0 v (with_stk s3 []) NONE)
                                    | _ => ([], with_stk s3 r)
                                    end
                    | _ => ([], s3)
                    end in
  (ops1 ++ ops2 ++ ops3 ++ ops4, s4).

Lemma src_close_marks_eq fuel v s : src_close_marks fuel v s = close_marks fuel v s.
Proof.
  revert s; induction fuel as [|f IH]; intros s; cbn [src_close_marks close_marks]; [reflexivity|].
  destruct (has_mark s); [|reflexivity]. change src_close_marks_op with TUPLE. rewrite IH. reflexivity.
Qed.

Lemma src_collapse_step v n :
  src_collapse_guard (N.of_nat n) = Nat.ltb 1 n
  /\ (Nat.ltb 1 n = true ->
      src_collapse_choice v (N.of_nat n) = Some (if v_lt2 v then POP else if Nat.leb 3 n then TUPLE3 else TUPLE2)).
Proof.
  unfold src_collapse_guard, src_collapse_choice. rewrite version_in_lt2. split.
  - destruct (Nat.ltb_spec 1 n); destruct (N.ltb_spec 1 (N.of_nat n)); try reflexivity; lia.
  - intros H. apply Nat.ltb_lt in H. destruct (v_lt2 v); [reflexivity|].
    destruct (Nat.leb_spec 3 n); destruct (N.leb_spec 3 (N.of_nat n)); try lia; [reflexivity|].
    assert (E : n = 2%nat) by lia. subst n. reflexivity.
Qed.

Lemma src_collapse_eq fuel v s : src_collapse fuel v s = collapse fuel v s.
Proof.
  revert s; induction fuel as [|f IH]; intros s; cbn [src_collapse collapse]; [reflexivity|].
  destruct (src_collapse_step v (stack_len s)) as [Hg Hc]. rewrite Hg.
  destruct (Nat.ltb 1 (stack_len s)) eqn:E; [|reflexivity].
  rewrite (Hc eq_refl), IH. reflexivity.
Qed.

Lemma src_empty_eq n : src_empty_guard (N.of_nat n) = match n with O => true | S _ => false end.
Proof. unfold src_empty_guard. destruct n; [reflexivity|]. apply N.eqb_neq. lia. Qed.

Theorem src_cleanup_eq v s : src_cleanup v s = cleanup_for_stop v s.
Proof.
  unfold src_cleanup, cleanup_for_stop. rewrite src_close_marks_eq.
  destruct (close_marks (S (stack_len s)) v s) as [ops1 s1]. rewrite src_collapse_eq.
  destruct (collapse (S (stack_len s1)) v s1) as [ops2 s2]. rewrite src_empty_eq.
  unfold stack_len. change src_empty_op with (Some NONE).
  destruct (stk s2) as [|k r]; reflexivity.
Qed.

(* generate_internal takes exactly these decisions *)
Lemma generate_uses_model_target e ho c src :
  generate_internal e ho c src =
  (let v := c_version c in
   let (framed, s0) := if v_ge4 v then gen_bool src else (false, src) in
   let sim0 := {| stk := []; memo := []; proto_emitted := negb (v_lt2 v) |} in
   do (target, s1) <- model_target c s0;
   do l <- N.iter target (loop_body e ho c)
             (Ok {| l_sim := sim0; l_src := s1; l_out := []; l_trace := []; l_stopped := false |});
   let (tail, sim1) := cleanup_for_stop v (l_sim l) in
   let sim2 := step0 v sim1 STOP in
   let rest := concat (rev (l_out l)) ++ map ref_code tail ++ [ref_code STOP] in
   let hdr := (if v_lt2 v then [] else [ref_code PROTO; vnum v])
              ++ (if framed then ref_code FRAME :: le_bytes 8 (N.of_nat (length rest)) else []) in
   Ok {| g_out := hdr ++ rest; g_framed := framed; g_target := target; g_trace := rev (l_trace l);
         g_tail := tail; g_sim := sim2; g_src := l_src l |}).
Proof. reflexivity. Qed.

(* ---- the generation loop's choice: get_valid_opcodes and weighted_choice ---- *)
Lemma src_get_valid_eq c s : src_get_valid (can_emit c s) (row (c_version c)) = get_valid_opcodes c s.
Proof. reflexivity. Qed.

Lemma src_choice_eq valid s : valid <> [] ->
  src_weighted_choice valid s =
  (do (i, s1) <- choose_index (N.of_nat (length valid)) s; do o <- nth_res valid i; Ok (o, s1)).
Proof.
  intros Hne. destruct valid as [|o0 rest]; [contradiction|].
  unfold src_weighted_choice, mbind, m_choose_index, m_index, bind.
  destruct (choose_index (N.of_nat (length (o0 :: rest))) s) as [[i s1]|p]; [|reflexivity].
  destruct (nth_res (o0 :: rest) i); reflexivity.
Qed.

(* the fallback of weighted_choice on an empty list is never used: the loop leaves first *)
Lemma src_choice_empty s : src_weighted_choice [] s = Ok (NONE, s).
Proof. reflexivity. Qed.

(* one iteration of `for _ in 0..target_opcodes`, written with the source's pieces *)
Lemma loop_body_src e ho c l : l_stopped l = false ->
  loop_body e ho c (Ok l) =
  (let valid := src_get_valid (can_emit c (l_sim l)) (row (c_version c)) in
   match valid with
   | [] => Ok {| l_sim := l_sim l; l_src := l_src l; l_out := l_out l; l_trace := l_trace l; l_stopped := true |}
   | _ => do (o, s1) <- src_weighted_choice valid (l_src l);
          do (r, s2) <- emit_and_process e ho c (l_sim l) o s1;
          let (em, sim') := r in
          Ok {| l_sim := sim'; l_src := s2; l_out := e_final em :: l_out l;
                l_trace := (valid, o, em) :: l_trace l; l_stopped := false |}
   end).
Proof.
  intros Hs. unfold loop_body. cbn [bind]. rewrite Hs. rewrite src_get_valid_eq. cbv zeta.
  destruct (get_valid_opcodes c (l_sim l)) as [|o0 rest] eqn:Ev; [reflexivity|].
  rewrite (src_choice_eq (o0 :: rest) (l_src l)) by discriminate.
  destruct (choose_index (N.of_nat (length (o0 :: rest))) (l_src l)) as [[i s1]|p]; [|reflexivity]. cbn [bind].
  destruct (nth_res (o0 :: rest) i) as [o|p]; reflexivity.
Qed.
