(* The translator tie, part 3a: ASCII_CHARS of src/generator/source.rs (gen/SrcAscii.v, gen/SrcFront.v, gen/SrcMut.v) is the model's table. *)
From Coq Require Import List NArith ZArith Bool Arith Lia.
Import ListNotations.
From PF Require Import Opcodes RefTable Config Sim.
From PF Require Import Lex Entropy Mutators Front.
From PF.gen Require SrcAscii.

Lemma src_ascii_chars_eq : SrcAscii.Src.ascii_chars = ascii_chars.
Proof. reflexivity. Qed.
