(* The translator tie, part 2: can_emit regenerated from /repo's current src/generator/validation.rs
   (gen/SrcCanEmit.v) equals the hand-written model the theorems are about. *)
From Coq Require Import List NArith ZArith Bool Arith Lia.
Import ListNotations.
From PF Require Import Opcodes RefTable Config Sim.
From PF.gen Require SrcCanEmit.

Lemma even_mod2 : forall n, Nat.eqb (Nat.modulo n 2) 0 = Nat.even n.
Proof.
  intro n. destruct (Nat.even n) eqn:E.
  - apply Nat.even_spec in E. destruct E as [k Hk]. apply Nat.eqb_eq. subst n.
    rewrite Nat.mul_comm. apply Nat.mod_mul. lia.
  - apply Nat.eqb_neq. intro H. assert (E' : Nat.even n = true); [|congruence].
    apply Nat.even_spec. exists (n / 2). pose proof (Nat.div_mod n 2). lia.
Qed.

Local Arguments Nat.modulo : simpl never.
Local Arguments Nat.even : simpl never.
Local Arguments N.ltb : simpl never.
Local Arguments N.eqb : simpl never.
Local Arguments N.of_nat : simpl never.

(* Boolean normalisation that does not depend on how the Rust expression is written:
   case-split every atomic condition (innermost first), then close by arithmetic. *)
Ltac find_atom b k :=
  lazymatch b with
  | andb ?x ?y => first [find_atom x k | find_atom y k]
  | orb ?x ?y => first [find_atom x k | find_atom y k]
  | negb ?x => find_atom x k
  | true => fail
  | false => fail
  | (if ?x then ?y else ?z) => first [find_atom x k | find_atom y k | find_atom z k]
  | (match ?x with _ => _ end) => k x
  | _ => k b
  end.

Ltac split_conds :=
  repeat (simpl; rewrite ?even_mod2;
    match goal with
    | |- ?x = ?x => reflexivity
    | |- ?l = ?r => first [ find_atom l ltac:(fun a => destruct a eqn:?)
                          | find_atom r ltac:(fun a => destruct a eqn:?) ]
    end).

Ltac arith_close :=
  try reflexivity; try discriminate;
  exfalso;
  repeat match goal with
  | H : Nat.leb _ _ = true |- _ => apply Nat.leb_le in H
  | H : Nat.leb _ _ = false |- _ => apply Nat.leb_gt in H
  | H : Nat.ltb _ _ = true |- _ => apply Nat.ltb_lt in H
  | H : Nat.ltb _ _ = false |- _ => apply Nat.ltb_ge in H
  | H : Nat.eqb _ _ = true |- _ => apply Nat.eqb_eq in H
  | H : Nat.eqb _ _ = false |- _ => apply Nat.eqb_neq in H
  | H : N.ltb _ _ = true |- _ => apply N.ltb_lt in H
  | H : N.ltb _ _ = false |- _ => apply N.ltb_ge in H
  | H : N.eqb _ _ = true |- _ => apply N.eqb_eq in H
  | H : N.eqb _ _ = false |- _ => apply N.eqb_neq in H
  | H : N.leb _ _ = true |- _ => apply N.leb_le in H
  | H : N.leb _ _ = false |- _ => apply N.leb_gt in H
  end; try lia; try congruence.

Ltac unfold_model :=
  unfold SrcCanEmit.Src.can_emit, can_emit, count_pos, count_pos_even, top_not_mark,
         is_list_at, is_dict_at, is_tuple_at, is_string_at, is_instance_at, is_callable_at,
         is_kind_at, peek_at, stack_len, memo_len, count_items_to_mark.

Lemma src_can_emit_eq : forall c s o, SrcCanEmit.Src.can_emit c s o = can_emit c s o.
Proof.
  intros c [st m pe] o.
  destruct o; unfold_model; cbn [stk memo proto_emitted];
    first
    [ reflexivity
    | (* conditions on the MARK structure / memo size / flags: keep the stack abstract *)
      (destruct (count_to_mark st) as [n|]; split_conds; arith_close; fail)
    | (* conditions on fixed depths: make the top three slots concrete *)
      (destruct st as [|k0 [|k1 [|k2 st']]]; cbn [length nth_error];
       split_conds; arith_close) ].
Qed.
