(* Kind-level model of the generator's simulated pickle machine:
   src/generator/utils.rs (queries), validation.rs (can_emit, hand version; the translator
   regenerates the same function from the source and SrcEquiv.v proves them equal),
   stack_ops.rs (process_stack_ops on variants, cleanup_for_stop). Definitions only. *)
From Coq Require Import List NArith ZArith Bool.
Import ListNotations.
From PF Require Import Opcodes Config.

(* stack: head = top of stack.  memo: association list in insertion order, keys distinct. *)
Record sim : Set := {
  stk : list kind;
  memo : list (N * kind);
  proto_emitted : bool
}.

Definition sim_init : sim := {| stk := []; memo := []; proto_emitted := false |}.

Definition with_stk (s : sim) (st : list kind) : sim :=
  {| stk := st; memo := memo s; proto_emitted := proto_emitted s |}.
Definition with_memo (s : sim) (m : list (N * kind)) : sim :=
  {| stk := stk s; memo := m; proto_emitted := proto_emitted s |}.
Definition push (s : sim) (k : kind) : sim := with_stk s (k :: stk s).

Fixpoint memo_get {A : Set} (i : N) (m : list (N * A)) : option A :=
  match m with
  | [] => None
  | (j, k) :: r => if N.eqb i j then Some k else memo_get i r
  end.

(* HashMap::insert: replace if present, else add *)
Fixpoint memo_put {A : Set} (i : N) (k : A) (m : list (N * A)) : list (N * A) :=
  match m with
  | [] => [(i, k)]
  | (j, k0) :: r => if N.eqb i j then (j, k) :: r else (j, k0) :: memo_put i k r
  end.

Definition memo_len (s : sim) : N := N.of_nat (length (memo s)).
Definition memo_has (s : sim) (i : N) : bool :=
  match memo_get i (memo s) with Some _ => true | None => false end.

(* ---- utils.rs ---- *)
Definition stack_len (s : sim) : nat := length (stk s).
Definition peek_at (s : sim) (depth : nat) : option kind := nth_error (stk s) depth.
Definition has_mark (s : sim) : bool := existsb is_mark (stk s).

Definition is_kind_at (p : kind -> bool) (s : sim) (depth : nat) : bool :=
  match peek_at s depth with Some k => p k | None => false end.

Definition k_list k := match k with KList => true | _ => false end.
Definition k_dict k := match k with KDict => true | _ => false end.
Definition k_set k := match k with KSet => true | _ => false end.
Definition k_tuple k := match k with KTuple => true | _ => false end.
Definition k_string k := match k with KString => true | _ => false end.
Definition k_instance k := match k with KInstance => true | _ => false end.
Definition k_callable k := match k with KCallable | KGlobal => true | _ => false end.
Definition k_byteslike k := match k with KBytes | KByteArray => true | _ => false end.

Definition is_list_at := is_kind_at k_list.
Definition is_dict_at := is_kind_at k_dict.
Definition is_tuple_at := is_kind_at k_tuple.
Definition is_string_at := is_kind_at k_string.
Definition is_instance_at := is_kind_at k_instance.
Definition is_callable_at := is_kind_at k_callable.

(* number of items above the topmost MARK *)
Fixpoint count_to_mark (st : list kind) : option nat :=
  match st with
  | [] => None
  | KMark :: _ => Some 0
  | _ :: r => match count_to_mark r with Some n => Some (S n) | None => None end
  end.
Definition count_items_to_mark (s : sim) : option nat := count_to_mark (stk s).

(* the element directly below the topmost MARK *)
Fixpoint below_mark (st : list kind) : option kind :=
  match st with
  | [] => None
  | KMark :: r => match r with k :: _ => Some k | [] => None end
  | _ :: r => below_mark r
  end.
Definition is_kind_at_mark (p : kind -> bool) (s : sim) : bool :=
  match below_mark (stk s) with Some k => p k | None => false end.
Definition is_list_at_mark := is_kind_at_mark k_list.
Definition is_dict_at_mark := is_kind_at_mark k_dict.
Definition is_set_at_mark := is_kind_at_mark k_set.

(* the element directly above the topmost MARK (closer to the top) *)
Fixpoint above_mark (st : list kind) : option kind :=
  match st with
  | [] => None
  | KMark :: _ => None
  | k :: r => match r with
              | KMark :: _ => Some k
              | _ => above_mark r
              end
  end.
Definition is_callable_above_mark (s : sim) : bool :=
  match above_mark (stk s) with Some k => k_callable k | None => false end.

Definition top_not_mark (s : sim) : bool :=
  match stk s with k :: _ => negb (is_mark k) | [] => false end.

Definition count_pos (s : sim) : bool :=
  match count_items_to_mark s with Some n => Nat.ltb 0 n | None => false end.
Definition count_pos_even (s : sim) : bool :=
  match count_items_to_mark s with Some n => Nat.ltb 0 n && Nat.even n | None => false end.

(* ---- validation.rs: can_emit ---- *)
Definition can_emit (c : config) (s : sim) (o : opcode) : bool :=
  let n := stack_len s in
  match o with
  | POP | TUPLE1 | BINPERSID => Nat.leb 1 n
  | DUP | PUT | LONG_BINPUT | MEMOIZE => Nat.leb 1 n && top_not_mark s
  | BINPUT => Nat.leb 1 n && N.ltb (memo_len s) 256 && top_not_mark s
  | APPEND => Nat.leb 2 n && is_list_at s 1
  | APPENDS => has_mark s && is_list_at_mark s && count_pos s
  | SETITEM => Nat.leb 3 n && is_dict_at s 2
  | SETITEMS => has_mark s && is_dict_at_mark s && count_pos_even s
  | ADDITEMS => has_mark s && is_set_at_mark s && count_pos s
  | TUPLE | LIST | FROZENSET | POP_MARK => has_mark s
  | DICT => has_mark s && count_pos_even s
  | TUPLE2 => Nat.leb 2 n
  | TUPLE3 => Nat.leb 3 n
  | REDUCE | NEWOBJ => Nat.leb 2 n && is_callable_at s 1 && is_tuple_at s 0
  | NEWOBJ_EX => Nat.leb 3 n && is_callable_at s 2 && is_tuple_at s 1 && is_dict_at s 0
  | BUILD => Nat.leb 2 n && is_instance_at s 1 && (is_tuple_at s 0 || is_dict_at s 0)
  | INST => has_mark s && count_pos s
  | OBJ => has_mark s && is_callable_above_mark s
  | GET | BINGET | LONG_BINGET => negb (N.eqb (memo_len s) 0)
  | STACK_GLOBAL =>
      if c_unsafe c then Nat.leb 2 n
      else Nat.leb 2 n && is_string_at s 0 && is_string_at s 1
  | PROTO => negb (proto_emitted s)
  | STOP | FRAME => false
  | EXT1 | EXT2 | EXT4 => c_ext c
  | NEXT_BUFFER => c_buf c
  | READONLY_BUFFER => c_buf c && is_kind_at k_byteslike s 0
  | NONE | NEWTRUE | NEWFALSE | INT | LONG | LONG1 | LONG4 | BININT | BININT1 | BININT2
  | FLOAT | BINFLOAT | STRING | BINSTRING | SHORT_BINSTRING | UNICODE
  | SHORT_BINUNICODE | BINUNICODE | BINUNICODE8 | SHORT_BINBYTES | BINBYTES | BINBYTES8
  | BYTEARRAY8 | EMPTY_LIST | EMPTY_DICT | EMPTY_TUPLE | EMPTY_SET | GLOBAL | PERSID
  | MARK => true
  end.

(* ---- opcodes.rs: PICKLE_OPCODES rows (hand version; SrcEquiv ties it to the source) ---- *)
Definition row0 : list opcode :=
  [INT; LONG; STRING; NONE; UNICODE; FLOAT; APPEND; LIST; TUPLE; DICT; SETITEM; POP; DUP;
   MARK; GET; PUT; GLOBAL; REDUCE; BUILD; INST; STOP; PERSID].
Definition row1_add : list opcode :=
  [BININT; BININT1; BININT2; BINSTRING; SHORT_BINSTRING; BINUNICODE; BINFLOAT; EMPTY_LIST;
   APPENDS; EMPTY_TUPLE; EMPTY_DICT; SETITEMS; POP_MARK; BINGET; LONG_BINGET; BINPUT;
   LONG_BINPUT; OBJ; BINPERSID].
Definition row2_add : list opcode :=
  [LONG1; LONG4; NEWTRUE; NEWFALSE; TUPLE1; TUPLE2; TUPLE3; EXT1; EXT2; EXT4; NEWOBJ; PROTO].
Definition row3_add : list opcode := [BINBYTES; SHORT_BINBYTES].
Definition row4_add : list opcode :=
  [BINBYTES8; SHORT_BINUNICODE; BINUNICODE8; EMPTY_SET; ADDITEMS; FROZENSET; MEMOIZE;
   STACK_GLOBAL; NEWOBJ_EX; FRAME].
Definition row5_add : list opcode := [BYTEARRAY8; NEXT_BUFFER; READONLY_BUFFER].

Definition row (v : version) : list opcode :=
  match v with
  | V0 => row0
  | V1 => row0 ++ row1_add
  | V2 => row0 ++ row1_add ++ row2_add
  | V3 => row0 ++ row1_add ++ row2_add ++ row3_add
  | V4 => row0 ++ row1_add ++ row2_add ++ row3_add ++ row4_add
  | V5 => row0 ++ row1_add ++ row2_add ++ row3_add ++ row4_add ++ row5_add
  end.

Definition get_valid_opcodes (c : config) (s : sim) : list opcode :=
  filter (can_emit c s) (row (c_version c)).

Definition int_like (o : opcode) : bool :=
  match o with INT | LONG | LONG1 | LONG4 | BININT | BININT1 | BININT2 => true | _ => false end.

(* ---- stack_ops.rs: process_stack_ops on variants ---- *)
(* `while let Some(item) = pop() { if Mark break }` *)
Fixpoint pop_to_mark (st : list kind) : list kind :=
  match st with
  | [] => []
  | KMark :: r => r
  | _ :: r => pop_to_mark r
  end.

(* DICT / SETITEMS: loop { pop value; stop if none or Mark; pop key (if any) } *)
Fixpoint dict_pop (st : list kind) : list kind :=
  match st with
  | [] => []
  | KMark :: r => r
  | _ :: r => match r with
              | [] => []
              | _ :: r' => dict_pop r'
              end
  end.

Definition int_kind (v : version) (a : arg) : kind :=
  match a with
  | AZ z => if v_lt2 v && (Z.eqb z 0 || Z.eqb z 1) then KBool else KInt
  | _ => KInt
  end.

Definition sim_step (v : version) (s : sim) (t : token) : sim :=
  let st := stk s in
  match fst t with
  | POP => with_stk s (tl st)
  | DUP => match st with
           | k :: _ => if is_mark k then s else push s k
           | [] => s
           end
  | MARK => push s KMark
  | POP_MARK | APPENDS | ADDITEMS => with_stk s (pop_to_mark st)
  | LIST => with_stk s (KList :: pop_to_mark st)
  | TUPLE => with_stk s (KTuple :: pop_to_mark st)
  | FROZENSET => with_stk s (KFrozenSet :: pop_to_mark st)
  | DICT => with_stk s (KDict :: dict_pop st)
  | SETITEMS => with_stk s (dict_pop st)
  | APPEND => match st with _ :: (_ :: _) as r => with_stk s r | _ => s end
  | SETITEM => match st with _ :: _ :: (_ :: _) as r => with_stk s r | _ => s end
  | TUPLE1 => match st with _ :: r => with_stk s (KTuple :: r) | [] => s end
  | TUPLE2 => match st with _ :: _ :: r => with_stk s (KTuple :: r) | _ => s end
  | TUPLE3 => match st with _ :: _ :: _ :: r => with_stk s (KTuple :: r) | _ => s end
  | EMPTY_LIST => push s KList
  | EMPTY_TUPLE => push s KTuple
  | EMPTY_DICT => push s KDict
  | EMPTY_SET => push s KSet
  | INT => push s (int_kind v (snd t))
  | BININT | BININT1 | BININT2 | LONG | LONG1 | LONG4 => push s KInt
  | STRING | UNICODE | SHORT_BINUNICODE | BINUNICODE | BINUNICODE8 | PERSID => push s KString
  | BINSTRING | SHORT_BINSTRING | BINBYTES | SHORT_BINBYTES | BINBYTES8 | NEXT_BUFFER =>
      push s KBytes
  | BYTEARRAY8 => push s KByteArray
  | NONE => push s KNone
  | NEWTRUE | NEWFALSE => push s KBool
  | FLOAT | BINFLOAT => push s KFloat
  | GLOBAL | EXT1 | EXT2 | EXT4 => push s KCallable
  | STACK_GLOBAL =>
      match st with
      | [] => s
      | [_] => with_stk s []
      | a :: m :: r => if k_string m && k_string a then with_stk s (KCallable :: r)
                       else with_stk s r
      end
  | REDUCE => match st with _ :: _ :: r => with_stk s (KInstance :: r) | _ => s end
  | NEWOBJ => match st with
              | [] => s
              | [_] => with_stk s []
              | _ :: _ :: r => with_stk s (KInstance :: r)
              end
  | NEWOBJ_EX => match st with
                 | _ :: _ :: _ :: r => with_stk s (KInstance :: r)
                 | _ => with_stk s []
                 end
  | BUILD => match st with _ :: i :: r => with_stk s (i :: r) | _ => s end
  | INST => with_stk s (KInstance :: pop_to_mark st)
  | OBJ => match st with
           | [] => s
           | KMark :: r => with_stk s r
           | _ => with_stk s (KInstance :: pop_to_mark st)
           end
  | BINPERSID => match st with _ :: r => with_stk s (KString :: r) | [] => s end
  | GET | BINGET | LONG_BINGET =>
      match memo_get (tok_index t) (memo s) with
      | Some k => push s k
      | None => s
      end
  | PUT | BINPUT | LONG_BINPUT =>
      match st with
      | k :: _ => if is_mark k then s else with_memo s (memo_put (tok_index t) k (memo s))
      | [] => s
      end
  | MEMOIZE =>
      match st with
      | k :: _ => with_memo s (memo_put (memo_len s) k (memo s))
      | [] => s
      end
  | STOP => with_stk s (tl st)
  | PROTO | READONLY_BUFFER | FRAME => s
  end.

(* ---- cleanup_for_stop: the opcodes it emits, as a function of the simulated stack ---- *)
Definition step0 (v : version) (s : sim) (o : opcode) : sim := sim_step v s (o, A0).

(* while has_mark { TUPLE } *)
Fixpoint close_marks (fuel : nat) (v : version) (s : sim) : list opcode * sim :=
  match fuel with
  | O => ([], s)
  | S f => if has_mark s then
             let (ops, s') := close_marks f v (step0 v s TUPLE) in (TUPLE :: ops, s')
           else ([], s)
  end.

(* while len > 1 { v < 2: POP | len >= 3: TUPLE3 | len = 2: TUPLE2 } *)
Fixpoint collapse (fuel : nat) (v : version) (s : sim) : list opcode * sim :=
  match fuel with
  | O => ([], s)
  | S f =>
      if Nat.ltb 1 (stack_len s) then
        let o := if v_lt2 v then POP else if Nat.leb 3 (stack_len s) then TUPLE3 else TUPLE2 in
        let (ops, s') := collapse f v (step0 v s o) in (o :: ops, s')
      else ([], s)
  end.

Definition cleanup_for_stop (v : version) (s : sim) : list opcode * sim :=
  let (ops1, s1) := close_marks (S (stack_len s)) v s in
  let (ops2, s2) := collapse (S (stack_len s1)) v s1 in
  let (ops3, s3) := match stk s2 with
                    | [] => ([NONE], step0 v s2 NONE)
                    | _ => ([], s2)
                    end in
  (* final check: a MARK on top is popped silently, NONE emitted if that empties the stack *)
  let (ops4, s4) := match stk s3 with
                    | KMark :: r => match r with
                                    | [] => ([NONE], step0 v (with_stk s3 []) NONE)
                                    | _ => ([], with_stk s3 r)
                                    end
                    | _ => ([], s3)
                    end in
  (ops1 ++ ops2 ++ ops3 ++ ops4, s4).
