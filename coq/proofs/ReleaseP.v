(* C14, unconditional part: State::release_cycles (run by reset() and Drop) leaves a cell graph without
   any cycle, whatever the history was - self-containing lists, dicts that hold themselves as a key,
   instances whose state points back to them included.
   Invariant `Good ms cs`: every child of a cell exists, and a cell that was never modified in place
   (not registered in ms) only points to cells allocated before it.  Emptying the registered cells
   therefore leaves edges that all go from a younger to an older cell. *)
From Coq Require Import List NArith ZArith Bool Lia Arith.
Import ListNotations.
From PF Require Import Opcodes Config Sim Heap.
From PF.proofs Require Import HeapP.
Local Arguments N.of_nat : simpl never.

Definition Good (ms : list nat) (cs : list hobj) : Prop :=
  forall i o, nth_error cs i = Some o -> forall k, In k (kids o) -> k < length cs /\ (~ In i ms -> k < i).

Lemma Good_nil : forall ms, Good ms [].
Proof. intros ms i o H. destruct i; discriminate H. Qed.

Lemma Good_weaken : forall ms ms' cs, incl ms ms' -> Good ms cs -> Good ms' cs.
Proof.
  intros ms ms' cs Hi HG i o Hn k Hk. destruct (HG i o Hn k Hk) as [H1 H2]. split; [exact H1|].
  intro Hni. apply H2. intro Hin. apply Hni. apply Hi. exact Hin.
Qed.

Lemma Good_closed : forall ms cs, Good ms cs -> closed cs.
Proof. intros ms cs HG a b (o & Hn & Hk). exact (proj1 (HG a o Hn b Hk)). Qed.

Lemma Good_alloc : forall ms cs o, Good ms cs -> (forall b, In b (kids o) -> b < length cs) -> Good ms (cs ++ [o]).
Proof.
  intros ms cs o HG Hk i o' Hn k Hin. rewrite app_length. cbn [length].
  destruct (Nat.lt_ge_cases i (length cs)) as [Hlt|Hge].
  - rewrite nth_error_app1 in Hn by exact Hlt. destruct (HG i o' Hn k Hin) as [H1 H2]. split; [lia | exact H2].
  - rewrite nth_error_app2 in Hn by exact Hge. destruct (i - length cs) as [|d] eqn:Ed.
    + cbn in Hn. injection Hn as <-. pose proof (Hk k Hin). split; [lia | intros _; lia].
    + cbn in Hn. destruct d; discriminate Hn.
Qed.

Lemma Good_update : forall ms h x o, Good ms (cells h) -> In x ms ->
  (forall y, In y (kids o) -> y < length (cells h)) -> Good ms (cells (update h x o)).
Proof.
  intros ms h x o HG Hx Hk i o' Hn k Hin. cbn [update with_cells cells] in *. rewrite set_nth_obj_length.
  rewrite nth_error_set_nth_obj in Hn. destruct (Nat.eqb_spec x i) as [->|Hne].
  - destruct (Nat.ltb i (length (cells h))); cbn [andb] in Hn.
    + injection Hn as <-. split; [apply Hk; exact Hin | intro C; destruct (C Hx)].
    + exact (HG i o' Hn k Hin).
  - cbn [andb] in Hn. exact (HG i o' Hn k Hin).
Qed.

Lemma Good_hpush : forall ms h o, Good ms (cells h) -> (forall b, In b (kids o) -> b < length (cells h)) -> Good ms (cells (hpush h o)).
Proof. intros ms h o H Hk. rewrite cells_hpush. apply Good_alloc; assumption. Qed.

Lemma Good_kids : forall ms h i b, Good ms (cells h) -> i < length (cells h) -> In b (kids (cell h i)) -> b < length (cells h).
Proof. intros ms h i b HG. apply closed_kids. exact (Good_closed ms _ HG). Qed.

Lemma Good_memo_clone : forall ms h i idx, Good ms (cells h) -> i < length (cells h) -> Good ms (cells (memo_clone h i idx)).
Proof.
  intros ms h i idx HG Hi. unfold memo_clone, alloc. cbn [cells with_hmemo with_cells]. apply Good_alloc; [exact HG|].
  intros b Hb. apply (Good_kids ms h i b HG Hi Hb).
Qed.

(* one step: the registry grows by step_mut, the invariant is kept; no guard, no condition on the history *)
Definition MGoal (o : opcode) : Prop := forall v h a ms, wf_heap h -> Good ms (cells h) ->
  Good (ms ++ step_mut h (o, a)) (cells (heap_step v h (o, a))).

Ltac nomut := cbn [step_mut fst]; rewrite app_nil_r.

Lemma mg_same : forall o, In o [POP; DUP; POP_MARK; STOP; PROTO; READONLY_BUFFER; FRAME] -> MGoal o.
Proof.
  intros o Hin v h a ms Hwf HG. cbn [In] in Hin.
  repeat (destruct Hin as [<-|Hin]; [nomut; cbn [heap_step fst]; try exact HG|]); try (destruct Hin).
  destruct (hstk h) as [|i r]; [exact HG|]. destruct (is_mark (kind_at h i)); exact HG.
Qed.

Lemma mg_leaf : forall o, In o [MARK; INT; BININT; BININT1; BININT2; LONG; LONG1; LONG4;
    STRING; UNICODE; SHORT_BINUNICODE; BINUNICODE; BINUNICODE8; PERSID; BINSTRING; SHORT_BINSTRING; BINBYTES; SHORT_BINBYTES;
    BINBYTES8; NEXT_BUFFER; BYTEARRAY8; NONE; NEWTRUE; NEWFALSE; FLOAT; BINFLOAT; EMPTY_LIST; EMPTY_TUPLE; EMPTY_DICT; EMPTY_SET] -> MGoal o.
Proof.
  intros o Hin v h a ms Hwf HG. cbn [In] in Hin.
  repeat (destruct Hin as [<-|Hin]; [nomut; cbn [heap_step fst]; apply Good_hpush; [exact HG | intros b []]|]). destruct Hin.
Qed.

Lemma mg_BINPERSID : MGoal BINPERSID.
Proof. intros v h a ms Hwf HG. nomut. cbn [heap_step fst]. destruct (hstk h); [exact HG | apply Good_hpush; [exact HG | intros b []]]. Qed.

Lemma mg_tuples : forall o, In o [TUPLE1; TUPLE2; TUPLE3] -> MGoal o.
Proof.
  intros o Hin v h a ms Hwf HG. wf_inv Hwf. cbn [In] in Hin.
  destruct Hin as [<-|[<-|[<-|[]]]]; nomut; cbn [heap_step fst];
    destruct (hstk h) as [|x0 [|x1 [|x2 r]]]; try exact HG; stk_inv Hs;
    apply Good_hpush; try exact HG; cbn [kids]; intros b Hb; cbn [In] in Hb; intuition (subst; assumption).
Qed.

Lemma mg_mark_ctor : forall o, In o [LIST; TUPLE; FROZENSET] -> MGoal o.
Proof.
  intros o Hin v h a ms Hwf HG. wf_inv Hwf. cbn [In] in Hin.
  destruct (hpop_to_mark_sub h (hstk h) _ Hs) as [Hacc _].
  destruct Hin as [<-|[<-|[<-|[]]]]; nomut; cbn [heap_step fst]; destruct (hpop_to_mark h (hstk h)) as [acc rest]; cbn [fst] in Hacc;
    apply Good_hpush; try exact HG; cbn [kids]; intros b Hb.
  - apply (In_Forall_lt acc); [exact Hacc | apply in_rev; exact Hb].
  - apply (In_Forall_lt acc); [exact Hacc | apply in_rev; exact Hb].
  - destruct (set_insert_all_sub _ _ _ Hb) as [[]|H]. apply (In_Forall_lt acc); assumption.
Qed.

Lemma mg_DICT : MGoal DICT.
Proof.
  intros v h a ms Hwf HG. wf_inv Hwf. nomut. cbn [heap_step fst].
  destruct (hdict_pop_sub h (S (length (hstk h))) (hstk h) _ Hs) as [Hkv _].
  destruct (hdict_pop h (S (length (hstk h))) (hstk h)) as [kvs rest]. cbn [fst] in Hkv.
  apply Good_hpush; [exact HG|]. intros b Hb.
  destruct (dict_insert_all_kids _ _ _ Hb) as [[]|(kv & Hin & Hy)].
  rewrite Forall_forall in Hkv. destruct (Hkv kv Hin) as [H1 H2]. destruct Hy as [-> | ->]; assumption.
Qed.

Lemma mg_callables : forall o, In o [GLOBAL; EXT1; EXT2; EXT4] -> MGoal o.
Proof.
  intros o Hin v h a ms Hwf HG. cbn [In] in Hin.
  assert (G : Good ms (cells (let (h1, g) := alloc h (HLeaf KGlobal) in hpush h1 (HCall g)))).
  { unfold alloc. rewrite cells_hpush. cbn [cells with_cells]. apply Good_alloc; [apply Good_alloc; [exact HG | intros b []]|].
    cbn [kids]. intros b [<-|[]]. rewrite app_length. cbn. lia. }
  repeat (destruct Hin as [<-|Hin]; [nomut; exact G|]). destruct Hin.
Qed.

Lemma mg_STACK_GLOBAL : MGoal STACK_GLOBAL.
Proof.
  intros v h a ms Hwf HG. nomut. cbn [heap_step fst]. destruct (hstk h) as [|x [|m r]]; try exact HG.
  destruct (k_string (kind_at h m) && k_string (kind_at h x)); [|exact HG].
  unfold alloc. rewrite cells_hpush. cbn [cells with_cells with_hstk]. apply Good_alloc; [apply Good_alloc; [exact HG | intros b []]|].
  cbn [kids]. intros b [<-|[]]. rewrite app_length. cbn. lia.
Qed.

Lemma mg_inst_like : forall o, In o [REDUCE; NEWOBJ; NEWOBJ_EX] -> MGoal o.
Proof.
  intros o Hin v h a ms Hwf HG. wf_inv Hwf. pose proof (Good_closed _ _ HG) as Hc. cbn [In] in Hin.
  assert (K : forall c x r, c < length (cells h) -> x < length (cells h) ->
            Good ms (cells (hpush (with_hstk h r) (HInst (inner_of h c) x)))).
  { intros c x r Hcl Hxl. rewrite cells_hpush. cbn [cells with_hstk]. apply Good_alloc; [exact HG|].
    cbn [kids]. intros b [<-|[<-|[]]]; [apply inner_of_lt; assumption | assumption]. }
  destruct Hin as [<-|[<-|[<-|[]]]]; nomut; cbn [heap_step fst].
  - destruct (hstk h) as [|x0 [|x1 r]]; try exact HG. stk_inv Hs. apply K; assumption.
  - destruct (hstk h) as [|x0 [|x1 r]]; try exact HG. stk_inv Hs. apply K; assumption.
  - destruct (hstk h) as [|x0 [|x1 [|x2 r]]]; try exact HG. stk_inv Hs. apply K; assumption.
Qed.

Lemma mg_INST : MGoal INST.
Proof.
  intros v h a ms Hwf HG. wf_inv Hwf. nomut. cbn [heap_step fst]. unfold alloc at 1.
  set (h1 := with_cells h (cells h ++ [HLeaf KGlobal])).
  assert (G1 : Good ms (cells h1)) by (apply Good_alloc; [exact HG | intros b []]).
  assert (L1 : length (cells h1) = S (length (cells h))) by (unfold h1; cbn [cells with_cells]; rewrite app_length; cbn; lia).
  assert (Hs1 : Forall (fun i => i < length (cells h1)) (hstk h)) by (eapply Forall_lt_weaken; [|exact Hs]; lia).
  destruct (hpop_to_mark_sub h1 (hstk h) _ Hs1) as [Hacc _].
  destruct (hpop_to_mark h1 (hstk h)) as [acc rest]. cbn [fst] in Hacc. unfold alloc.
  rewrite cells_hpush. cbn [cells with_cells with_hstk]. apply Good_alloc.
  - apply Good_alloc; [exact G1|]. cbn [kids]. intros b Hb. apply (In_Forall_lt acc); [exact Hacc | apply in_rev; exact Hb].
  - cbn [kids]. intros b [<-|[<-|[]]]; unfold h1; cbn [cells with_cells]; rewrite !app_length; cbn; lia.
Qed.

Lemma mg_OBJ : MGoal OBJ.
Proof.
  intros v h a ms Hwf HG. wf_inv Hwf. nomut. cbn [heap_step fst].
  destruct (hpop_to_mark_sub h (hstk h) _ Hs) as [Hacc _].
  destruct (hpop_to_mark h (hstk h)) as [acc rest]. cbn [fst] in Hacc.
  destruct (rev acc) as [|cls args] eqn:Er; [exact HG|].
  assert (Hall : forall b, In b (cls :: args) -> b < length (cells h)).
  { intros b Hb. apply (In_Forall_lt acc); [exact Hacc|]. apply in_rev. rewrite Er. exact Hb. }
  unfold alloc. rewrite cells_hpush. cbn [cells with_cells with_hstk]. apply Good_alloc.
  - apply Good_alloc; [exact HG|]. cbn [kids]. intros b Hb. apply Hall. right; exact Hb.
  - cbn [kids]. intros b [<-|[<-|[]]]; rewrite app_length; cbn; [pose proof (Hall cls (or_introl eq_refl)) |]; lia.
Qed.

Lemma mg_gets : forall o, In o [GET; BINGET; LONG_BINGET] -> MGoal o.
Proof.
  intros o Hin v h a ms Hwf HG. cbn [In] in Hin.
  assert (G : forall idx, Good ms (cells (match hmemo_get idx (hmemo h) with Some i => hpush h (cell h i) | None => h end))).
  { intro idx. destruct (hmemo_get idx (hmemo h)) as [c|] eqn:E; [|exact HG].
    apply Good_hpush; [exact HG|]. intros b Hb.
    apply (Good_kids ms h c b HG (hmemo_get_lt h idx c Hwf E) Hb). }
  repeat (destruct Hin as [<-|Hin]; [nomut; cbn [heap_step fst]; apply G|]). destruct Hin.
Qed.

Lemma mg_puts : forall o, In o [PUT; BINPUT; LONG_BINPUT] -> MGoal o.
Proof.
  intros o Hin v h a ms Hwf HG. wf_inv Hwf. cbn [In] in Hin.
  assert (G : forall idx, Good ms (cells (match hstk h with
                                     | i :: _ => if is_mark (kind_at h i) then h else memo_clone h i idx
                                     | [] => h end))).
  { intro idx. destruct (hstk h) as [|i st]; [exact HG|]. destruct (is_mark (kind_at h i)); [exact HG|].
    stk_inv Hs. apply Good_memo_clone; assumption. }
  repeat (destruct Hin as [<-|Hin]; [nomut; cbn [heap_step fst]; apply G|]). destruct Hin.
Qed.

Lemma mg_MEMOIZE : MGoal MEMOIZE.
Proof.
  intros v h a ms Hwf HG. wf_inv Hwf. nomut. cbn [heap_step fst]. destruct (hstk h) as [|i r]; [exact HG|]. stk_inv Hs.
  change (let (h1, c) := alloc h (cell h i) in
          hpush (with_hstk (with_hmemo h1 (memo_put (N.of_nat (length (hmemo h1))) c (hmemo h1))) r) (cell h i))
    with (hpush (with_hstk (memo_clone h i (N.of_nat (length (hmemo h)))) r) (cell h i)).
  rewrite cells_hpush. cbn [cells with_hstk]. pose proof (Good_memo_clone ms h i (N.of_nat (length (hmemo h))) HG Hi) as G1.
  apply Good_alloc; [exact G1|]. intros b Hb.
  pose proof (Good_kids ms h i b HG Hi Hb). unfold memo_clone, alloc. cbn [cells with_hmemo with_cells]. rewrite app_length. cbn. lia.
Qed.

(* the six in-place mutations: the modified cell is registered *)
Ltac weaken_left ms HG :=
  match goal with |- Good (ms ++ ?l) _ => assert (HG' : Good (ms ++ l) _) by (apply (Good_weaken ms); [apply incl_appl, incl_refl | exact HG]) end.

Lemma mg_APPEND : MGoal APPEND.
Proof.
  intros v h a ms Hwf HG. wf_inv Hwf. cbn [step_mut heap_step fst].
  destruct (hstk h) as [|x [|c r]]; try (rewrite app_nil_r; exact HG). stk_inv Hs.
  destruct (cell h c) as [k|k items|pairs|ca ar|inn] eqn:Ec; try (rewrite app_nil_r; exact HG).
  destruct k; try (rewrite app_nil_r; exact HG).
  cbn [cells with_hstk]. apply Good_update; [apply (Good_weaken ms); [apply incl_appl, incl_refl | exact HG] | apply in_or_app; right; left; reflexivity |].
  cbn [kids]. intros y Hy. apply in_app_or in Hy. destruct Hy as [Hy|[<-|[]]]; [|assumption].
  apply (Good_kids ms h c y HG Hi0). rewrite Ec. exact Hy.
Qed.

Lemma mg_SETITEM : MGoal SETITEM.
Proof.
  intros v h a ms Hwf HG. wf_inv Hwf. cbn [step_mut heap_step fst].
  destruct (hstk h) as [|x [|y [|c r]]]; try (rewrite app_nil_r; exact HG). stk_inv Hs.
  destruct (cell h c) as [k|k items|pairs|ca ar|inn] eqn:Ec; try (rewrite app_nil_r; exact HG).
  cbn [cells with_hstk]. apply Good_update; [apply (Good_weaken ms); [apply incl_appl, incl_refl | exact HG] | apply in_or_app; right; left; reflexivity |].
  intros z Hz. destruct (dict_insert_kids _ _ _ _ Hz) as [H|[->| ->]]; [|assumption|assumption].
  apply (Good_kids ms h c z HG Hi1). rewrite Ec. exact H.
Qed.

Lemma mg_APPENDS : MGoal APPENDS.
Proof.
  intros v h a ms Hwf HG. wf_inv Hwf. cbn [step_mut heap_step fst].
  destruct (hpop_to_mark_sub h (hstk h) _ Hs) as [Hacc Hr].
  destruct (hpop_to_mark h (hstk h)) as [acc rest]. cbn [fst snd] in *.
  destruct rest as [|c r]; [rewrite app_nil_r; exact HG|]. stk_inv Hr.
  assert (HG' : Good (ms ++ [c]) (cells h)) by (apply (Good_weaken ms); [apply incl_appl, incl_refl | exact HG]).
  destruct (cell h c) as [k|k items|pairs|ca ar|inn] eqn:Ec; try exact HG'. destruct k; try exact HG'.
  cbn [cells with_hstk]. apply Good_update; [exact HG' | apply in_or_app; right; left; reflexivity |].
  cbn [kids]. intros y Hy. apply in_app_or in Hy. destruct Hy as [Hy|Hy].
  - apply (Good_kids ms h c y HG Hi). rewrite Ec. exact Hy.
  - apply in_rev in Hy. apply (In_Forall_lt acc); assumption.
Qed.

Lemma mg_ADDITEMS : MGoal ADDITEMS.
Proof.
  intros v h a ms Hwf HG. wf_inv Hwf. cbn [step_mut heap_step fst].
  destruct (hpop_to_mark_sub h (hstk h) _ Hs) as [Hacc Hr].
  destruct (hpop_to_mark h (hstk h)) as [acc rest]. cbn [fst snd] in *.
  destruct rest as [|c r]; [rewrite app_nil_r; exact HG|]. stk_inv Hr.
  destruct (cell h c) as [k|k items|pairs|ca ar|inn] eqn:Ec; try (rewrite app_nil_r; exact HG).
  destruct k; try (rewrite app_nil_r; exact HG).
  cbn [cells with_hstk]. apply Good_update; [apply (Good_weaken ms); [apply incl_appl, incl_refl | exact HG] | apply in_or_app; right; left; reflexivity |].
  cbn [kids]. intros y Hy. destruct (set_insert_all_sub _ _ _ Hy) as [H|H].
  - apply (Good_kids ms h c y HG Hi). rewrite Ec. exact H.
  - apply in_rev in H. apply (In_Forall_lt acc); assumption.
Qed.

Lemma mg_SETITEMS : MGoal SETITEMS.
Proof.
  intros v h a ms Hwf HG. wf_inv Hwf. cbn [step_mut heap_step fst].
  destruct (hdict_pop_sub h (S (length (hstk h))) (hstk h) _ Hs) as [Hkv Hr].
  destruct (hdict_pop h (S (length (hstk h))) (hstk h)) as [kvs rest]. cbn [fst snd] in *.
  destruct rest as [|c r]; [rewrite app_nil_r; exact HG|]. stk_inv Hr.
  destruct (cell h c) as [k|k items|pairs|ca ar|inn] eqn:Ec; try (rewrite app_nil_r; exact HG).
  cbn [cells with_hstk]. apply Good_update; [apply (Good_weaken ms); [apply incl_appl, incl_refl | exact HG] | apply in_or_app; right; left; reflexivity |].
  intros y Hy. destruct (dict_insert_all_kids _ _ _ Hy) as [H|(kv & Hin & Hyk)].
  - apply (Good_kids ms h c y HG Hi). rewrite Ec. exact H.
  - rewrite Forall_forall in Hkv. destruct (Hkv kv Hin) as [L1 L2]. destruct Hyk as [-> | ->]; assumption.
Qed.

Lemma mg_BUILD : MGoal BUILD.
Proof.
  intros v h a ms Hwf HG. wf_inv Hwf. cbn [step_mut heap_step fst].
  destruct (hstk h) as [|x [|i r]]; try (rewrite app_nil_r; exact HG). stk_inv Hs.
  assert (HG' : Good (ms ++ [i]) (cells h)) by (apply (Good_weaken ms); [apply incl_appl, incl_refl | exact HG]).
  set (h1 := match cell h i with HInst c _ => update h i (HInst c x) | _ => h end).
  assert (H1 : Good (ms ++ [i]) (cells h1) /\ length (cells h1) = length (cells h)
               /\ (forall b, In b (kids (cell h1 i)) -> b < length (cells h))).
  { unfold h1. destruct (cell h i) as [k|k items|pairs|ca ar|inn] eqn:Ec.
    1,2,3,5: (split; [exact HG'|]; split; [reflexivity|]; intros b Hb; apply (Good_kids ms h i b HG Hi0); exact Hb).
    split; [|split].
    - apply Good_update; [exact HG' | apply in_or_app; right; left; reflexivity |]. cbn [kids]. intros y [<-|[<-|[]]]; [|assumption].
      apply (Good_kids ms h i ca HG Hi0). rewrite Ec. left; reflexivity.
    - cbn [update with_cells cells]. apply set_nth_obj_length.
    - intros b Hb. unfold cell, update in Hb. cbn [cells with_cells] in Hb. rewrite nth_set_nth_obj in Hb. rewrite Nat.eqb_refl in Hb.
      assert (L : Nat.ltb i (length (cells h)) = true) by (apply Nat.ltb_lt; assumption). rewrite L in Hb. cbn [andb kids In] in Hb.
      destruct Hb as [Hb|[Hb|[]]]; subst b; [|assumption]. apply (Good_kids ms h i ca HG Hi0). rewrite Ec. left; reflexivity. }
  destruct H1 as (G1 & L1 & K1). rewrite cells_hpush. cbn [cells with_hstk]. apply Good_alloc; [exact G1|].
  intros b Hb. rewrite L1. apply K1. exact Hb.
Qed.

Theorem step_Good : forall v h t ms, wf_heap h -> Good ms (cells h) -> Good (ms ++ step_mut h t) (cells (heap_step v h t)).
Proof.
  intros v h [o a] ms Hwf HG. revert v h a ms Hwf HG. change (MGoal o).
  destruct o;
    first [ apply mg_same; cbn; tauto | apply mg_leaf; cbn; tauto | apply mg_tuples; cbn; tauto | apply mg_mark_ctor; cbn; tauto
          | apply mg_callables; cbn; tauto | apply mg_inst_like; cbn; tauto | apply mg_gets; cbn; tauto | apply mg_puts; cbn; tauto
          | apply mg_BINPERSID | apply mg_DICT | apply mg_STACK_GLOBAL | apply mg_INST | apply mg_OBJ | apply mg_MEMOIZE
          | apply mg_APPEND | apply mg_SETITEM | apply mg_APPENDS | apply mg_ADDITEMS | apply mg_SETITEMS | apply mg_BUILD ].
Qed.

Theorem run_Good : forall v ts h ms, wf_heap h -> Good ms (cells h) -> Good (ms ++ run_mut v h ts) (cells (heap_run v h ts)).
Proof.
  intros v ts. induction ts as [|t ts IH]; intros h ms Hwf HG; cbn [run_mut heap_run]; [rewrite app_nil_r; exact HG|].
  rewrite app_assoc. apply IH; [apply heap_refines_sim; exact Hwf | apply step_Good; assumption].
Qed.

(* ---------- release ---------- *)
Lemma kids_emptied : forall o, kids (emptied o) = [].
Proof. destruct o; reflexivity. Qed.

Lemma nth_error_release_at : forall cs n ms j,
  nth_error (release_at n cs ms) j =
  option_map (fun o => if existsb (Nat.eqb (n + j)) ms then emptied o else o) (nth_error cs j).
Proof.
  induction cs as [|o cs IH]; intros n ms j; [destruct j; reflexivity|]. destruct j; cbn [release_at nth_error option_map].
  - rewrite Nat.add_0_r. reflexivity.
  - rewrite IH. replace (S n + j) with (n + S j) by lia. reflexivity.
Qed.

Lemma existsb_eqb_In : forall i ms, existsb (Nat.eqb i) ms = true <-> In i ms.
Proof.
  intros i ms. rewrite existsb_exists. split.
  - intros (x & Hin & E). apply Nat.eqb_eq in E. subst x. exact Hin.
  - intro H. exists i. split; [exact H | apply Nat.eqb_refl].
Qed.

Lemma release_edge_down : forall ms cs a b, Good ms cs -> edge (release cs ms) a b -> b < a.
Proof.
  intros ms cs a b HG (o & Hn & Hk). unfold release in Hn. rewrite nth_error_release_at in Hn. cbn [Nat.add] in Hn.
  destruct (nth_error cs a) as [o0|] eqn:E0; [|discriminate Hn]. cbn [option_map] in Hn. injection Hn as <-.
  destruct (existsb (Nat.eqb a) ms) eqn:Ex.
  - rewrite kids_emptied in Hk. destruct Hk.
  - apply (HG a o0 E0 b Hk). intro Hin. apply existsb_eqb_In in Hin. rewrite Hin in Ex. discriminate Ex.
Qed.

Lemma down_path : forall cs, (forall a b, edge cs a b -> b < a) -> forall a b, path cs a b -> b < a.
Proof. intros cs Hd a b P. induction P as [a b E|a b c E _ IH]; [exact (Hd a b E) | pose proof (Hd a b E); lia]. Qed.

Theorem release_acyclic : forall ms cs, Good ms cs -> acyclic (release cs ms).
Proof.
  intros ms cs HG a P. pose proof (down_path (release cs ms) (fun x y => release_edge_down ms cs x y HG) a a P). lia.
Qed.

(* the cell graph that is left when a generation ends and the generator is reset or dropped has no
   cycle: for every protocol and every token sequence of any length - so with reference counting
   every cell is freed *)
Theorem final_cells_acyclic : forall v ts, acyclic (final_cells v ts).
Proof.
  intros v ts. unfold final_cells. apply (release_acyclic ([] ++ run_mut v (heap_init v) ts)).
  apply run_Good; [apply wf_heap_init | apply Good_nil].
Qed.

(* executable cycle test agrees on the released graph of the known cyclic history *)
Example release_breaks_self_cycle :
  let ts := [(EMPTY_LIST, A0); (DUP, A0); (APPEND, A0)] in
  has_cycle (cells (heap_run V2 (heap_init V2) ts)) = true /\ has_cycle (final_cells V2 ts) = false.
Proof. vm_compute. split; reflexivity. Qed.

(* ---------- reference counting, made explicit ----------
   Rc<T> frees a cell at the moment its strong count reaches zero, and freeing a cell drops the handles it
   holds (which may bring further counts to zero).  Once the generator is reset or dropped no root (stack
   slot, memo entry, local variable) holds a handle, so a cell's count is the number of handles held by cells
   that are still allocated: a cell is freed as soon as every cell that points to it has been freed.
   `freed cs i` is that inductive reading (Weak handles - the registry - do not count).  On the cell graph
   that release_cycles leaves behind every cell is freed: nothing stays allocated. *)
Inductive freed (cs : list hobj) : nat -> Prop :=
| freed_intro : forall i, i < length cs -> (forall j, edge cs j i -> freed cs j) -> freed cs i.

Lemma release_length : forall cs ms n, length (release_at n cs ms) = length cs.
Proof. induction cs as [|o cs IH]; intros ms n; [reflexivity|]. cbn [release_at length]. rewrite IH. reflexivity. Qed.

Theorem released_all_freed : forall ms cs, Good ms cs -> forall i, i < length cs -> freed (release cs ms) i.
Proof.
  intros ms cs HG.
  assert (L : length (release cs ms) = length cs) by apply release_length.
  (* every pointer goes from a younger to an older cell: induction from the youngest cell down *)
  assert (H : forall k i, length cs - i <= k -> i < length cs -> freed (release cs ms) i).
  { induction k as [|k IH]; intros i Hk Hi; [lia|].
    apply freed_intro; [rewrite L; exact Hi|]. intros j E.
    pose proof (release_edge_down ms cs j i HG E) as Hlt.
    assert (Hj : j < length cs) by (rewrite <- L; apply (edge_lt _ _ _ E)).
    apply IH; lia. }
  intros i Hi. apply (H (length cs) i); [lia | exact Hi].
Qed.

Theorem final_cells_all_freed : forall v ts i, i < length (final_cells v ts) -> freed (final_cells v ts) i.
Proof.
  intros v ts i Hi. unfold final_cells in *. unfold release in Hi. rewrite release_length in Hi.
  apply (released_all_freed ([] ++ run_mut v (heap_init v) ts)); [|exact Hi].
  apply run_Good; [apply wf_heap_init | apply Good_nil].
Qed.

(* and the converse reading, for the record: a cell on a cycle is never freed (why finding I leaked) *)
Lemma path_last : forall cs a b, path cs a b -> exists j, edge cs j b /\ (j = a \/ path cs a j).
Proof.
  intros cs a b P. induction P as [x y E|x y z E P IH].
  - exists x. split; [exact E | left; reflexivity].
  - destruct IH as (j & Ej & Hj). exists j. split; [exact Ej|]. right.
    destruct Hj as [->|Hj]; [apply path_one; exact E | apply path_step with y; assumption].
Qed.

Lemma cycle_never_freed : forall cs a, path cs a a -> ~ freed cs a.
Proof.
  intros cs a P F. revert P. induction F as [i Hi _ IH]. intro P.
  destruct (path_last cs i i P) as (j & Ej & [->|Pj]).
  - apply (IH i Ej). exact P.
  - apply (IH j Ej). apply path_step with i; assumption.
Qed.

(* the registry itself stays small: at most one entry per opcode of the pickle (it is emptied by every reset) *)
Lemma step_mut_le1 : forall h t, length (step_mut h t) <= 1.
Proof.
  intros h [o a]. unfold step_mut. cbn [fst].
  destruct o; cbn [length]; try lia;
    repeat match goal with
           | |- context [match ?x with _ => _ end] => destruct x; cbn [length]; try lia
           end.
Qed.

Theorem run_mut_bound : forall v ts h, length (run_mut v h ts) <= length ts.
Proof.
  intros v ts. induction ts as [|t ts IH]; intro h; cbn [run_mut length]; [lia|].
  rewrite app_length. pose proof (step_mut_le1 h t). specialize (IH (heap_step v h t)). lia.
Qed.
