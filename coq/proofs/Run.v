(* Run level: every run of the envelope model is mirrored by the reference machine from the
   first token to STOP (used by C01, C02, C03, C17). *)
From Coq Require Import List NArith ZArith Bool Lia Arith.
Import ListNotations.
From PF Require Import Opcodes RefTable Config Sim Ref Lex Envelope Oracles.
From PF.proofs Require Import Refine.
Local Arguments N.pow : simpl never.
Local Arguments N.ltb : simpl never.
Local Arguments N.leb : simpl never.
Local Arguments N.eqb : simpl never.
Local Arguments Z.leb : simpl never.
Local Arguments Z.ltb : simpl never.
Local Arguments N.of_nat : simpl never.

(* ---------- equality tests ---------- *)
Lemma combine_eqb_eq : forall a b, length a = length b ->
  forallb (fun p => (fst p =? snd p)%N) (combine a b) = true -> a = b.
Proof.
  induction a as [|x a IH]; destruct b as [|y b]; intros Hl H; try reflexivity; try discriminate Hl.
  cbn [combine forallb fst snd] in H. apply andb_prop in H; destruct H as [Hxy H].
  apply N.eqb_eq in Hxy. subst y. f_equal. apply IH; [simpl in Hl; lia | exact H].
Qed.

Lemma list_eqb_eq : forall a b, list_eqb a b = true -> a = b.
Proof.
  unfold list_eqb. intros a b H. apply andb_prop in H; destruct H as [Hl H].
  apply N.eqb_eq in Hl. apply Nat2N.inj in Hl. apply combine_eqb_eq; assumption.
Qed.

Lemma list_eqb_refl : forall a, list_eqb a a = true.
Proof.
  unfold list_eqb. intro a. rewrite N.eqb_refl. cbn [andb].
  induction a as [|x a IH]; [reflexivity|]. cbn [combine forallb fst snd]. rewrite N.eqb_refl, IH. reflexivity.
Qed.

Lemma arg_eqb_eq : forall a b, arg_eqb a b = true -> a = b.
Proof.
  intros a b; destruct a as [|x|x|x|x|x1 x2], b as [|y|y|y|y|y1 y2]; simpl; intro H;
    try discriminate H; try reflexivity.
  - apply N.eqb_eq in H; congruence.
  - apply Z.eqb_eq in H; congruence.
  - apply list_eqb_eq in H; congruence.
  - apply N.eqb_eq in H; congruence.
  - apply andb_prop in H; destruct H as [H1 H2]. apply list_eqb_eq in H1, H2. congruence.
Qed.

Lemma tok_eqb_eq : forall a b, tok_eqb a b = true -> a = b.
Proof.
  intros [o1 a1] [o2 a2]; unfold tok_eqb; simpl; intro H.
  apply andb_prop in H; destruct H as [H1 H2]. apply op_eqb_eq in H1. apply arg_eqb_eq in H2. congruence.
Qed.

(* ---------- safe configurations ---------- *)
Lemma safeb_unsafe : forall c, safeb c = true -> c_unsafe c = false.
Proof. unfold safeb; intros c H; apply andb_prop in H; destruct H as [H _]; destruct (c_unsafe c); [discriminate H | reflexivity]. Qed.

Lemma safeb_no_typeconf : forall c, safeb c = true -> has_typeconf c = false.
Proof.
  unfold safeb, has_typeconf; intros c H; apply andb_prop in H; destruct H as [_ H].
  induction (c_mutators c) as [|m l IH]; simpl in *; [reflexivity|].
  apply andb_prop in H; destruct H as [Hm Hl]. rewrite (IH Hl), orb_false_r.
  destruct m as [| | | | |u|u]; try reflexivity. destruct u; [discriminate Hm | reflexivity].
Qed.

Lemma out_ok_safe : forall c t out, safeb c = true -> out_ok c t out = true -> out = t.
Proof.
  intros c t out Hs H. unfold out_ok in H. rewrite (safeb_no_typeconf c Hs) in H. simpl in H.
  rewrite orb_false_r in H. symmetry; apply tok_eqb_eq; exact H.
Qed.

(* ---------- from the envelope to the premises of step_refines ---------- *)
Lemma int_like_can_emit : forall c s o, int_like o = true -> can_emit c s o = true.
Proof. intros c s o H; destruct o; try discriminate H; reflexivity. Qed.

Lemma emitsb_can_emit : forall c s ch t, emitsb c s ch t = true -> can_emit c s (fst t) = true.
Proof.
  intros c s ch t H. unfold emitsb in H.
  apply andb_prop in H; destruct H as [H Harg]. apply andb_prop in H; destruct H as [Hv Hop].
  apply existsb_exists in Hv. destruct Hv as (x & Hin & Hx). apply op_eqb_eq in Hx; subst x.
  unfold get_valid_opcodes in Hin. apply filter_In in Hin. destruct Hin as [_ Hce].
  apply orb_prop in Hop. destruct Hop as [Hop|Hop].
  - apply op_eqb_eq in Hop. rewrite Hop. exact Hce.
  - apply andb_prop in Hop; destruct Hop as [Hop _]. apply andb_prop in Hop; destruct Hop as [_ Hi].
    apply int_like_can_emit; exact Hi.
Qed.

Lemma emitsb_tok_env : forall c s ch t, c_unsafe c = false -> emitsb c s ch t = true -> tok_env s t.
Proof.
  intros c s ch [o a] Hu H. unfold emitsb in H.
  apply andb_prop in H; destruct H as [_ Harg]. simpl in Harg.
  unfold tok_env; simpl.
  destruct o; try exact I; destruct a; try discriminate Harg; simpl in Harg; rewrite ?Hu in Harg; simpl in Harg;
  first
  [ (exists n; split; [reflexivity|]; first [exact Harg | (apply andb_prop in Harg; tauto)])
  | (apply N.eqb_eq in Harg; congruence)
  | (apply andb_prop in Harg; destruct Harg as [Hm _]; apply N.eqb_eq in Hm; congruence) ].
Qed.

(* ---------- lockstep execution ---------- *)
Fixpoint lockstep (v : version) (P : sim -> rstate -> Prop) (s : sim) (r : rstate) (ts : list token) : Prop :=
  match ts with
  | [] => P s r
  | t :: rest =>
      exists r', ref_step r t = Some r' /\ req_ok r t = true /\ memo_ok r t = true
              /\ Inv (sim_step v s t) r' /\ lockstep v P (sim_step v s t) r' rest
  end.

Lemma lockstep_run : forall v P ts s r, lockstep v P s r ts -> Inv s r ->
  exists r1, ref_run r ts = Some r1 /\ ref_run_req r ts = Some r1 /\ Inv (run_steps v s ts) r1
          /\ P (run_steps v s ts) r1.
Proof.
  induction ts as [|t ts IH]; simpl; intros s r H HI.
  - exists r; auto.
  - destruct H as (r' & Hs & Hq & Hm & HI' & Hl). rewrite Hs, Hq.
    apply IH; assumption.
Qed.

Lemma lockstep_weaken : forall v (P Q : sim -> rstate -> Prop) ts s r,
  (forall s' r', P s' r' -> Q s' r') -> lockstep v P s r ts -> lockstep v Q s r ts.
Proof.
  induction ts as [|t ts IH]; simpl; intros s r HPQ H; [apply HPQ; exact H|].
  destruct H as (r' & Hs & Hq & Hm & HI' & Hl).
  exists r'. split; [exact Hs|]. split; [exact Hq|]. split; [exact Hm|]. split; [exact HI'|].
  apply IH; assumption.
Qed.

(* body *)
Lemma body_lockstep : forall c P rest steps s r,
  safeb c = true -> Inv s r -> body_ok c s steps = true ->
  (forall s' r', Inv s' r' -> s' = run_steps (c_version c) s (map rs_tok steps) ->
                 lockstep (c_version c) P s' r' rest) ->
  lockstep (c_version c) P s r (map rs_out steps ++ rest) /\ map rs_out steps = map rs_tok steps.
Proof.
  intros c P rest steps. induction steps as [|st steps IH]; simpl; intros s r Hs HI Hb Hrest.
  - split; [apply Hrest; auto | reflexivity].
  - apply andb_prop in Hb; destruct Hb as [Hb Hrest']. apply andb_prop in Hb; destruct Hb as [He Ho].
    pose proof (out_ok_safe _ _ _ Hs Ho) as Eo. rewrite Eo.
    pose proof (safeb_unsafe _ Hs) as Hu.
    destruct (step_refines c s r (rs_tok st) Hu HI (emitsb_can_emit _ _ _ _ He) (emitsb_tok_env _ _ _ _ Hu He))
      as (r' & Hst & Hq & Hm & HI').
    destruct (IH _ _ Hs HI' Hrest' Hrest) as [Hl Heq].
    split; [|f_equal; exact Heq].
    exists r'. split; [exact Hst|]. split; [exact Hq|]. split; [exact Hm|]. split; [exact HI'|]. exact Hl.
Qed.

(* ---------- the collapse tail ---------- *)
Definition tk (o : opcode) : token := (o, A0).

Lemma one_step : forall c P s r o rest,
  c_unsafe c = false -> Inv s r -> can_emit c s o = true -> tok_env s (tk o) ->
  (forall r', Inv (sim_step (c_version c) s (tk o)) r' -> lockstep (c_version c) P (sim_step (c_version c) s (tk o)) r' rest) ->
  lockstep (c_version c) P s r (tk o :: rest).
Proof.
  intros c P s r o rest Hu HI Hc He Hrest.
  destruct (step_refines c s r (tk o) Hu HI Hc He) as (r' & Hst & Hq & Hm & HI').
  simpl. exists r'. split; [exact Hst|]. split; [exact Hq|]. split; [exact Hm|]. split; [exact HI'|].
  apply Hrest; exact HI'.
Qed.

Definition nmarks (st : list kind) : nat := length (filter is_mark st).

Lemma nmarks_le : forall st, nmarks st <= length st.
Proof. intro st; unfold nmarks; induction st as [|k st IH]; simpl; [lia|]. destruct (is_mark k); simpl; lia. Qed.

Lemma nmarks_cons : forall k st, nmarks (k :: st) = (if is_mark k then 1 else 0) + nmarks st.
Proof. intros k st; unfold nmarks; simpl; destruct (is_mark k); reflexivity. Qed.

Lemma nmarks_pop_to_mark : forall st, existsb is_mark st = true -> S (nmarks (pop_to_mark st)) = nmarks st.
Proof.
  induction st as [|k st IH]; intro H; [discriminate H|].
  rewrite nmarks_cons. destruct (is_mark k) eqn:Ek.
  - destruct k; try discriminate Ek. reflexivity.
  - rewrite (pop_to_mark_cons_nm _ _ Ek). simpl in H. rewrite Ek in H. simpl in H. rewrite (IH H). reflexivity.
Qed.

Lemma pop_to_mark_shorter : forall st, existsb is_mark st = true -> length (pop_to_mark st) < length st.
Proof.
  induction st as [|k st IH]; intro H; [discriminate H|].
  destruct (is_mark k) eqn:Ek.
  - destruct k; try discriminate Ek. simpl. lia.
  - rewrite (pop_to_mark_cons_nm _ _ Ek). simpl in H. rewrite Ek in H. simpl in H. specialize (IH H). simpl. lia.
Qed.

Lemma nmarks_zero : forall st, nmarks st = 0 -> existsb is_mark st = false.
Proof.
  induction st as [|k st IH]; simpl; intro H; [reflexivity|].
  rewrite nmarks_cons in H. destruct (is_mark k); [discriminate H|]. simpl. apply IH; exact H.
Qed.

Lemma close_marks_spec : forall fuel c P s r,
  c_unsafe c = false -> Inv s r -> nmarks (stk s) < fuel ->
  forall rest,
  (forall s' r', Inv s' r' -> has_mark s' = false -> length (stk s') <= length (stk s) ->
                 snd (close_marks fuel (c_version c) s) = s' ->
                 lockstep (c_version c) P s' r' rest) ->
  lockstep (c_version c) P s r (map tk (fst (close_marks fuel (c_version c) s)) ++ rest).
Proof.
  induction fuel as [|f IH]; intros c P s r Hu HI Hf rest Hrest; [lia|].
  simpl. destruct (has_mark s) eqn:Hm.
  - destruct (close_marks f (c_version c) (step0 (c_version c) s TUPLE)) as [ops s'] eqn:Ecm.
    simpl. apply one_step; auto; [exact I|].
    intros r' HI'. change (sim_step (c_version c) s (tk TUPLE)) with (step0 (c_version c) s TUPLE) in *.
    assert (Hst : stk (step0 (c_version c) s TUPLE) = KTuple :: pop_to_mark (stk s)) by reflexivity.
    assert (Hn : nmarks (stk (step0 (c_version c) s TUPLE)) < f).
    { rewrite Hst, nmarks_cons. simpl. pose proof (nmarks_pop_to_mark _ Hm). lia. }
    specialize (IH c P _ r' Hu HI' Hn rest). rewrite Ecm in IH. simpl in IH. apply IH.
    intros s2 r2 HI2 Hm2 Hlen E. apply Hrest; auto.
    assert (Hlen' : length (stk s2) <= length (KTuple :: pop_to_mark (stk s))) by (rewrite <- Hst; exact Hlen).
    simpl in Hlen'.
    + pose proof (pop_to_mark_shorter _ Hm) as Hsh. lia.
    + cbn [close_marks]. rewrite Hm, Ecm. exact E.
  - simpl. apply Hrest; auto. cbn [close_marks]. rewrite Hm. reflexivity.
Qed.

Lemma collapse_spec : forall fuel c P s r,
  c_unsafe c = false -> Inv s r -> has_mark s = false -> length (stk s) <= fuel ->
  forall rest,
  (forall s' r', Inv s' r' -> has_mark s' = false -> length (stk s') <= 1 ->
                 length (stk s') <= length (stk s) ->
                 (stk s <> [] -> stk s' <> []) ->
                 snd (collapse fuel (c_version c) s) = s' ->
                 lockstep (c_version c) P s' r' rest) ->
  lockstep (c_version c) P s r (map tk (fst (collapse fuel (c_version c) s)) ++ rest).
Proof.
  induction fuel as [|f IH]; intros c P s r Hu HI Hm Hf rest Hrest.
  - simpl. apply Hrest; auto; lia.
  - cbn [collapse]. unfold stack_len.
    destruct (Nat.ltb 1 (length (stk s))) eqn:Hlt.
    + apply Nat.ltb_lt in Hlt.
      set (o := if v_lt2 (c_version c) then POP else if Nat.leb 3 (length (stk s)) then TUPLE3 else TUPLE2).
      destruct (collapse f (c_version c) (step0 (c_version c) s o)) as [ops s'] eqn:Ecl.
      cbn [fst map app].
      assert (Hce : can_emit c s o = true).
      { unfold o. destruct (v_lt2 (c_version c)).
        - unfold can_emit, stack_len. apply Nat.leb_le. lia.
        - destruct (Nat.leb 3 (length (stk s))) eqn:E3; unfold can_emit, stack_len; [exact E3 | apply Nat.leb_le; lia]. }
      assert (Hsh : length (stk (step0 (c_version c) s o)) < length (stk s)
                    /\ has_mark (step0 (c_version c) s o) = false
                    /\ stk (step0 (c_version c) s o) <> []).
      { unfold has_mark in *. destruct s as [st m pe]. simpl in *.
        destruct st as [|k0 [|k1 st]]; simpl in Hlt; try lia.
        unfold o. destruct (v_lt2 (c_version c)).
        - unfold step0, sim_step; simpl. simpl in Hm. apply orb_false_elim in Hm. destruct Hm as [_ Hm].
          split; [lia|]. split; [exact Hm | discriminate].
        - simpl in Hm. apply orb_false_elim in Hm. destruct Hm as [_ Hm].
          apply orb_false_elim in Hm. destruct Hm as [_ Hm].
          destruct st as [|k2 st]; simpl.
          + unfold step0, sim_step; simpl. split; [lia|]. split; [reflexivity | discriminate].
          + unfold step0, sim_step; simpl. simpl in Hm. apply orb_false_elim in Hm. destruct Hm as [_ Hm].
            split; [lia|]. split; [exact Hm | discriminate]. }
      destruct Hsh as (Hsh & Hnm & Hne).
      apply one_step; auto.
      { unfold o; destruct (v_lt2 (c_version c)); [exact I|]. destruct (Nat.leb 3 (length (stk s))); exact I. }
      intros r' HI'. change (sim_step (c_version c) s (tk o)) with (step0 (c_version c) s o) in *.
      assert (Hf' : length (stk (step0 (c_version c) s o)) <= f) by lia.
      specialize (IH c P _ r' Hu HI' Hnm Hf' rest). rewrite Ecl in IH. cbn [fst snd] in IH. apply IH.
      intros s2 r2 HI2 Hm2 Hl1 Hl2 Hne2 E. apply Hrest; auto; [lia|].
      cbn [collapse]. unfold stack_len. apply Nat.ltb_lt in Hlt. rewrite Hlt. fold o. rewrite Ecl. exact E.
    + apply Nat.ltb_ge in Hlt. cbn [fst map app]. apply Hrest; auto.
      cbn [collapse]. unfold stack_len. apply Nat.ltb_ge in Hlt. rewrite Hlt. reflexivity.
Qed.

Lemma stop_step : forall v s r k,
  Inv s r -> stk s = [k] ->
  exists r', ref_step r (tk STOP) = Some r' /\ req_ok r (tk STOP) = true /\ memo_ok r (tk STOP) = true
          /\ Inv (sim_step v s (tk STOP)) r' /\ rstk r' = [] /\ stk (sim_step v s (tk STOP)) = [].
Proof.
  intros v [st m pe] [rst rmk rm] k [HF HM HK HC] Hst. simpl in *. subst st.
  inversion HF as [|k0 rk st0 rst0 Hc HF0]; subst. inversion HF0; subst.
  unfold ref_step, req_ok, memo_ok, sim_step; cbn.
  eexists; split; [reflexivity|]. split; [reflexivity|]. split; [reflexivity|].
  split; [|split; reflexivity].
  constructor; simpl; auto. lia.
Qed.

Definition cleanup_parts (v : version) (s : sim) :=
  let cm := close_marks (S (stack_len s)) v s in
  let cl := collapse (S (stack_len (snd cm))) v (snd cm) in
  let s2 := snd cl in
  let p3 := match stk s2 with
            | [] => ([NONE], step0 v s2 NONE)
            | _ => ([], s2)
            end in
  let s3 := snd p3 in
  let p4 := match stk s3 with
            | KMark :: r => match r with
                            | [] => ([NONE], step0 v (with_stk s3 []) NONE)
                            | _ => ([], with_stk s3 r)
                            end
            | _ => ([], s3)
            end in
  (cm, cl, p3, p4).

Lemma cleanup_unfold : forall v s,
  let '(cm, cl, p3, p4) := cleanup_parts v s in
  cleanup_for_stop v s = (fst cm ++ fst cl ++ fst p3 ++ fst p4, snd p4).
Proof.
  intros v s. unfold cleanup_parts, cleanup_for_stop.
  destruct (close_marks (S (stack_len s)) v s) as [ops1 s1]. cbn [snd fst].
  destruct (collapse (S (stack_len s1)) v s1) as [ops2 s2]. cbn [snd fst].
  destruct (stk s2) as [|k2 r2] eqn:E2; cbn [snd fst].
  - destruct (stk (step0 v s2 NONE)) as [|k3 r3] eqn:E3; [reflexivity|].
    destruct k3; try reflexivity. destruct r3; reflexivity.
  - rewrite E2. destruct k2; try reflexivity. destruct r2; reflexivity.
Qed.


Definition EndP (s : sim) (r : rstate) : Prop := stk s = [] /\ rstk r = [].

Lemma stop_lockstep : forall v s r k, Inv s r -> stk s = [k] -> lockstep v EndP s r [tk STOP].
Proof.
  intros v s r k HI Hst. destruct (stop_step v s r k HI Hst) as (r' & H1 & H2 & H3 & H4 & H5 & H6).
  simpl. exists r'. split; [exact H1|]. split; [exact H2|]. split; [exact H3|]. split; [exact H4|].
  split; assumption.
Qed.

Theorem tail_lockstep : forall c s r,
  c_unsafe c = false -> Inv s r ->
  lockstep (c_version c) EndP s r (map tk (fst (cleanup_for_stop (c_version c) s)) ++ [tk STOP]).
Proof.
  intros c s r Hu HI.
  pose proof (cleanup_unfold (c_version c) s) as Hcu. unfold cleanup_parts in Hcu. cbv zeta in Hcu.
  rewrite Hcu. cbn [fst]. clear Hcu.
  rewrite !map_app, <- !app_assoc.
  apply close_marks_spec; auto.
  { unfold stack_len. pose proof (nmarks_le (stk s)). lia. }
  intros s1 r1 HI1 Hm1 _ E1. rewrite E1.
  apply collapse_spec; auto.
  intros s2 r2 HI2 Hm2 Hl2 _ _ E2. rewrite E2.
  destruct (stk s2) as [|k2 [|k2' st2]] eqn:Es2; [| |simpl in Hl2; lia].
  - (* empty: NONE, then STOP *)
    cbn [fst snd map app].
    assert (E3 : stk (step0 (c_version c) s2 NONE) = [KNone]).
    { unfold step0, sim_step; simpl. rewrite Es2. reflexivity. }
    rewrite E3. cbn [fst map app].
    apply one_step; auto; [exact I|].
    intros r3 HI3. eapply stop_lockstep; [exact HI3 | exact E3].
  - (* one item *)
    cbn [fst snd map app]. rewrite Es2.
    assert (Ek : is_mark k2 = false).
    { unfold has_mark in Hm2. rewrite Es2 in Hm2. simpl in Hm2. rewrite orb_false_r in Hm2. exact Hm2. }
    destruct k2; try discriminate Ek; cbn [fst map app]; (eapply stop_lockstep; [exact HI2 | exact Es2]).
Qed.

(* ---------- whole runs ---------- *)
Definition s_start (c : config) : sim :=
  {| stk := []; memo := []; proto_emitted := negb (v_lt2 (c_version c)) |}.

Lemma Inv_start : forall c, Inv (s_start c) rinit.
Proof. intro c; constructor; simpl; auto. intros i k H; destruct i; discriminate H. Qed.

Lemma noop_step : forall v P s o a rest r0,
  (o = PROTO \/ o = FRAME) -> Inv s r0 ->
  (forall r', Inv s r' -> rstk r' = rstk r0 -> rmemo r' = rmemo r0 -> lockstep v P s r' rest) ->
  lockstep v P s r0 ((o, a) :: rest).
Proof.
  intros v P s o a rest r0 Ho HI0 Hk. simpl.
  assert (Hs : sim_step v s (o, a) = s) by (destruct Ho; subst o; reflexivity).
  assert (Hr : ref_step r0 (o, a) = Some {| rstk := rstk r0; rmarks := rmarks r0; rmemo := rmemo r0 |}).
  { destruct Ho; subst o; unfold ref_step; cbn; reflexivity. }
  eexists. split; [exact Hr|]. split; [destruct Ho; subst o; reflexivity|].
  split; [destruct Ho; subst o; reflexivity|]. rewrite Hs.
  assert (HI1 : Inv s {| rstk := rstk r0; rmarks := rmarks r0; rmemo := rmemo r0 |}).
  { destruct HI0; constructor; auto. }
  split; [exact HI1|]. apply Hk; auto.
Qed.

Lemma header_lockstep : forall c P framed n s r rest,
  Inv s r -> (forall r', Inv s r' -> rstk r' = rstk r -> rmemo r' = rmemo r -> lockstep (c_version c) P s r' rest) ->
  lockstep (c_version c) P s r (header c framed n ++ rest).
Proof.
  intros c P framed n s r rest HI Hrest. unfold header.
  destruct (v_lt2 (c_version c)); destruct framed; cbn [app].
  - apply noop_step; [tauto | exact HI | exact Hrest].
  - apply Hrest; auto.
  - apply noop_step; [tauto | exact HI |]. intros r1 HI1 E1 E1'.
    apply noop_step; [tauto | exact HI1 |]. intros r2 HI2 E2 E2'.
    apply Hrest; [exact HI2 | congruence | congruence].
  - apply noop_step; [tauto | exact HI | exact Hrest].
Qed.

(* the simulated state after the first n tokens of a run *)
Definition sim_after (c : config) (ts : list token) (n : nat) : sim :=
  run_steps (c_version c) (s_start c) (firstn n ts).

Theorem run_lockstep : forall c framed steps,
  safeb c = true -> run_R c framed steps ->
  lockstep (c_version c) EndP (s_start c) rinit (run_tokens c framed steps).
Proof.
  intros c framed steps Hs (Hfr & HT & Hb).
  pose proof (safeb_unsafe _ Hs) as Hu.
  unfold run_tokens. cbv zeta.
  apply header_lockstep; [apply Inv_start|].
  intros r0 HI0 _ _.
  destruct (body_lockstep c EndP
              (map (fun o => (o, A0)) (fst (cleanup_for_stop (c_version c)
                 (run_steps (c_version c) (s_start c) (map rs_tok steps)))) ++ [(STOP, A0)])
              steps (s_start c) r0 Hs HI0 Hb) as [Hl _]; [|exact Hl].
  intros s' r' HI' E. subst s'.
  apply (tail_lockstep c _ r' Hu HI').
Qed.

(* ---------- consequences of a lockstep run ---------- *)
Lemma lockstep_accepts : forall v ts s, lockstep v EndP s rinit ts -> Inv s rinit -> ref_accepts ts = true.
Proof.
  intros v ts s Hl HI. destruct (lockstep_run _ _ _ _ _ Hl HI) as (r1 & Hr & _ & _ & [_ He]).
  unfold ref_accepts. rewrite Hr, He. reflexivity.
Qed.

Lemma lockstep_req : forall v P ts s r, lockstep v P s r ts -> Inv s r -> exists r1, ref_run_req r ts = Some r1.
Proof.
  intros v P ts s r Hl HI. destruct (lockstep_run _ _ _ _ _ Hl HI) as (r1 & _ & Hr & _). exists r1; exact Hr.
Qed.

Lemma lockstep_memo : forall v P ts s r, lockstep v P s r ts -> memo_run r ts = true.
Proof.
  induction ts as [|t ts IH]; simpl; intros s r H; [reflexivity|].
  destruct H as (r' & Hs & Hq & Hm & HI' & Hl). rewrite Hm, Hs. simpl. eapply IH; exact Hl.
Qed.

Lemma lockstep_prefix : forall v P ts s r, lockstep v P s r ts -> Inv s r ->
  forall n, exists rn, ref_run r (firstn n ts) = Some rn /\ Inv (run_steps v s (firstn n ts)) rn.
Proof.
  induction ts as [|t ts IH]; intros s r H HI n.
  - rewrite firstn_nil. exists r; split; [reflexivity | exact HI].
  - destruct n as [|n]; [exists r; split; [reflexivity | exact HI]|].
    simpl in H. destruct H as (r' & Hs & Hq & Hm & HI' & Hl).
    destruct (IH _ _ Hl HI' n) as (rn & Hrn & HIn).
    exists rn. simpl. rewrite Hs. split; assumption.
Qed.

Lemma C_compatb : forall k rk, C k rk -> compatb k rk = true.
Proof. intros k rk H; destruct k, rk; try discriminate H; reflexivity. Qed.

Lemma Inv_invb : forall s r, Inv s r -> invb s r = true.
Proof.
  intros s r [HF HM _ _]. unfold invb. apply andb_true_intro; split.
  - induction HF as [|k rk st rst Hc HF IH]; simpl; [reflexivity|]. rewrite (C_compatb _ _ Hc), IH. reflexivity.
  - induction HM as [|[i k] [j rk] m rm [Hi [Hc _]] HM IH]; simpl; [reflexivity|].
    simpl in Hi, Hc. subst j. rewrite N.eqb_refl, (C_compatb _ _ Hc), IH. reflexivity.
Qed.
