(* Facts about the front-end mappings (C13). *)
From Coq Require Import List NArith ZArith Bool Lia Arith FinFun.
Import ListNotations.
From PF Require Import Opcodes Config Sim Lex Entropy Mutators Gen Front.
From PF.proofs Require Import LexRT.
Local Open Scope N_scope.

Lemma batch_eq_single : forall a idx, cli_batch a idx = cli_single a.
Proof. reflexivity. Qed.

Lemma version_rule : forall a,
  (forall p v, a_protocol a = Some p -> version_of_N p = Some v -> cli_version a = Some v)
  /\ (forall s, a_protocol a = None -> a_seed a = Some s ->
        exists v, cli_version a = Some v /\ vnum v = s mod 6).
Proof.
  intro a. split.
  - intros p v Hp Hv. unfold cli_version. rewrite Hp, Hv. reflexivity.
  - intros s Hp Hs. unfold cli_version. rewrite Hp, Hs.
    pose proof (N.mod_lt s 6 ltac:(discriminate)) as H.
    destruct (s mod 6) as [|q] eqn:E; [exists V0; split; reflexivity|].
    destruct q as [[[|q|]|[q|q|]|]|[[q|q|]|[q|q|]|]|]; try lia; eexists; split; reflexivity.
Qed.

Lemma print_N_inj : forall a b, print_N a = print_N b -> a = b.
Proof.
  intros a b H. destruct (print_N_spec a) as (_ & _ & Ha). destruct (print_N_spec b) as (_ & _ & Hb).
  rewrite H in Ha. congruence.
Qed.

Lemma batch_file_inj : forall a b, batch_file a = batch_file b -> a = b.
Proof. intros a b H. unfold batch_file in H. apply app_inv_tail in H. apply print_N_inj. exact H. Qed.

Lemma batch_files_spec : forall n,
  length (batch_files n) = N.to_nat n /\ NoDup (batch_files n)
  /\ (forall f, In f (batch_files n) <-> exists i, i < n /\ f = batch_file i).
Proof.
  intro n. unfold batch_files. split; [rewrite map_length, seq_length; reflexivity|]. split.
  - apply FinFun.Injective_map_NoDup; [|apply seq_NoDup].
    intros x y H. apply batch_file_inj in H. lia.
  - intro f. rewrite in_map_iff. split.
    + intros (i & <- & Hi). apply in_seq in Hi. exists (N.of_nat i). split; [lia | reflexivity].
    + intros (i & Hi & ->). exists (N.to_nat i). split; [rewrite N2Nat.id; reflexivity | apply in_seq; lia].
Qed.

Lemma create_all_safe : forall ks ms, create_all false ks = Some ms ->
  forallb (fun m => negb (mutator_unsafe_mode m)) ms = true.
Proof.
  induction ks as [|k ks IH]; intros ms H; [inversion H; reflexivity|].
  cbn [create_all] in H. destruct (create false k) as [m|] eqn:Ek; [|discriminate H].
  destruct (create_all false ks) as [ms'|] eqn:Er; [|discriminate H]. inversion H; subst.
  cbn [forallb]. rewrite (IH ms' eq_refl). destruct k; inversion Ek; subst; reflexivity.
Qed.

(* without --unsafe-mutations the CLI builds a safe configuration (the premise of C01-C03, C05, C17) *)
Lemma cli_safe : forall a c, a_unsafe a = false -> cli_config a = Some c -> safeb c = true.
Proof.
  intros a c Hu H. unfold cli_config in H. destruct (cli_version a) as [v|]; [|discriminate H].
  rewrite Hu in H. destruct (create_all false (expand a)) as [ms|] eqn:E; [|discriminate H].
  inversion H; subst. unfold safeb. cbn [c_unsafe c_mutators].
  rewrite (create_all_safe _ _ E). destruct ms; reflexivity.
Qed.

Lemma expand_all : forall a, existsb is_all (a_mutators a) = true -> expand a = all_mutators (a_unsafe a).
Proof. intros a H. unfold expand. rewrite H. reflexivity. Qed.

Lemma all_mutators_create : forall u, exists ms, create_all u (all_mutators u) = Some ms /\ length ms = length (all_mutators u).
Proof. destruct u; eexists; split; reflexivity. Qed.

Lemma cli_config_total : forall a, cli_version a <> None -> exists c, cli_config a = Some c.
Proof.
  intros a Hv. unfold cli_config. destruct (cli_version a) as [v|]; [|contradiction].
  assert (H : exists ms, create_all (a_unsafe a) (expand a) = Some ms).
  { unfold expand. destruct (existsb is_all (a_mutators a)) eqn:E.
    - destruct (all_mutators_create (a_unsafe a)) as (ms & -> & _). eauto.
    - induction (a_mutators a) as [|k ks IH]; [eexists; reflexivity|].
      cbn [existsb] in E. apply orb_false_elim in E. destruct E as [Ek Er].
      destruct (IH Er) as (ms & Hms). cbn [create_all]. rewrite Hms.
      destruct k; try discriminate Ek; eexists; reflexivity. }
  destruct H as (ms & ->). eauto.
Qed.

(* python: changing the opcode range leaves every other setting in force *)
Lemma py_setter_preserves : forall g mn mx,
  let g' := py_set_opcode_range g mn mx in
  py_seed g' = py_seed g /\ c_version (py_cfg g') = c_version (py_cfg g)
  /\ c_mutators (py_cfg g') = c_mutators (py_cfg g) /\ c_rate (py_cfg g') = c_rate (py_cfg g)
  /\ c_unsafe (py_cfg g') = c_unsafe (py_cfg g) /\ c_ext (py_cfg g') = c_ext (py_cfg g)
  /\ c_buf (py_cfg g') = c_buf (py_cfg g) /\ c_min (py_cfg g') = mn /\ c_max (py_cfg g') = mx.
Proof. intros. repeat split. Qed.

Lemma py_mutate_bounded : forall e g data max_size out,
  py_mutate e g data max_size = Ok out ->
  N.of_nat (length out) <= max_size
  /\ exists full, generate e (py_cfg g) (SrcBytes data) = Ok full /\ out = firstn (N.to_nat max_size) full.
Proof.
  intros e g data max_size out H. unfold py_mutate in H.
  destruct (generate e (py_cfg g) (SrcBytes data)) as [full|w]; [|discriminate H]. inversion H; subst.
  split; [rewrite firstn_length; lia | eauto].
Qed.

Lemma action_refuses_both : forall i d f, i_output_dir i = Some d -> i_output_file i = Some f -> action_run i = ARefuse.
Proof. intros i d f H1 H2. unfold action_run. rewrite H1, H2. reflexivity. Qed.
