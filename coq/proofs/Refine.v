(* The central refinement: the simulated machine (Sim) is mirrored by the reference
   machine (Ref) step by step. *)
From Coq Require Import List NArith ZArith Bool Lia Arith.
Import ListNotations.
From PF Require Import Opcodes RefTable Config Sim Ref.

Definition compat (k : kind) (r : rkind) : bool :=
  match k, r with
  | KInt, (RInt | RIntOrBool) => true
  | KBool, (RBool | RIntOrBool) => true
  | KFloat, RFloat => true
  | KNone, RNone => true
  | KString, (RStr | RBytesOrStr | RAny) => true
  | KBytes, (RBytes | RBytesOrStr | RBuffer) => true
  | KByteArray, RByteArray => true
  | KList, RList => true
  | KTuple, RTuple => true
  | KDict, RDict => true
  | KSet, RSet => true
  | KFrozenSet, RFrozenSet => true
  | KMark, RMark => true
  | KCallable, (RGlobal | RAny) => true
  | KInstance, RObject => true
  | _, _ => false
  end.

Definition C (k : kind) (r : rkind) : Prop := compat k r = true.

Fixpoint count_rmarks (st : list rkind) : nat :=
  match st with
  | [] => 0
  | k :: r => (if r_is_mark k then 1 else 0) + count_rmarks r
  end.

Definition memo_rel (a : N * kind) (b : N * rkind) : Prop :=
  fst a = fst b /\ C (snd a) (snd b) /\ is_mark (snd a) = false.

Definition keys_seq (m : list (N * kind)) : Prop :=
  forall i k, nth_error m i = Some k -> fst k = N.of_nat i.

Record Inv (s : sim) (r : rstate) : Prop := {
  inv_stk : Forall2 C (stk s) (rstk r);
  inv_memo : Forall2 memo_rel (memo s) (rmemo r);
  inv_keys : keys_seq (memo s);
  inv_marks : count_rmarks (rstk r) <= rmarks r
}.

Lemma Inv_init : Inv sim_init rinit.
Proof.
  constructor; simpl; auto.
  intros i k H; destruct i; discriminate H.
Qed.

(* ---------- basic facts ---------- *)
Lemma C_mark_l : forall rk, C KMark rk -> rk = RMark.
Proof. intros rk H; destruct rk; try discriminate H; reflexivity. Qed.

Lemma C_mark_iff : forall k rk, C k rk -> is_mark k = r_is_mark rk.
Proof. intros k rk H; destruct k, rk; try discriminate H; reflexivity. Qed.

Lemma C_not_mark : forall k rk, C k rk -> is_mark k = false -> r_is_mark rk = false.
Proof. intros k rk H E; rewrite <- (C_mark_iff _ _ H); exact E. Qed.

Lemma F2_length : forall st rst, Forall2 C st rst -> length st = length rst.
Proof. induction 1; simpl; congruence. Qed.

Lemma count_rmarks_app : forall a b, count_rmarks (a ++ b) = count_rmarks a + count_rmarks b.
Proof. induction a as [|x a IH]; simpl; intros; [reflexivity | rewrite IH; lia]. Qed.

Lemma count_rmarks_skipn : forall n l, count_rmarks (skipn n l) <= count_rmarks l.
Proof.
  induction n as [|n IH]; intros l; simpl; [lia|].
  destruct l as [|x l]; simpl; [lia|]. specialize (IH l); lia.
Qed.

(* ---------- MARK-popping ---------- *)
Lemma has_mark_drop : forall st rst,
  Forall2 C st rst -> existsb is_mark st = true ->
  exists rest, drop_through_mark rst = Some rest
            /\ Forall2 C (pop_to_mark st) rest
            /\ S (count_rmarks rest) <= count_rmarks rst.
Proof.
  induction 1 as [|k rk st rst Hc HF IH]; simpl; intro Hm; [discriminate|].
  destruct (is_mark k) eqn:Ek.
  - destruct k; try discriminate Ek. apply C_mark_l in Hc; subst rk; simpl.
    eexists; repeat split; eauto.
  - simpl in Hm. destruct (IH Hm) as (rest & Hd & HF' & Hcnt).
    pose proof (C_not_mark _ _ Hc Ek) as Er.
    destruct rk; try discriminate Er; destruct k; try discriminate Ek;
      simpl; (eexists; repeat split; [exact Hd | exact HF' | lia]).
Qed.

(* the same split seen from the requirement side *)
Lemma split_mark_cons_nm : forall rk rst a b,
  r_is_mark rk = false -> split_mark rst = Some (a, b) -> split_mark (rk :: rst) = Some (rk :: a, b).
Proof. intros rk rst a b E H; simpl; rewrite H; destruct rk; try discriminate E; reflexivity. Qed.

Lemma count_to_mark_cons_nm : forall k st,
  is_mark k = false -> count_to_mark (k :: st) = match count_to_mark st with Some n => Some (S n) | None => None end.
Proof. intros k st E; destruct k; try discriminate E; reflexivity. Qed.

Lemma pop_to_mark_cons_nm : forall k st, is_mark k = false -> pop_to_mark (k :: st) = pop_to_mark st.
Proof. intros k st E; destruct k; try discriminate E; reflexivity. Qed.

Lemma below_mark_cons_nm : forall k st, is_mark k = false -> below_mark (k :: st) = below_mark st.
Proof. intros k st E; destruct k; try discriminate E; reflexivity. Qed.

Lemma above_mark_cons_nm : forall k st, is_mark k = false ->
  above_mark (k :: st) = match st with KMark :: _ => Some k | _ => above_mark st end.
Proof. intros k st E; destruct k; try discriminate E; reflexivity. Qed.

Lemma has_mark_split : forall st rst,
  Forall2 C st rst -> existsb is_mark st = true ->
  exists a b, split_mark rst = Some (a, b)
           /\ count_to_mark st = Some (length a)
           /\ Forall2 C (pop_to_mark st) b
           /\ (forall k, below_mark st = Some k -> exists rk, hd_error b = Some rk /\ C k rk)
           /\ (forall k, above_mark st = Some k -> exists rk, hd_error (rev a) = Some rk /\ C k rk)
           /\ drop_through_mark rst = Some b
           /\ count_rmarks rst = S (count_rmarks b).
Proof.
  induction 1 as [|k rk st rst Hc HF IH]; intro Hm; [discriminate Hm|].
  destruct (is_mark k) eqn:Ek.
  - destruct k; try discriminate Ek. apply C_mark_l in Hc; subst rk.
    exists [], rst; simpl; repeat split; auto.
    + intros k Hk. destruct HF as [|k1 rk1 st rst Hc1 HF]; [discriminate|].
      inversion Hk; subst. eexists; split; [reflexivity | exact Hc1].
    + intros k Hk; discriminate Hk.
  - simpl in Hm; rewrite Ek in Hm; simpl in Hm.
    destruct (IH Hm) as (a & b & Hs & Hcnt & HF' & Hb & Ha & Hd & Hn).
    pose proof (C_not_mark _ _ Hc Ek) as Er.
    exists (rk :: a), b.
    rewrite (split_mark_cons_nm _ _ _ _ Er Hs), (count_to_mark_cons_nm _ _ Ek), Hcnt,
            (pop_to_mark_cons_nm _ _ Ek), (below_mark_cons_nm _ _ Ek), (above_mark_cons_nm _ _ Ek).
    assert (Hd' : drop_through_mark (rk :: rst) = Some b).
    { destruct rk; try discriminate Er; exact Hd. }
    assert (Hn' : count_rmarks (rk :: rst) = S (count_rmarks b)).
    { simpl. rewrite Er, Hn. reflexivity. }
    repeat split; auto.
    intros k0 Hk0.
    destruct st as [|k1 st1]; [discriminate Hm|].
    destruct (is_mark k1) eqn:Ek1.
    + destruct k1; try discriminate Ek1. inversion Hk0; subst k0.
      inversion HF as [|? rk1 ? rst1 Hc1 HF1]; subst.
      apply C_mark_l in Hc1; subst rk1. simpl in Hs. inversion Hs; subst a b.
      simpl. eexists; split; [reflexivity | exact Hc].
    + assert (Hk0' : above_mark (k1 :: st1) = Some k0).
      { destruct k1; try discriminate Ek1; exact Hk0. }
      destruct (Ha _ Hk0') as (rk0 & Hh & Hc0).
      exists rk0; split; [|exact Hc0].
      simpl. destruct (rev a) as [|x l] eqn:Era; [discriminate Hh|].
      simpl in Hh. inversion Hh; subst x. reflexivity.
Qed.

(* ---------- memo ---------- *)
Lemma memo_rel_length : forall m rm, Forall2 memo_rel m rm -> length m = length rm.
Proof. induction 1; simpl; congruence. Qed.

Lemma memo_get_rel : forall m rm, Forall2 memo_rel m rm -> forall i,
  match memo_get i m, rmemo_get i rm with
  | Some k, Some rk => C k rk /\ is_mark k = false
  | None, None => True
  | _, _ => False
  end.
Proof.
  induction 1 as [|[j k] [j' rk] m rm [Hj Hc] HF IH]; intro i; simpl; [exact I|].
  simpl in Hj, Hc; subst j'. destruct (N.eqb i j); [exact Hc | apply IH].
Qed.

Lemma keys_seq_get_len : forall m, keys_seq m -> forall i, (N.of_nat (length m) <= i)%N -> memo_get i m = None.
Proof.
  intros m. induction m as [|[j k] m IH] using rev_ind; intros Hk i Hi; [reflexivity|].
  assert (Hk' : keys_seq m).
  { intros n x Hn. apply Hk. rewrite nth_error_app1; [exact Hn|]. apply nth_error_Some; congruence. }
  assert (Hj : j = N.of_nat (length m)).
  { specialize (Hk (length m) (j, k)). rewrite nth_error_app2 in Hk by lia.
    rewrite Nat.sub_diag in Hk. apply (Hk eq_refl). }
  rewrite app_length in Hi; simpl in Hi.
  assert (Hget : forall (l1 l2 : list (N * kind)), memo_get i (l1 ++ l2) =
            match memo_get i l1 with Some x => Some x | None => memo_get i l2 end).
  { induction l1 as [|[a b] l1 IH1]; intro l2; simpl; [reflexivity|]. destruct (N.eqb i a); [reflexivity | apply IH1]. }
  rewrite Hget, IH; [|exact Hk'|lia]. simpl.
  destruct (N.eqb i j) eqn:E; [|reflexivity]. apply N.eqb_eq in E. lia.
Qed.

Lemma memo_put_fresh : forall (A : Set) i (k : A) m, memo_get i m = None -> memo_put i k m = m ++ [(i, k)].
Proof.
  induction m as [|[j k0] m IH]; simpl; intro H; [reflexivity|].
  destruct (N.eqb i j); [discriminate H|]. rewrite IH by exact H. reflexivity.
Qed.

Lemma keys_seq_snoc : forall m k, keys_seq m -> keys_seq (m ++ [(N.of_nat (length m), k)]).
Proof.
  intros m k Hk i x Hx.
  destruct (Nat.lt_ge_cases i (length m)) as [Hlt|Hge].
  - rewrite nth_error_app1 in Hx by exact Hlt. apply Hk; exact Hx.
  - rewrite nth_error_app2 in Hx by exact Hge.
    destruct (i - length m) as [|d] eqn:Ed; simpl in Hx.
    + inversion Hx; subst x; simpl. f_equal; lia.
    + destruct d; discriminate Hx.
Qed.

Lemma rmemo_get_none_of_sim : forall m rm i, Forall2 memo_rel m rm -> memo_get i m = None -> rmemo_get i rm = None.
Proof.
  intros m rm i HF H. pose proof (memo_get_rel _ _ HF i) as R. rewrite H in R.
  destruct (rmemo_get i rm); [contradiction | reflexivity].
Qed.

(* what the envelope says about a token's argument, as far as the stack/memo discipline
   is concerned: PUT-family writes the next free index, GET-family (safe mode) an existing one *)
Definition tok_env (s : sim) (t : token) : Prop :=
  match fst t with
  | PUT | BINPUT | LONG_BINPUT => snd t = AU (memo_len s)
  | GET | BINGET | LONG_BINGET => exists i, snd t = AU i /\ memo_has s i = true
  | _ => True
  end.

Ltac invF2 :=
  repeat match goal with
  | H : Forall2 C (_ :: _) _ |- _ => inversion H; subst; clear H
  | H : Forall2 C [] _ |- _ => inversion H; subst; clear H
  end.

Ltac bsplit :=
  repeat match goal with
  | H : _ && _ = true |- _ => apply andb_prop in H; destruct H
  end.

Ltac kind_of_guard :=
  repeat match goal with
  | H : ?p ?k = true |- _ =>
      is_var k; match type of k with kind => destruct k; try discriminate H; clear H end
  | H : negb (?p ?k) = true |- _ =>
      is_var k; match type of k with kind => destruct k; try discriminate H; clear H end
  end.

Ltac rk_of_C :=
  repeat match goal with
  | H : C ?k ?rk |- _ => is_var rk; is_constructor k; destruct rk; try discriminate H; clear H
  end.

Ltac marks_lia :=
  simpl count_rmarks in *;
  repeat match goal with
  | H : context [if r_is_mark ?x then _ else _] |- _ => destruct (r_is_mark x) eqn:?
  | |- context [if r_is_mark ?x then _ else _] => destruct (r_is_mark x) eqn:?
  end; simpl in *; try lia.

Ltac accept3 := eexists; split; [reflexivity|]; split; [|split]; [try reflexivity | try reflexivity | ].

Ltac f2 := repeat first [assumption | apply Forall2_cons | apply Forall2_nil | reflexivity].
Ltac mkinv := constructor; simpl; [ try f2 | auto | auto | try marks_lia ].

Section Step.
Variables (c : config) (st : list kind) (m : list (N * kind)) (pe : bool)
          (rst : list rkind) (rmk : nat) (rm : list (N * rkind)) (a : arg).
Hypothesis Hsafe : c_unsafe c = false.
Hypothesis HF : Forall2 C st rst.
Hypothesis HM : Forall2 memo_rel m rm.
Hypothesis HK : keys_seq m.
Hypothesis HC : count_rmarks rst <= rmk.

Let S_ := {| stk := st; memo := m; proto_emitted := pe |}.
Let R_ := {| rstk := rst; rmarks := rmk; rmemo := rm |}.

Definition StepGoal (o : opcode) : Prop :=
  can_emit c S_ o = true -> tok_env S_ (o, a) ->
  exists r', ref_step R_ (o, a) = Some r' /\ req_ok R_ (o, a) = true /\ memo_ok R_ (o, a) = true
          /\ Inv (sim_step (c_version c) S_ (o, a)) r'.

Ltac start := unfold StepGoal, S_, R_; intros Hg He; simpl in Hg, He.
Ltac unf := unfold ref_step, req_ok, memo_ok, sim_step; cbn.

(* opcodes that only push one non-MARK value *)
Ltac t_push := start; unf; accept3; mkinv.

Lemma st_POP : StepGoal POP.
Proof.
  start. destruct st as [|k0 st0]; [discriminate Hg|]. invF2.
  destruct (is_mark k0) eqn:Ek.
  - destruct k0; try discriminate Ek. rk_of_C.
    destruct rmk as [|rmk']; [simpl in HC; lia|].
    unf. accept3. mkinv.
  - match goal with H : C k0 ?y |- _ => pose proof (C_not_mark _ _ H Ek) as Er end.
    unfold ref_step; cbn. rewrite Er. cbn. accept3. mkinv.
Qed.

Lemma st_DUP : StepGoal DUP.
Proof.
  start. destruct st as [|k0 st0]; [discriminate Hg|]. invF2. simpl in Hg.
  unfold top_not_mark in Hg; simpl in Hg.
  destruct (is_mark k0) eqn:Ek; [discriminate Hg|].
  match goal with H : C k0 ?y |- _ => pose proof (C_not_mark _ _ H Ek) as Er end.
  unfold ref_step, req_ok, memo_ok, sim_step; cbn. rewrite Er, Ek. cbn. accept3. mkinv.
Qed.

Lemma st_MARK : StepGoal MARK.
Proof. t_push. Qed.

Ltac unfq := unfold is_list_at, is_dict_at, is_tuple_at, is_string_at, is_instance_at, is_callable_at,
  is_kind_at, peek_at, top_not_mark, stack_len in *; simpl in *.
Ltac fx_tail := invF2; unfq; bsplit; unfq; kind_of_guard; rk_of_C; unf; accept3; mkinv.
Ltac d1 := match goal with H : Forall2 C ?l _ |- _ => is_var l;
             let k := fresh "k" in let t := fresh "tl" in
             destruct l as [|k t]; [simpl in *; discriminate|]; inversion H; subst; clear H end.
Ltac fixed1 := unfold StepGoal, S_, R_; intros Hg He; simpl in Hg, He; d1; fx_tail.
Ltac fixed2 := unfold StepGoal, S_, R_; intros Hg He; simpl in Hg, He; d1; d1; fx_tail.
Ltac fixed3 := unfold StepGoal, S_, R_; intros Hg He; simpl in Hg, He; d1; d1; d1; fx_tail.

Lemma st_TUPLE1 : StepGoal TUPLE1. Proof. fixed1. Qed.
Lemma st_TUPLE2 : StepGoal TUPLE2. Proof. fixed2. Qed.
Lemma st_TUPLE3 : StepGoal TUPLE3. Proof. fixed3. Qed.
Lemma st_BINPERSID : StepGoal BINPERSID. Proof. fixed1. Qed.
Lemma st_APPEND : StepGoal APPEND. Proof. fixed2. Qed.
Lemma st_SETITEM : StepGoal SETITEM. Proof. fixed3. Qed.
Lemma st_REDUCE : StepGoal REDUCE. Proof. fixed2. Qed.
Lemma st_NEWOBJ : StepGoal NEWOBJ. Proof. fixed2. Qed.
Lemma st_NEWOBJ_EX : StepGoal NEWOBJ_EX. Proof. fixed3. Qed.

Lemma st_BUILD : StepGoal BUILD.
Proof.
  unfold StepGoal, S_, R_; intros Hg He; simpl in Hg, He; d1; d1. invF2; unfq; bsplit; unfq.
  match goal with H : _ || _ = true |- _ => apply orb_prop in H; destruct H end;
    kind_of_guard; rk_of_C; unf; accept3; mkinv.
Qed.

Lemma st_STACK_GLOBAL : StepGoal STACK_GLOBAL.
Proof.
  unfold StepGoal, S_, R_; intros Hg He; simpl in Hg, He. rewrite Hsafe in Hg. d1; d1; fx_tail.
Qed.

Lemma st_READONLY_BUFFER : StepGoal READONLY_BUFFER.
Proof.
  unfold StepGoal, S_, R_; intros Hg He; simpl in Hg, He.
  apply andb_prop in Hg; destruct Hg as [_ Hg]. unfq.
  destruct st as [|k tl0]; [discriminate Hg|]. invF2. simpl in Hg.
  kind_of_guard; rk_of_C; unf; accept3; mkinv.
Qed.

(* ---- memo opcodes ---- *)
Lemma fresh_idx : memo_get (N.of_nat (length m)) m = None /\ rmemo_get (N.of_nat (length m)) rm = None.
Proof using HM HK.
  assert (H : memo_get (N.of_nat (length m)) m = None) by (apply keys_seq_get_len; [exact HK | apply N.le_refl]).
  split; [exact H | eapply rmemo_get_none_of_sim; eauto].
Qed.

Lemma memo_snoc_inv : forall k rk, C k rk -> is_mark k = false ->
  Forall2 memo_rel (m ++ [(N.of_nat (length m), k)]) (rm ++ [(N.of_nat (length m), rk)]).
Proof using HM.
  intros k rk Hc Ek. apply Forall2_app; [exact HM|]. constructor; [|constructor].
  split; [reflexivity | split; [exact Hc | exact Ek]].
Qed.

Ltac put_case :=
  unfold StepGoal, S_, R_; intros Hg He; simpl in Hg, He; unfold tok_env, memo_len in He; cbn in He; rewrite He;
  destruct st as [|k tl0]; [discriminate Hg|]; invF2; unfq; bsplit;
  destruct (is_mark k) eqn:Ek; [discriminate|];
  destruct fresh_idx as [Hs Hr];
  unfold ref_step, req_ok, memo_ok, sim_step; cbn; unfold tok_index; cbn;
  rewrite Hr, Ek; match goal with H : C k ?y |- _ => rewrite (C_not_mark _ _ H Ek) end; cbn; accept3;
  rewrite (memo_put_fresh _ _ _ _ Hs);
  constructor; simpl; [ f2 | apply memo_snoc_inv; assumption | apply keys_seq_snoc; exact HK | exact HC ].

Lemma st_PUT : StepGoal PUT. Proof. put_case. Qed.
Lemma st_BINPUT : StepGoal BINPUT. Proof. put_case. Qed.
Lemma st_LONG_BINPUT : StepGoal LONG_BINPUT. Proof. put_case. Qed.

Lemma st_MEMOIZE : StepGoal MEMOIZE.
Proof.
  unfold StepGoal, S_, R_; intros Hg He; simpl in Hg, He.
  destruct st as [|k tl0]; [discriminate Hg|]; invF2; unfq; bsplit.
  destruct (is_mark k) eqn:Ek; [discriminate|].
  match goal with H : C k ?y |- _ => pose proof (C_not_mark _ _ H Ek) as Er end.
  destruct fresh_idx as [Hs Hr].
  unfold ref_step, req_ok, memo_ok, sim_step; cbn. unfold memo_len; cbn.
  rewrite <- (memo_rel_length _ _ HM), Hr, Er; cbn. accept3.
  rewrite (memo_put_fresh _ _ _ _ Hs).
  constructor; simpl; [ f2 | apply memo_snoc_inv; assumption | apply keys_seq_snoc; exact HK | exact HC ].
Qed.

Ltac get_case :=
  unfold StepGoal, S_, R_; intros Hg He; simpl in Hg; unfold tok_env in He; cbn in He; destruct He as (i & Ha & Hi); rewrite Ha;
  unfold memo_has in Hi; simpl in Hi;
  pose proof (memo_get_rel _ _ HM i) as Hrel;
  destruct (memo_get i m) as [k|] eqn:Eg; [|discriminate Hi];
  destruct (rmemo_get i rm) as [rk|] eqn:Er; [|contradiction];
  destruct Hrel as [Hrel Hnm]; pose proof (C_not_mark _ _ Hrel Hnm) as Enm;
  unfold ref_step, req_ok, memo_ok, sim_step; cbn; unfold tok_index; cbn;
  rewrite Er, Eg; cbn; accept3;
  constructor; simpl; [f2 | auto | auto | rewrite Enm; simpl; exact HC].
Lemma st_GET : StepGoal GET. Proof. get_case. Qed.
Lemma st_BINGET : StepGoal BINGET. Proof. get_case. Qed.
Lemma st_LONG_BINGET : StepGoal LONG_BINGET. Proof. get_case. Qed.

(* ---- MARK-consuming opcodes ---- *)
Lemma mark_facts : has_mark S_ = true ->
  exists a b rmk', rmk = S rmk'
    /\ split_mark rst = Some (a, b) /\ drop_through_mark rst = Some b
    /\ count_to_mark st = Some (length a)
    /\ Forall2 C (pop_to_mark st) b /\ count_rmarks b <= rmk'
    /\ (forall k, below_mark st = Some k -> exists rk, hd_error b = Some rk /\ C k rk)
    /\ (forall k, above_mark st = Some k -> exists rk, hd_error (rev a) = Some rk /\ C k rk).
Proof.
  unfold has_mark, S_; simpl; intro Hm.
  destruct (has_mark_split _ _ HF Hm) as (a0 & b & Hs & Hcnt & HF' & Hb & Ha & Hd & Hn).
  destruct rmk as [|rmk']; [lia|].
  exists a0, b, rmk'. repeat split; auto. lia.
Qed.

Lemma dict_pop_even : forall n l, count_to_mark l = Some n -> Nat.even n = true -> dict_pop l = pop_to_mark l.
Proof.
  intro n. induction n as [n IH] using lt_wf_ind. intros l Hc He.
  destruct l as [|k l]; [reflexivity|].
  destruct (is_mark k) eqn:Ek; [destruct k; try discriminate Ek; reflexivity|].
  rewrite (count_to_mark_cons_nm _ _ Ek) in Hc.
  destruct (count_to_mark l) as [n1|] eqn:E1; [|discriminate Hc]. inversion Hc; subst n.
  destruct l as [|k1 l]; [discriminate E1|].
  destruct (is_mark k1) eqn:Ek1.
  { destruct k1; try discriminate Ek1. simpl in E1. inversion E1; subst n1. discriminate He. }
  rewrite (count_to_mark_cons_nm _ _ Ek1) in E1.
  destruct (count_to_mark l) as [n2|] eqn:E2; [|discriminate E1]. inversion E1; subst n1.
  rewrite (pop_to_mark_cons_nm _ _ Ek), (pop_to_mark_cons_nm _ _ Ek1).
  transitivity (dict_pop l); [destruct k; try discriminate Ek; reflexivity|].
  apply (IH n2); [lia | exact E2 | exact He].
Qed.

Ltac mark_simple :=
  unfold StepGoal; intros Hg He; simpl in Hg; bsplit;
  match goal with H : has_mark S_ = true |- _ => generalize (mark_facts H) end;
  intros (a0 & b & rmk' & Hrmk & Hs & Hd & Hcnt & HF' & Hcb & Hb & Ha);
  unfold S_, R_ in *; rewrite Hrmk;
  unfold ref_step, req_ok, memo_ok, sim_step; cbn; rewrite Hd; cbn; accept3;
  constructor; simpl; [f2 | auto | auto | lia].

Lemma st_TUPLE : StepGoal TUPLE. Proof. mark_simple. Qed.
Lemma st_LIST : StepGoal LIST. Proof. mark_simple. Qed.
Lemma st_FROZENSET : StepGoal FROZENSET. Proof. mark_simple. Qed.
Lemma st_POP_MARK : StepGoal POP_MARK. Proof. mark_simple. Qed.
Lemma st_INST : StepGoal INST. Proof. mark_simple. Qed.

Lemma st_DICT : StepGoal DICT.
Proof.
  unfold StepGoal; intros Hg He; simpl in Hg; bsplit.
  match goal with H : has_mark S_ = true |- _ => generalize (mark_facts H) end.
  intros (a0 & b & rmk' & Hrmk & Hs & Hd & Hcnt & HF' & Hcb & Hb & Ha).
  unfold S_, R_ in *; rewrite Hrmk.
  match goal with H : count_pos_even _ = true |- _ =>
    unfold count_pos_even, count_items_to_mark in H; simpl in H; rewrite Hcnt in H;
    apply andb_prop in H; destruct H as [Hpos Hev] end.
  unfold ref_step, req_ok, memo_ok, sim_step; cbn. rewrite Hd, Hs; cbn.
  rewrite (dict_pop_even _ _ Hcnt Hev).
  eexists; split; [reflexivity|]. split; [exact Hev|]. split; [reflexivity|].
  constructor; simpl; [f2 | auto | auto | lia].
Qed.

(* APPENDS / ADDITEMS / SETITEMS: the container sits directly below the MARK *)
Ltac below_all :=
  unfold StepGoal; intros Hg He; simpl in Hg; bsplit;
  match goal with H : has_mark S_ = true |- _ => generalize (mark_facts H) end;
  intros (a0 & b & rmk' & Hrmk & Hs & Hd & Hcnt & HF' & Hcb & Hb & Ha);
  unfold S_, R_ in *; rewrite Hrmk;
  unfold is_list_at_mark, is_dict_at_mark, is_set_at_mark in *;
  match goal with H : is_kind_at_mark _ _ = true |- _ =>
    unfold is_kind_at_mark in H; simpl in H;
    destruct (below_mark st) as [kb|] eqn:Eb; [|discriminate H];
    destruct (Hb kb eq_refl) as (rkb & Hhd & Hckb);
    destruct b as [|rkb' b']; [discriminate Hhd|]; simpl in Hhd; inversion Hhd; subst rkb';
    destruct kb; try discriminate H; destruct rkb; try discriminate Hckb
  end;
  unfold ref_step, req_ok, memo_ok, sim_step; cbn; rewrite Hd, Hs; cbn;
  accept3; inversion HF'; subst;
  constructor; simpl; [constructor; assumption | auto | auto | simpl in Hcb; lia].

Lemma st_APPENDS : StepGoal APPENDS. Proof. below_all. Qed.
Lemma st_ADDITEMS : StepGoal ADDITEMS. Proof. below_all. Qed.

Lemma st_SETITEMS : StepGoal SETITEMS.
Proof.
  unfold StepGoal; intros Hg He; simpl in Hg; bsplit;
  match goal with H : has_mark S_ = true |- _ => generalize (mark_facts H) end;
  intros (a0 & b & rmk' & Hrmk & Hs & Hd & Hcnt & HF' & Hcb & Hb & Ha);
  unfold S_, R_ in *; rewrite Hrmk;
  unfold is_list_at_mark, is_dict_at_mark, is_set_at_mark in *;
  match goal with H : is_kind_at_mark _ _ = true |- _ =>
    unfold is_kind_at_mark in H; simpl in H;
    destruct (below_mark st) as [kb|] eqn:Eb; [|discriminate H];
    destruct (Hb kb eq_refl) as (rkb & Hhd & Hckb);
    destruct b as [|rkb' b']; [discriminate Hhd|]; simpl in Hhd; inversion Hhd; subst rkb';
    destruct kb; try discriminate H; destruct rkb; try discriminate Hckb
  end.
  match goal with H : count_pos_even _ = true |- _ =>
    unfold count_pos_even, count_items_to_mark in H; simpl in H; rewrite Hcnt in H;
    apply andb_prop in H; destruct H as [Hpos Hev] end.
  unfold ref_step, req_ok, memo_ok, sim_step; cbn; rewrite Hd, Hs; cbn.
  rewrite (dict_pop_even _ _ Hcnt Hev).
  eexists; split; [reflexivity|]. split; [exact Hev|]. split; [reflexivity|].
  inversion HF'; subst.
  constructor; simpl; [constructor; assumption | auto | auto | simpl in Hcb; lia].
Qed.

Lemma st_OBJ : StepGoal OBJ.
Proof.
  unfold StepGoal; intros Hg He; simpl in Hg; bsplit.
  match goal with H : has_mark S_ = true |- _ => generalize (mark_facts H) end.
  intros (a0 & b & rmk' & Hrmk & Hs & Hd & Hcnt & HF' & Hcb & Hb & Ha).
  unfold S_, R_ in *; rewrite Hrmk.
  match goal with H : is_callable_above_mark _ = true |- _ =>
    unfold is_callable_above_mark in H; simpl in H;
    destruct (above_mark st) as [ka|] eqn:Ea; [|discriminate H];
    destruct (Ha ka eq_refl) as (rka & Hhd & Hcka) end.
  assert (Hsim : sim_step (c_version c) {| stk := st; memo := m; proto_emitted := pe |} (OBJ, a)
                 = with_stk {| stk := st; memo := m; proto_emitted := pe |} (KInstance :: pop_to_mark st)).
  { unfold sim_step; cbn. destruct st as [|k0 tl0]; [discriminate Ea|].
    destruct k0; try reflexivity. discriminate Ea. }
  rewrite Hsim.
  unfold ref_step, req_ok, memo_ok; cbn. rewrite Hd, Hs; cbn. rewrite Hhd.
  eexists; split; [reflexivity|]. split.
  { destruct ka; try discriminate; destruct rka; try discriminate Hcka; reflexivity. }
  split; [reflexivity|].
  constructor; simpl; [f2 | auto | auto | lia].
Qed.

Lemma st_all : forall o, StepGoal o.
Proof.
  intro o; destruct o;
  first
  [ exact st_POP | exact st_DUP | exact st_MARK | exact st_TUPLE1 | exact st_TUPLE2 | exact st_TUPLE3
  | exact st_BINPERSID | exact st_APPEND | exact st_SETITEM | exact st_REDUCE | exact st_NEWOBJ
  | exact st_NEWOBJ_EX | exact st_BUILD | exact st_STACK_GLOBAL | exact st_READONLY_BUFFER
  | exact st_PUT | exact st_BINPUT | exact st_LONG_BINPUT | exact st_MEMOIZE
  | exact st_GET | exact st_BINGET | exact st_LONG_BINGET
  | exact st_TUPLE | exact st_LIST | exact st_FROZENSET | exact st_POP_MARK | exact st_INST
  | exact st_DICT | exact st_APPENDS | exact st_ADDITEMS | exact st_SETITEMS | exact st_OBJ
  | (start; discriminate Hg)
  | (t_push; unfold int_kind; destruct a; try reflexivity;
     match goal with |- context [if ?b then _ else _] => destruct b end; reflexivity)
  | t_push ].
Qed.
End Step.

Theorem step_refines : forall c s r t,
  c_unsafe c = false -> Inv s r -> can_emit c s (fst t) = true -> tok_env s t ->
  exists r', ref_step r t = Some r' /\ req_ok r t = true /\ memo_ok r t = true
          /\ Inv (sim_step (c_version c) s t) r'.
Proof.
  intros c [st m pe] [rst rmk rm] [o a] Hsafe [HF HM HK HC] Hg He.
  simpl in HF, HM, HK, HC.
  exact (st_all c st m pe rst rmk rm a Hsafe HF HM HK HC o Hg He).
Qed.
