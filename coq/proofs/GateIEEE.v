(* The rate gate compares in IEEE-754 binary64, as formalised by Flocq 4.1.

   src/generator/source.rs: should_mutate(rate) = draw < rate, where draw = (bits >> 11) as f64 / 2^53
   (fuzzer bytes) resp. rng.random::<f64>() = (next_u64 >> 11) as f64 * 2^-53 (rand 0.9): in both cases
   the real number k * 2^-53 with k < 2^53, exactly (k and 2^53 are representable, scaling by a power of
   two is exact).  The model (Entropy.dyadic_lt) decides k * 2^-53 < rate on the BIT PATTERN of rate with
   integer arithmetic.  Here: that decision IS the IEEE comparison - for every k and every 64-bit
   pattern of the rate: NaN compares false, +inf true, -inf false, +-0 false, everything else by value
   (Flocq: Bits.b64_of_bits decodes the pattern, Binary.B2R gives the value).

   Flocq's reals bring in the standard library's axioms of the real numbers and classical logic;
   Print Assumptions in Properties/C15.v lists them. *)
From Coq Require Import ZArith NArith Reals Lia Lra Bool.
From Flocq Require Import Core Binary Bits.
From PF Require Import Entropy.

Local Open Scope Z_scope.

Definition rate_f (rate : N) : binary64 := b64_of_bits (Z.of_N rate).
Definition draw_R (k : N) : R := (IZR (Z.of_N k) * bpow radix2 (-53))%R.

(* x < y in IEEE-754 for a real x (a finite float's value) and a binary64 y *)
Definition ieee_lt (x : R) (y : binary64) : bool :=
  match y with
  | B754_nan _ _ _ _ _ => false
  | B754_infinity _ _ s => negb s
  | _ => Rlt_bool x (B2R 53 1024 y)
  end.

(* the same on Flocq's "full floats" (what the bit decoder produces before the validity wrapper) *)
Definition ieee_lt_ff (x : R) (y : full_float) : bool :=
  match y with
  | F754_nan _ _ => false
  | F754_infinity s => negb s
  | _ => Rlt_bool x (FF2R radix2 y)
  end.

Lemma ieee_lt_FF2B : forall x f (H : valid_binary 53 1024 f = true),
  ieee_lt x (FF2B 53 1024 f H) = ieee_lt_ff x f.
Proof.
  intros x f H. unfold ieee_lt.
  rewrite (match_FF2B 53 1024 (fun _ => Rlt_bool x (B2R 53 1024 (FF2B 53 1024 f H))) (fun s => negb s) (fun _ _ => false)
             (fun _ _ _ => Rlt_bool x (B2R 53 1024 (FF2B 53 1024 f H))) f H).
  rewrite B2R_FF2B. destruct f; reflexivity.
Qed.

(* ---------- the fields of the pattern: N bit operations = Flocq's split_bits ---------- *)
Lemma testbit63 : forall r, (r < 2 ^ 64)%N -> N.testbit r 63 = (2 ^ 63 <=? r)%N.
Proof.
  intros r Hr. destruct (N.leb_spec (2 ^ 63) r) as [H|H].
  - apply N.testbit_true. replace (r / 2 ^ 63)%N with 1%N; [reflexivity|].
    apply N.div_unique with (r - 2 ^ 63)%N; lia.
  - apply N.testbit_false. rewrite N.div_small by exact H. reflexivity.
Qed.

Lemma split_fields : forall r, (r < 2 ^ 64)%N ->
  split_bits 52 11 (Z.of_N r)
  = (N.testbit r 63, Z.of_N (N.land r (2 ^ 52 - 1)), Z.of_N (N.land (N.shiftr r 52) 2047)).
Proof.
  intros r Hr. unfold split_bits. rewrite testbit63 by exact Hr.
  replace (2 ^ 52 - 1)%N with (N.ones 52) by reflexivity. rewrite N.land_ones.
  replace 2047%N with (N.ones 11) by reflexivity. rewrite N.land_ones, N.shiftr_div_pow2.
  rewrite N2Z.inj_mod, N2Z.inj_mod, N2Z.inj_div.
  repeat f_equal.
  change (2 ^ 52 * 2 ^ 11) with (Z.of_N (2 ^ 63)). destruct (N.leb_spec (2 ^ 63) r) as [H|H].
  - apply Zle_bool_true. apply N2Z.inj_le. exact H.
  - apply Zle_bool_false. apply N2Z.inj_lt. exact H.
Qed.

(* ---------- real arithmetic: scale both sides by 2^1075 ---------- *)
Lemma scale_lt : forall (k M : Z) (e : Z), 0 <= e ->
  (IZR k * bpow radix2 (-53) < IZR M * bpow radix2 (e - 1075))%R <-> (k * 2 ^ 1022 < M * 2 ^ e).
Proof.
  intros k M e He.
  assert (P : (0 < bpow radix2 1075)%R) by apply bpow_gt_0.
  assert (E1 : (IZR k * bpow radix2 (-53) * bpow radix2 1075 = IZR (k * 2 ^ 1022))%R).
  { rewrite Rmult_assoc, <- bpow_plus. change (-53 + 1075) with 1022. rewrite mult_IZR.
    rewrite <- (IZR_Zpower radix2 1022) by lia. reflexivity. }
  assert (E2 : (IZR M * bpow radix2 (e - 1075) * bpow radix2 1075 = IZR (M * 2 ^ e))%R).
  { rewrite Rmult_assoc, <- bpow_plus. replace (e - 1075 + 1075) with e by lia. rewrite mult_IZR.
    rewrite <- (IZR_Zpower radix2 e) by exact He. reflexivity. }
  split; intro H.
  - apply lt_IZR. rewrite <- E1, <- E2. apply Rmult_lt_compat_r; assumption.
  - apply (Rmult_lt_reg_r (bpow radix2 1075)); [exact P|]. rewrite E1, E2. apply IZR_lt. exact H.
Qed.

Lemma Rlt_bool_iff : forall x y b, ((x < y)%R <-> b = true) -> Rlt_bool x y = b.
Proof.
  intros x y b H. destruct (Rlt_bool_spec x y) as [L|L]; destruct b; try reflexivity.
  - destruct H as [H _]. specialize (H L). discriminate H.
  - destruct H as [_ H]. specialize (H eq_refl). lra.
Qed.

Lemma draw_nonneg : forall k, (0 <= draw_R k)%R.
Proof.
  intro k. unfold draw_R. apply Rmult_le_pos; [apply IZR_le; lia | apply bpow_ge_0].
Qed.

(* ---------- the theorem ---------- *)
Theorem dyadic_lt_ieee : forall k rate, (rate < 2 ^ 64)%N ->
  dyadic_lt k rate = ieee_lt (draw_R k) (rate_f rate).
Proof.
  intros k rate Hr. unfold rate_f, b64_of_bits, binary_float_of_bits. rewrite ieee_lt_FF2B.
  unfold binary_float_of_bits_aux. rewrite split_fields by exact Hr.
  unfold dyadic_lt.
  set (sign := N.testbit rate 63). set (m := N.land rate (2 ^ 52 - 1)). set (e := N.land (N.shiftr rate 52) 2047).
  assert (Hm : (m < 2 ^ 52)%N).
  { unfold m. replace (2 ^ 52 - 1)%N with (N.ones 52) by reflexivity. rewrite N.land_ones. apply N.mod_lt. discriminate. }
  assert (He : (e < 2048)%N).
  { unfold e. replace 2047%N with (N.ones 11) by reflexivity. rewrite N.land_ones. apply N.mod_lt. discriminate. }
  change (2 ^ 11 - 1) with 2047. change (SpecFloat.emin (52 + 1) (2 ^ (11 - 1))) with (-1074).
  destruct (N.eqb_spec e 0) as [E0|E0].
  - (* zero / subnormal *)
    rewrite E0. cbn [Z.of_N Zeq_bool Z.compare].
    destruct (N.eqb_spec 0 2047) as [C|_]; [discriminate C|].
    destruct m as [|pm] eqn:Em; cbn [Z.of_N].
    + (* +-0 *)
      cbn [ieee_lt_ff FF2R]. rewrite Rlt_bool_false by apply draw_nonneg.
      destruct sign; [reflexivity|]. apply N.ltb_ge. lia.
    + cbn [ieee_lt_ff FF2R]. unfold F2R. cbn [Fnum Fexp].
      destruct sign; cbn [SpecFloat.cond_Zopp].
      * (* negative subnormal: never above a draw *)
        symmetry. apply Rlt_bool_false. apply Rle_trans with 0%R; [|apply draw_nonneg].
        rewrite <- (Rmult_0_l (bpow radix2 (-1074))). apply Rmult_le_compat_r; [apply bpow_ge_0 | apply IZR_le; lia].
      * symmetry. apply Rlt_bool_iff. unfold draw_R. change (-1074) with (1 - 1075).
        rewrite (scale_lt (Z.of_N k) (Z.pos pm) 1) by lia. rewrite N.ltb_lt. change (2 ^ 1) with 2. lia.
  - destruct (Zeq_bool (Z.of_N e) 0) eqn:Z0; [apply Zeq_bool_eq in Z0; lia|].
    destruct (N.eqb_spec e 2047) as [E1|E1].
    + (* infinities and NaN *)
      rewrite E1. cbn [Z.of_N Zeq_bool Z.compare].
      destruct m as [|pm]; cbn [Z.of_N ieee_lt_ff]; destruct sign; reflexivity.
    + destruct (Zeq_bool (Z.of_N e) 2047) eqn:Z1; [apply Zeq_bool_eq in Z1; lia|].
      (* normal numbers *)
      change (2 ^ 52) with 4503599627370496 at 1.
      destruct (Z.of_N m + 4503599627370496) as [|px|px] eqn:Epx; try lia.
      cbn [ieee_lt_ff FF2R]. unfold F2R. cbn [Fnum Fexp].
      destruct sign; cbn [SpecFloat.cond_Zopp].
      * symmetry. apply Rlt_bool_false. apply Rle_trans with 0%R; [|apply draw_nonneg].
        rewrite <- (Rmult_0_l (bpow radix2 (Z.of_N e + -1074 - 1))). apply Rmult_le_compat_r; [apply bpow_ge_0 | apply IZR_le; lia].
      * symmetry. apply Rlt_bool_iff. unfold draw_R. replace (Z.of_N e + -1074 - 1) with (Z.of_N e - 1075) by lia.
        rewrite (scale_lt (Z.of_N k) (Z.pos px) (Z.of_N e)) by lia.
        rewrite N.ltb_lt, N2Z.inj_lt, !N2Z.inj_mul, N2Z.inj_add, !N2Z.inj_pow. rewrite <- Epx.
        change (Z.of_N 2) with 2. change (Z.of_N 1022) with 1022. change (Z.of_N 52) with 52.
        replace (2 ^ 52 + Z.of_N m) with (Z.of_N m + 4503599627370496) by lia. reflexivity.
Qed.

(* ---------- the PRNG's f64: rand 0.9 `random::<f64>()` = (next_u64 >> 11) * 2^-53; the model builds the bit
   pattern by hand (Entropy.f64_of_dyadic53).  That pattern decodes - in Flocq's IEEE-754 - to a finite
   number whose value is k * 2^-53 exactly. ---------- *)
Lemma split_bits_build : forall E mant, 0 <= mant < 2 ^ 52 -> 0 <= E < 2 ^ 11 ->
  split_bits 52 11 (E * 2 ^ 52 + mant) = (false, mant, E).
Proof.
  intros E mant Hm HE. unfold split_bits. f_equal; [f_equal|].
  - apply Zle_bool_false. change (2 ^ 52 * 2 ^ 11) with (2 ^ 63). nia.
  - rewrite Z.add_comm, Z_mod_plus_full. apply Z.mod_small. exact Hm.
  - rewrite Z.add_comm, Z_div_plus_full by lia. rewrite (Z.div_small mant) by exact Hm. cbn [Z.add]. apply Z.mod_small. exact HE.
Qed.

Theorem dyadic53_value : forall k, (k < 2 ^ 53)%N ->
  is_finite 53 1024 (b64_of_bits (Z.of_N (f64_of_dyadic53 k))) = true
  /\ B2R 53 1024 (b64_of_bits (Z.of_N (f64_of_dyadic53 k))) = draw_R k.
Proof.
  intros k Hk. unfold f64_of_dyadic53. destruct (N.eqb_spec k 0) as [->|Hk0].
  - split; [reflexivity|]. unfold draw_R. cbn [Z.of_N]. rewrite Rmult_0_l. reflexivity.
  - set (e := N.log2 k).
    assert (Hpos : (0 < k)%N) by lia.
    destruct (N.log2_spec k Hpos) as [L1 L2]. fold e in L1, L2.
    assert (He : (e <= 52)%N).
    { destruct (N.le_gt_cases e 52) as [H|H]; [exact H|]. exfalso.
      assert ((2 ^ 53 <= 2 ^ e)%N) by (apply N.pow_le_mono_r; lia). lia. }
    rewrite !N.shiftl_mul_pow2.
    set (sc := (2 ^ (52 - e))%N).
    assert (Hsc : (2 ^ e * sc = 2 ^ 52)%N) by (unfold sc; rewrite <- N.pow_add_r; f_equal; lia).
    assert (Hsc2 : (2 ^ N.succ e * sc = 2 ^ 53)%N).
    { unfold sc. rewrite <- N.pow_add_r. f_equal. lia. }
    assert (M1 : (2 ^ 52 <= k * sc)%N) by (rewrite <- Hsc; apply N.mul_le_mono_r; exact L1).
    assert (M2 : (k * sc < 2 ^ 53)%N).
    { rewrite <- Hsc2. apply N.mul_lt_mono_pos_r; [unfold sc; apply N.neq_0_lt_0; apply N.pow_nonzero; discriminate | exact L2]. }
    set (mant := (k * sc - 2 ^ 52)%N).
    set (E := (1023 - 53 + e)%N).
    assert (HZ : Z.of_N (E * 2 ^ 52 + mant) = Z.of_N E * 2 ^ 52 + Z.of_N mant).
    { rewrite N2Z.inj_add, N2Z.inj_mul. reflexivity. }
    rewrite HZ. unfold b64_of_bits, binary_float_of_bits.
    assert (Hm : 0 <= Z.of_N mant < 2 ^ 52).
    { unfold mant. rewrite N2Z.inj_sub by exact M1. change (Z.of_N (2 ^ 52)) with (2 ^ 52).
      assert (Z.of_N (2 ^ 52) <= Z.of_N (k * sc) < Z.of_N (2 ^ 53)) by (split; [apply N2Z.inj_le | apply N2Z.inj_lt]; assumption).
      change (Z.of_N (2 ^ 52)) with (2 ^ 52) in H. change (Z.of_N (2 ^ 53)) with (2 ^ 53) in H. lia. }
    assert (HE : 970 <= Z.of_N E <= 1022) by (unfold E; lia).
    split.
    + rewrite is_finite_FF2B. unfold binary_float_of_bits_aux. rewrite split_bits_build by lia.
      destruct (Zeq_bool (Z.of_N E) 0) eqn:Z0; [apply Zeq_bool_eq in Z0; lia|].
      change (2 ^ 11 - 1) with 2047.
      destruct (Zeq_bool (Z.of_N E) 2047) eqn:Z1; [apply Zeq_bool_eq in Z1; lia|].
      destruct (Z.of_N mant + 2 ^ 52) eqn:Epx; try lia. reflexivity.
    + rewrite B2R_FF2B. unfold binary_float_of_bits_aux. rewrite split_bits_build by lia.
      destruct (Zeq_bool (Z.of_N E) 0) eqn:Z0; [apply Zeq_bool_eq in Z0; lia|].
      change (2 ^ 11 - 1) with 2047.
      destruct (Zeq_bool (Z.of_N E) 2047) eqn:Z1; [apply Zeq_bool_eq in Z1; lia|].
      destruct (Z.of_N mant + 2 ^ 52) as [|px|px] eqn:Epx; try lia.
      cbn [FF2R]. unfold F2R. cbn [Fnum Fexp SpecFloat.cond_Zopp]. rewrite <- Epx.
      change (SpecFloat.emin (52 + 1) (2 ^ (11 - 1))) with (-1074).
      assert (Hv : Z.of_N mant + 2 ^ 52 = Z.of_N k * 2 ^ (52 - Z.of_N e)).
      { unfold mant. rewrite N2Z.inj_sub by exact M1. rewrite N2Z.inj_mul. unfold sc. rewrite N2Z.inj_pow, N2Z.inj_sub by exact He.
        change (Z.of_N (2 ^ 52)) with (2 ^ 52). change (Z.of_N 2) with 2. change (Z.of_N 52) with 52. lia. }
      rewrite Hv. unfold draw_R. rewrite mult_IZR. rewrite (IZR_Zpower radix2) by lia.
      rewrite Rmult_assoc, <- bpow_plus. f_equal. f_equal. unfold E. lia.
Qed.

(* ---------- the draw itself: Rust computes `(bits >> 11) as f64 / (1u64 << 53) as f64` (fuzzer bytes); in IEEE-754
   arithmetic with round-to-nearest-even - Flocq's binary_normalize for the integer-to-float conversion, Bdiv for the
   division - that is a finite number whose value is exactly k * 2^-53: both conversions and the division are exact
   for k < 2^53.  So draw_R k is not an idealisation of what the code computes. ---------- *)
Definition Hprec : Prec_gt_0 53 := eq_refl.
Definition Hemax : BinarySingleNaN.Prec_lt_emax 53 1024 := eq_refl.
Definition of_int (n : Z) : binary64 := binary_normalize 53 1024 Hprec Hemax BinarySingleNaN.mode_NE n 0 false.

Lemma IZR_2_53 : IZR (2 ^ 53) = bpow radix2 53.
Proof. exact (IZR_Zpower radix2 53 ltac:(lia)). Qed.

Lemma fexp_is_FLT : SpecFloat.fexp 53 1024 = FLT_exp (-1074) 53.
Proof. reflexivity. Qed.

Lemma small_generic : forall m e, Z.abs m < 2 ^ 53 -> -1074 <= e ->
  generic_format radix2 (SpecFloat.fexp 53 1024) (F2R (Float radix2 m e)).
Proof.
  intros m e Hm He. rewrite fexp_is_FLT. apply generic_format_FLT. exists (Float radix2 m e); [reflexivity | exact Hm | exact He].
Qed.

Lemma of_int_exact : forall n, (Z.abs n < 2 ^ 53 \/ n = 2 ^ 53) ->
  B2R 53 1024 (of_int n) = IZR n /\ is_finite 53 1024 (of_int n) = true.
Proof.
  intros n Hn. unfold of_int.
  pose proof (binary_normalize_correct 53 1024 Hprec Hemax BinarySingleNaN.mode_NE n 0 false) as C.
  assert (V : F2R (Float radix2 n 0) = IZR n) by (unfold F2R; cbn [Fnum Fexp bpow]; lra).
  assert (G : generic_format radix2 (SpecFloat.fexp 53 1024) (F2R (Float radix2 n 0))).
  { destruct Hn as [Hn| ->]; [apply small_generic; [exact Hn | lia]|].
    replace (F2R (Float radix2 (2 ^ 53) 0)) with (F2R (Float radix2 1 53)).
    - apply small_generic; [reflexivity | lia].
    - unfold F2R. cbn [Fnum Fexp]. rewrite IZR_2_53. cbn [bpow]. lra. }
  rewrite (round_generic radix2 _ _ (F2R (Float radix2 n 0)) G) in C.
  assert (B : (Rabs (F2R (Float radix2 n 0)) < bpow radix2 1024)%R).
  { rewrite V. apply Rle_lt_trans with (IZR (2 ^ 53)).
    - rewrite <- abs_IZR. apply IZR_le. destruct Hn as [Hn| ->]; [lia | reflexivity].
    - rewrite IZR_2_53. apply bpow_lt. lia. }
  rewrite (Rlt_bool_true _ _ B) in C. destruct C as (C1 & C2 & _). rewrite C1, V. split; [reflexivity | exact C2].
Qed.

Theorem draw_exact : forall k div_nan, (k < 2 ^ 53)%N ->
  let d := Bdiv 53 1024 Hprec Hemax div_nan BinarySingleNaN.mode_NE (of_int (Z.of_N k)) (of_int (2 ^ 53)) in
  is_finite 53 1024 d = true /\ B2R 53 1024 d = draw_R k.
Proof.
  intros k div_nan Hk d.
  assert (Hk' : Z.abs (Z.of_N k) < 2 ^ 53).
  { rewrite Z.abs_eq by lia. change (2 ^ 53) with (Z.of_N (2 ^ 53)). apply N2Z.inj_lt. exact Hk. }
  destruct (of_int_exact (Z.of_N k) (or_introl Hk')) as [X1 X2].
  destruct (of_int_exact (2 ^ 53) (or_intror eq_refl)) as [Y1 Y2].
  assert (Ynz : B2R 53 1024 (of_int (2 ^ 53)) <> 0%R).
  { rewrite Y1. rewrite IZR_2_53. apply Rgt_not_eq, bpow_gt_0. }
  pose proof (Bdiv_correct 53 1024 Hprec Hemax div_nan BinarySingleNaN.mode_NE (of_int (Z.of_N k)) (of_int (2 ^ 53)) Ynz) as C.
  rewrite X1, Y1 in C.
  assert (Q : (IZR (Z.of_N k) / IZR (2 ^ 53) = F2R (Float radix2 (Z.of_N k) (-53)))%R).
  { unfold F2R. cbn [Fnum Fexp]. rewrite IZR_2_53. unfold Rdiv. rewrite <- bpow_opp. reflexivity. }
  rewrite Q in C.
  rewrite (round_generic radix2 _ _ _ (small_generic (Z.of_N k) (-53) Hk' ltac:(lia))) in C.
  assert (B : (Rabs (F2R (Float radix2 (Z.of_N k) (-53))) < bpow radix2 1024)%R).
  { unfold F2R. cbn [Fnum Fexp]. rewrite Rabs_mult, <- abs_IZR, (Rabs_pos_eq (bpow radix2 (-53))) by apply bpow_ge_0.
    apply Rlt_trans with (IZR (2 ^ 53) * bpow radix2 (-53))%R.
    - apply Rmult_lt_compat_r; [apply bpow_gt_0 | apply IZR_lt; exact Hk'].
    - rewrite IZR_2_53. rewrite <- bpow_plus. apply bpow_lt. lia. }
  rewrite (Rlt_bool_true _ _ B) in C. destruct C as (C1 & C2 & _).
  subst d. split; [rewrite C2; exact X2 | rewrite C1; reflexivity].
Qed.

(* the seeded PRNG's draw: rand 0.9 computes `(next_u64 >> 11) as f64 * (1.0 / (1u64 << 53) as f64)`, a multiplication
   by the representable constant 2^-53: again exactly k * 2^-53 *)
Definition two_m53 : binary64 := binary_normalize 53 1024 Hprec Hemax BinarySingleNaN.mode_NE 1 (-53) false.

Lemma two_m53_exact : B2R 53 1024 two_m53 = bpow radix2 (-53) /\ is_finite 53 1024 two_m53 = true.
Proof.
  unfold two_m53.
  pose proof (binary_normalize_correct 53 1024 Hprec Hemax BinarySingleNaN.mode_NE 1 (-53) false) as C.
  assert (V : F2R (Float radix2 1 (-53)) = bpow radix2 (-53)) by (unfold F2R; cbn [Fnum Fexp]; lra).
  rewrite (round_generic radix2 _ _ _ (small_generic 1 (-53) ltac:(reflexivity) ltac:(lia))) in C.
  assert (B : (Rabs (F2R (Float radix2 1 (-53))) < bpow radix2 1024)%R).
  { rewrite V, Rabs_pos_eq by apply bpow_ge_0. apply bpow_lt. lia. }
  rewrite (Rlt_bool_true _ _ B) in C. destruct C as (C1 & C2 & _). rewrite C1, V. split; [reflexivity | exact C2].
Qed.

Theorem draw_exact_mul : forall k mult_nan, (k < 2 ^ 53)%N ->
  let d := Bmult 53 1024 Hprec Hemax mult_nan BinarySingleNaN.mode_NE (of_int (Z.of_N k)) two_m53 in
  is_finite 53 1024 d = true /\ B2R 53 1024 d = draw_R k.
Proof.
  intros k mult_nan Hk d.
  assert (Hk' : Z.abs (Z.of_N k) < 2 ^ 53).
  { rewrite Z.abs_eq by lia. change (2 ^ 53) with (Z.of_N (2 ^ 53)). apply N2Z.inj_lt. exact Hk. }
  destruct (of_int_exact (Z.of_N k) (or_introl Hk')) as [X1 X2].
  destruct two_m53_exact as [Y1 Y2].
  pose proof (Bmult_correct 53 1024 Hprec Hemax mult_nan BinarySingleNaN.mode_NE (of_int (Z.of_N k)) two_m53) as C.
  rewrite X1, Y1 in C.
  assert (Q : (IZR (Z.of_N k) * bpow radix2 (-53) = F2R (Float radix2 (Z.of_N k) (-53)))%R) by reflexivity.
  rewrite Q in C.
  rewrite (round_generic radix2 _ _ _ (small_generic (Z.of_N k) (-53) Hk' ltac:(lia))) in C.
  assert (B : (Rabs (F2R (Float radix2 (Z.of_N k) (-53))) < bpow radix2 1024)%R).
  { unfold F2R. cbn [Fnum Fexp]. rewrite Rabs_mult, <- abs_IZR, (Rabs_pos_eq (bpow radix2 (-53))) by apply bpow_ge_0.
    apply Rlt_trans with (IZR (2 ^ 53) * bpow radix2 (-53))%R.
    - apply Rmult_lt_compat_r; [apply bpow_gt_0 | apply IZR_lt; exact Hk'].
    - rewrite IZR_2_53. rewrite <- bpow_plus. apply bpow_lt. lia. }
  rewrite (Rlt_bool_true _ _ B) in C. destruct C as (C1 & C2 & _).
  subst d. split; [rewrite C2, X2, Y2; reflexivity | rewrite C1; reflexivity].
Qed.
