(* Pure facts about cleanup_for_stop (no reference machine involved): which opcodes it emits,
   how many, and the shape of the stack it leaves.  Used by C05, C10, C11. *)
From Coq Require Import List NArith ZArith Bool Lia Arith.
Import ListNotations.
From PF Require Import Opcodes RefTable Config Sim.
From PF.proofs Require Import Refine Run.

Lemma close_marks_facts : forall fuel v s,
  nmarks (stk s) < fuel ->
  let ops := fst (close_marks fuel v s) in
  let s' := snd (close_marks fuel v s) in
  length ops <= nmarks (stk s)
  /\ has_mark s' = false
  /\ length (stk s') <= length (stk s)
  /\ (forall o, In o ops -> o = TUPLE)
  /\ (stk s <> [] -> stk s' <> []).
Proof.
  induction fuel as [|f IH]; intros v s Hf; [lia|].
  cbn [close_marks]. destruct (has_mark s) eqn:Hm.
  - destruct (close_marks f v (step0 v s TUPLE)) as [ops s'] eqn:E. cbn [fst snd].
    assert (Hst : stk (step0 v s TUPLE) = KTuple :: pop_to_mark (stk s)) by reflexivity.
    pose proof (nmarks_pop_to_mark _ Hm) as Hn. pose proof (pop_to_mark_shorter _ Hm) as Hsh.
    assert (Hf' : nmarks (stk (step0 v s TUPLE)) < f).
    { rewrite Hst, nmarks_cons. simpl. lia. }
    specialize (IH v _ Hf'). rewrite E in IH. cbn [fst snd] in IH.
    destruct IH as (H1 & H2 & H3 & H4 & H5).
    rewrite Hst, nmarks_cons in H1. rewrite Hst in H3. simpl in H1, H3.
    split; [simpl; lia|]. split; [exact H2|]. split; [lia|].
    split; [intros o [Ho|Ho]; [symmetry; exact Ho | apply H4; exact Ho]|].
    intros _. apply H5. rewrite Hst. discriminate.
  - cbn [fst snd]. split; [simpl; lia|]. split; [exact Hm|]. split; [lia|]. split; [intros o []|]. auto.
Qed.

Lemma collapse_facts : forall fuel v s,
  has_mark s = false -> length (stk s) <= fuel ->
  let ops := fst (collapse fuel v s) in
  let s' := snd (collapse fuel v s) in
  length ops + 1 <= Nat.max 1 (length (stk s))
  /\ has_mark s' = false
  /\ length (stk s') <= 1
  /\ (stk s <> [] -> stk s' <> [])
  /\ (stk s = [] -> stk s' = [])
  /\ (forall o, In o ops -> (v_lt2 v = true /\ o = POP) \/ (v_lt2 v = false /\ (o = TUPLE2 \/ o = TUPLE3))).
Proof.
  induction fuel as [|f IH]; intros v s Hm Hf.
  - cbn [collapse fst snd]. destruct (stk s) eqn:E; simpl in Hf; [|lia].
    split; [simpl; lia|]. split; [exact Hm|]. split; [simpl; lia|]. split; [tauto|]. split; [auto|]. intros o [].
  - cbn [collapse]. unfold stack_len. destruct (Nat.ltb 1 (length (stk s))) eqn:Hlt.
    + apply Nat.ltb_lt in Hlt.
      set (o := if v_lt2 v then POP else if Nat.leb 3 (length (stk s)) then TUPLE3 else TUPLE2).
      destruct (collapse f v (step0 v s o)) as [ops s'] eqn:Ecl. cbn [fst snd].
      assert (Hsh : length (stk (step0 v s o)) < length (stk s)
                    /\ has_mark (step0 v s o) = false
                    /\ stk (step0 v s o) <> []).
      { unfold has_mark in *. destruct s as [st m pe]. simpl in *.
        destruct st as [|k0 [|k1 st]]; simpl in Hlt; try lia.
        unfold o. destruct (v_lt2 v).
        - unfold step0, sim_step; simpl. simpl in Hm. apply orb_false_elim in Hm. destruct Hm as [_ Hm].
          split; [lia|]. split; [exact Hm | discriminate].
        - simpl in Hm. apply orb_false_elim in Hm. destruct Hm as [_ Hm].
          apply orb_false_elim in Hm. destruct Hm as [_ Hm].
          destruct st as [|k2 st]; simpl.
          + unfold step0, sim_step; simpl. split; [lia|]. split; [reflexivity | discriminate].
          + unfold step0, sim_step; simpl. simpl in Hm. apply orb_false_elim in Hm. destruct Hm as [_ Hm].
            split; [lia|]. split; [exact Hm | discriminate]. }
      destruct Hsh as (Hsh & Hnm & Hne).
      assert (Hf' : length (stk (step0 v s o)) <= f) by lia.
      specialize (IH v _ Hnm Hf'). rewrite Ecl in IH. cbn [fst snd] in IH.
      destruct IH as (H1 & H2 & H3 & H4 & H5 & H6).
      split; [cbn [length]; lia|]. split; [exact H2|]. split; [exact H3|].
      split; [intros _; apply H4; exact Hne|].
      split; [intro E; rewrite E in Hlt; simpl in Hlt; lia|].
      intros o' [Ho|Ho]; [|apply H6; exact Ho]. subst o'. unfold o.
      destruct (v_lt2 v); [left; auto|]. right. split; [reflexivity|].
      destruct (Nat.leb 3 (length (stk s))); auto.
    + apply Nat.ltb_ge in Hlt. cbn [fst snd].
      split; [cbn [length]; lia|]. split; [exact Hm|]. split; [exact Hlt|]. split; [auto|]. split; [auto|]. intros o [].
Qed.

(* the whole tail: its opcodes, its length, and the one non-MARK item it leaves *)
Lemma cleanup_facts : forall v s,
  let ops := fst (cleanup_for_stop v s) in
  length ops <= 2 * length (stk s) + 1
  /\ (forall o, In o ops ->
        o = TUPLE \/ o = NONE \/ (v_lt2 v = true /\ o = POP)
        \/ (v_lt2 v = false /\ (o = TUPLE2 \/ o = TUPLE3))).
Proof.
  intros v s.
  pose proof (cleanup_unfold v s) as Hcu. unfold cleanup_parts in Hcu. cbv zeta in Hcu.
  cbv zeta. rewrite Hcu. cbn [fst]. clear Hcu.
  assert (Hf1 : nmarks (stk s) < S (stack_len s)) by (unfold stack_len; pose proof (nmarks_le (stk s)); lia).
  destruct (close_marks_facts _ v s Hf1) as (A1 & A2 & A3 & A4 & A5).
  set (cm := close_marks (S (stack_len s)) v s) in *.
  assert (Hf2 : length (stk (snd cm)) <= S (stack_len (snd cm))) by (unfold stack_len; lia).
  destruct (collapse_facts _ v (snd cm) A2 Hf2) as (B1 & B2 & B3 & B4 & B5 & B6).
  set (cl := collapse (S (stack_len (snd cm))) v (snd cm)) in *.
  pose proof (nmarks_le (stk s)) as Hnl.
  destruct (stk (snd cl)) as [|k2 [|k2' st2]] eqn:Es2; [| |simpl in B3; lia].
  - (* empty after the collapse: the stack was empty all along after closing the marks *)
    cbn [fst snd].
    assert (E3 : stk (step0 v (snd cl) NONE) = [KNone]) by (unfold step0, sim_step; simpl; rewrite Es2; reflexivity).
    rewrite E3. cbn [fst].
    assert (Hs1 : stk (snd cm) = []).
    { destruct (stk (snd cm)) eqn:E; [reflexivity|]. exfalso. apply B4; [discriminate | reflexivity]. }
    rewrite Hs1 in B1. simpl in B1.
    split.
    + rewrite !app_length. simpl. lia.
    + intros o Ho. rewrite !in_app_iff in Ho. destruct Ho as [Ho|[Ho|[Ho|Ho]]].
      * left; apply A4; exact Ho.
      * destruct (B6 o Ho) as [[H1 H2]|[H1 H2]]; [right; right; left; auto | right; right; right; auto].
      * destruct Ho as [Ho|[]]. right; left; auto.
      * destruct Ho.
  - cbn [fst snd]. rewrite Es2.
    assert (Ek : is_mark k2 = false).
    { unfold has_mark in B2. rewrite Es2 in B2. simpl in B2. rewrite orb_false_r in B2. exact B2. }
    assert (E4 : fst (match k2 with
                      | KMark => ([NONE], step0 v (with_stk (snd cl) []) NONE)
                      | _ => ([] : list opcode, snd cl)
                      end) = []) by (destruct k2; try discriminate Ek; reflexivity).
    split.
    + rewrite !app_length. destruct k2; try discriminate Ek; simpl; lia.
    + intros o Ho. rewrite !in_app_iff in Ho. destruct Ho as [Ho|[Ho|[Ho|Ho]]].
      * left; apply A4; exact Ho.
      * destruct (B6 o Ho) as [[H1 H2]|[H1 H2]]; [right; right; left; auto | right; right; right; auto].
      * destruct Ho.
      * destruct k2; try discriminate Ek; destruct Ho.
Qed.
