(* The lexer round trip: for every well-formed token t (Envelope.arg_wf) and any continuation,
   lex_one (encode t ++ rest) = Some (t, rest); lifted to whole streams.  This is what turns
   the token-level theorems into statements about the emitted BYTES (C04, C06, and the
   byte-level corollaries of C01-C03, C05, C10, C11). *)
From Coq Require Import List NArith ZArith Bool Lia Arith.
Import ListNotations.
From PF Require Import Opcodes RefTable Config Sim Ref Lex Envelope.
Local Open Scope N_scope.
Local Arguments N.pow : simpl never.
Local Arguments N.ltb : simpl never.
Local Arguments N.leb : simpl never.
Local Arguments N.eqb : simpl never.
Local Arguments N.of_nat : simpl never.
Local Arguments N.mul : simpl never.
Local Arguments N.add : simpl never.
Local Arguments N.sub : simpl never.
Local Arguments N.land : simpl never.
Local Arguments N.shiftr : simpl never.
Local Arguments N.div : simpl never.
Local Arguments N.modulo : simpl never.

(* ---------- take_n ---------- *)
Lemma take_n_0 : forall l, take_n 0 l = Some ([], l).
Proof. destruct l; reflexivity. Qed.

Lemma take_n_app : forall p rest, take_n (N.of_nat (length p)) (p ++ rest) = Some (p, rest).
Proof.
  induction p as [|b p IH]; intro rest.
  - apply take_n_0.
  - cbn [length app take_n].
    assert (E : N.of_nat (S (length p)) =? 0 = false) by (apply N.eqb_neq; lia).
    rewrite E. replace (N.of_nat (S (length p)) - 1) with (N.of_nat (length p)) by lia.
    rewrite IH. reflexivity.
Qed.

(* ---------- little endian ---------- *)
Lemma le_bytes_length : forall k x, length (le_bytes k x) = k.
Proof. induction k; intro x; simpl; [reflexivity | rewrite IHk; reflexivity]. Qed.

Lemma le_val_le_bytes : forall k x, x < 2 ^ (8 * N.of_nat k) -> le_val (le_bytes k x) = x.
Proof.
  induction k as [|k IH]; intros x Hx.
  - simpl in Hx. cbn [le_bytes le_val]. change (2 ^ (8 * N.of_nat 0)) with 1 in Hx. lia.
  - cbn [le_bytes le_val].
    change 255 with (N.ones 8). rewrite N.land_ones, N.shiftr_div_pow2.
    change (2 ^ 8) with 256.
    rewrite IH.
    + pose proof (N.div_mod x 256). lia.
    + replace (8 * N.of_nat (S k)) with (8 + 8 * N.of_nat k) in Hx by lia.
      rewrite N.pow_add_r in Hx. change (2 ^ 8) with 256 in Hx.
      apply N.div_lt_upper_bound; lia.
Qed.

Lemma le_bytes_lt : forall k x, Forall (fun b => b < 256) (le_bytes k x).
Proof.
  induction k as [|k IH]; intro x; cbn [le_bytes]; constructor; [|apply IH].
  change 255 with (N.ones 8). rewrite N.land_ones. apply N.mod_lt. discriminate.
Qed.

Lemma get_uint_le : forall k x rest, x < 2 ^ (8 * N.of_nat k) ->
  get_uint k (le_bytes k x ++ rest) = Some (x, rest).
Proof.
  intros k x rest Hx. unfold get_uint.
  rewrite <- (le_bytes_length k x) at 1. rewrite take_n_app, le_val_le_bytes by exact Hx. reflexivity.
Qed.

Lemma get_counted_le : forall k p rest, N.of_nat (length p) < 2 ^ (8 * N.of_nat k) ->
  get_counted k (le_bytes k (N.of_nat (length p)) ++ p ++ rest) = Some (p, rest).
Proof. intros k p rest H. unfold get_counted. rewrite get_uint_le by exact H. apply take_n_app. Qed.

(* ---------- two's complement on 32 bits ---------- *)
Lemma signed32_rt : forall z, i32_range z = true -> to_signed 32 (to_unsigned 32 z) = z.
Proof.
  intros z H. unfold i32_range in H. apply andb_prop in H. destruct H as [H1 H2].
  apply Z.leb_le in H1, H2. unfold to_signed, to_unsigned.
  change (2 ^ (32 - 1)) with 2147483648. change (2 ^ 32) with 4294967296.
  change (Z.of_N 4294967296) with 4294967296%Z.
  destruct (Z_lt_le_dec z 0) as [Hn|Hp].
  - assert (E : (z mod 4294967296 = z + 4294967296)%Z).
    { symmetry. apply Z.mod_unique with (q := (-1)%Z); lia. }
    rewrite E. destruct (N.ltb_spec (Z.to_N (z + 4294967296)) 2147483648); lia.
  - rewrite Z.mod_small by lia.
    destruct (N.ltb_spec (Z.to_N z) 2147483648); lia.
Qed.

Lemma unsigned32_lt : forall z, to_unsigned 32 z < 2 ^ 32.
Proof.
  intro z. unfold to_unsigned. change (2 ^ 32) with 4294967296. change (Z.of_N 4294967296) with 4294967296%Z.
  pose proof (Z.mod_pos_bound z 4294967296). lia.
Qed.

(* ---------- lines ---------- *)
Definition no_nl (l : list N) : bool := forallb (fun b => negb (b =? 10)) l.

Lemma read_line_app : forall l rest, no_nl l = true -> read_line (l ++ 10 :: rest) = Some (l, rest).
Proof.
  induction l as [|b l IH]; intros rest H.
  - reflexivity.
  - cbn [no_nl forallb] in H. apply andb_prop in H. destruct H as [Hb Hl].
    cbn [app read_line]. apply negb_true_iff in Hb. rewrite Hb. rewrite (IH rest Hl). reflexivity.
Qed.

Lemma no_nl_app : forall a b, no_nl (a ++ b) = no_nl a && no_nl b.
Proof. intros; unfold no_nl; apply forallb_app. Qed.

Lemma forallb_impl : forall (f g : N -> bool), (forall x, f x = true -> g x = true) ->
  forall l, forallb f l = true -> forallb g l = true.
Proof.
  intros f g H l. induction l as [|x l IH]; simpl; intro Hf; [reflexivity|].
  apply andb_prop in Hf. destruct Hf as [H1 H2]. rewrite (H _ H1), (IH H2). reflexivity.
Qed.

Lemma printable_no_nl : forall l, forallb printable l = true -> no_nl l = true.
Proof.
  unfold no_nl; apply forallb_impl; intros x H. unfold printable in H. apply andb_prop in H. destruct H as [H _].
  apply N.leb_le in H. apply negb_true_iff. apply N.eqb_neq. lia.
Qed.

Lemma graphic_printable : forall l, forallb graphic l = true -> forallb printable l = true.
Proof.
  unfold no_nl; apply forallb_impl; intros x H. unfold graphic, printable in *. apply andb_prop in H. destruct H as [H H3].
  apply andb_prop in H. destruct H as [H1 H2].
  apply N.leb_le in H1. rewrite H2. replace (32 <=? x) with true; [reflexivity|]. symmetry. apply N.leb_le. lia.
Qed.

(* visible ASCII without the backslash is what the unquoted text arguments may contain *)
Lemma graphic_plain : forall l, forallb graphic l = true -> line_plain l = true.
Proof.
  unfold line_plain; apply forallb_impl; intros x H. unfold graphic in H. apply andb_prop in H. destruct H as [H H3].
  apply andb_prop in H. destruct H as [H1 H2]. apply N.leb_le in H2. rewrite H3, andb_true_r. apply N.ltb_lt. lia.
Qed.

Lemma printable_ascii7 : forall l, forallb printable l = true -> ascii7 l = true.
Proof.
  unfold ascii7; apply forallb_impl; intros x H. unfold printable in H. apply andb_prop in H. destruct H as [_ H2].
  apply N.leb_le in H2. apply N.ltb_lt. lia.
Qed.

(* ---------- decimal ---------- *)
Lemma parse_digits_app : forall a b acc,
  parse_digits (a ++ b) acc = match parse_digits a acc with Some x => parse_digits b x | None => None end.
Proof.
  induction a as [|d a IH]; intros b acc; [reflexivity|].
  cbn [app parse_digits]. destruct (is_digit d); [apply IH | reflexivity].
Qed.

Lemma digit_ok : forall d, d < 10 -> is_digit (digit d) = true /\ digit d - 48 = d.
Proof.
  intros d H. unfold is_digit, digit. split; [|lia].
  apply andb_true_intro. split; apply N.leb_le; lia.
Qed.

Lemma dec_digits_S : forall f n acc,
  dec_digits (S f) n acc =
  if n <? 10 then digit (n mod 10) :: acc else dec_digits f (n / 10) (digit (n mod 10) :: acc).
Proof. reflexivity. Qed.

Lemma dec_digits_spec : forall f n acc, n < 2 ^ N.of_nat (S f) ->
  exists ds, dec_digits (S f) n acc = ds ++ acc /\ ds <> [] /\ forallb is_digit ds = true
             /\ exists k, forall a, parse_digits ds a = Some (a * k + n).
Proof.
  induction f as [|f IH]; intros n acc Hn.
  - change (2 ^ N.of_nat 1) with 2 in Hn.
    rewrite dec_digits_S. assert (E : n <? 10 = true) by (apply N.ltb_lt; lia). rewrite E.
    assert (Hm : n mod 10 = n) by (apply N.mod_small; lia). rewrite Hm.
    destruct (digit_ok n ltac:(lia)) as [Hd He].
    exists [digit n]. split; [reflexivity|]. split; [discriminate|]. split; [simpl; rewrite Hd; reflexivity|].
    exists 10. intro a. cbn [parse_digits]. rewrite Hd, He. f_equal. lia.
  - rewrite dec_digits_S. destruct (N.ltb_spec n 10) as [Hlt|Hge].
    + assert (Hm : n mod 10 = n) by (apply N.mod_small; lia). rewrite Hm.
      destruct (digit_ok n Hlt) as [Hd He].
      exists [digit n]. split; [reflexivity|]. split; [discriminate|]. split; [simpl; rewrite Hd; reflexivity|].
      exists 10. intro a. cbn [parse_digits]. rewrite Hd, He. f_equal. lia.
    + assert (Hq : n / 10 < 2 ^ N.of_nat (S f)).
      { replace (N.of_nat (S (S f))) with (1 + N.of_nat (S f)) in Hn by lia.
        rewrite N.pow_add_r in Hn. change (2 ^ 1) with 2 in Hn.
        apply N.div_lt_upper_bound; lia. }
      destruct (IH (n / 10) (digit (n mod 10) :: acc) Hq) as (ds & E & Hne & Hall & k & Hk).
      exists (ds ++ [digit (n mod 10)]).
      assert (Hr : n mod 10 < 10) by (apply N.mod_lt; discriminate).
      destruct (digit_ok _ Hr) as [Hd He].
      split; [rewrite E, <- app_assoc; reflexivity|].
      split; [destruct ds; discriminate|].
      split; [rewrite forallb_app, Hall; simpl; rewrite Hd; reflexivity|].
      exists (10 * k). intro a. rewrite parse_digits_app, Hk. cbn [parse_digits]. rewrite Hd, He. f_equal.
      pose proof (N.div_mod n 10). lia.
Qed.

Lemma print_N_spec : forall n,
  print_N n <> [] /\ forallb is_digit (print_N n) = true /\ parse_N (print_N n) = Some n.
Proof.
  intro n. unfold print_N.
  assert (Hn : n < 2 ^ N.of_nat (S (N.to_nat (N.log2 n)))).
  { rewrite Nat2N.inj_succ, N2Nat.id. destruct n as [|p]; [reflexivity|].
    apply N.log2_spec. reflexivity. }
  destruct (dec_digits_spec _ n [] Hn) as (ds & E & Hne & Hall & k & Hk).
  rewrite E, app_nil_r. split; [exact Hne|]. split; [exact Hall|].
  unfold parse_N. destruct ds; [contradiction|]. rewrite Hk. f_equal.
Qed.

Lemma digits_no_nl : forall l, forallb is_digit l = true -> no_nl l = true.
Proof.
  unfold no_nl; apply forallb_impl; intros x H. unfold is_digit in H. apply andb_prop in H. destruct H as [H _].
  apply N.leb_le in H. apply negb_true_iff, N.eqb_neq. lia.
Qed.

Lemma digits_graphic : forall l, forallb is_digit l = true -> forallb graphic l = true.
Proof.
  unfold no_nl; apply forallb_impl; intros x H. unfold is_digit in H. unfold graphic. apply andb_prop in H. destruct H as [H1 H2].
  apply N.leb_le in H1, H2. apply andb_true_intro. split; [apply andb_true_intro; split; apply N.leb_le; lia|].
  apply negb_true_iff, N.eqb_neq. lia.
Qed.

Lemma parse_Z_print_N : forall n, parse_Z (print_N n) = Some (Z.of_N n).
Proof.
  intro n. destruct (print_N_spec n) as (Hne & Hall & Hp).
  unfold parse_Z. destruct (print_N n) as [|b r] eqn:E; [contradiction|].
  cbn [forallb] in Hall. apply andb_prop in Hall. destruct Hall as [Hb _].
  unfold is_digit in Hb. apply andb_prop in Hb. destruct Hb as [Hb _]. apply N.leb_le in Hb.
  assert (E45 : b =? 45 = false) by (apply N.eqb_neq; lia). rewrite E45, Hp. reflexivity.
Qed.

Lemma parse_Z_print_Z : forall z, parse_Z (print_Z z) = Some z.
Proof.
  intro z. destruct z as [|p|p].
  - apply (parse_Z_print_N 0).
  - cbn [print_Z]. rewrite parse_Z_print_N. reflexivity.
  - cbn [print_Z parse_Z]. change (45 =? 45) with true. cbv iota.
    destruct (print_N_spec (Npos p)) as (_ & _ & Hp). rewrite Hp. reflexivity.
Qed.

Lemma print_Z_graphic : forall z, forallb graphic (print_Z z) = true.
Proof.
  intro z. destruct z as [|p|p]; cbn [print_Z].
  - apply digits_graphic. apply print_N_spec.
  - apply digits_graphic. apply print_N_spec.
  - cbn [forallb]. rewrite (digits_graphic _ (proj1 (proj2 (print_N_spec (Npos p))))). reflexivity.
Qed.

Lemma graphic_no_nl : forall l, forallb graphic l = true -> no_nl l = true.
Proof. intros l H. apply printable_no_nl, graphic_printable, H. Qed.

(* ---------- STRING: quoting and escapes ---------- *)
Lemma strip_last_snoc : forall c l, strip_last c (l ++ [c]) = Some l.
Proof.
  intros c l. unfold strip_last. rewrite rev_app_distr. cbn [rev app].
  rewrite N.eqb_refl, rev_involutive. reflexivity.
Qed.

Lemma unquote_quoted : forall body, unquote (39 :: body ++ [39]) = Some body.
Proof. intro body. unfold unquote. change ((39 =? 39) || (39 =? 34)) with true. cbv iota. apply strip_last_snoc. Qed.

Lemma escape_no_nl : forall s, no_nl (escape_str s) = true.
Proof.
  induction s as [|b s IH]; [reflexivity|]. cbn [escape_str]. rewrite no_nl_app, IH, andb_true_r.
  destruct (N.eqb_spec b 92); [reflexivity|]. destruct (N.eqb_spec b 39); [reflexivity|].
  destruct (N.eqb_spec b 10) as [E|E]; [reflexivity|]. destruct (N.eqb_spec b 13); [reflexivity|].
  destruct (N.eqb_spec b 9); [reflexivity|].
  unfold no_nl. cbn [forallb]. apply N.eqb_neq in E. rewrite E. reflexivity.
Qed.

Lemma escape_printable : forall s, forallb printable s = true -> forallb printable (escape_str s) = true.
Proof.
  induction s as [|b s IH]; [reflexivity|]. cbn [forallb escape_str]. intro H.
  apply andb_prop in H. destruct H as [Hb Hs]. rewrite forallb_app, (IH Hs), andb_true_r.
  destruct (N.eqb_spec b 92); [reflexivity|]. destruct (N.eqb_spec b 39); [reflexivity|].
  destruct (N.eqb_spec b 10); [reflexivity|]. destruct (N.eqb_spec b 13); [reflexivity|].
  destruct (N.eqb_spec b 9); [reflexivity|]. cbn [forallb]. rewrite Hb. reflexivity.
Qed.

Lemma unescape_S : forall f s,
  unescape (S f) s =
      match s with
      | [] => Some []
      | b :: r =>
          if b =? 92 then
            match r with
            | [] => None
            | c :: r' =>
                let k x := match unescape f r' with Some t => Some (x :: t) | None => None end in
                if c =? 92 then k 92
                else if c =? 39 then k 39
                else if c =? 34 then k 34
                else if c =? 110 then k 10
                else if c =? 114 then k 13
                else if c =? 116 then k 9
                else if c =? 120 then
                  match r' with
                  | h1 :: h2 :: r'' =>
                      match hexval h1, hexval h2, unescape f r'' with
                      | Some a, Some b, Some t => Some (16 * a + b :: t)
                      | _, _, _ => None
                      end
                  | _ => None
                  end
                else None
            end
          else match unescape f r with Some t => Some (b :: t) | None => None end
      end.
Proof. reflexivity. Qed.

Lemma unescape_escape : forall s f, (length s < f)%nat -> unescape f (escape_str s) = Some s.
Proof.
  induction s as [|b s IH]; intros f Hf.
  - destruct f; [inversion Hf | reflexivity].
  - destruct f as [|f]; [inversion Hf|]. cbn [length] in Hf. assert (Hf' : (length s < f)%nat) by lia.
    specialize (IH f Hf'). cbn [escape_str].
    destruct (N.eqb_spec b 92) as [->|N92].
    { cbn [app]. rewrite unescape_S. change (92 =? 92) with true. cbv iota zeta. rewrite IH. reflexivity. }
    destruct (N.eqb_spec b 39) as [->|N39].
    { cbn [app]. rewrite unescape_S. change (92 =? 92) with true. change (39 =? 92) with false.
      change (39 =? 39) with true. cbv iota zeta. rewrite IH. reflexivity. }
    destruct (N.eqb_spec b 10) as [->|N10].
    { cbn [app]. rewrite unescape_S. change (92 =? 92) with true. change (110 =? 92) with false.
      change (110 =? 39) with false. change (110 =? 34) with false. change (110 =? 110) with true.
      cbv iota zeta. rewrite IH. reflexivity. }
    destruct (N.eqb_spec b 13) as [->|N13].
    { cbn [app]. rewrite unescape_S. change (92 =? 92) with true. change (114 =? 92) with false.
      change (114 =? 39) with false. change (114 =? 34) with false. change (114 =? 110) with false.
      change (114 =? 114) with true. cbv iota zeta. rewrite IH. reflexivity. }
    destruct (N.eqb_spec b 9) as [->|N9].
    { cbn [app]. rewrite unescape_S. change (92 =? 92) with true. change (116 =? 92) with false.
      change (116 =? 39) with false. change (116 =? 34) with false. change (116 =? 110) with false.
      change (116 =? 114) with false. change (116 =? 116) with true. cbv iota zeta. rewrite IH. reflexivity. }
    cbn [app]. rewrite unescape_S. apply N.eqb_neq in N92. rewrite N92, IH. reflexivity.
Qed.

Lemma escape_length : forall s, (length (escape_str s) <= 2 * length s)%nat.
Proof.
  induction s as [|b s IH]; [simpl; lia|]. cbn [escape_str]. rewrite app_length. cbn [length].
  destruct (b =? 92); [simpl; lia|]. destruct (b =? 39); [simpl; lia|]. destruct (b =? 10); [simpl; lia|].
  destruct (b =? 13); [simpl; lia|]. destruct (b =? 9); simpl; lia.
Qed.

(* unescape's fuel only has to exceed the length of its input *)
Lemma unescape_escape_fuel : forall s, unescape (S (length (escape_str s))) (escape_str s) = Some s.
Proof.
  (* generalise: any fuel above the number of output characters works; the escaped text is at least as long *)
  intro s. apply unescape_escape.
  assert (H : (length s <= length (escape_str s))%nat).
  { induction s as [|b s IH]; [simpl; lia|]. cbn [escape_str]. rewrite app_length. cbn [length].
    destruct (b =? 92); [simpl; lia|]. destruct (b =? 39); [simpl; lia|]. destruct (b =? 10); [simpl; lia|].
    destruct (b =? 13); [simpl; lia|]. destruct (b =? 9); simpl; lia. }
  lia.
Qed.

(* ---------- UTF-8 of 7-bit text ---------- *)
Lemma utf8_ascii : forall p f, forallb printable p = true -> (length p < f)%nat -> utf8_ok f p = true.
Proof.
  induction p as [|b p IH]; intros f H Hf.
  - destruct f; [inversion Hf | reflexivity].
  - destruct f as [|f]; [inversion Hf|]. cbn [forallb] in H. apply andb_prop in H. destruct H as [Hb Hp].
    cbn [length] in Hf. cbn [utf8_ok].
    unfold printable in Hb. apply andb_prop in Hb. destruct Hb as [_ Hb]. apply N.leb_le in Hb.
    assert (E : b <? 128 = true) by (apply N.ltb_lt; lia). rewrite E. apply IH; [exact Hp | lia].
Qed.

(* ---------- opcode byte ---------- *)
Lemma opcode_of_byte_code : forall o, opcode_of_byte (ref_code o) = Some o.
Proof. destruct o; vm_compute; reflexivity. Qed.

(* ---------- one reader at a time (inputs in the normal form produced by
   `unfold nl; rewrite <- ?app_assoc; cbn [app]`) ---------- *)
Lemma rd_dec_short_Z : forall z rest,
  read_arg rd_decimalnl_short (print_Z z ++ 10 :: rest) = Some (AZ z, rest).
Proof.
  intros z rest. unfold read_arg. rewrite read_line_app by (apply graphic_no_nl, print_Z_graphic).
  rewrite parse_Z_print_Z. reflexivity.
Qed.

Lemma rd_dec_short_N : forall n rest,
  read_arg rd_decimalnl_short (print_N n ++ 10 :: rest) = Some (AZ (Z.of_N n), rest).
Proof.
  intros n rest. unfold read_arg. rewrite read_line_app by (apply digits_no_nl, print_N_spec).
  rewrite parse_Z_print_N. reflexivity.
Qed.

Lemma rd_dec_long_Z : forall z rest,
  read_arg rd_decimalnl_long (print_Z z ++ 76 :: 10 :: rest) = Some (AZ z, rest).
Proof.
  intros z rest. unfold read_arg.
  change (print_Z z ++ 76 :: 10 :: rest) with (print_Z z ++ [76] ++ 10 :: rest). rewrite app_assoc.
  rewrite read_line_app.
  - rewrite strip_last_snoc, parse_Z_print_Z. reflexivity.
  - rewrite no_nl_app, (graphic_no_nl _ (print_Z_graphic z)). reflexivity.
Qed.

Lemma rd_uint1_le : forall n rest, n < 256 -> read_arg rd_uint1 (le_bytes 1 n ++ rest) = Some (AU n, rest).
Proof. intros n rest H. unfold read_arg. rewrite get_uint_le by exact H. reflexivity. Qed.
Lemma rd_uint2_le : forall n rest, n < 65536 -> read_arg rd_uint2 (le_bytes 2 n ++ rest) = Some (AU n, rest).
Proof. intros n rest H. unfold read_arg. rewrite get_uint_le by exact H. reflexivity. Qed.
Lemma rd_uint4_le : forall n rest, n < 2 ^ 32 -> read_arg rd_uint4 (le_bytes 4 n ++ rest) = Some (AU n, rest).
Proof. intros n rest H. unfold read_arg. rewrite get_uint_le by exact H. reflexivity. Qed.
Lemma rd_uint8_le : forall n rest, n < 2 ^ 64 -> read_arg rd_uint8 (le_bytes 8 n ++ rest) = Some (AU n, rest).
Proof. intros n rest H. unfold read_arg. rewrite get_uint_le by exact H. reflexivity. Qed.

Lemma get_int4_le : forall z rest, i32_range z = true ->
  get_int4 (le_bytes 4 (to_unsigned 32 z) ++ rest) = Some (z, rest).
Proof.
  intros z rest H. unfold get_int4. rewrite get_uint_le by apply unsigned32_lt.
  rewrite signed32_rt by exact H. reflexivity.
Qed.

Lemma rd_int4_le : forall z rest, i32_range z = true ->
  read_arg rd_int4 (le_bytes 4 (to_unsigned 32 z) ++ rest) = Some (AZ z, rest).
Proof. intros z rest H. unfold read_arg. rewrite get_int4_le by exact H. reflexivity. Qed.

Lemma small_i32 : forall n, n < 2147483648 -> i32_range (Z.of_N n) = true /\ to_unsigned 32 (Z.of_N n) = n.
Proof.
  intros n H. split.
  - unfold i32_range. apply andb_true_intro. split; apply Z.leb_le; lia.
  - unfold to_unsigned. change (2 ^ 32) with 4294967296. change (Z.of_N 4294967296) with 4294967296%Z.
    rewrite Z.mod_small by lia. lia.
Qed.

Lemma rd_floatnl_ok : forall txt rest, float_text_ok txt = true -> forallb graphic txt = true ->
  read_arg rd_floatnl (txt ++ 10 :: rest) = Some (AB txt, rest).
Proof.
  intros txt rest H1 H2. unfold read_arg. rewrite read_line_app by (apply graphic_no_nl, H2). rewrite H1. reflexivity.
Qed.

Lemma be_val_be_bytes : forall x, x < 2 ^ 64 -> be_val (be_bytes 8 x) = x.
Proof. intros x H. unfold be_val, be_bytes. rewrite rev_involutive. apply (le_val_le_bytes 8). exact H. Qed.

Lemma rd_float8_ok : forall x rest, x < 2 ^ 64 -> read_arg rd_float8 (be_bytes 8 x ++ rest) = Some (AF x, rest).
Proof.
  intros x rest H. unfold read_arg.
  assert (L : length (be_bytes 8 x) = 8%nat) by (unfold be_bytes; rewrite rev_length; apply le_bytes_length).
  change 8 with (N.of_nat 8) at 1. rewrite <- L at 1. rewrite take_n_app, be_val_be_bytes by exact H. reflexivity.
Qed.

Lemma rd_stringnl_ok : forall s rest, forallb printable s = true ->
  read_arg rd_stringnl (39 :: escape_str s ++ 39 :: 10 :: rest) = Some (AB s, rest).
Proof.
  intros s rest H. unfold read_arg.
  change (39 :: escape_str s ++ 39 :: 10 :: rest) with ((39 :: escape_str s) ++ [39] ++ 10 :: rest).
  rewrite app_assoc. rewrite read_line_app.
  - cbn [app]. rewrite unquote_quoted, unescape_escape_fuel. rewrite (printable_ascii7 _ H). reflexivity.
  - rewrite no_nl_app. change (no_nl (39 :: escape_str s)) with (no_nl (escape_str s)).
    rewrite escape_no_nl. reflexivity.
Qed.

Lemma rd_noescape_ok : forall p rest, no_nl p = true -> line_plain p = true ->
  read_arg rd_stringnl_noescape (p ++ 10 :: rest) = Some (AB p, rest).
Proof. intros p rest H P. unfold read_arg. rewrite read_line_app by exact H. rewrite P. reflexivity. Qed.

Lemma rd_pair_ok : forall m a rest, no_nl m = true -> no_nl a = true -> line_plain m = true -> line_plain a = true ->
  read_arg rd_stringnl_noescape_pair (m ++ 10 :: a ++ 10 :: rest) = Some (AP m a, rest).
Proof.
  intros m a rest H1 H2 P1 P2. unfold read_arg. rewrite read_line_app by exact H1. rewrite read_line_app by exact H2.
  rewrite P1, P2. reflexivity.
Qed.

Lemma rd_unicodenl_ok : forall p rest, no_nl p = true -> raw_unicode_ok (S (length p)) false p = true ->
  read_arg rd_unicodestringnl (p ++ 10 :: rest) = Some (AB p, rest).
Proof. intros p rest H1 H2. unfold read_arg. rewrite read_line_app by exact H1. rewrite H2. reflexivity. Qed.

Lemma len124 : forall p : list N, len_le p 124 = true -> N.of_nat (length p) < 125.
Proof. intros p H. unfold len_le in H. apply Nat.leb_le in H. lia. Qed.

Lemma pow_mono_125 : forall k, (1 <= k)%nat -> 125 < 2 ^ (8 * N.of_nat k).
Proof.
  intros k H. apply N.lt_le_trans with (2 ^ 8); [reflexivity|].
  apply N.pow_le_mono_r; lia.
Qed.

Lemma rd_counted1 : forall r p rest, (r = rd_string1 \/ r = rd_bytes1) -> len_le p 124 = true ->
  read_arg r (le_bytes 1 (N.of_nat (length p)) ++ p ++ rest) = Some (AB p, rest).
Proof.
  intros r p rest Hr H. pose proof (len124 _ H). pose proof (pow_mono_125 1 ltac:(lia)).
  destruct Hr as [-> | ->]; unfold read_arg; rewrite get_counted_le by lia; reflexivity.
Qed.

Lemma rd_bytes4_ok : forall p rest, len_le p 124 = true ->
  read_arg rd_bytes4 (le_bytes 4 (N.of_nat (length p)) ++ p ++ rest) = Some (AB p, rest).
Proof.
  intros p rest H. pose proof (len124 _ H). pose proof (pow_mono_125 4 ltac:(lia)).
  unfold read_arg; rewrite get_counted_le by lia; reflexivity.
Qed.

Lemma rd_counted8 : forall r p rest, (r = rd_bytes8 \/ r = rd_bytearray8) -> len_le p 124 = true ->
  read_arg r (le_bytes 8 (N.of_nat (length p)) ++ p ++ rest) = Some (AB p, rest).
Proof.
  intros r p rest Hr H. pose proof (len124 _ H). pose proof (pow_mono_125 8 ltac:(lia)).
  destruct Hr as [-> | ->]; unfold read_arg; rewrite get_counted_le by lia; reflexivity.
Qed.

Lemma rd_string4_ok : forall p rest, len_le p 124 = true ->
  read_arg rd_string4 (le_bytes 4 (N.of_nat (length p)) ++ p ++ rest) = Some (AB p, rest).
Proof.
  intros p rest H. pose proof (len124 _ H) as Hl. unfold read_arg.
  destruct (small_i32 (N.of_nat (length p)) ltac:(lia)) as [Hr Hu].
  rewrite <- Hu at 1. rewrite get_int4_le by exact Hr.
  assert (E : (Z.of_N (N.of_nat (length p)) <? 0)%Z = false) by (apply Z.ltb_ge; lia). rewrite E.
  rewrite N2Z.id, take_n_app. reflexivity.
Qed.

Lemma rd_unicode_counted : forall k r p rest,
  ((k = 1%nat /\ r = rd_unicodestring1) \/ (k = 4%nat /\ r = rd_unicodestring4) \/ (k = 8%nat /\ r = rd_unicodestring8)) ->
  forallb printable p = true -> len_le p 124 = true ->
  read_arg r (le_bytes k (N.of_nat (length p)) ++ p ++ rest) = Some (AB p, rest).
Proof.
  intros k r p rest Hk Hp H. pose proof (len124 _ H).
  assert (U : utf8_ok (S (length p)) p = true) by (apply utf8_ascii; [exact Hp | lia]).
  destruct Hk as [[-> ->]|[[-> ->]|[-> ->]]]; unfold read_arg.
  - pose proof (pow_mono_125 1 ltac:(lia)). rewrite get_counted_le by lia. rewrite U. reflexivity.
  - pose proof (pow_mono_125 4 ltac:(lia)). rewrite get_counted_le by lia. rewrite U. reflexivity.
  - pose proof (pow_mono_125 8 ltac:(lia)). rewrite get_counted_le by lia. rewrite U. reflexivity.
Qed.

Lemma le_bytes4_cons : forall x, exists a b c d, le_bytes 4 x = [a; b; c; d].
Proof. intro x. cbn [le_bytes]. eauto. Qed.

Lemma rd_long1_ok : forall z rest, i32_range z = true ->
  read_arg rd_long1 (4 :: le_bytes 4 (to_unsigned 32 z) ++ rest) = Some (AZ z, rest).
Proof.
  intros z rest H. unfold read_arg.
  change (4 :: le_bytes 4 (to_unsigned 32 z) ++ rest) with (le_bytes 1 4 ++ le_bytes 4 (to_unsigned 32 z) ++ rest).
  assert (L : 4 = N.of_nat (length (le_bytes 4 (to_unsigned 32 z)))) by (rewrite le_bytes_length; reflexivity).
  rewrite L at 1. rewrite get_counted_le by (rewrite le_bytes_length; reflexivity).
  destruct (le_bytes4_cons (to_unsigned 32 z)) as (a & b & c & d & E).
  rewrite le_bytes_length. rewrite E at 1. rewrite (le_val_le_bytes 4) by apply unsigned32_lt.
  change (8 * N.of_nat 4) with 32. rewrite signed32_rt by exact H. reflexivity.
Qed.

Lemma rd_long4_ok : forall z rest, i32_range z = true ->
  read_arg rd_long4 (le_bytes 4 4 ++ le_bytes 4 (to_unsigned 32 z) ++ rest) = Some (AZ z, rest).
Proof.
  intros z rest H. unfold read_arg.
  destruct (small_i32 4 ltac:(reflexivity)) as [Hr Hu]. rewrite <- Hu at 1.
  rewrite get_int4_le by exact Hr. change (Z.of_N 4 <? 0)%Z with false. cbv iota.
  change (Z.to_N (Z.of_N 4)) with (N.of_nat 4).
  rewrite <- (le_bytes_length 4 (to_unsigned 32 z)) at 1. rewrite take_n_app.
  destruct (le_bytes4_cons (to_unsigned 32 z)) as (a & b & c & d & E).
  rewrite le_bytes_length. rewrite E at 1. rewrite (le_val_le_bytes 4) by apply unsigned32_lt.
  change (8 * N.of_nat 4) with 32. rewrite signed32_rt by exact H. reflexivity.
Qed.

(* ---------- one whole opcode ---------- *)
Ltac split_wf H :=
  repeat match type of H with
         | (_ && _) = true => let H1 := fresh "W" in apply andb_prop in H; destruct H as [H H1]
         end.

Theorem lex_one_encode : forall o a rest, arg_wf o a = true ->
  lex_one (encode (o, a) ++ rest) = Some ((o, a), rest).
Proof.
  intros o a rest H. unfold encode. cbn [fst snd app]. unfold lex_one. rewrite opcode_of_byte_code.
  destruct o; destruct a; try discriminate H;
    cbn [arg_wf ref_reader] in H; cbn [ref_reader encode_arg];
    unfold nl; rewrite <- ?app_assoc; cbn [app]; split_wf H.
  all: try (rewrite rd_dec_short_Z; reflexivity).
  all: try (rewrite rd_dec_long_Z; reflexivity).
  all: try (rewrite rd_int4_le by exact H; reflexivity).
  all: try (rewrite rd_long1_ok by exact H; reflexivity).
  all: try (rewrite rd_long4_ok by exact H; reflexivity).
  all: try (apply N.ltb_lt in H; first [rewrite rd_uint1_le by exact H | rewrite rd_uint2_le by exact H
                                        | rewrite rd_uint4_le by exact H | rewrite rd_uint8_le by exact H]; reflexivity).
  all: try (rewrite rd_floatnl_ok by assumption; reflexivity).
  all: try (apply N.ltb_lt in H; rewrite rd_float8_ok by exact H; reflexivity).
  all: try (rewrite rd_stringnl_ok by assumption; reflexivity).
  all: try (rewrite rd_unicodenl_ok by (try apply printable_no_nl; assumption); reflexivity).
  all: try (rewrite rd_pair_ok by (first [apply graphic_no_nl | apply graphic_plain]; assumption); reflexivity).
  all: try (rewrite rd_noescape_ok by (first [apply graphic_no_nl | apply graphic_plain]; assumption); reflexivity).
  all: try (rewrite (rd_counted1 rd_string1) by (auto; assumption); reflexivity).
  all: try (rewrite (rd_counted1 rd_bytes1) by (auto; assumption); reflexivity).
  all: try (rewrite rd_string4_ok by assumption; reflexivity).
  all: try (rewrite rd_bytes4_ok by assumption; reflexivity).
  all: try (rewrite (rd_counted8 rd_bytes8) by (auto; assumption); reflexivity).
  all: try (rewrite (rd_counted8 rd_bytearray8) by (auto; assumption); reflexivity).
  all: try (rewrite (rd_unicode_counted 1 rd_unicodestring1) by (auto 6; assumption); reflexivity).
  all: try (rewrite (rd_unicode_counted 4 rd_unicodestring4) by (auto 6; assumption); reflexivity).
  all: try (rewrite (rd_unicode_counted 8 rd_unicodestring8) by (auto 6; assumption); reflexivity).
  all: try (rewrite rd_dec_short_N; cbn [normalize];
            assert (E : (Z.of_N n <? 0)%Z = false) by (apply Z.ltb_ge; lia); rewrite E, N2Z.id; reflexivity).
  all: try reflexivity.
  - apply N.ltb_lt in W. apply N.leb_le in H. rewrite rd_uint1_le by exact W. cbn [normalize].
    assert (E : n <? 1 = false) by (apply N.ltb_ge; lia). rewrite E. reflexivity.
  - apply N.ltb_lt in W. apply N.leb_le in H. rewrite rd_uint2_le by exact W. cbn [normalize].
    assert (E : n <? 1 = false) by (apply N.ltb_ge; lia). rewrite E. reflexivity.
  - apply Z.leb_le in H, W.
    rewrite rd_int4_le by (unfold i32_range; apply andb_true_intro; split; apply Z.leb_le; lia).
    cbn [normalize]. assert (E : (z <? 1)%Z = false) by (apply Z.ltb_ge; lia). rewrite E. reflexivity.
Qed.

(* ---------- whole streams ---------- *)
Definition not_stop (t : token) : bool := negb (op_eqb (fst t) STOP).

Lemma lex_S : forall f l,
  lex (S f) l = match lex_one l with
                | None => None
                | Some (t, rest) =>
                    match fst t with
                    | STOP => match rest with [] => Some [t] | _ => None end
                    | _ => match lex f rest with Some ts => Some (t :: ts) | None => None end
                    end
                end.
Proof. reflexivity. Qed.

Lemma lex_serialize : forall ts fuel,
  forallb tok_wf ts = true -> forallb not_stop ts = true -> (length ts < fuel)%nat ->
  lex fuel (serialize (ts ++ [(STOP, A0)])) = Some (ts ++ [(STOP, A0)]).
Proof.
  induction ts as [|[o a] ts IH]; intros fuel Hwf Hns Hf.
  - destruct fuel as [|f]; [inversion Hf|]. reflexivity.
  - destruct fuel as [|f]; [inversion Hf|]. cbn [length] in Hf.
    cbn [forallb] in Hwf, Hns. apply andb_prop in Hwf, Hns. destruct Hwf as [Hw Hwf]. destruct Hns as [Hn Hns].
    cbn [app]. unfold serialize. cbn [flat_map]. fold (serialize (ts ++ [(STOP, A0)])).
    rewrite lex_S. rewrite lex_one_encode by exact Hw. cbn [fst].
    rewrite (IH f Hwf Hns ltac:(lia)).
    unfold not_stop in Hn. cbn [fst] in Hn. destruct o; try reflexivity. discriminate Hn.
Qed.

Lemma serialize_app : forall a b, serialize (a ++ b) = serialize a ++ serialize b.
Proof. intros; unfold serialize; apply flat_map_app. Qed.

Lemma serialize_length_ge : forall ts, (length ts <= length (serialize ts))%nat.
Proof.
  induction ts as [|t ts IH]; [simpl; lia|]. unfold serialize. cbn [flat_map]. fold (serialize ts).
  rewrite app_length. unfold encode. cbn [length]. lia.
Qed.

Theorem lex_all_serialize : forall ts,
  forallb tok_wf ts = true -> forallb not_stop ts = true ->
  lex_all (serialize (ts ++ [(STOP, A0)])) = Some (ts ++ [(STOP, A0)]).
Proof.
  intros ts Hw Hn. unfold lex_all. apply lex_serialize; [exact Hw | exact Hn|].
  pose proof (serialize_length_ge (ts ++ [(STOP, A0)])) as H. rewrite app_length in H. cbn [length] in H. lia.
Qed.

(* what the lexer's acceptance says about STOP, for ANY byte string (a fact about the spec) *)
Lemma lex_stop_last : forall fuel l ts, lex fuel l = Some ts ->
  exists pre a, ts = pre ++ [(STOP, a)] /\ forallb not_stop pre = true.
Proof.
  induction fuel as [|f IH]; intros l ts H; [discriminate H|].
  rewrite lex_S in H. destruct (lex_one l) as [[t rest]|]; [|discriminate H].
  destruct t as [o a]. cbn [fst] in H.
  destruct (op_eqb o STOP) eqn:E.
  - apply op_eqb_eq in E. subst o. destruct rest; [|discriminate H]. inversion H. exists [], a. split; reflexivity.
  - assert (H' : match lex f rest with Some ts0 => Some ((o, a) :: ts0) | None => None end = Some ts)
      by (destruct o; try exact H; discriminate E).
    destruct (lex f rest) as [ts0|] eqn:E0; [|discriminate H']. inversion H'. subst ts.
    destruct (IH _ _ E0) as (pre & a0 & -> & Hp). exists ((o, a) :: pre), a0. split; [reflexivity|].
    cbn [forallb]. unfold not_stop at 1. cbn [fst]. rewrite E, Hp. reflexivity.
Qed.
