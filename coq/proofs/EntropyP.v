(* Range and totality facts about the entropy adapters (property C18), for every state of
   either source: all fuzzer byte strings (including exhausted ones) and all word streams. *)
From Coq Require Import List NArith ZArith Bool Lia Arith.
Import ListNotations.
From PF Require Import Opcodes Config Lex Entropy.
Local Open Scope N_scope.
Local Arguments N.pow : simpl never.
Local Arguments N.ltb : simpl never.
Local Arguments N.leb : simpl never.
Local Arguments N.eqb : simpl never.
Local Arguments N.of_nat : simpl never.
Local Arguments N.mul : simpl never.
Local Arguments N.add : simpl never.
Local Arguments N.sub : simpl never.
Local Arguments N.land : simpl never.
Local Arguments N.shiftr : simpl never.
Local Arguments N.shiftl : simpl never.
Local Arguments N.div : simpl never.
Local Arguments N.modulo : simpl never.

Lemma M64_val : M64 = 18446744073709551616. Proof. reflexivity. Qed.
Lemma M32_val : M32 = 4294967296. Proof. reflexivity. Qed.

(* ---------- Canon's method stays below the range (both lanes) ---------- *)
Lemma canon_lt : forall w x y r, x < 2 ^ w -> y < 2 ^ w -> 0 < r -> r <= 2 ^ w ->
  fst (canon w x y r) < r.
Proof.
  intros w x y r Hx Hy Hr0 Hr. unfold canon.
  set (W := 2 ^ w) in *.
  assert (HW : 0 < W) by lia.
  rewrite !N.shiftr_div_pow2. fold W.
  replace (N.land (x * r) (W - 1)) with ((x * r) mod W)
    by (unfold W; rewrite <- N.land_ones; f_equal; rewrite N.ones_equiv; lia).
  pose proof (N.div_mod (x * r) W ltac:(lia)) as Hdm.
  pose proof (N.mod_lt (x * r) W ltac:(lia)) as Hml.
  set (hi := (x * r) / W) in *. set (lo := (x * r) mod W) in *.
  assert (Hhi : hi < r).
  { apply N.div_lt_upper_bound; [lia|]. nia. }
  destruct (N.ltb_spec (W - r) lo) as [Hb|Hb]; cbn [fst]; [|exact Hhi].
  (* biased branch: then hi <= r - 2 *)
  assert (Hhi2 : hi + 1 < r).
  { destruct (N.lt_ge_cases (hi + 1) r) as [H|H]; [exact H|]. exfalso.
    assert (E : hi = r - 1) by lia.
    assert (x * r <= (W - 1) * r) by nia.
    assert (lo = x * r - W * (r - 1)) by (rewrite E in Hdm; lia).
    nia. }
  destruct (W <=? lo + (y * r) / W); lia.
Qed.

Lemma word_lt : forall f p, word f p < M32.
Proof.
  intros. unfold word. change 4294967295 with (N.ones 32). rewrite N.land_ones. apply N.mod_lt. discriminate.
Qed.

Lemma next_u64_lt : forall f p, fst (next_u64 f p) < M64.
Proof.
  intros. unfold next_u64. cbn [fst]. pose proof (word_lt f p). pose proof (word_lt f (p + 1)).
  rewrite M32_val in *. rewrite M64_val. lia.
Qed.

(* ---------- random_range ---------- *)
Lemma random_range_in : forall lo hi f p, lo < hi -> hi < M64 ->
  exists v p', random_range lo hi f p = Ok (v, p') /\ lo <= v /\ v < hi.
Proof.
  intros lo hi f p Hlt Hhi. unfold random_range.
  assert (E : hi <=? lo = false) by (apply N.leb_gt; exact Hlt). rewrite E.
  assert (P64 : 2 ^ 64 = M64) by reflexivity. assert (P32 : 2 ^ 32 = M32) by reflexivity.
  destruct (N.ltb_spec (M32 - 1) hi) as [H64|H32].
  - pose proof (next_u64_lt f p) as Hx. destruct (next_u64 f p) as [x p1] eqn:E1. cbn [fst] in Hx.
    pose proof (next_u64_lt f p1) as Hy. destruct (next_u64 f p1) as [y p2] eqn:E2. cbn [fst] in Hy.
    assert (Hc : fst (canon 64 x y (hi - lo)) < hi - lo) by (apply canon_lt; rewrite ?P64; lia).
    destruct (canon 64 x y (hi - lo)) as [r second]. cbn [fst] in Hc.
    eexists _, _. split; [reflexivity|]. rewrite N.mod_small by lia. lia.
  - assert (Hx : fst (next_u32 f p) < M32) by apply word_lt.
    destruct (next_u32 f p) as [x p1] eqn:E1. cbn [fst] in Hx.
    assert (Hy : fst (next_u32 f p1) < M32) by apply word_lt.
    destruct (next_u32 f p1) as [y p2] eqn:E2. cbn [fst] in Hy.
    assert (Hc : fst (canon 32 x y (hi - lo)) < hi - lo) by (apply canon_lt; rewrite ?P32; lia).
    destruct (canon 32 x y (hi - lo)) as [r second]. cbn [fst] in Hc.
    eexists _, _. split; [reflexivity|]. rewrite N.mod_small by lia. lia.
Qed.

(* ---------- int_in_range ---------- *)
Lemma iir_loop_bound : forall fuel c delta acc l, acc < M64 -> fst (iir_loop fuel c delta acc l) < M64.
Proof.
  induction fuel as [|fuel IH]; intros c delta acc l H; [exact H|].
  cbn [iir_loop]. destruct ((c <? 8) && (0 <? N.shiftr delta (8 * c))); [|exact H].
  destruct l as [|b r]; [exact H|]. apply IH. apply N.mod_lt. discriminate.
Qed.

Lemma int_in_range_in : forall a b l, a <= b -> b < M64 ->
  exists v r, int_in_range a b l = Ok (v, r) /\ a <= v /\ v <= b.
Proof.
  intros a b l Hab Hb. unfold int_in_range.
  assert (E : b <? a = false) by (apply N.ltb_ge; exact Hab). rewrite E.
  destruct (N.eqb_spec a b) as [->|Hne].
  - eexists _, _. split; [reflexivity|]. lia.
  - pose proof (iir_loop_bound 8 0 (b - a) 0 l ltac:(reflexivity)) as Hacc.
    destruct (iir_loop 8 0 (b - a) 0 l) as [acc r]. cbn [fst] in Hacc.
    destruct (N.eqb_spec (b - a) (M64 - 1)) as [Emax|Emax].
    + (* the full range: a = 0, b = usize::MAX *)
      eexists _, _. split; [reflexivity|]. rewrite M64_val in *.
      assert (a = 0) by lia. subst a. rewrite N.add_0_l, N.mod_small by lia. lia.
    + eexists _, _. split; [reflexivity|].
      pose proof (N.mod_lt acc (b - a + 1) ltac:(lia)) as Hm. rewrite M64_val in *.
      set (m := acc mod (b - a + 1)) in *.
      rewrite (N.mod_small (a + m) 18446744073709551616) by lia. lia.
Qed.

(* nothing is consumed and the start is returned once the bytes have run out *)
Lemma int_in_range_exhausted : forall a b, a <= b -> b < M64 -> int_in_range a b [] = Ok (a, []).
Proof.
  intros a b Hab Hb. unfold int_in_range.
  assert (E : b <? a = false) by (apply N.ltb_ge; exact Hab). rewrite E.
  destruct (N.eqb_spec a b) as [->|Hne]; [reflexivity|].
  assert (L : iir_loop 8 0 (b - a) 0 [] = (0, [])).
  { cbn [iir_loop]. destruct ((0 <? 8) && (0 <? N.shiftr (b - a) (8 * 0))); reflexivity. }
  rewrite L.
  destruct (b - a =? M64 - 1).
  - rewrite N.add_0_r. rewrite N.mod_small by lia. reflexivity.
  - rewrite N.mod_0_l by lia. rewrite N.add_0_r. rewrite N.mod_small by lia. reflexivity.
Qed.

(* ---------- the adapter: choose_index, gen_range ---------- *)
Theorem choose_index_lt : forall n s, 0 < n -> n < M64 ->
  exists v s', choose_index n s = Ok (v, s') /\ v < n.
Proof.
  intros n s Hn Hm. unfold choose_index.
  assert (E : n =? 0 = false) by (apply N.eqb_neq; lia). rewrite E.
  destruct s as [l|f p].
  - destruct (int_in_range_in 0 (n - 1) l ltac:(lia) ltac:(lia)) as (v & r & -> & H1 & H2).
    cbn [bind]. eexists _, _. split; [reflexivity|]. lia.
  - destruct (random_range_in 0 n f p Hn Hm) as (v & p' & -> & H1 & H2).
    cbn [bind]. eexists _, _. split; [reflexivity|]. exact H2.
Qed.

Theorem choose_index_zero : forall s, choose_index 0 s = Ok (0, s).
Proof. reflexivity. Qed.

Theorem gen_range_in : forall a b s, a < b -> b < M64 ->
  exists v s', gen_range a b s = Ok (v, s') /\ a <= v /\ v < b.
Proof.
  intros a b s Hab Hb. unfold gen_range.
  assert (E : b <=? a = false) by (apply N.leb_gt; exact Hab). rewrite E.
  destruct s as [l|f p].
  - destruct (int_in_range_in a (b - 1) l ltac:(lia) ltac:(lia)) as (v & r & -> & H1 & H2).
    cbn [bind]. eexists _, _. split; [reflexivity|]. lia.
  - destruct (random_range_in a b f p Hab Hb) as (v & p' & -> & H1 & H2).
    cbn [bind]. eexists _, _. split; [reflexivity|]. lia.
Qed.

Theorem gen_range_degenerate : forall a b s, b <= a -> gen_range a b s = Ok (a, s).
Proof. intros a b s H. unfold gen_range. apply N.leb_le in H. rewrite H. reflexivity. Qed.

(* ---------- printable characters ---------- *)
Definition printable_b (b : N) : bool := (32 <=? b) && (b <=? 126).

Lemma ascii_chars_printable : forallb printable_b ascii_chars = true.
Proof. vm_compute. reflexivity. Qed.

Lemma nth_res_in : forall (A : Type) (l : list A) i, i < N.of_nat (length l) ->
  exists a, nth_res l i = Ok a /\ In a l.
Proof.
  intros A l i H. unfold nth_res.
  destruct (nth_error l (N.to_nat i)) as [a|] eqn:E.
  - exists a. split; [reflexivity|]. eapply nth_error_In; exact E.
  - apply nth_error_None in E. lia.
Qed.

Theorem gen_ascii_char_printable : forall s,
  exists c s', gen_ascii_char s = Ok (c, s') /\ 32 <= c /\ c <= 126.
Proof.
  intro s. unfold gen_ascii_char.
  destruct (choose_index_lt (N.of_nat (length ascii_chars)) s ltac:(vm_compute; reflexivity) ltac:(vm_compute; reflexivity))
    as (i & s' & -> & Hi).
  cbn [bind]. destruct (nth_res_in _ ascii_chars i Hi) as (c & -> & Hin). cbn [bind].
  exists c, s'. split; [reflexivity|].
  pose proof ascii_chars_printable as Hp. rewrite forallb_forall in Hp. specialize (Hp c Hin).
  unfold printable_b in Hp. apply andb_prop in Hp. destruct Hp as [H1 H2].
  apply N.leb_le in H1, H2. lia.
Qed.

(* ---------- gen_bytes has the requested length ---------- *)
Lemma words_bytes_length : forall n f p, length (words_bytes n f p) = (4 * n)%nat.
Proof.
  induction n as [|n IH]; intros f p; [reflexivity|].
  cbn [words_bytes]. rewrite app_length, IH. cbn [le_bytes length]. lia.
Qed.

Theorem gen_bytes_length : forall len s, length (fst (gen_bytes len s)) = N.to_nat len.
Proof.
  intros len s. unfold gen_bytes. destruct s as [l|f p].
  - destruct (N.ltb_spec (N.of_nat (length l)) len) as [H|H]; cbn [fst].
    + apply repeat_length.
    + rewrite map_length, firstn_length. lia.
  - cbn [fst]. rewrite firstn_length, words_bytes_length.
    assert (H : len <= 4 * ((len + 3) / 4)).
    { pose proof (N.div_mod (len + 3) 4 ltac:(lia)). pose proof (N.mod_lt (len + 3) 4 ltac:(lia)). lia. }
    lia.
Qed.

(* ---------- exhausted fuzzer input: fixed deterministic fall-backs, nothing fails ---------- *)
Theorem exhausted_fallback : forall n a b k rate,
  n < M64 -> b < M64 ->
  choose_index n (SrcBytes []) = Ok (0, SrcBytes [])
  /\ gen_range a b (SrcBytes []) = Ok (a, SrcBytes [])
  /\ gen_bool (SrcBytes []) = (false, SrcBytes [])
  /\ gen_uint k (SrcBytes []) = (0, SrcBytes [])
  /\ gen_f64 (SrcBytes []) = (0, SrcBytes [])
  /\ fst (gen_i32 (SrcBytes [])) = 0%Z
  /\ should_mutate rate (SrcBytes []) = (dyadic_lt 0 rate, SrcBytes []).
Proof.
  intros n a b k rate Hn Hb.
  assert (TP : forall k, take_pad k [] = (repeat 0 k, [])).
  { induction k0 as [|k0 IH]; [reflexivity|]. cbn [take_pad]. rewrite IH. reflexivity. }
  assert (LV : forall k, le_val (repeat 0 k) = 0).
  { induction k0 as [|k0 IH]; [reflexivity|]. cbn [repeat le_val]. rewrite IH. reflexivity. }
  assert (AU : forall k, arb_uint k [] = (0, [])).
  { intro k0. unfold arb_uint. rewrite TP, LV. reflexivity. }
  refine (conj _ (conj _ (conj _ (conj _ (conj _ (conj _ _)))))).
  - unfold choose_index. destruct (N.eqb_spec n 0) as [->|Hn0]; [reflexivity|].
    rewrite int_in_range_exhausted by lia. reflexivity.
  - unfold gen_range. destruct (N.leb_spec b a) as [H|H]; [reflexivity|].
    rewrite int_in_range_exhausted by lia. reflexivity.
  - unfold gen_bool. rewrite AU. reflexivity.
  - unfold gen_uint. rewrite AU. reflexivity.
  - unfold gen_f64. rewrite AU. reflexivity.
  - cbv beta iota delta [gen_i32 gen_u32 gen_uint]. rewrite AU. reflexivity.
  - cbv beta iota delta [should_mutate gen_u64 gen_uint]. rewrite AU. reflexivity.
Qed.

(* drawn integers have the width asked for *)
Lemma take_pad_spec : forall k l, length (fst (take_pad k l)) = k /\ Forall (fun b => b < 256) (fst (take_pad k l)).
Proof.
  induction k as [|k IH]; intro l; [split; [reflexivity | constructor]|].
  cbn [take_pad]. destruct l as [|b l'].
  - destruct (IH []) as [H1 H2]. destruct (take_pad k []) as [bs r]. cbn [fst] in *. split; [simpl; lia|].
    constructor; [lia | exact H2].
  - destruct (IH l') as [H1 H2]. destruct (take_pad k l') as [bs r]. cbn [fst] in *. split; [simpl; lia|].
    constructor; [|exact H2]. unfold byte. change 255 with (N.ones 8). rewrite N.land_ones. apply N.mod_lt. discriminate.
Qed.

Lemma le_val_bound : forall l, Forall (fun b => b < 256) l -> le_val l < 2 ^ (8 * N.of_nat (length l)).
Proof.
  induction l as [|b l IH]; intro H.
  - cbn. lia.
  - inversion H as [|? ? Hb Hl]; subst. specialize (IH Hl). cbn [le_val length].
    replace (8 * N.of_nat (S (length l))) with (8 + 8 * N.of_nat (length l)) by lia.
    rewrite N.pow_add_r. change (2 ^ 8) with 256. nia.
Qed.

Theorem gen_uint_bound : forall k s, In k [1; 2; 4; 8]%nat -> fst (gen_uint k s) < 2 ^ (8 * N.of_nat k).
Proof.
  intros k s Hk. unfold gen_uint. destruct s as [l|f p].
  - unfold arb_uint. destruct (take_pad_spec k l) as [H1 H2]. destruct (take_pad k l) as [bs r]. cbn [fst] in *.
    rewrite <- H1. apply le_val_bound. exact H2.
  - destruct (Nat.leb_spec k 4) as [H4|H4].
    + unfold next_u32. cbn [fst].
      replace (2 ^ (8 * N.of_nat k) - 1) with (N.ones (8 * N.of_nat k)) by (rewrite N.ones_equiv; lia).
      rewrite N.land_ones. apply N.mod_lt. apply N.pow_nonzero. discriminate.
    + assert (k = 8%nat) by (cbn [In] in Hk; lia). subst k.
      pose proof (next_u64_lt f p) as H. destruct (next_u64 f p) as [x p']. cbn [fst] in *. exact H.
Qed.

(* ---------- the statements of C18 in terms of the executable oracles ---------- *)
From PF Require Import RefTable Sim Ref Envelope Oracles.

Theorem choose_index_ok : forall n s, n < M64 ->
  exists v s', choose_index n s = Ok (v, s') /\ ok_choose_index n v = true.
Proof.
  intros n s Hn. unfold ok_choose_index. destruct (N.eqb_spec n 0) as [->|H0].
  - exists 0, s. split; reflexivity.
  - destruct (choose_index_lt n s ltac:(lia) Hn) as (v & s' & E & Hv). exists v, s'. split; [exact E|].
    apply N.ltb_lt. exact Hv.
Qed.

Theorem gen_range_ok : forall a b s, b < M64 ->
  exists v s', gen_range a b s = Ok (v, s') /\ ok_gen_range a b v = true.
Proof.
  intros a b s Hb. unfold ok_gen_range. destruct (N.leb_spec b a) as [H|H].
  - exists a, s. split; [apply gen_range_degenerate; exact H | apply N.eqb_refl].
  - destruct (gen_range_in a b s H Hb) as (v & s' & E & H1 & H2). exists v, s'. split; [exact E|].
    apply andb_true_intro. split; [apply N.leb_le | apply N.ltb_lt]; assumption.
Qed.

Theorem gen_ascii_char_ok : forall s, exists c s', gen_ascii_char s = Ok (c, s') /\ ok_ascii c = true.
Proof.
  intro s. destruct (gen_ascii_char_printable s) as (c & s' & E & H1 & H2). exists c, s'. split; [exact E|].
  unfold ok_ascii. apply andb_true_intro. split; apply N.leb_le; assumption.
Qed.

Theorem gen_bytes_ok : forall len s, ok_bytes len (fst (gen_bytes len s)) = true.
Proof. intros len s. unfold ok_bytes. rewrite gen_bytes_length, N2Nat.id. apply N.eqb_refl. Qed.
