(* The aliasing-level model refines the kind-level one (so everything proved about Sim applies to
   the heap model's stack and memo), and facts about reference cycles (C14). *)
From Coq Require Import List NArith ZArith Bool Lia Arith.
Import ListNotations.
From PF Require Import Opcodes Config Sim Heap.
Local Arguments N.of_nat : simpl never.

Fixpoint run_steps_sim (v : version) (s : sim) (ts : list token) : sim :=
  match ts with [] => s | t :: r => run_steps_sim v (sim_step v s t) r end.

Definition wf_heap (h : heap) : Prop :=
  Forall (fun i => i < length (cells h)) (hstk h)
  /\ Forall (fun e => snd e < length (cells h)) (hmemo h).

(* ---------- kinds are stable under allocation and in-place mutation ---------- *)
Lemma kind_at_alloc : forall h o i, i < length (cells h) -> kind_at (fst (alloc h o)) i = kind_at h i.
Proof. intros h o i H. unfold kind_at, cell, alloc. cbn [fst cells with_cells]. rewrite app_nth1 by exact H. reflexivity. Qed.

Lemma kind_at_alloc_new : forall h o, kind_at (fst (alloc h o)) (snd (alloc h o)) = hkind o.
Proof.
  intros h o. unfold kind_at, cell, alloc. cbn [fst snd cells with_cells].
  rewrite app_nth2 by lia. rewrite Nat.sub_diag. reflexivity.
Qed.

Lemma nth_set_nth_obj : forall cs i o j d,
  nth j (set_nth_obj cs i o) d = if Nat.eqb i j && Nat.ltb j (length cs) then o else nth j cs d.
Proof.
  induction cs as [|c cs IH]; intros i o j d.
  - cbn. rewrite andb_false_r. reflexivity.
  - destruct i as [|i]; destruct j as [|j]; cbn [set_nth_obj nth length]; try reflexivity.
    rewrite IH. reflexivity.
Qed.

Lemma kind_at_update : forall h c o j, hkind o = kind_at h c -> kind_at (update h c o) j = kind_at h j.
Proof.
  intros h c o j H. unfold kind_at, cell, update. cbn [cells with_cells]. rewrite nth_set_nth_obj.
  destruct (Nat.eqb_spec c j) as [->|]; [|reflexivity]. destruct (Nat.ltb j (length (cells h))); [|reflexivity].
  cbn [andb]. exact H.
Qed.

Lemma set_nth_obj_length : forall cs i o, length (set_nth_obj cs i o) = length cs.
Proof. induction cs as [|c cs IH]; intros i o; [reflexivity|]. destruct i; cbn; [reflexivity | rewrite IH; reflexivity]. Qed.

(* ---------- popping to a MARK commutes with the abstraction ---------- *)
Lemma hpop_to_mark_abs : forall h st,
  map (kind_at h) (snd (hpop_to_mark h st)) = pop_to_mark (map (kind_at h) st).
Proof.
  intros h st. induction st as [|i st IH]; [reflexivity|]. cbn [hpop_to_mark map pop_to_mark].
  destruct (kind_at h i) eqn:E; cbn [is_mark]; try (destruct (hpop_to_mark h st); cbn [snd] in *; exact IH).
  reflexivity.
Qed.

Lemma hpop_to_mark_sub : forall h st P, Forall P st ->
  Forall P (fst (hpop_to_mark h st)) /\ Forall P (snd (hpop_to_mark h st)).
Proof.
  intros h st P H. induction H as [|i st Hi Hst IH]; [split; constructor|]. cbn [hpop_to_mark].
  destruct (is_mark (kind_at h i)); [split; [constructor | exact Hst]|].
  destruct (hpop_to_mark h st) as [acc rest]. cbn [fst snd] in *. destruct IH. split; [constructor; assumption | assumption].
Qed.

Lemma hdict_pop_abs : forall h fuel st, length st < fuel ->
  map (kind_at h) (snd (hdict_pop h fuel st)) = dict_pop (map (kind_at h) st).
Proof.
  intros h fuel. induction fuel as [|f IH]; intros st Hf; [lia|].
  destruct st as [|v0 [|k0 r]].
  - reflexivity.
  - cbn [hdict_pop map]. destruct (kind_at h v0) eqn:E; cbn [is_mark dict_pop]; reflexivity.
  - cbn [hdict_pop map]. destruct (kind_at h v0) eqn:E; cbn [is_mark];
      try (cbn [dict_pop]; rewrite <- (IH r ltac:(cbn [length] in Hf; lia));
           destruct (hdict_pop h f r); reflexivity).
    reflexivity.
Qed.

Lemma hdict_pop_sub : forall h fuel st P, Forall P st ->
  Forall (fun kv => P (fst kv) /\ P (snd kv)) (fst (hdict_pop h fuel st)) /\ Forall P (snd (hdict_pop h fuel st)).
Proof.
  intros h fuel. induction fuel as [|f IH]; intros st P H; [split; [constructor | exact H]|].
  destruct st as [|v0 [|k0 r]]; cbn [hdict_pop].
  - split; constructor.
  - destruct (is_mark (kind_at h v0)); split; constructor.
  - inversion H as [|? ? Hv H1]; subst. inversion H1 as [|? ? Hk Hr]; subst.
    destruct (is_mark (kind_at h v0)); [split; [constructor | exact H1]|].
    destruct (IH r P Hr) as [A B]. destruct (hdict_pop h f r) as [acc rest]. cbn [fst snd] in *.
    split; [constructor; [split; assumption | exact A] | exact B].
Qed.

(* ---------- abstraction helpers ---------- *)
Lemma map_kind_ext : forall h h' l,
  (forall i, i < length (cells h) -> kind_at h' i = kind_at h i) ->
  Forall (fun i => i < length (cells h)) l -> map (kind_at h') l = map (kind_at h) l.
Proof.
  intros h h' l He H. induction H as [|i l Hi Hl IH]; [reflexivity|]. cbn [map]. rewrite IH, (He i Hi). reflexivity.
Qed.

Lemma memo_kind_ext : forall h h' (m : list (N * nat)),
  (forall i, i < length (cells h) -> kind_at h' i = kind_at h i) ->
  Forall (fun e => snd e < length (cells h)) m ->
  map (fun e => (fst e, kind_at h' (snd e))) m = map (fun e => (fst e, kind_at h (snd e))) m.
Proof.
  intros h h' m He H. induction H as [|e m Hi Hl IH]; [reflexivity|]. cbn [map]. rewrite IH, (He _ Hi). reflexivity.
Qed.

Lemma Forall_lt_weaken : forall (l : list nat) a b, a <= b -> Forall (fun i => i < a) l -> Forall (fun i => i < b) l.
Proof. intros l a b H F. eapply Forall_impl; [|exact F]. intros; cbn in *; lia. Qed.

Lemma Forall_memo_weaken : forall (m : list (N * nat)) a b, a <= b ->
  Forall (fun e => snd e < a) m -> Forall (fun e => snd e < b) m.
Proof. intros m a b H F. eapply Forall_impl; [|exact F]. intros; cbn in *; lia. Qed.

Lemma abs_with_hstk : forall h st, abs (with_hstk h st) = with_stk (abs h) (map (kind_at h) st).
Proof. reflexivity. Qed.

Lemma wf_with_hstk : forall h st, wf_heap h -> Forall (fun i => i < length (cells h)) st -> wf_heap (with_hstk h st).
Proof. intros h st [_ Hm] Hs. split; assumption. Qed.

Lemma abs_alloc : forall h o, wf_heap h ->
  abs (fst (alloc h o)) = abs h /\ wf_heap (fst (alloc h o))
  /\ length (cells (fst (alloc h o))) = S (length (cells h)) /\ snd (alloc h o) = length (cells h).
Proof.
  intros h o [Hs Hm].
  assert (He : forall i, i < length (cells h) -> kind_at (fst (alloc h o)) i = kind_at h i) by (intros; apply kind_at_alloc; assumption).
  assert (L : length (cells (fst (alloc h o))) = S (length (cells h))) by (cbn; rewrite app_length; cbn; lia).
  split.
  - unfold abs. change (hstk (fst (alloc h o))) with (hstk h). change (hmemo (fst (alloc h o))) with (hmemo h).
    change (hproto (fst (alloc h o))) with (hproto h).
    rewrite (map_kind_ext h _ _ He Hs), (memo_kind_ext h _ _ He Hm). reflexivity.
  - split; [|split; [exact L | reflexivity]].
    split; [eapply Forall_lt_weaken; [|exact Hs] | eapply Forall_memo_weaken; [|exact Hm]]; rewrite L; lia.
Qed.

Lemma abs_hpush : forall h o, wf_heap h -> abs (hpush h o) = push (abs h) (hkind o) /\ wf_heap (hpush h o).
Proof.
  intros h o Hwf. destruct (abs_alloc h o Hwf) as (Ha & [Hs Hm] & L & Hid).
  unfold hpush. pose proof (kind_at_alloc_new h o) as Hn. destruct (alloc h o) as [h' i]. cbn [fst snd] in *.
  split.
  - rewrite abs_with_hstk. cbn [map]. rewrite Hn. unfold push. rewrite <- Ha. reflexivity.
  - apply wf_with_hstk; [split; assumption|]. constructor; [lia | exact Hs].
Qed.

Lemma abs_update : forall h c o, wf_heap h -> hkind o = kind_at h c -> abs (update h c o) = abs h /\ wf_heap (update h c o).
Proof.
  intros h c o [Hs Hm] Hk.
  assert (He : forall i, i < length (cells h) -> kind_at (update h c o) i = kind_at h i) by (intros; apply kind_at_update; exact Hk).
  split.
  - unfold abs. change (hstk (update h c o)) with (hstk h). change (hmemo (update h c o)) with (hmemo h).
    change (hproto (update h c o)) with (hproto h).
    rewrite (map_kind_ext h _ _ He Hs), (memo_kind_ext h _ _ He Hm). reflexivity.
  - split; cbn [update with_cells cells hstk hmemo]; rewrite set_nth_obj_length; assumption.
Qed.

Lemma cell_kind : forall h c o, cell h c = o -> kind_at h c = hkind o.
Proof. intros h c o H. unfold kind_at. rewrite H. reflexivity. Qed.

(* ---------- the refinement: one step ---------- *)
Definition RGoal (o : opcode) : Prop := forall v h a, wf_heap h ->
  abs (heap_step v h (o, a)) = sim_step v (abs h) (o, a) /\ wf_heap (heap_step v h (o, a)).

Ltac wf_inv H := let Hs := fresh "Hs" in let Hm := fresh "Hm" in pose proof H as [Hs Hm].
Ltac stk_inv Hs :=
  repeat match type of Hs with
         | Forall _ (_ :: _) => let H1 := fresh "Hi" in let H2 := fresh "Hs" in inversion Hs as [|? ? H1 H2]; subst; clear Hs; rename H2 into Hs
         end.

Lemma rg_push : forall v h a o (k : kind) (obj : hobj), wf_heap h -> hkind obj = k ->
  heap_step v h (o, a) = hpush h obj -> sim_step v (abs h) (o, a) = push (abs h) k ->
  abs (heap_step v h (o, a)) = sim_step v (abs h) (o, a) /\ wf_heap (heap_step v h (o, a)).
Proof.
  intros v h a o k obj Hwf Hk E1 E2. rewrite E1, E2. subst k. apply abs_hpush. exact Hwf.
Qed.

Lemma rg_pushers : forall o, In o [MARK; EMPTY_LIST; EMPTY_TUPLE; EMPTY_DICT; EMPTY_SET; INT; BININT; BININT1; BININT2; LONG; LONG1; LONG4;
    STRING; UNICODE; SHORT_BINUNICODE; BINUNICODE; BINUNICODE8; PERSID; BINSTRING; SHORT_BINSTRING; BINBYTES; SHORT_BINBYTES;
    BINBYTES8; NEXT_BUFFER; BYTEARRAY8; NONE; NEWTRUE; NEWFALSE; FLOAT; BINFLOAT] -> RGoal o.
Proof.
  intros o Hin v h a Hwf. cbn [In] in Hin.
  repeat (destruct Hin as [<-|Hin]; [eapply rg_push; [exact Hwf | | reflexivity | reflexivity]; reflexivity|]).
  destruct Hin.
Qed.

Lemma rg_POP : RGoal POP.
Proof.
  intros v h a Hwf. wf_inv Hwf. cbn [heap_step sim_step fst]. rewrite abs_with_hstk. split.
  - cbn [abs stk]. destruct (hstk h); reflexivity.
  - apply wf_with_hstk; [exact Hwf|]. destruct (hstk h); [constructor|]. inversion Hs; assumption.
Qed.

Lemma rg_STOP : RGoal STOP.
Proof.
  intros v h a Hwf. wf_inv Hwf. cbn [heap_step sim_step fst]. rewrite abs_with_hstk. split.
  - cbn [abs stk]. destruct (hstk h); reflexivity.
  - apply wf_with_hstk; [exact Hwf|]. destruct (hstk h); [constructor|]. inversion Hs; assumption.
Qed.

Lemma rg_noop : forall o, In o [PROTO; READONLY_BUFFER; FRAME] -> RGoal o.
Proof. intros o Hin v h a Hwf. cbn [In] in Hin. repeat (destruct Hin as [<-|Hin]; [split; [reflexivity | exact Hwf]|]). destruct Hin. Qed.

Lemma rg_DUP : RGoal DUP.
Proof.
  intros v h a Hwf. wf_inv Hwf. cbn [heap_step sim_step fst]. cbn [abs stk].
  destruct (hstk h) as [|i st] eqn:E; cbn [map]; [split; [reflexivity | exact Hwf]|].
  destruct (is_mark (kind_at h i)) eqn:Em; [split; [reflexivity | exact Hwf]|].
  split.
  - rewrite abs_with_hstk. unfold push. cbn [map abs stk]. rewrite E. reflexivity.
  - apply wf_with_hstk; [exact Hwf|]. stk_inv Hs. repeat constructor; assumption.
Qed.

Lemma rg_POP_MARK : RGoal POP_MARK.
Proof.
  intros v h a Hwf. wf_inv Hwf. cbn [heap_step sim_step fst]. rewrite abs_with_hstk, hpop_to_mark_abs. split; [reflexivity|].
  apply wf_with_hstk; [exact Hwf | apply hpop_to_mark_sub; exact Hs].
Qed.

(* constructors that pop to the MARK and push one new cell *)
Lemma rg_mark_ctor : forall v h a o k (mk : list nat -> hobj),
  wf_heap h -> (forall l, hkind (mk l) = k) ->
  heap_step v h (o, a) = (let (acc, rest) := hpop_to_mark h (hstk h) in hpush (with_hstk h rest) (mk acc)) ->
  sim_step v (abs h) (o, a) = with_stk (abs h) (k :: pop_to_mark (stk (abs h))) ->
  abs (heap_step v h (o, a)) = sim_step v (abs h) (o, a) /\ wf_heap (heap_step v h (o, a)).
Proof.
  intros v h a o k mk Hwf Hk E1 E2. wf_inv Hwf. rewrite E1, E2.
  pose proof (hpop_to_mark_abs h (hstk h)) as Hp. destruct (hpop_to_mark_sub h (hstk h) _ Hs) as [_ Hr].
  destruct (hpop_to_mark h (hstk h)) as [acc rest]. cbn [fst snd] in *.
  destruct (abs_hpush (with_hstk h rest) (mk acc) (wf_with_hstk _ _ Hwf Hr)) as [A B].
  split; [|exact B]. rewrite A, abs_with_hstk, Hp, Hk. reflexivity.
Qed.

Lemma rg_LIST : RGoal LIST.
Proof. intros v h a Hwf. apply (rg_mark_ctor v h a LIST KList (fun acc => HSeq KList (rev acc))); auto. Qed.
Lemma rg_TUPLE : RGoal TUPLE.
Proof. intros v h a Hwf. apply (rg_mark_ctor v h a TUPLE KTuple (fun acc => HSeq KTuple (rev acc))); auto. Qed.
Lemma rg_FROZENSET : RGoal FROZENSET.
Proof. intros v h a Hwf. apply (rg_mark_ctor v h a FROZENSET KFrozenSet (fun acc => HSeq KFrozenSet (set_insert_all [] acc))); auto. Qed.

Lemma rg_TUPLE1 : RGoal TUPLE1.
Proof.
  intros v h a Hwf. wf_inv Hwf. cbn [heap_step sim_step fst abs stk].
  destruct (hstk h) as [|x r] eqn:E; cbn [map]; [split; [reflexivity | exact Hwf]|]. stk_inv Hs.
  destruct (abs_hpush (with_hstk h r) (HSeq KTuple [x]) (wf_with_hstk _ _ Hwf Hs)) as [A B]. split; [|exact B].
  rewrite A. reflexivity.
Qed.

Lemma rg_BINPERSID : RGoal BINPERSID.
Proof.
  intros v h a Hwf. wf_inv Hwf. cbn [heap_step sim_step fst abs stk].
  destruct (hstk h) as [|x r] eqn:E; cbn [map]; [split; [reflexivity | exact Hwf]|]. stk_inv Hs.
  destruct (abs_hpush (with_hstk h r) (HLeaf KString) (wf_with_hstk _ _ Hwf Hs)) as [A B]. split; [|exact B].
  rewrite A. reflexivity.
Qed.

Lemma rg_TUPLE2 : RGoal TUPLE2.
Proof.
  intros v h a Hwf. wf_inv Hwf. cbn [heap_step sim_step fst abs stk].
  destruct (hstk h) as [|x [|y r]] eqn:E; cbn [map]; try (split; [reflexivity | exact Hwf]). stk_inv Hs.
  destruct (abs_hpush (with_hstk h r) (HSeq KTuple [y; x]) (wf_with_hstk _ _ Hwf Hs)) as [A B]. split; [|exact B].
  rewrite A. reflexivity.
Qed.

Lemma rg_TUPLE3 : RGoal TUPLE3.
Proof.
  intros v h a Hwf. wf_inv Hwf. cbn [heap_step sim_step fst abs stk].
  destruct (hstk h) as [|x [|y [|z r]]] eqn:E; cbn [map]; try (split; [reflexivity | exact Hwf]). stk_inv Hs.
  destruct (abs_hpush (with_hstk h r) (HSeq KTuple [z; y; x]) (wf_with_hstk _ _ Hwf Hs)) as [A B]. split; [|exact B].
  rewrite A. reflexivity.
Qed.

Lemma rg_DICT : RGoal DICT.
Proof.
  intros v h a Hwf. wf_inv Hwf. cbn [heap_step sim_step fst].
  pose proof (hdict_pop_abs h (S (length (hstk h))) (hstk h) ltac:(lia)) as Hp.
  destruct (hdict_pop_sub h (S (length (hstk h))) (hstk h) _ Hs) as [_ Hr].
  destruct (hdict_pop h (S (length (hstk h))) (hstk h)) as [kvs rest]. cbn [fst snd] in *.
  destruct (abs_hpush (with_hstk h rest) (HDict (dict_insert_all [] kvs)) (wf_with_hstk _ _ Hwf Hr)) as [A B].
  split; [|exact B]. rewrite A, abs_with_hstk, Hp. reflexivity.
Qed.

(* in-place container mutation: kinds are untouched *)
Lemma rg_APPEND : RGoal APPEND.
Proof.
  intros v h a Hwf. wf_inv Hwf. cbn [heap_step sim_step fst abs stk].
  destruct (hstk h) as [|x [|c r]] eqn:E; cbn [map]; try (split; [reflexivity | exact Hwf]). stk_inv Hs.
  assert (Hr : Forall (fun i => i < length (cells h)) (c :: r)) by (constructor; assumption).
  destruct (cell h c) as [k|k items|pairs|ca ar|inn] eqn:Ec;
    try (split; [rewrite abs_with_hstk; reflexivity | apply wf_with_hstk; assumption]).
  destruct k; try (split; [rewrite abs_with_hstk; reflexivity | apply wf_with_hstk; assumption]).
  set (ob := HSeq KList (items ++ [x])).
  assert (Hkk : hkind ob = kind_at h c) by (rewrite (cell_kind _ _ _ Ec); reflexivity).
  destruct (abs_update h c ob Hwf Hkk) as [A B].
  split.
  - rewrite abs_with_hstk. rewrite A.
    rewrite (map_kind_ext h (update h c ob) (c :: r) (fun i _ => kind_at_update h c ob i Hkk) Hr). reflexivity.
  - apply wf_with_hstk; [exact B|]. cbn [update with_cells cells]. rewrite set_nth_obj_length. exact Hr.
Qed.

Lemma rg_SETITEM : RGoal SETITEM.
Proof.
  intros v h a Hwf. wf_inv Hwf. cbn [heap_step sim_step fst abs stk].
  destruct (hstk h) as [|x [|y [|c r]]] eqn:E; cbn [map]; try (split; [reflexivity | exact Hwf]). stk_inv Hs.
  assert (Hr : Forall (fun i => i < length (cells h)) (c :: r)) by (constructor; assumption).
  destruct (cell h c) as [k|k items|pairs|ca ar|inn] eqn:Ec;
    try (split; [rewrite abs_with_hstk; reflexivity | apply wf_with_hstk; assumption]).
  set (ob := HDict (dict_insert pairs y x)).
  assert (Hkk : hkind ob = kind_at h c) by (rewrite (cell_kind _ _ _ Ec); reflexivity).
  destruct (abs_update h c ob Hwf Hkk) as [A B].
  split.
  - rewrite abs_with_hstk. rewrite A.
    rewrite (map_kind_ext h (update h c ob) (c :: r) (fun i _ => kind_at_update h c ob i Hkk) Hr). reflexivity.
  - apply wf_with_hstk; [exact B|]. cbn [update with_cells cells]. rewrite set_nth_obj_length. exact Hr.
Qed.

(* pop to the MARK, then possibly mutate the container now on top *)
Lemma rg_mark_mut : forall v h a o (newobj : hobj -> list nat -> option hobj),
  wf_heap h ->
  (forall ob acc ob', newobj ob acc = Some ob' -> hkind ob' = hkind ob) ->
  heap_step v h (o, a) =
    (let (acc, rest) := hpop_to_mark h (hstk h) in
     match rest with
     | c :: _ => match newobj (cell h c) acc with
                 | Some ob' => with_hstk (update h c ob') rest
                 | None => with_hstk h rest
                 end
     | [] => with_hstk h rest
     end) ->
  sim_step v (abs h) (o, a) = with_stk (abs h) (pop_to_mark (stk (abs h))) ->
  abs (heap_step v h (o, a)) = sim_step v (abs h) (o, a) /\ wf_heap (heap_step v h (o, a)).
Proof.
  intros v h a o newobj Hwf Hk E1 E2. wf_inv Hwf. rewrite E1, E2.
  pose proof (hpop_to_mark_abs h (hstk h)) as Hp. destruct (hpop_to_mark_sub h (hstk h) _ Hs) as [_ Hr].
  destruct (hpop_to_mark h (hstk h)) as [acc rest]. cbn [fst snd] in *.
  destruct rest as [|c r]; [split; [rewrite abs_with_hstk, Hp; reflexivity | apply wf_with_hstk; assumption]|].
  destruct (newobj (cell h c) acc) as [ob'|] eqn:En;
    [|split; [rewrite abs_with_hstk, Hp; reflexivity | apply wf_with_hstk; assumption]].
  assert (Hkk : hkind ob' = kind_at h c) by (rewrite (Hk _ _ _ En); reflexivity).
  destruct (abs_update h c ob' Hwf Hkk) as [A B].
  split.
  - rewrite abs_with_hstk, A. rewrite (map_kind_ext h (update h c ob') (c :: r) (fun i _ => kind_at_update h c ob' i Hkk) Hr). rewrite Hp. reflexivity.
  - apply wf_with_hstk; [exact B|]. cbn [update with_cells cells]. rewrite set_nth_obj_length. exact Hr.
Qed.

Lemma rg_APPENDS : RGoal APPENDS.
Proof.
  intros v h a Hwf.
  apply (rg_mark_mut v h a APPENDS (fun ob acc => match ob with HSeq KList items => Some (HSeq KList (items ++ rev acc)) | _ => None end) Hwf).
  - intros ob acc ob' H. destruct ob as [| k items | | |]; try discriminate H. destruct k; try discriminate H. inversion H; reflexivity.
  - cbn [heap_step fst]. destruct (hpop_to_mark h (hstk h)) as [acc rest]. destruct rest as [|c r]; [reflexivity|].
    destruct (cell h c) as [| k items | | |]; try reflexivity. destruct k; reflexivity.
  - reflexivity.
Qed.

Lemma rg_ADDITEMS : RGoal ADDITEMS.
Proof.
  intros v h a Hwf.
  apply (rg_mark_mut v h a ADDITEMS (fun ob acc => match ob with HSeq KSet items => Some (HSeq KSet (set_insert_all items (rev acc))) | _ => None end) Hwf).
  - intros ob acc ob' H. destruct ob as [| k items | | |]; try discriminate H. destruct k; try discriminate H. inversion H; reflexivity.
  - cbn [heap_step fst]. destruct (hpop_to_mark h (hstk h)) as [acc rest]. destruct rest as [|c r]; [reflexivity|].
    destruct (cell h c) as [| k items | | |]; try reflexivity. destruct k; reflexivity.
  - reflexivity.
Qed.

Lemma rg_SETITEMS : RGoal SETITEMS.
Proof.
  intros v h a Hwf. wf_inv Hwf. cbn [heap_step sim_step fst].
  pose proof (hdict_pop_abs h (S (length (hstk h))) (hstk h) ltac:(lia)) as Hp.
  destruct (hdict_pop_sub h (S (length (hstk h))) (hstk h) _ Hs) as [_ Hr].
  destruct (hdict_pop h (S (length (hstk h))) (hstk h)) as [kvs rest]. cbn [fst snd] in *.
  destruct rest as [|c r]; [split; [rewrite abs_with_hstk, Hp; reflexivity | apply wf_with_hstk; assumption]|].
  destruct (cell h c) as [k|k items|pairs|ca ar|inn] eqn:Ec;
    try (split; [rewrite abs_with_hstk, Hp; reflexivity | apply wf_with_hstk; assumption]).
  set (ob := HDict (dict_insert_all pairs kvs)).
  assert (Hkk : hkind ob = kind_at h c) by (rewrite (cell_kind _ _ _ Ec); reflexivity).
  destruct (abs_update h c ob Hwf Hkk) as [A B].
  split.
  - rewrite abs_with_hstk, A. rewrite (map_kind_ext h (update h c ob) (c :: r) (fun i _ => kind_at_update h c ob i Hkk) Hr). rewrite Hp. reflexivity.
  - apply wf_with_hstk; [exact B|]. cbn [update with_cells cells]. rewrite set_nth_obj_length. exact Hr.
Qed.

(* allocate a Global leaf, then push a Callable pointing to it *)
Lemma rg_callable_push : forall h, wf_heap h ->
  let (h1, g) := alloc h (HLeaf KGlobal) in
  abs (hpush h1 (HCall g)) = push (abs h) KCallable /\ wf_heap (hpush h1 (HCall g)).
Proof.
  intros h Hwf. destruct (abs_alloc h (HLeaf KGlobal) Hwf) as (A & W & _ & _).
  destruct (alloc h (HLeaf KGlobal)) as [h1 g]. cbn [fst snd] in *.
  destruct (abs_hpush h1 (HCall g) W) as [A2 W2]. split; [rewrite A2, A; reflexivity | exact W2].
Qed.

Lemma rg_callables : forall o, In o [GLOBAL; EXT1; EXT2; EXT4] -> RGoal o.
Proof.
  intros o Hin v h a Hwf. cbn [In] in Hin.
  repeat (destruct Hin as [<-|Hin];
          [cbn [heap_step sim_step fst]; pose proof (rg_callable_push h Hwf) as H;
           destruct (alloc h (HLeaf KGlobal)) as [h1 g]; exact H|]).
  destruct Hin.
Qed.

Lemma rg_STACK_GLOBAL : RGoal STACK_GLOBAL.
Proof.
  intros v h a Hwf. wf_inv Hwf. cbn [heap_step sim_step fst abs stk].
  destruct (hstk h) as [|x [|m r]] eqn:E; cbn [map].
  - split; [reflexivity | exact Hwf].
  - split; [reflexivity | apply wf_with_hstk; [exact Hwf | constructor]].
  - stk_inv Hs. destruct (k_string (kind_at h m) && k_string (kind_at h x)).
    + pose proof (rg_callable_push (with_hstk h r) (wf_with_hstk _ _ Hwf Hs)) as H.
      destruct (alloc (with_hstk h r) (HLeaf KGlobal)) as [h1 g]. exact H.
    + split; [reflexivity | apply wf_with_hstk; assumption].
Qed.

Lemma rg_REDUCE : RGoal REDUCE.
Proof.
  intros v h a Hwf. wf_inv Hwf. cbn [heap_step sim_step fst abs stk].
  destruct (hstk h) as [|x [|c r]] eqn:E; cbn [map]; try (split; [reflexivity | exact Hwf]). stk_inv Hs.
  destruct (abs_hpush (with_hstk h r) (HInst (inner_of h c) x) (wf_with_hstk _ _ Hwf Hs)) as [A B]. split; [|exact B].
  rewrite A. reflexivity.
Qed.

Lemma rg_NEWOBJ : RGoal NEWOBJ.
Proof.
  intros v h a Hwf. wf_inv Hwf. cbn [heap_step sim_step fst abs stk].
  destruct (hstk h) as [|x [|c r]] eqn:E; cbn [map].
  - split; [reflexivity | exact Hwf].
  - split; [reflexivity | apply wf_with_hstk; [exact Hwf | constructor]].
  - stk_inv Hs.
    destruct (abs_hpush (with_hstk h r) (HInst (inner_of h c) x) (wf_with_hstk _ _ Hwf Hs)) as [A B]. split; [|exact B].
    rewrite A. reflexivity.
Qed.

Lemma rg_NEWOBJ_EX : RGoal NEWOBJ_EX.
Proof.
  intros v h a Hwf. wf_inv Hwf. cbn [heap_step sim_step fst abs stk].
  destruct (hstk h) as [|x [|y [|c r]]] eqn:E; cbn [map];
    try (split; [reflexivity | apply wf_with_hstk; [exact Hwf | constructor]]).
  stk_inv Hs.
  destruct (abs_hpush (with_hstk h r) (HInst (inner_of h c) y) (wf_with_hstk _ _ Hwf Hs)) as [A B]. split; [|exact B].
  rewrite A. reflexivity.
Qed.

Lemma rg_BUILD : RGoal BUILD.
Proof.
  intros v h a Hwf. wf_inv Hwf. cbn [heap_step sim_step fst abs stk].
  destruct (hstk h) as [|x [|i r]] eqn:E; cbn [map]; try (split; [reflexivity | exact Hwf]). stk_inv Hs.
  set (h1 := match cell h i with HInst c _ => update h i (HInst c x) | _ => h end).
  assert (H1 : abs h1 = abs h /\ wf_heap h1 /\ (forall j, kind_at h1 j = kind_at h j) /\ length (cells h1) = length (cells h)).
  { unfold h1. destruct (cell h i) as [k|k items|pairs|ca ar|inn] eqn:Ec;
      try solve [split; [reflexivity|]; split; [exact Hwf|]; split; [intro; reflexivity | reflexivity]].
    assert (Hkk : hkind (HInst ca x) = kind_at h i) by (rewrite (cell_kind _ _ _ Ec); reflexivity).
    destruct (abs_update h i (HInst ca x) Hwf Hkk) as [A B]. split; [exact A|]. split; [exact B|].
    split; [intro j; apply kind_at_update; exact Hkk | cbn [update with_cells cells]; apply set_nth_obj_length]. }
  destruct H1 as (A1 & W1 & K1 & L1).
  assert (Hs1 : Forall (fun j => j < length (cells h1)) r) by (rewrite L1; exact Hs).
  destruct (abs_hpush (with_hstk h1 r) (cell h1 i) (wf_with_hstk _ _ W1 Hs1)) as [A B]. split; [|exact B].
  rewrite A, abs_with_hstk, A1. unfold push, with_stk. cbn [stk memo proto_emitted abs].
  change (hkind (cell h1 i)) with (kind_at h1 i). rewrite K1.
  rewrite (map_kind_ext h h1 r (fun j _ => K1 j) Hs). reflexivity.
Qed.

Lemma rg_INST : RGoal INST.
Proof.
  intros v h a Hwf. wf_inv Hwf. cbn [heap_step sim_step fst].
  destruct (abs_alloc h (HLeaf KGlobal) Hwf) as (A1 & W1 & L1 & I1).
  pose proof (fun i (H : i < length (cells h)) => kind_at_alloc h (HLeaf KGlobal) i H) as K1.
  destruct (alloc h (HLeaf KGlobal)) as [h1 g]. cbn [fst snd] in *.
  assert (Hs1 : Forall (fun i => i < length (cells h1)) (hstk h)) by (eapply Forall_lt_weaken; [|exact Hs]; lia).
  pose proof (hpop_to_mark_abs h1 (hstk h)) as Hp. destruct (hpop_to_mark_sub h1 (hstk h) _ Hs1) as [_ Hr].
  destruct (hpop_to_mark h1 (hstk h)) as [acc rest]. cbn [fst snd] in *.
  destruct (abs_alloc (with_hstk h1 rest) (HSeq KTuple (rev acc)) (wf_with_hstk _ _ W1 Hr)) as (A2 & W2 & _ & _).
  destruct (alloc (with_hstk h1 rest) (HSeq KTuple (rev acc))) as [h2 tup]. cbn [fst snd] in *.
  destruct (abs_hpush h2 (HInst g tup) W2) as [A3 W3]. split; [|exact W3].
  rewrite A3, A2, abs_with_hstk, Hp, A1.
  rewrite (map_kind_ext h h1 (hstk h) K1 Hs). reflexivity.
Qed.

Lemma rev_nil_iff : forall (A : Type) (l : list A), rev l = [] -> l = [].
Proof. intros A l H. destruct l as [|x l]; [reflexivity|]. cbn in H. destruct (rev l); discriminate H. Qed.

Lemma hpop_to_mark_first_kind : forall h st acc rest, hpop_to_mark h st = (acc, rest) ->
  (acc = [] -> match map (kind_at h) st with [] => True | k :: _ => k = KMark end)
  /\ (acc <> [] -> exists i st', st = i :: st' /\ is_mark (kind_at h i) = false).
Proof.
  intros h st acc rest H. destruct st as [|i st']; cbn [hpop_to_mark] in H.
  - inversion H; subst. split; [intros _; exact I | intro N; contradiction].
  - destruct (is_mark (kind_at h i)) eqn:Em.
    + inversion H; subst. split; [intros _; cbn [map]; destruct (kind_at h i); try discriminate Em; reflexivity | intro N; contradiction].
    + destruct (hpop_to_mark h st') as [acc' rest']. inversion H; subst. split; [discriminate | intros _; eauto].
Qed.

Lemma rg_OBJ : RGoal OBJ.
Proof.
  intros v h a Hwf. wf_inv Hwf. cbn [heap_step sim_step fst].
  pose proof (hpop_to_mark_abs h (hstk h)) as Hp. destruct (hpop_to_mark_sub h (hstk h) _ Hs) as [Hacc Hr].
  destruct (hpop_to_mark h (hstk h)) as [acc rest] eqn:Epm. cbn [fst snd] in *.
  destruct (hpop_to_mark_first_kind h (hstk h) acc rest Epm) as [F1 F2].
  destruct (rev acc) as [|cls args] eqn:Er.
  - apply rev_nil_iff in Er. specialize (F1 Er). cbn [abs stk].
    destruct (hstk h) as [|i st'] eqn:E; cbn [map] in *.
    + cbn [hpop_to_mark] in Epm. inversion Epm; subst.
      split; [rewrite abs_with_hstk; unfold with_stk, abs; rewrite E; reflexivity | apply wf_with_hstk; [exact Hwf | constructor]].
    + rewrite F1. cbn [hpop_to_mark] in Epm. rewrite F1 in Epm. cbn [is_mark] in Epm. inversion Epm; subst.
      split; [reflexivity | apply wf_with_hstk; assumption].
  - assert (Hne : acc <> []) by (intro N; subst acc; discriminate Er).
    destruct (F2 Hne) as (i & st' & Est & Em).
    destruct (abs_alloc (with_hstk h rest) (HSeq KTuple args) (wf_with_hstk _ _ Hwf Hr)) as (A2 & W2 & _ & _).
    destruct (alloc (with_hstk h rest) (HSeq KTuple args)) as [h1 tup]. cbn [fst snd] in *.
    destruct (abs_hpush h1 (HInst cls tup) W2) as [A3 W3]. split; [|exact W3].
    rewrite A3, A2, abs_with_hstk, Hp. cbn [abs stk]. rewrite Est. cbn [map].
    destruct (kind_at h i) eqn:Ek; try discriminate Em; reflexivity.
Qed.

(* ---------- memo ---------- *)
Lemma hmemo_get_abs : forall h i,
  memo_get i (memo (abs h)) = match hmemo_get i (hmemo h) with Some c => Some (kind_at h c) | None => None end.
Proof.
  intros h i. unfold hmemo_get. cbn [abs memo]. induction (hmemo h) as [|[j c] m IH]; [reflexivity|].
  cbn [map memo_get fst snd]. destruct (N.eqb i j); [reflexivity | exact IH].
Qed.

Lemma hmemo_get_lt : forall h i c, wf_heap h -> hmemo_get i (hmemo h) = Some c -> c < length (cells h).
Proof.
  intros h i c [_ Hm] H. unfold hmemo_get in H. induction Hm as [|[j c0] m Hc Hm IH]; [discriminate H|].
  cbn [memo_get] in H. destruct (N.eqb i j); [inversion H; subst; exact Hc | apply IH; exact H].
Qed.

Lemma rg_gets : forall o, In o [GET; BINGET; LONG_BINGET] -> RGoal o.
Proof.
  intros o Hin v h a Hwf. cbn [In] in Hin.
  assert (G : forall idx,
            abs (match hmemo_get idx (hmemo h) with Some i => hpush h (cell h i) | None => h end)
            = match memo_get idx (memo (abs h)) with Some k => push (abs h) k | None => abs h end
            /\ wf_heap (match hmemo_get idx (hmemo h) with Some i => hpush h (cell h i) | None => h end)).
  { intro idx. rewrite hmemo_get_abs. destruct (hmemo_get idx (hmemo h)) as [c|]; [|split; [reflexivity | exact Hwf]].
    destruct (abs_hpush h (cell h c) Hwf) as [A B]. split; [rewrite A; reflexivity | exact B]. }
  repeat (destruct Hin as [<-|Hin]; [cbn [heap_step sim_step fst]; apply G|]). destruct Hin.
Qed.

Lemma memo_put_map : forall (f : nat -> kind) i c m,
  map (fun e => (fst e, f (snd e))) (memo_put i c m) = memo_put i (f c) (map (fun e => (fst e, f (snd e))) m).
Proof.
  intros f i c m. induction m as [|[j c0] m IH]; [reflexivity|]. cbn [memo_put map fst snd].
  destruct (N.eqb i j); cbn [map fst snd]; [reflexivity | rewrite IH; reflexivity].
Qed.

Lemma memo_put_Forall : forall (P : N * nat -> Prop) i c m, P (i, c) -> (forall j, P (j, c)) -> Forall P m -> Forall P (memo_put i c m).
Proof.
  intros P i c m H1 H2 H. induction H as [|[j c0] m Hc Hm IH]; [repeat constructor; exact H1|].
  cbn [memo_put]. destruct (N.eqb i j); constructor; auto.
Qed.

(* memo[idx] := a fresh clone of the cell i *)
Definition memo_clone (h : heap) (i : nat) (idx : N) : heap :=
  let (h1, c) := alloc h (cell h i) in with_hmemo h1 (memo_put idx c (hmemo h1)).

Lemma kind_at_cells : forall h h' j, cells h = cells h' -> kind_at h j = kind_at h' j.
Proof. intros h h' j H. unfold kind_at, cell. rewrite H. reflexivity. Qed.

Lemma abs_memo_clone : forall h i idx, wf_heap h -> i < length (cells h) ->
  abs (memo_clone h i idx) = with_memo (abs h) (memo_put idx (kind_at h i) (memo (abs h)))
  /\ wf_heap (memo_clone h i idx)
  /\ length (cells (memo_clone h i idx)) = S (length (cells h))
  /\ (forall j, j < length (cells h) -> kind_at (memo_clone h i idx) j = kind_at h j)
  /\ cell (memo_clone h i idx) i = cell h i
  /\ hstk (memo_clone h i idx) = hstk h.
Proof.
  intros h i idx Hwf Hi. wf_inv Hwf. unfold memo_clone, alloc.
  set (h1 := with_cells h (cells h ++ [cell h i])).
  set (hm := with_hmemo h1 (memo_put idx (length (cells h)) (hmemo h1))).
  assert (K : forall j, j < length (cells h) -> kind_at hm j = kind_at h j).
  { intros j Hj. unfold kind_at, cell, hm, h1. cbn [cells with_hmemo with_cells]. rewrite app_nth1 by exact Hj. reflexivity. }
  assert (Kn : kind_at hm (length (cells h)) = kind_at h i).
  { unfold kind_at at 1. unfold cell, hm, h1. cbn [cells with_hmemo with_cells]. rewrite app_nth2 by lia. rewrite Nat.sub_diag. reflexivity. }
  assert (L : length (cells hm) = S (length (cells h))) by (unfold hm, h1; cbn [cells with_hmemo with_cells]; rewrite app_length; cbn; lia).
  split; [|split; [|split; [exact L | split; [exact K | split]]]].
  - unfold abs. change (hstk hm) with (hstk h). change (hproto hm) with (hproto h).
    change (hmemo hm) with (memo_put idx (length (cells h)) (hmemo h)).
    rewrite memo_put_map, Kn. rewrite (map_kind_ext h hm (hstk h) K Hs), (memo_kind_ext h hm (hmemo h) K Hm). reflexivity.
  - split.
    + change (hstk hm) with (hstk h). rewrite L. eapply Forall_lt_weaken; [|exact Hs]. lia.
    + change (hmemo hm) with (memo_put idx (length (cells h)) (hmemo h)). rewrite L.
      apply memo_put_Forall; [cbn; lia | intro; cbn; lia | eapply Forall_memo_weaken; [|exact Hm]; lia].
  - unfold cell, hm, h1. cbn [cells with_hmemo with_cells]. rewrite app_nth1 by exact Hi. reflexivity.
  - reflexivity.
Qed.

Lemma rg_puts : forall o, In o [PUT; BINPUT; LONG_BINPUT] -> RGoal o.
Proof.
  intros o Hin v h a Hwf. wf_inv Hwf. cbn [In] in Hin.
  assert (G : forall idx,
            abs (match hstk h with
                 | i :: _ => if is_mark (kind_at h i) then h else memo_clone h i idx
                 | [] => h end)
            = match stk (abs h) with
              | k :: _ => if is_mark k then abs h else with_memo (abs h) (memo_put idx k (memo (abs h)))
              | [] => abs h end
            /\ wf_heap (match hstk h with
                        | i :: _ => if is_mark (kind_at h i) then h else memo_clone h i idx
                        | [] => h end)).
  { intro idx. cbn [abs stk]. destruct (hstk h) as [|i st] eqn:E; cbn [map]; [split; [reflexivity | exact Hwf]|].
    destruct (is_mark (kind_at h i)); [split; [reflexivity | exact Hwf]|]. stk_inv Hs.
    destruct (abs_memo_clone h i idx Hwf Hi) as (A & W & _). split; [exact A | exact W]. }
  repeat (destruct Hin as [<-|Hin]; [cbn [heap_step sim_step fst]; apply G|]). destruct Hin.
Qed.

Lemma rg_MEMOIZE : RGoal MEMOIZE.
Proof.
  intros v h a Hwf. wf_inv Hwf. cbn [heap_step sim_step fst]. cbn [abs stk].
  destruct (hstk h) as [|i r] eqn:E; cbn [map]; [split; [reflexivity | exact Hwf]|]. stk_inv Hs.
  change (let (h1, c) := alloc h (cell h i) in
          hpush (with_hstk (with_hmemo h1 (memo_put (N.of_nat (length (hmemo h1))) c (hmemo h1))) r) (cell h i))
    with (hpush (with_hstk (memo_clone h i (N.of_nat (length (hmemo h)))) r) (cell h i)).
  destruct (abs_memo_clone h i (N.of_nat (length (hmemo h))) Hwf Hi) as (A & W & L & K & Ci & Est).
  set (hm := memo_clone h i (N.of_nat (length (hmemo h)))) in *.
  assert (Hr : Forall (fun j => j < length (cells hm)) r) by (rewrite L; eapply Forall_lt_weaken; [|exact Hs]; lia).
  destruct (abs_hpush (with_hstk hm r) (cell h i) (wf_with_hstk _ _ W Hr)) as [A2 W2]. split; [|exact W2].
  rewrite A2, abs_with_hstk, A. rewrite (map_kind_ext h hm r K Hs).
  unfold push, with_stk, with_memo, memo_len. cbn [stk memo proto_emitted abs]. rewrite map_length. rewrite E. reflexivity.
Qed.

(* ---------- all 68 opcodes ---------- *)
Theorem heap_refines_sim : forall v h t, wf_heap h ->
  abs (heap_step v h t) = sim_step v (abs h) t /\ wf_heap (heap_step v h t).
Proof.
  intros v h [o a] Hwf.
  destruct o;
    first [ apply rg_pushers; [cbn; tauto | exact Hwf]
          | apply rg_noop; [cbn; tauto | exact Hwf]
          | apply rg_callables; [cbn; tauto | exact Hwf]
          | apply rg_gets; [cbn; tauto | exact Hwf]
          | apply rg_puts; [cbn; tauto | exact Hwf]
          | idtac ].
  all: first [ apply rg_POP | apply rg_STOP | apply rg_DUP | apply rg_POP_MARK | apply rg_LIST | apply rg_TUPLE | apply rg_FROZENSET
             | apply rg_TUPLE1 | apply rg_TUPLE2 | apply rg_TUPLE3 | apply rg_BINPERSID | apply rg_DICT | apply rg_APPEND
             | apply rg_SETITEM | apply rg_APPENDS | apply rg_ADDITEMS | apply rg_SETITEMS | apply rg_STACK_GLOBAL | apply rg_REDUCE
             | apply rg_NEWOBJ | apply rg_NEWOBJ_EX | apply rg_BUILD | apply rg_INST | apply rg_OBJ | apply rg_MEMOIZE ]; exact Hwf.
Qed.

Lemma wf_heap_init : forall v, wf_heap (heap_init v).
Proof. intro v. split; constructor. Qed.

Theorem heap_run_refines : forall v ts h, wf_heap h ->
  abs (heap_run v h ts) = run_steps_sim v (abs h) ts /\ wf_heap (heap_run v h ts).
Proof.
  intros v ts. induction ts as [|t ts IH]; intros h Hwf; [split; [reflexivity | exact Hwf]|].
  cbn [heap_run run_steps_sim]. destruct (heap_refines_sim v h t Hwf) as [A W]. rewrite <- A. apply IH. exact W.
Qed.

(* ---------- reference cycles ---------- *)
Definition edge (cs : list hobj) (a b : nat) : Prop := exists o, nth_error cs a = Some o /\ In b (kids o).

Inductive path (cs : list hobj) : nat -> nat -> Prop :=
| path_one : forall a b, edge cs a b -> path cs a b
| path_step : forall a b c, edge cs a b -> path cs b c -> path cs a c.

Definition acyclic (cs : list hobj) : Prop := forall a, ~ path cs a a.
(* children refer to existing cells *)
Definition closed (cs : list hobj) : Prop := forall a b, edge cs a b -> b < length cs.

Lemma path_trans : forall cs a b c, path cs a b -> path cs b c -> path cs a c.
Proof. intros cs a b c H. induction H as [a b E|a b c' E P IH]; intro H2; [eapply path_step; eassumption | eapply path_step; [exact E | apply IH; exact H2]]. Qed.

Lemma edge_lt : forall cs a b, edge cs a b -> a < length cs.
Proof. intros cs a b (o & H & _). apply nth_error_Some. congruence. Qed.

(* allocation: the new cell has no incoming edge, so no cycle passes through it *)
Lemma edge_app_old : forall cs o a b, a < length cs -> (edge (cs ++ [o]) a b <-> edge cs a b).
Proof.
  intros cs o a b Ha. unfold edge. rewrite nth_error_app1 by exact Ha. reflexivity.
Qed.

Lemma edge_app_new : forall cs o b, edge (cs ++ [o]) (length cs) b <-> In b (kids o).
Proof.
  intros cs o b. unfold edge. rewrite nth_error_app2 by lia. rewrite Nat.sub_diag. cbn [nth_error]. split.
  - intros (o' & H & Hin). inversion H; subst. exact Hin.
  - intro Hin. exists o. auto.
Qed.

Lemma alloc_acyclic : forall cs o, closed cs -> (forall b, In b (kids o) -> b < length cs) -> acyclic cs ->
  acyclic (cs ++ [o]) /\ closed (cs ++ [o]).
Proof.
  intros cs o Hc Hk Ha.
  assert (Hc' : forall a b, edge (cs ++ [o]) a b -> b < length cs).
  { intros a b E. pose proof (edge_lt _ _ _ E) as Hl. rewrite app_length in Hl. cbn in Hl.
    destruct (Nat.eq_dec a (length cs)) as [->|Hne].
    - apply Hk. apply (proj1 (edge_app_new cs o b)). exact E.
    - apply Hc with a. apply (proj1 (edge_app_old cs o a b ltac:(lia))). exact E. }
  split.
  - assert (Hp : forall a b, path (cs ++ [o]) a b -> a < length cs -> path cs a b).
    { intros a b P. induction P as [a b E|a b c E P IH]; intro Hlt.
      - apply path_one. apply (proj1 (edge_app_old cs o a b Hlt)). exact E.
      - eapply path_step; [apply (proj1 (edge_app_old cs o a b Hlt)); exact E | apply IH; eapply Hc'; exact E]. }
    intros a P.
    assert (Ht : forall x y, path (cs ++ [o]) x y -> y < length cs).
    { intros x y Q. induction Q as [x y E|x y z E Q IH]; [eapply Hc'; exact E | exact IH]. }
    pose proof (Ht a a P) as Hlt.
    exact (Ha a (Hp a a P Hlt)).
  - intros a b E. rewrite app_length. cbn. pose proof (Hc' a b E). lia.
Qed.

(* removing edges never creates a cycle *)
Lemma path_mono : forall cs cs', (forall a b, edge cs' a b -> edge cs a b) -> forall a b, path cs' a b -> path cs a b.
Proof.
  intros cs cs' H a b P. induction P as [a b E|a b c E P IH]; [apply path_one; auto | eapply path_step; [apply H; exact E | exact IH]].
Qed.

Lemma acyclic_mono : forall cs cs', (forall a b, edge cs' a b -> edge cs a b) -> acyclic cs -> acyclic cs'.
Proof. intros cs cs' H Ha a P. exact (Ha a (path_mono cs cs' H a a P)). Qed.

(* mutation of one cell x: every new child y is either an old child or satisfies the guard
   "x is not y and x is not reachable from y" *)
Definition guard (cs : list hobj) (x y : nat) : Prop := y <> x /\ ~ path cs y x.

Lemma nth_error_set_nth_obj : forall cs i o j,
  nth_error (set_nth_obj cs i o) j = if Nat.eqb i j && Nat.ltb j (length cs) then Some o else nth_error cs j.
Proof.
  induction cs as [|c cs IH]; intros i o j.
  - cbn. rewrite andb_false_r. destruct j; reflexivity.
  - destruct i as [|i]; destruct j as [|j]; cbn [set_nth_obj nth_error length]; try reflexivity. rewrite IH. reflexivity.
Qed.

(* additions only: every old child stays, every other child satisfies the guard *)
Lemma update_add_acyclic : forall cs x old o,
  nth_error cs x = Some old -> closed cs -> acyclic cs ->
  (forall y, In y (kids old) -> In y (kids o)) ->
  (forall y, In y (kids o) -> In y (kids old) \/ (y < length cs /\ guard cs x y)) ->
  acyclic (set_nth_obj cs x o) /\ closed (set_nth_obj cs x o).
Proof.
  intros cs x old o Hx Hc Ha Hsup Hk.
  assert (Hxl : x < length cs) by (apply nth_error_Some; congruence).
  set (cs' := set_nth_obj cs x o).
  assert (Eo : forall a b, a <> x -> (edge cs' a b <-> edge cs a b)).
  { intros a b Hne. unfold edge, cs'. rewrite nth_error_set_nth_obj.
    destruct (Nat.eqb_spec x a) as [->|]; [contradiction|]. reflexivity. }
  assert (Ex : forall b, edge cs' x b <-> In b (kids o)).
  { intro b. unfold edge, cs'. rewrite nth_error_set_nth_obj. rewrite Nat.eqb_refl.
    assert (L : Nat.ltb x (length cs) = true) by (apply Nat.ltb_lt; exact Hxl). rewrite L. cbn [andb]. split.
    - intros (o' & H & Hin). inversion H; subst. exact Hin.
    - intro Hin. exists o. auto. }
  assert (Exold : forall b, edge cs x b <-> In b (kids old)).
  { intro b. unfold edge. rewrite Hx. split; [intros (o' & H & Hin); inversion H; subst; exact Hin | intro Hin; exists old; auto]. }
  assert (Up : forall a b, edge cs a b -> edge cs' a b).
  { intros a b E. destruct (Nat.eq_dec a x) as [->|Hne]; [apply Ex, Hsup, Exold, E | apply Eo; assumption]. }
  assert (UpP : forall a b, path cs a b -> path cs' a b).
  { intros a b P. induction P as [a b E|a b c E P IH]; [apply path_one, Up, E | eapply path_step; [apply Up; exact E | exact IH]]. }
  assert (Hin : forall a, path cs' a x -> a <> x -> path cs a x).
  { intros a P. remember x as t eqn:Et in P. induction P as [a b E|a b c E P IH]; intro Hne; subst.
    - apply path_one. apply Eo; assumption.
    - destruct (Nat.eq_dec b x) as [->|Hb]; [apply path_one; apply Eo; assumption|].
      eapply path_step; [apply Eo; [exact Hne | exact E] | apply IH; [reflexivity | exact Hb]]. }
  assert (T : forall a b, path cs' a b ->
            path cs a b \/ ((a = x \/ path cs a x) /\ exists y, In y (kids o) /\ (y = b \/ path cs' y b))).
  { intros a b P. induction P as [a b E|a b c E P IH].
    - destruct (Nat.eq_dec a x) as [->|Hne].
      + right. split; [left; reflexivity|]. exists b. split; [apply Ex; exact E | left; reflexivity].
      + left. apply path_one. apply Eo; assumption.
    - destruct (Nat.eq_dec a x) as [->|Hne].
      + right. split; [left; reflexivity|]. exists b. split; [apply Ex; exact E | right; exact P].
      + assert (Eold : edge cs a b) by (apply Eo; assumption).
        destruct IH as [Pold | [[Hb | Pb] Hy]].
        * left. eapply path_step; eassumption.
        * right. split; [right; subst b; apply path_one; exact Eold | exact Hy].
        * right. split; [right; eapply path_step; eassumption | exact Hy]. }
  split.
  - intros a P. destruct (T a a P) as [Pold | [Hax (y & Hy & Hya)]]; [exact (Ha a Pold)|].
    assert (Hyx : y = x \/ path cs' y x).
    { destruct Hax as [->|Pax]; [exact Hya|]. right.
      destruct Hya as [->|Pya]; [apply UpP; exact Pax | eapply path_trans; [exact Pya | apply UpP; exact Pax]]. }
    destruct (Hk y Hy) as [Hold | [_ [Hne Hnp]]].
    + (* y is an old child of x: an old cycle *)
      assert (Exy : edge cs x y) by (apply Exold; exact Hold).
      destruct Hyx as [->|Pyx]; [exact (Ha x (path_one _ _ _ Exy))|].
      destruct (Nat.eq_dec y x) as [->|Hyne]; [exact (Ha x (path_one _ _ _ Exy))|].
      exact (Ha x (path_step _ _ _ _ Exy (Hin y Pyx Hyne))).
    + destruct Hyx as [E|Pyx]; [contradiction|]. exact (Hnp (Hin y Pyx Hne)).
  - intros a b E. unfold cs'. rewrite set_nth_obj_length.
    destruct (Nat.eq_dec a x) as [->|Hne].
    + apply Ex in E. destruct (Hk b E) as [Hold | [Hlt _]]; [apply Hc with x; apply Exold; exact Hold | exact Hlt].
    + apply Hc with a. apply Eo; assumption.
Qed.

(* general mutation of one cell: children may also be dropped *)
Lemma update_acyclic : forall cs x old o,
  nth_error cs x = Some old -> closed cs -> acyclic cs ->
  (forall y, In y (kids o) -> In y (kids old) \/ (y < length cs /\ guard cs x y)) ->
  acyclic (set_nth_obj cs x o) /\ closed (set_nth_obj cs x o).
Proof.
  intros cs x old o Hx Hc Ha Hk.
  assert (Hxl : x < length cs) by (apply nth_error_Some; congruence).
  set (mid := HSeq KList (kids old ++ kids o)).
  destruct (update_add_acyclic cs x old mid Hx Hc Ha) as [Am Cm].
  { intros y Hy. cbn [mid kids]. apply in_or_app. left; exact Hy. }
  { intros y Hy. cbn [mid kids] in Hy. apply in_app_or in Hy. destruct Hy as [Hy|Hy]; [left; exact Hy | apply Hk; exact Hy]. }
  assert (Sub : forall a b, edge (set_nth_obj cs x o) a b -> edge (set_nth_obj cs x mid) a b).
  { intros a b (ob & Hn & Hin). unfold edge. rewrite nth_error_set_nth_obj in *.
    destruct (Nat.eqb x a && Nat.ltb a (length cs)).
    - inversion Hn; subst. exists mid. split; [reflexivity|]. cbn [mid kids]. apply in_or_app. right; exact Hin.
    - exists ob. auto. }
  split.
  - eapply acyclic_mono; [exact Sub | exact Am].
  - intros a b E. rewrite set_nth_obj_length. pose proof (Cm a b (Sub a b E)) as H. rewrite set_nth_obj_length in H. exact H.
Qed.

(* ---------- every step preserves acyclicity, given the guard on its (at most one) in-place mutation ---------- *)
Definition GC (cs : list hobj) : Prop := closed cs /\ acyclic cs.

Lemma GC_nil : GC [].
Proof. split; [intros a b (o & H & _); destruct a; discriminate H | intros a P; inversion P as [? ? (o & H & _)|? ? ? (o & H & _) _]; destruct a; discriminate H]. Qed.

Lemma GC_alloc : forall cs o, GC cs -> (forall b, In b (kids o) -> b < length cs) -> GC (cs ++ [o]).
Proof. intros cs o [Hc Ha] Hk. destruct (alloc_acyclic cs o Hc Hk Ha). split; assumption. Qed.

Lemma nth_error_cell : forall h i, i < length (cells h) -> nth_error (cells h) i = Some (cell h i).
Proof. intros h i H. unfold cell. apply nth_error_nth'. exact H. Qed.

Lemma GC_update : forall h x o, GC (cells h) -> x < length (cells h) ->
  (forall y, In y (kids o) -> In y (kids (cell h x)) \/ (y < length (cells h) /\ guard (cells h) x y)) ->
  GC (cells (update h x o)).
Proof.
  intros h x o [Hc Ha] Hx Hk. cbn [update with_cells cells].
  destruct (update_acyclic (cells h) x (cell h x) o (nth_error_cell h x Hx) Hc Ha Hk). split; assumption.
Qed.

Lemma closed_kids : forall h i b, closed (cells h) -> i < length (cells h) -> In b (kids (cell h i)) -> b < length (cells h).
Proof. intros h i b Hc Hi Hb. apply Hc with i. exists (cell h i). split; [apply nth_error_cell; exact Hi | exact Hb]. Qed.

Lemma set_insert_all_sub : forall xs items y, In y (set_insert_all items xs) -> In y items \/ In y xs.
Proof.
  induction xs as [|x xs IH]; intros items y H; [left; exact H|]. cbn [set_insert_all fold_left] in H.
  change (fold_left set_insert xs (set_insert items x)) with (set_insert_all (set_insert items x) xs) in H.
  destruct (IH _ _ H) as [H1|H1]; [|right; right; exact H1].
  unfold set_insert in H1. destruct (existsb (Nat.eqb x) items); [left; exact H1|].
  apply in_app_or in H1. destruct H1 as [H1|[<-|[]]]; [left; exact H1 | right; left; reflexivity].
Qed.

Lemma dict_insert_kids : forall ps k v y, In y (kids (HDict (dict_insert ps k v))) -> In y (kids (HDict ps)) \/ y = k \/ y = v.
Proof.
  induction ps as [|[k0 v0] ps IH]; intros k v y H; cbn [dict_insert kids flat_map fst snd In app] in *.
  - destruct H as [<-|[<-|[]]]; auto.
  - destruct (Nat.eqb_spec k0 k) as [->|Hne]; cbn [kids flat_map fst snd In app] in H.
    + destruct H as [<-|[<-|H]]; auto.
    + destruct H as [<-|[<-|H]]; auto. destruct (IH k v y H) as [H1|H1]; auto.
Qed.

Lemma dict_insert_all_kids : forall kvs ps y, In y (kids (HDict (dict_insert_all ps kvs))) ->
  In y (kids (HDict ps)) \/ exists kv, In kv kvs /\ (y = fst kv \/ y = snd kv).
Proof.
  induction kvs as [|kv kvs IH]; intros ps y H; [left; exact H|]. cbn [dict_insert_all fold_left] in H.
  change (fold_left (fun acc kv0 => dict_insert acc (fst kv0) (snd kv0)) kvs (dict_insert ps (fst kv) (snd kv)))
    with (dict_insert_all (dict_insert ps (fst kv) (snd kv)) kvs) in H.
  destruct (IH _ _ H) as [H1|(kv' & Hin & Hy)]; [|right; exists kv'; split; [right; exact Hin | exact Hy]].
  destruct (dict_insert_kids _ _ _ _ H1) as [H2|H2]; [left; exact H2 | right; exists kv; split; [left; reflexivity | exact H2]].
Qed.

(* the guard of a step: only the six mutating opcodes have one *)
Definition step_guard (h : heap) (t : token) : Prop :=
  let st := hstk h in
  let cs := cells h in
  match fst t with
  | APPEND => match st with
              | item :: c :: _ => match cell h c with HSeq KList _ => guard cs c item | _ => True end
              | _ => True
              end
  | APPENDS | ADDITEMS =>
      let (acc, rest) := hpop_to_mark h st in
      match rest with
      | c :: _ => match cell h c with HSeq _ _ => forall y, In y acc -> guard cs c y | _ => True end
      | [] => True
      end
  | SETITEM => match st with
               | value :: key :: c :: _ => match cell h c with HDict _ => guard cs c key /\ guard cs c value | _ => True end
               | _ => True
               end
  | SETITEMS =>
      let (kvs, rest) := hdict_pop h (S (length st)) st in
      match rest with
      | c :: _ => match cell h c with
                  | HDict _ => forall kv, In kv kvs -> guard cs c (fst kv) /\ guard cs c (snd kv)
                  | _ => True
                  end
      | [] => True
      end
  | BUILD => match st with
             | state :: i :: _ => match cell h i with HInst _ _ => guard cs i state | _ => True end
             | _ => True
             end
  | _ => True
  end.

Lemma cells_hpush : forall h o, cells (hpush h o) = cells h ++ [o].
Proof. reflexivity. Qed.

Lemma GC_hpush : forall h o, GC (cells h) -> (forall b, In b (kids o) -> b < length (cells h)) -> GC (cells (hpush h o)).
Proof. intros h o H Hk. rewrite cells_hpush. apply GC_alloc; assumption. Qed.

Lemma In_Forall_lt : forall (l : list nat) n b, Forall (fun i => i < n) l -> In b l -> b < n.
Proof. intros l n b H Hin. rewrite Forall_forall in H. apply H. exact Hin. Qed.

Lemma inner_of_lt : forall h c, closed (cells h) -> c < length (cells h) -> inner_of h c < length (cells h).
Proof.
  intros h c Hc Hl. unfold inner_of. destruct (cell h c) as [| | | |i] eqn:E; try exact Hl.
  apply (closed_kids h c i Hc Hl). rewrite E. left; reflexivity.
Qed.

Definition SGoal (o : opcode) : Prop := forall v h a, wf_heap h -> GC (cells h) -> step_guard h (o, a) ->
  GC (cells (heap_step v h (o, a))).

Lemma sg_same : forall o, In o [POP; DUP; POP_MARK; STOP; PROTO; READONLY_BUFFER; FRAME] -> SGoal o.
Proof.
  intros o Hin v h a Hwf HG _. cbn [In] in Hin.
  repeat (destruct Hin as [<-|Hin]; [cbn [heap_step fst]; try exact HG|]); try (destruct Hin).
  destruct (hstk h) as [|i r]; [exact HG|]. destruct (is_mark (kind_at h i)); exact HG.
Qed.

Lemma sg_leaf : forall o, In o [MARK; INT; BININT; BININT1; BININT2; LONG; LONG1; LONG4;
    STRING; UNICODE; SHORT_BINUNICODE; BINUNICODE; BINUNICODE8; PERSID; BINSTRING; SHORT_BINSTRING; BINBYTES; SHORT_BINBYTES;
    BINBYTES8; NEXT_BUFFER; BYTEARRAY8; NONE; NEWTRUE; NEWFALSE; FLOAT; BINFLOAT; EMPTY_LIST; EMPTY_TUPLE; EMPTY_DICT; EMPTY_SET] -> SGoal o.
Proof.
  intros o Hin v h a Hwf HG _. cbn [In] in Hin.
  repeat (destruct Hin as [<-|Hin]; [cbn [heap_step fst]; apply GC_hpush; [exact HG | intros b []]|]). destruct Hin.
Qed.

Lemma sg_BINPERSID : SGoal BINPERSID.
Proof. intros v h a Hwf HG _. cbn [heap_step fst]. destruct (hstk h); [exact HG | apply GC_hpush; [exact HG | intros b []]]. Qed.

Lemma sg_tuples : forall o, In o [TUPLE1; TUPLE2; TUPLE3] -> SGoal o.
Proof.
  intros o Hin v h a Hwf HG _. wf_inv Hwf. cbn [In] in Hin.
  destruct Hin as [<-|[<-|[<-|[]]]]; cbn [heap_step fst];
    destruct (hstk h) as [|x0 [|x1 [|x2 r]]]; try exact HG; stk_inv Hs;
    apply GC_hpush; try exact HG; cbn [kids]; intros b Hb; cbn [In] in Hb; intuition (subst; assumption).
Qed.

Lemma sg_mark_ctor : forall o, In o [LIST; TUPLE; FROZENSET] -> SGoal o.
Proof.
  intros o Hin v h a Hwf HG _. wf_inv Hwf. cbn [In] in Hin.
  destruct (hpop_to_mark_sub h (hstk h) _ Hs) as [Hacc _].
  destruct Hin as [<-|[<-|[<-|[]]]]; cbn [heap_step fst]; destruct (hpop_to_mark h (hstk h)) as [acc rest]; cbn [fst] in Hacc;
    apply GC_hpush; try exact HG; cbn [kids]; intros b Hb.
  - apply (In_Forall_lt acc); [exact Hacc | apply in_rev; exact Hb].
  - apply (In_Forall_lt acc); [exact Hacc | apply in_rev; exact Hb].
  - destruct (set_insert_all_sub _ _ _ Hb) as [[]|H]. apply (In_Forall_lt acc); assumption.
Qed.

Lemma sg_DICT : SGoal DICT.
Proof.
  intros v h a Hwf HG _. wf_inv Hwf. cbn [heap_step fst].
  destruct (hdict_pop_sub h (S (length (hstk h))) (hstk h) _ Hs) as [Hkv _].
  destruct (hdict_pop h (S (length (hstk h))) (hstk h)) as [kvs rest]. cbn [fst] in Hkv.
  apply GC_hpush; [exact HG|]. intros b Hb.
  destruct (dict_insert_all_kids _ _ _ Hb) as [[]|(kv & Hin & Hy)].
  rewrite Forall_forall in Hkv. destruct (Hkv kv Hin) as [H1 H2]. destruct Hy as [-> | ->]; assumption.
Qed.

Lemma sg_callables : forall o, In o [GLOBAL; EXT1; EXT2; EXT4] -> SGoal o.
Proof.
  intros o Hin v h a Hwf HG _. cbn [In] in Hin.
  assert (G : GC (cells (let (h1, g) := alloc h (HLeaf KGlobal) in hpush h1 (HCall g)))).
  { unfold alloc. rewrite cells_hpush. cbn [cells with_cells]. apply GC_alloc; [apply GC_alloc; [exact HG | intros b []]|].
    cbn [kids]. intros b [<-|[]]. rewrite app_length. cbn. lia. }
  repeat (destruct Hin as [<-|Hin]; [exact G|]). destruct Hin.
Qed.

Lemma sg_STACK_GLOBAL : SGoal STACK_GLOBAL.
Proof.
  intros v h a Hwf HG _. cbn [heap_step fst]. destruct (hstk h) as [|x [|m r]]; try exact HG.
  destruct (k_string (kind_at h m) && k_string (kind_at h x)); [|exact HG].
  unfold alloc. rewrite cells_hpush. cbn [cells with_cells with_hstk]. apply GC_alloc; [apply GC_alloc; [exact HG | intros b []]|].
  cbn [kids]. intros b [<-|[]]. rewrite app_length. cbn. lia.
Qed.

Lemma sg_inst_like : forall o, In o [REDUCE; NEWOBJ; NEWOBJ_EX] -> SGoal o.
Proof.
  intros o Hin v h a Hwf HG _. wf_inv Hwf. pose proof HG as [Hc Ha]. cbn [In] in Hin.
  assert (K : forall c x r, c < length (cells h) -> x < length (cells h) ->
            GC (cells (hpush (with_hstk h r) (HInst (inner_of h c) x)))).
  { intros c x r Hcl Hxl. rewrite cells_hpush. cbn [cells with_hstk]. apply GC_alloc; [exact HG|].
    cbn [kids]. intros b [<-|[<-|[]]]; [apply inner_of_lt; assumption | assumption]. }
  destruct Hin as [<-|[<-|[<-|[]]]]; cbn [heap_step fst].
  - destruct (hstk h) as [|x0 [|x1 r]]; try exact HG. stk_inv Hs. apply K; assumption.
  - destruct (hstk h) as [|x0 [|x1 r]]; try exact HG. stk_inv Hs. apply K; assumption.
  - destruct (hstk h) as [|x0 [|x1 [|x2 r]]]; try exact HG. stk_inv Hs. apply K; assumption.
Qed.

Lemma sg_INST : SGoal INST.
Proof.
  intros v h a Hwf HG _. wf_inv Hwf. cbn [heap_step fst]. unfold alloc at 1.
  set (h1 := with_cells h (cells h ++ [HLeaf KGlobal])).
  assert (G1 : GC (cells h1)) by (apply GC_alloc; [exact HG | intros b []]).
  assert (L1 : length (cells h1) = S (length (cells h))) by (unfold h1; cbn [cells with_cells]; rewrite app_length; cbn; lia).
  assert (Hs1 : Forall (fun i => i < length (cells h1)) (hstk h)) by (eapply Forall_lt_weaken; [|exact Hs]; lia).
  destruct (hpop_to_mark_sub h1 (hstk h) _ Hs1) as [Hacc _].
  destruct (hpop_to_mark h1 (hstk h)) as [acc rest]. cbn [fst] in Hacc. unfold alloc.
  rewrite cells_hpush. cbn [cells with_cells with_hstk]. apply GC_alloc.
  - apply GC_alloc; [exact G1|]. cbn [kids]. intros b Hb. apply (In_Forall_lt acc); [exact Hacc | apply in_rev; exact Hb].
  - cbn [kids]. intros b [<-|[<-|[]]]; unfold h1; cbn [cells with_cells]; rewrite !app_length; cbn; lia.
Qed.

Lemma sg_OBJ : SGoal OBJ.
Proof.
  intros v h a Hwf HG _. wf_inv Hwf. cbn [heap_step fst].
  destruct (hpop_to_mark_sub h (hstk h) _ Hs) as [Hacc _].
  destruct (hpop_to_mark h (hstk h)) as [acc rest]. cbn [fst] in Hacc.
  destruct (rev acc) as [|cls args] eqn:Er; [exact HG|].
  assert (Hall : forall b, In b (cls :: args) -> b < length (cells h)).
  { intros b Hb. apply (In_Forall_lt acc); [exact Hacc|]. apply in_rev. rewrite Er. exact Hb. }
  unfold alloc. rewrite cells_hpush. cbn [cells with_cells with_hstk]. apply GC_alloc.
  - apply GC_alloc; [exact HG|]. cbn [kids]. intros b Hb. apply Hall. right; exact Hb.
  - cbn [kids]. intros b [<-|[<-|[]]]; rewrite app_length; cbn; [pose proof (Hall cls (or_introl eq_refl)) |]; lia.
Qed.

Lemma sg_gets : forall o, In o [GET; BINGET; LONG_BINGET] -> SGoal o.
Proof.
  intros o Hin v h a Hwf HG _. cbn [In] in Hin.
  assert (G : forall idx, GC (cells (match hmemo_get idx (hmemo h) with Some i => hpush h (cell h i) | None => h end))).
  { intro idx. destruct (hmemo_get idx (hmemo h)) as [c|] eqn:E; [|exact HG].
    apply GC_hpush; [exact HG|]. intros b Hb. destruct HG as [Hc _].
    apply (closed_kids h c b Hc (hmemo_get_lt h idx c Hwf E) Hb). }
  repeat (destruct Hin as [<-|Hin]; [cbn [heap_step fst]; apply G|]). destruct Hin.
Qed.

Lemma GC_memo_clone : forall h i idx, GC (cells h) -> i < length (cells h) -> GC (cells (memo_clone h i idx)).
Proof.
  intros h i idx HG Hi. unfold memo_clone, alloc. cbn [cells with_hmemo with_cells]. apply GC_alloc; [exact HG|].
  intros b Hb. destruct HG as [Hc _]. apply (closed_kids h i b Hc Hi Hb).
Qed.

Lemma sg_puts : forall o, In o [PUT; BINPUT; LONG_BINPUT] -> SGoal o.
Proof.
  intros o Hin v h a Hwf HG _. wf_inv Hwf. cbn [In] in Hin.
  assert (G : forall idx, GC (cells (match hstk h with
                                     | i :: _ => if is_mark (kind_at h i) then h else memo_clone h i idx
                                     | [] => h end))).
  { intro idx. destruct (hstk h) as [|i st]; [exact HG|]. destruct (is_mark (kind_at h i)); [exact HG|].
    stk_inv Hs. apply GC_memo_clone; assumption. }
  repeat (destruct Hin as [<-|Hin]; [cbn [heap_step fst]; apply G|]). destruct Hin.
Qed.

Lemma sg_MEMOIZE : SGoal MEMOIZE.
Proof.
  intros v h a Hwf HG _. wf_inv Hwf. cbn [heap_step fst]. destruct (hstk h) as [|i r]; [exact HG|]. stk_inv Hs.
  change (let (h1, c) := alloc h (cell h i) in
          hpush (with_hstk (with_hmemo h1 (memo_put (N.of_nat (length (hmemo h1))) c (hmemo h1))) r) (cell h i))
    with (hpush (with_hstk (memo_clone h i (N.of_nat (length (hmemo h)))) r) (cell h i)).
  rewrite cells_hpush. cbn [cells with_hstk]. pose proof (GC_memo_clone h i (N.of_nat (length (hmemo h))) HG Hi) as G1.
  apply GC_alloc; [exact G1|]. intros b Hb. destruct HG as [Hc _].
  pose proof (closed_kids h i b Hc Hi Hb). unfold memo_clone, alloc. cbn [cells with_hmemo with_cells]. rewrite app_length. cbn. lia.
Qed.

(* the six in-place mutations *)
Lemma sg_APPEND : SGoal APPEND.
Proof.
  intros v h a Hwf HG Hg. wf_inv Hwf. unfold step_guard in Hg. cbn [fst] in Hg. cbn [heap_step fst].
  destruct (hstk h) as [|x [|c r]]; try exact HG. stk_inv Hs.
  destruct (cell h c) as [k|k items|pairs|ca ar|inn] eqn:Ec; try exact HG. destruct k; try exact HG.
  cbn [cells with_hstk]. apply GC_update; [exact HG | assumption|]. rewrite Ec. cbn [kids]. intros y Hy.
  apply in_app_or in Hy. destruct Hy as [Hy|[<-|[]]]; [left; exact Hy | right; split; assumption].
Qed.

Lemma sg_SETITEM : SGoal SETITEM.
Proof.
  intros v h a Hwf HG Hg. wf_inv Hwf. unfold step_guard in Hg. cbn [fst] in Hg. cbn [heap_step fst].
  destruct (hstk h) as [|x [|y [|c r]]]; try exact HG. stk_inv Hs.
  destruct (cell h c) as [k|k items|pairs|ca ar|inn] eqn:Ec; try exact HG.
  cbn [cells with_hstk]. apply GC_update; [exact HG | assumption|]. rewrite Ec. intros z Hz. destruct Hg as [G1 G2].
  destruct (dict_insert_kids _ _ _ _ Hz) as [H|[->| ->]]; [left; exact H | right; split; assumption | right; split; assumption].
Qed.

Lemma sg_APPENDS : SGoal APPENDS.
Proof.
  intros v h a Hwf HG Hg. wf_inv Hwf. unfold step_guard in Hg. cbn [fst] in Hg. cbn [heap_step fst].
  destruct (hpop_to_mark_sub h (hstk h) _ Hs) as [Hacc Hr].
  destruct (hpop_to_mark h (hstk h)) as [acc rest]. cbn [fst snd] in *.
  destruct rest as [|c r]; [exact HG|]. stk_inv Hr.
  destruct (cell h c) as [k|k items|pairs|ca ar|inn] eqn:Ec; try exact HG. destruct k; try exact HG.
  cbn [cells with_hstk]. apply GC_update; [exact HG | assumption|]. rewrite Ec. cbn [kids]. intros y Hy.
  apply in_app_or in Hy. destruct Hy as [Hy|Hy]; [left; exact Hy|]. apply in_rev in Hy.
  right. split; [apply (In_Forall_lt acc); assumption | apply Hg; exact Hy].
Qed.

Lemma sg_ADDITEMS : SGoal ADDITEMS.
Proof.
  intros v h a Hwf HG Hg. wf_inv Hwf. unfold step_guard in Hg. cbn [fst] in Hg. cbn [heap_step fst].
  destruct (hpop_to_mark_sub h (hstk h) _ Hs) as [Hacc Hr].
  destruct (hpop_to_mark h (hstk h)) as [acc rest]. cbn [fst snd] in *.
  destruct rest as [|c r]; [exact HG|]. stk_inv Hr.
  destruct (cell h c) as [k|k items|pairs|ca ar|inn] eqn:Ec; try exact HG. destruct k; try exact HG.
  cbn [cells with_hstk]. apply GC_update; [exact HG | assumption|]. rewrite Ec. cbn [kids]. intros y Hy.
  destruct (set_insert_all_sub _ _ _ Hy) as [H|H]; [left; exact H|]. apply in_rev in H.
  right. split; [apply (In_Forall_lt acc); assumption | apply Hg; exact H].
Qed.

Lemma sg_SETITEMS : SGoal SETITEMS.
Proof.
  intros v h a Hwf HG Hg. wf_inv Hwf. unfold step_guard in Hg. cbn [fst] in Hg. cbn [heap_step fst].
  destruct (hdict_pop_sub h (S (length (hstk h))) (hstk h) _ Hs) as [Hkv Hr].
  destruct (hdict_pop h (S (length (hstk h))) (hstk h)) as [kvs rest]. cbn [fst snd] in *.
  destruct rest as [|c r]; [exact HG|]. stk_inv Hr.
  destruct (cell h c) as [k|k items|pairs|ca ar|inn] eqn:Ec; try exact HG.
  cbn [cells with_hstk]. apply GC_update; [exact HG | assumption|]. rewrite Ec. intros y Hy.
  destruct (dict_insert_all_kids _ _ _ Hy) as [H|(kv & Hin & Hyk)]; [left; exact H|].
  rewrite Forall_forall in Hkv. destruct (Hkv kv Hin) as [L1 L2]. destruct (Hg kv Hin) as [G1 G2].
  right. destruct Hyk as [-> | ->]; split; assumption.
Qed.

Lemma sg_BUILD : SGoal BUILD.
Proof.
  intros v h a Hwf HG Hg. wf_inv Hwf. unfold step_guard in Hg. cbn [fst] in Hg. cbn [heap_step fst].
  destruct (hstk h) as [|x [|i r]]; try exact HG. stk_inv Hs.
  set (h1 := match cell h i with HInst c _ => update h i (HInst c x) | _ => h end).
  assert (H1 : GC (cells h1) /\ length (cells h1) = length (cells h)
               /\ (forall b, In b (kids (cell h1 i)) -> b < length (cells h))).
  { unfold h1. destruct (cell h i) as [k|k items|pairs|ca ar|inn] eqn:Ec.
    1,2,3,5: (split; [exact HG|]; split; [reflexivity|]; intros b Hb; destruct HG as [Hc _];
              apply (closed_kids h i b Hc Hi0); exact Hb).
    split; [|split].
    - apply GC_update; [exact HG | assumption|]. rewrite Ec. cbn [kids]. intros y [<-|[<-|[]]]; [left; left; reflexivity | right; split; assumption].
    - cbn [update with_cells cells]. apply set_nth_obj_length.
    - intros b Hb. unfold cell, update in Hb. cbn [cells with_cells] in Hb. rewrite nth_set_nth_obj in Hb. rewrite Nat.eqb_refl in Hb.
      assert (L : Nat.ltb i (length (cells h)) = true) by (apply Nat.ltb_lt; assumption). rewrite L in Hb. cbn [andb kids In] in Hb.
      destruct Hb as [Hb|[Hb|[]]]; subst b; [|assumption]. destruct HG as [Hc _]. apply (closed_kids h i ca Hc Hi0). rewrite Ec. left; reflexivity. }
  destruct H1 as (G1 & L1 & K1). rewrite cells_hpush. cbn [cells with_hstk]. apply GC_alloc; [exact G1|].
  intros b Hb. rewrite L1. apply K1. exact Hb.
Qed.

Theorem step_GC : forall v h t, wf_heap h -> GC (cells h) -> step_guard h t -> GC (cells (heap_step v h t)).
Proof.
  intros v h [o a] Hwf HG Hg. revert v h a Hwf HG Hg. change (SGoal o).
  destruct o;
    first [ apply sg_same; cbn; tauto | apply sg_leaf; cbn; tauto | apply sg_tuples; cbn; tauto | apply sg_mark_ctor; cbn; tauto
          | apply sg_callables; cbn; tauto | apply sg_inst_like; cbn; tauto | apply sg_gets; cbn; tauto | apply sg_puts; cbn; tauto
          | apply sg_BINPERSID | apply sg_DICT | apply sg_STACK_GLOBAL | apply sg_INST | apply sg_OBJ | apply sg_MEMOIZE
          | apply sg_APPEND | apply sg_SETITEM | apply sg_APPENDS | apply sg_ADDITEMS | apply sg_SETITEMS | apply sg_BUILD ].
Qed.

(* every history whose mutating steps all pass their guard leaves an acyclic heap: nothing can outlive the generator *)
Fixpoint guards_hold (v : version) (h : heap) (ts : list token) : Prop :=
  match ts with
  | [] => True
  | t :: r => step_guard h t /\ guards_hold v (heap_step v h t) r
  end.

Theorem run_acyclic : forall v ts h, wf_heap h -> GC (cells h) -> guards_hold v h ts -> acyclic (cells (heap_run v h ts)).
Proof.
  intros v ts. induction ts as [|t ts IH]; intros h Hwf HG Hg; [exact (proj2 HG)|].
  destruct Hg as [G1 G2]. cbn [heap_run]. apply IH; [apply heap_refines_sim; exact Hwf | apply step_GC; assumption | exact G2].
Qed.
