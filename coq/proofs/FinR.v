(* Level F is inside level R: every run of the bit-exact model (Gen.generate_internal) is a run of
   the envelope (Envelope.run_R), and its bytes are the serialisation of that run's tokens.
   Consequently every level-R theorem (C01-C06, C10, C11, C17) holds of the bytes the bit-exact
   model returns.  This is where the mutator contracts (C16) and the adapter ranges (C18) are
   consumed. *)
From Coq Require Import List NArith ZArith Bool Lia Arith.
Import ListNotations.
From PF Require Import Opcodes RefTable Config Sim Ref Lex Envelope Entropy Mutators Oracles Gen.
From PF.proofs Require Import Refine Run Tail PropsR LexRT PropsB EntropyP MutatorsP Total.
Local Open Scope N_scope.
Ltac Zify.zify_post_hook ::= Z.to_euclidean_division_equations.
Local Arguments N.pow : simpl never.
Local Arguments N.ltb : simpl never.
Local Arguments N.leb : simpl never.
Local Arguments N.eqb : simpl never.
Local Arguments N.of_nat : simpl never.
Local Arguments N.mul : simpl never.
Local Arguments N.add : simpl never.
Local Arguments N.sub : simpl never.
Local Arguments N.modulo : simpl never.
Local Arguments N.land : simpl never.
Local Arguments N.lxor : simpl never.

(* ---------- a predicate carried through the first-applicable dispatch ---------- *)
Lemma first_some_pred : forall (A : Type) (one : mutator -> A -> N -> source -> res (option A * source)) (P : A -> Prop),
  (forall m v rate s v' s', one m v rate s = Ok (Some v', s') -> P v') ->
  forall ms v rate s v' s' f, first_some one ms v rate s = Ok (v', s', f) -> P v -> P v'.
Proof.
  intros A one P H ms. induction ms as [|m ms IH]; intros v rate s v' s' f E Hv.
  - inversion E; subst; exact Hv.
  - cbn [first_some] in E. destruct (one m v rate s) as [[r s1]|w] eqn:E1; [|discriminate E]. cbn [bind] in E.
    destruct r as [v1|]; [inversion E; subst; eapply H; exact E1 | eapply IH; eassumption].
Qed.

(* ---------- integers stay 32-bit ---------- *)
Lemma to_signed32_range : forall u, u < 2 ^ 32 -> i32_range (to_signed 32 u) = true.
Proof.
  intros u H. unfold i32_range, to_signed. change (2 ^ (32 - 1)) with 2147483648. change (2 ^ 32) with 4294967296 in *.
  destruct (N.ltb_spec u 2147483648); apply andb_true_intro; split; apply Z.leb_le; lia.
Qed.

Lemma In_int_boundaries_range : forall b, In b int_boundaries -> i32_range b = true.
Proof. intros b H. cbn in H. repeat (destruct H as [<-|H]; [reflexivity|]). destruct H. Qed.

Lemma nth_res_In : forall (A : Type) (l : list A) i a, nth_res l i = Ok a -> In a l.
Proof. intros A l i a H. unfold nth_res in H. destruct (nth_error l (N.to_nat i)) eqn:E; [|discriminate H]. inversion H; subst. eapply nth_error_In; exact E. Qed.

Lemma mutate_int_one_range : forall m v rate s v' s', mutate_int_one m v rate s = Ok (Some v', s') -> i32_range v' = true.
Proof.
  intros m v rate s v' s' H. unfold mutate_int_one, mut_int in H.
  destruct m; try discriminate H; destruct (should_mutate rate s) as [go s1]; destruct go; try discriminate H.
  - destruct (gen_range 0 32 s1) as [[p s2]|w]; [|discriminate H]. cbn [bind] in H.
    destruct (N.leb_spec 32 p) as [Hp|Hp]; [discriminate H|]. inversion H; subst. unfold flip. apply to_signed32_range.
    apply lxor_lt_pow2; [apply to_unsigned_lt | apply N.pow_lt_mono_r; lia].
  - destruct (gen_range 0 (N.of_nat (length int_boundaries)) s1) as [[i s2]|w]; [|discriminate H]. cbn [bind] in H.
    destruct (nth_res int_boundaries i) as [b|w] eqn:E; [|discriminate H]. cbn [bind] in H. inversion H; subst.
    apply In_int_boundaries_range. eapply nth_res_In; exact E.
  - destruct (gen_bool s1) as [up s2]. inversion H; subst. unfold wrap. apply to_signed32_range. apply to_unsigned_lt.
Qed.

Lemma mutate_int_range : forall c x rate s v s' f, mutate_int c x rate s = Ok (v, s', f) -> i32_range x = true -> i32_range v = true.
Proof.
  intros c x rate s v s' f H Hx.
  exact (first_some_pred Z mutate_int_one (fun z => i32_range z = true) mutate_int_one_range (c_mutators c) x rate s v s' f H Hx).
Qed.

(* ---------- floats stay 64-bit patterns ---------- *)
Lemma mutate_float_one_range : forall m v rate s v' s', mutate_float_one m v rate s = Ok (Some v', s') -> v' < 2 ^ 64.
Proof.
  intros m v rate s v' s' H. unfold mutate_float_one in H.
  destruct m; try discriminate H; destruct (should_mutate rate s) as [go s1]; destruct go; try discriminate H.
  destruct (gen_range 0 (N.of_nat (length float_boundaries)) s1) as [[i s2]|w]; [|discriminate H]. cbn [bind] in H.
  destruct (nth_res float_boundaries i) as [b|w] eqn:E; [|discriminate H]. cbn [bind] in H. inversion H; subst.
  apply nth_res_In in E. cbn in E. repeat (destruct E as [<-|E]; [reflexivity|]). destruct E.
Qed.

Lemma mutate_float_range : forall c x rate s v s' f, mutate_float c x rate s = Ok (v, s', f) -> x < 2 ^ 64 -> v < 2 ^ 64.
Proof.
  intros c x rate s v s' f H Hx.
  exact (first_some_pred N mutate_float_one (fun z => z < 2 ^ 64) mutate_float_one_range (c_mutators c) x rate s v s' f H Hx).
Qed.

(* ---------- relational version: unchanged, or related to the input by Q ---------- *)
Lemma first_some_rel : forall (A : Type) (one : mutator -> A -> N -> source -> res (option A * source)) (Q : A -> A -> Prop),
  (forall m v rate s v' s', one m v rate s = Ok (Some v', s') -> Q v v') ->
  forall ms v rate s v' s' f, first_some one ms v rate s = Ok (v', s', f) -> v' = v \/ Q v v'.
Proof.
  intros A one Q H ms. induction ms as [|m ms IH]; intros v rate s v' s' f E.
  - inversion E; subst; left; reflexivity.
  - cbn [first_some] in E. destruct (one m v rate s) as [[r s1]|w] eqn:E1; [|discriminate E]. cbn [bind] in E.
    destruct r as [v1|]; [inversion E; subst; right; eapply H; exact E1 | eapply IH; eassumption].
Qed.

(* ---------- strings and byte strings: what the contract implies ---------- *)
Lemma is_prefix_spec : forall a b, is_prefix a b = true -> exists r, b = a ++ r.
Proof.
  induction a as [|x a IH]; intros b H; [exists b; reflexivity|]. destruct b as [|y b]; [discriminate H|].
  cbn [is_prefix] in H. apply andb_prop in H. destruct H as [E H]. apply N.eqb_eq in E. subst y.
  destruct (IH b H) as (r & ->). exists r. reflexivity.
Qed.

Lemma diff_ok_spec : forall p a b n, diff_ok p a b = Some n ->
  length a = length b /\ forall Q : N -> bool, (forall x, p x = true -> Q x = true) -> forallb Q a = true -> forallb Q b = true.
Proof.
  intros p. induction a as [|x a IH]; intros b n H; destruct b as [|y b]; try discriminate H.
  - split; [reflexivity | auto].
  - cbn [diff_ok] in H. destruct (diff_ok p a b) as [n0|] eqn:E; [|discriminate H]. destruct (IH b n0 E) as [L F].
    split; [cbn; lia|]. intros Q HQ Ha. cbn [forallb] in *. apply andb_prop in Ha. destruct Ha as [Hx Ha].
    rewrite (F Q HQ Ha), andb_true_r.
    destruct (N.eqb_spec x y) as [->|]; [exact Hx|]. destruct (p y) eqn:Ep; [apply HQ; exact Ep | discriminate H].
Qed.

(* item predicate P (printable chars / bytes) and a length bound are preserved in the sense below *)
Lemma contract_seq_facts : forall is_str m v v' (P : N -> bool),
  contract_seq is_str m v v' = true ->
  (forall c, (if is_str then (97 <=? c) && (c <=? 122) else c <? 256) = true -> P c = true) ->
  (forall c, (if is_str then (33 <=? c) && (c <=? 126) else c <? 256) = true -> P c = true) ->
  forallb P v = true ->
  forallb P v' = true /\ (length v' <= Nat.max (length v + 9) (2 * length v))%nat.
Proof.
  intros is_str m v v' P H P1 P2 Hv. destruct m; try discriminate H; cbn [contract_seq] in H.
  - (* string length *)
    apply orb_prop in H. destruct H as [H|H]; [apply orb_prop in H; destruct H as [H|H]|].
    + destruct (is_prefix_spec _ _ H) as (r & ->). rewrite forallb_app in Hv. apply andb_prop in Hv. destruct Hv as [Hv _].
      split; [exact Hv | rewrite app_length; lia].
    + apply list_eqb_eq in H. subst v'. split; [rewrite forallb_app, Hv; reflexivity | rewrite app_length; lia].
    + apply andb_prop in H. destruct H as [Hp H]. destruct (is_prefix_spec _ _ Hp) as (r & ->).
      rewrite skipn_app_exact in H. apply andb_prop in H. destruct H as [H Hall]. apply andb_prop in H. destruct H as [_ Hl].
      apply Nat.leb_le in Hl. split; [|rewrite app_length; lia].
      rewrite forallb_app, Hv. cbn [andb]. apply forallb_forall. intros c Hc. rewrite forallb_forall in Hall. apply P1. apply Hall. exact Hc.
  - (* character *)
    destruct (diff_ok _ v v') as [n|] eqn:E; [|discriminate H]. destruct (diff_ok_spec _ _ _ _ E) as [L F].
    split; [apply (F P P2 Hv) | lia].
Qed.

Lemma mutate_string_facts : forall c str rate s v s' f (P : N -> bool),
  mutate_string c str rate s = Ok (v, s', f) -> seq_fits str ->
  (forall x, (97 <=? x) && (x <=? 122) = true -> P x = true) -> (forall x, (33 <=? x) && (x <=? 126) = true -> P x = true) ->
  forallb P str = true -> forallb P v = true /\ (length v <= Nat.max (length str + 9) (2 * length str))%nat.
Proof.
  intros c str rate s v s' f P H Hf P1 P2 Hs. unfold mutate_string in H.
  assert (Hone : forall m a rate0 s0 b s1, mutate_seq_one true m a rate0 s0 = Ok (Some b, s1) ->
            (seq_fits a -> contract_seq true MStringLen a b = true \/ contract_seq true MCharacter a b = true)).
  { intros m a rate0 s0 b s1 E Hfa.
    destruct (seq_one_spec true m a rate0 s0 Hfa) as (r & s2 & E2 & _ & _ & Hc). rewrite E in E2. inversion E2; subst.
    specialize (Hc b eq_refl). destruct m; try discriminate Hc; [left | right]; exact Hc. }
  destruct (first_some_rel (list N) (mutate_seq_one true) _ Hone (c_mutators c) str rate s v s' f H) as [->|Hq].
  - split; [exact Hs | lia].
  - destruct (Hq Hf) as [Hc|Hc]; eapply contract_seq_facts; try exact Hc; assumption.
Qed.

Lemma mutate_bytes_facts : forall c bs rate s v s' f,
  mutate_bytes c bs rate s = Ok (v, s', f) -> seq_fits bs ->
  forallb is_byte bs = true -> forallb is_byte v = true /\ (length v <= Nat.max (length bs + 9) (2 * length bs))%nat.
Proof.
  intros c bs rate s v s' f H Hf Hs. unfold mutate_bytes in H.
  assert (Hone : forall m a rate0 s0 b s1, mutate_seq_one false m a rate0 s0 = Ok (Some b, s1) ->
            (seq_fits a -> contract_seq false MStringLen a b = true \/ contract_seq false MCharacter a b = true)).
  { intros m a rate0 s0 b s1 E Hfa.
    destruct (seq_one_spec false m a rate0 s0 Hfa) as (r & s2 & E2 & _ & _ & Hc). rewrite E in E2. inversion E2; subst.
    specialize (Hc b eq_refl). destruct m; try discriminate Hc; [left | right]; exact Hc. }
  destruct (first_some_rel (list N) (mutate_seq_one false) _ Hone (c_mutators c) bs rate s v s' f H) as [->|Hq].
  - split; [exact Hs | lia].
  - destruct (Hq Hf) as [Hc|Hc]; eapply contract_seq_facts; try exact Hc; try assumption; intros x Hx; exact Hx.
Qed.

(* ---------- environment assumptions of level R's envelope ---------- *)
Definition names_ok (e : env) : Prop := forall line, In line (stdlib e) ->
  forallb graphic (fst (split_name line)) = true /\ forallb graphic (snd (split_name line)) = true
  /\ fst (split_name line) <> [] /\ snd (split_name line) <> [].
Definition fmt_ok (e : env) : Prop := forall b, float_text_ok (fmt_f64 e b) = true /\ forallb graphic (fmt_f64 e b) = true.

(* ---------- small facts ---------- *)
Lemma utf8_encode_ascii : forall l, forallb printable l = true -> utf8_encode l = l.
Proof.
  induction l as [|c l IH]; intro H; [reflexivity|]. cbn [forallb] in H. apply andb_prop in H. destruct H as [Hc Hl].
  unfold utf8_encode in *. cbn [flat_map]. rewrite (IH Hl). unfold utf8_char.
  unfold printable in Hc. apply andb_prop in Hc. destruct Hc as [_ Hc]. apply N.leb_le in Hc.
  assert (E : c <? 128 = true) by (apply N.ltb_lt; lia). rewrite E. reflexivity.
Qed.

Lemma double_bs_printable : forall l, forallb printable l = true -> forallb printable (double_bs l) = true.
Proof.
  induction l as [|b l IH]; intro H; [reflexivity|]. cbn [forallb] in H. apply andb_prop in H. destruct H as [Hb Hl].
  cbn [double_bs]. destruct (b =? 92) eqn:E; cbn [forallb]; rewrite (IH Hl); [reflexivity | rewrite Hb; reflexivity].
Qed.

Lemma double_bs_length : forall l, (length (double_bs l) <= 2 * length l)%nat.
Proof. induction l as [|b l IH]; [simpl; lia|]. cbn [double_bs]. destruct (b =? 92); cbn [length]; lia. Qed.

Lemma raw_unicode_S : forall f odd l,
  raw_unicode_ok (S f) odd l =
    match l with
    | [] => true
    | b :: r =>
        if b =? 92 then raw_unicode_ok f (negb odd) r
        else if odd && (b =? 117) then
          match all_hex 4 r with Some (_, rest) => raw_unicode_ok f false rest | None => false end
        else if odd && (b =? 85) then
          match all_hex 8 r with
          | Some (v, rest) => (v <=? 1114111) && raw_unicode_ok f false rest
          | None => false
          end
        else raw_unicode_ok f false r
    end.
Proof. reflexivity. Qed.

Lemma raw_unicode_double_bs : forall l f, (length (double_bs l) < f)%nat -> raw_unicode_ok f false (double_bs l) = true.
Proof.
  induction l as [|b l IH]; intros f Hf.
  - destruct f; [inversion Hf | reflexivity].
  - cbn [double_bs] in *. destruct (b =? 92) eqn:E.
    + cbn [length] in Hf. destruct f as [|[|f]]; try lia. rewrite !raw_unicode_S. change (92 =? 92) with true. cbv iota. cbn [negb].
      apply IH. lia.
    + cbn [length] in Hf. destruct f as [|f]; [lia|]. rewrite raw_unicode_S, E. cbn [andb]. apply IH. lia.
Qed.

Lemma insert_key_In : forall k l x, In x (insert_key k l) -> x = k \/ In x l.
Proof.
  induction l as [|y l IH]; intros x H; cbn [insert_key] in H; [destruct H as [<-|[]]; auto|].
  destruct (k <=? y); [destruct H as [<-|H]; auto|]. destruct H as [<-|H]; [right; left; reflexivity|].
  destruct (IH x H); [auto | right; right; assumption].
Qed.
Lemma sort_keys_In : forall l x, In x (sort_keys l) -> In x l.
Proof.
  induction l as [|y l IH]; intros x H; [exact H|]. unfold sort_keys in *. cbn [fold_right] in H.
  destruct (insert_key_In _ _ _ H) as [->|H1]; [left; reflexivity | right; apply IH; exact H1].
Qed.

Lemma memo_has_of_key : forall s x, In x (map fst (memo s)) -> memo_has s x = true.
Proof.
  intros s x H. unfold memo_has. induction (memo s) as [|[j k] m IH]; [destruct H|]. cbn [memo_get map fst In] in *.
  destruct (N.eqb_spec x j); [reflexivity|]. destruct H as [H|H]; [congruence | apply IH; exact H].
Qed.

Lemma memo_has_lt : forall s x, keys_seq (memo s) -> memo_has s x = true -> x < memo_len s.
Proof.
  intros s x Hk H. unfold memo_has in H. destruct (N.lt_ge_cases x (memo_len s)) as [Hlt|Hge]; [exact Hlt|].
  unfold memo_len in Hge. rewrite (keys_seq_get_len _ Hk x Hge) in H. discriminate H.
Qed.

Lemma keys_seq_zero : forall s, keys_seq (memo s) -> memo s <> [] -> In 0 (map fst (memo s)).
Proof.
  intros s Hk Hne. destruct (memo s) as [|[j k] m] eqn:E; [contradiction|].
  specialize (Hk 0%nat (j, k) eq_refl). cbn in Hk. left. exact Hk.
Qed.

Lemma insert_key_In_rev : forall k l x, x = k \/ In x l -> In x (insert_key k l).
Proof.
  induction l as [|y l IH]; intros x H; cbn [insert_key]; [destruct H as [->|[]]; left; reflexivity|].
  destruct (k <=? y); [destruct H as [->|H]; [left; reflexivity | right; exact H]|].
  destruct H as [->|[->|H]]; [right; apply IH; left; reflexivity | left; reflexivity | right; apply IH; right; exact H].
Qed.
Lemma sort_keys_In_rev : forall l x, In x l -> In x (sort_keys l).
Proof.
  induction l as [|y l IH]; intros x H; [exact H|]. unfold sort_keys in *. cbn [fold_right].
  apply insert_key_In_rev. destruct H as [->|H]; [left; reflexivity | right; apply IH; exact H].
Qed.

Lemma mutate_memo_one_lt : forall m v rate s v' s', v < M64 -> mutate_memo_one m v rate s = Ok (Some v', s') -> v' < M64.
Proof.
  intros m v rate s v' s' Hv H. rewrite M64_val in *. unfold mutate_memo_one in H.
  destruct m as [| | | | |u|u]; try discriminate H; destruct (should_mutate rate s) as [go s1]; destruct go; try discriminate H.
  - destruct (gen_bool s1) as [up s2]. inversion H; subst. unfold sat_add1, sat_sub1, usize_max. rewrite M64_val.
    destruct up; [destruct (N.eqb_spec v (18446744073709551616 - 1)); lia | lia].
  - destruct u.
    + destruct (gen_range_in 0 1000 s1 ltac:(reflexivity) ltac:(reflexivity)) as (r & s2 & E & _ & Hr). rewrite E in H. cbn [bind] in H.
      inversion H; subst. lia.
    + destruct (gen_range 0 3 s1) as [[k s2]|w]; [|discriminate H]. cbn [bind] in H. inversion H; subst.
      unfold sat_add1, sat_sub1, usize_max. rewrite M64_val.
      destruct (k =? 0); [destruct (N.eqb_spec v (18446744073709551616 - 1)); lia|]. destruct (k =? 1); lia.
Qed.

Lemma mutate_memo_lt : forall c x rate s v s' f, mutate_memo_index c x rate s = Ok (v, s', f) -> x < M64 -> v < M64.
Proof.
  intros c x rate s v s' f H Hx. unfold mutate_memo_index in H.
  revert x rate s v s' f H Hx. induction (c_mutators c) as [|m ms IH]; intros x rate s v s' f H Hx.
  - inversion H; subst; exact Hx.
  - cbn [first_some] in H. destruct (mutate_memo_one m x rate s) as [[r s1]|w] eqn:E1; [|discriminate H]. cbn [bind] in H.
    destruct r as [v1|]; [inversion H; subst; eapply mutate_memo_one_lt; eassumption | eapply IH; eassumption].
Qed.

(* ---------- one emission of the bit-exact model lies in the envelope ---------- *)
Definition fstate_ok (c : config) (s : sim) : Prop :=
  keys_seq (memo s) /\ memo_len s < M32 /\ proto_emitted s = negb (v_lt2 (c_version c)).

Lemma emitsb_intro : forall c s o tok, In o (get_valid_opcodes c s) ->
  (fst tok = o \/ (int_like o = true /\ int_like (fst tok) = true /\ In (fst tok) (row (c_version c)))) ->
  arg_env c s (fst tok) (snd tok) = true -> emitsb c s o tok = true.
Proof.
  intros c s o tok Hin Hop Harg. unfold emitsb. rewrite Harg, andb_true_r. apply andb_true_intro. split.
  - apply existsb_exists. exists o. split; [exact Hin | apply op_eqb_refl].
  - destruct Hop as [->|(H1 & H2 & H3)]; [rewrite op_eqb_refl; reflexivity|].
    rewrite H1, H2. cbn [andb]. apply orb_true_iff. right. apply existsb_exists. exists (fst tok). split; [exact H3 | apply op_eqb_refl].
Qed.

Lemma valid_facts : forall c s o, In o (get_valid_opcodes c s) -> can_emit c s o = true /\ In o (row (c_version c)).
Proof. intros c s o H. unfold get_valid_opcodes in H. apply filter_In in H. tauto. Qed.

Lemma len_le_of : forall (l : list N) n, (length l <= n)%nat -> len_le l n = true.
Proof. intros l n H. unfold len_le. apply Nat.leb_le. exact H. Qed.

Lemma ascii_printable_all : forall l, Forall (fun c => c <= 126) l -> Forall (fun c => 32 <= c) l -> forallb printable l = true.
Proof.
  intros l H1 H2. apply forallb_forall. intros x Hx. rewrite Forall_forall in H1, H2. unfold printable.
  apply andb_true_intro. split; apply N.leb_le; [apply H2 | apply H1]; exact Hx.
Qed.

Lemma repeat_ascii_printable : forall n s l s', repeat_res n gen_ascii_char s = Ok (l, s') ->
  length l = n /\ forallb printable l = true.
Proof.
  induction n as [|n IH]; intros s l s' H.
  - inversion H; subst. split; reflexivity.
  - cbn [repeat_res] in H. destruct (gen_ascii_char_printable s) as (ch & s1 & E & H1 & H2). rewrite E in H. cbn [bind] in H.
    destruct (repeat_res n gen_ascii_char s1) as [[l1 s2]|w] eqn:E2; [|discriminate H]. cbn [bind] in H. inversion H; subst.
    destruct (IH _ _ _ E2) as [L P]. split; [simpl; lia|]. cbn [forallb]. rewrite P, andb_true_r. unfold printable.
    apply andb_true_intro. split; apply N.leb_le; assumption.
Qed.

Lemma repeat_u8_bytes : forall n s l s', repeat_res n (fun s0 => Ok (gen_u8 s0)) s = Ok (l, s') ->
  length l = n /\ forallb is_byte l = true.
Proof.
  induction n as [|n IH]; intros s l s' H.
  - inversion H; subst. split; reflexivity.
  - cbn [repeat_res bind] in H. pose proof (gen_u8_lt s) as Hb. destruct (gen_u8 s) as [b s1]. cbn [fst] in Hb.
    destruct (repeat_res n (fun s0 => Ok (gen_u8 s0)) s1) as [[l1 s2]|w] eqn:E2; [|discriminate H]. cbn [bind] in H. inversion H; subst.
    destruct (IH _ _ _ E2) as [L P]. split; [simpl; lia|]. cbn [forallb]. rewrite P, andb_true_r. unfold is_byte. apply N.ltb_lt. exact Hb.
Qed.

Lemma is_byte_printable : forall x, (97 <=? x) && (x <=? 122) = true -> printable x = true.
Proof. intros x H. apply andb_prop in H. destruct H as [H1 H2]. apply N.leb_le in H1, H2. unfold printable. apply andb_true_intro. split; apply N.leb_le; lia. Qed.
Lemma graphic33_printable : forall x, (33 <=? x) && (x <=? 126) = true -> printable x = true.
Proof. intros x H. apply andb_prop in H. destruct H as [H1 H2]. apply N.leb_le in H1, H2. unfold printable. apply andb_true_intro. split; apply N.leb_le; lia. Qed.

Lemma seq_fits_small : forall l : list N, (length l < 32)%nat -> seq_fits l.
Proof.
  intros l H. split; [pose proof (str_len_le4 l); rewrite M64_val; lia | rewrite M64_val; lia].
Qed.

(* the string family *)
Lemma string_draw_env : forall c src n s1 str s2 v s3 f,
  gen_u8 src = (n, s1) -> repeat_res (N.to_nat (n mod 32)) gen_ascii_char s1 = Ok (str, s2) ->
  mutate_string c str (c_rate c) s2 = Ok (v, s3, f) ->
  forallb printable v = true /\ (length v <= 62)%nat /\ utf8_encode v = v.
Proof.
  intros c src n s1 str s2 v s3 f E1 E2 E3. destruct (repeat_ascii_printable _ _ _ _ E2) as [L P].
  pose proof (mod32_lt n) as Hn.
  destruct (mutate_string_facts c str (c_rate c) s2 v s3 f printable E3 (seq_fits_small str ltac:(lia))
              is_byte_printable graphic33_printable P) as [Pv Lv].
  split; [exact Pv|]. split; [lia | apply utf8_encode_ascii; exact Pv].
Qed.

Lemma bytes_draw_env : forall c src n s1 bs s2 v s3 f,
  gen_u8 src = (n, s1) -> repeat_res (N.to_nat (n mod 32)) (fun s0 => Ok (gen_u8 s0)) s1 = Ok (bs, s2) ->
  mutate_bytes c bs (c_rate c) s2 = Ok (v, s3, f) ->
  forallb is_byte v = true /\ (length v <= 62)%nat.
Proof.
  intros c src n s1 bs s2 v s3 f E1 E2 E3. destruct (repeat_u8_bytes _ _ _ _ E2) as [L P].
  pose proof (mod32_lt n) as Hn.
  destruct (mutate_bytes_facts c bs (c_rate c) s2 v s3 f E3 (seq_fits_small bs ltac:(lia)) P) as [Pv Lv].
  split; [exact Pv | lia].
Qed.

Definition EGoal (e : env) (c : config) (s : sim) (o : opcode) : Prop := forall src t src' m,
  emit_token e id_order c s o src = Ok (t, src', m) -> exists tok, t = Some tok /\ emitsb c s o tok = true.

Lemma env_int : forall e c s o, In o (get_valid_opcodes c s) -> int_like o = true -> EGoal e c s o.
Proof.
  intros e c s o Hin Hint src t src' m H. unfold emit_token in H. rewrite Hint in H.
  destruct (choose_index (N.of_nat (length (int_cands (c_version c)))) src) as [[i s1]|w]; [|discriminate H]. cbn [bind] in H.
  destruct (nth_res (int_cands (c_version c)) i) as [k|w] eqn:Ek; [|discriminate H]. cbn [bind] in H.
  pose proof (gen_i32_range s1) as Hr. destruct (gen_i32 s1) as [x s2]. cbn [fst] in Hr.
  destruct (mutate_int c x (c_rate c) s2) as [[[x' s3] f]|w] eqn:Em; [|discriminate H]. cbn [bind] in H.
  pose proof (mutate_int_range _ _ _ _ _ _ _ Em Hr) as Hr'.
  apply nth_res_In in Ek. unfold int_cands in Ek. apply filter_In in Ek. destruct Ek as [Hrow Hk].
  inversion H; subst. eexists. split; [reflexivity|]. apply emitsb_intro; [exact Hin | right; cbn [fst]; auto|].
  cbn [fst snd].
  assert (Hu : to_unsigned 32 x' < 2 ^ 32) by apply to_unsigned_lt.
  destruct k; try discriminate Hk; cbn [arg_env]; try exact Hr'.
  - apply N.ltb_lt. change 255 with (N.ones 8). rewrite N.land_ones. apply N.mod_lt. discriminate.
  - apply N.ltb_lt. change 65535 with (N.ones 16). rewrite N.land_ones. apply N.mod_lt. discriminate.
Qed.

Lemma env_float : forall e c s o, fmt_ok e -> In o (get_valid_opcodes c s) -> (o = FLOAT \/ o = BINFLOAT) -> EGoal e c s o.
Proof.
  intros e c s o Hf Hin Ho src t src' m H.
  destruct Ho as [-> | ->]; unfold emit_token in H; cbn [int_like] in H;
    pose proof (gen_f64_lt src) as Hx; destruct (gen_f64 src) as [x s1]; cbn [fst] in Hx;
    destruct (mutate_float c x (c_rate c) s1) as [[[x' s2] f]|w] eqn:Em; try discriminate H; cbn [bind] in H;
    inversion H; subst; eexists; (split; [reflexivity|]); apply emitsb_intro; try exact Hin; try (left; reflexivity); cbn [fst snd arg_env].
  - destruct (Hf x') as [H1 H2]. rewrite H1, H2. reflexivity.
  - apply N.ltb_lt. eapply mutate_float_range; eassumption.
Qed.

Lemma env_strings : forall e c s o, In o (get_valid_opcodes c s) ->
  In o [STRING; UNICODE; SHORT_BINUNICODE; BINUNICODE; BINUNICODE8] -> EGoal e c s o.
Proof.
  intros e c s o Hin Ho src t src' m H.
  assert (K : exists n s1 str s2 v s3 f, gen_u8 src = (n, s1) /\ repeat_res (N.to_nat (n mod 32)) gen_ascii_char s1 = Ok (str, s2)
              /\ mutate_string c str (c_rate c) s2 = Ok (v, s3, f)
              /\ Ok (match o with
                     | STRING => Some (STRING, AB (utf8_encode v))
                     | UNICODE => Some (UNICODE, AB (double_bs (utf8_encode v)))
                     | SHORT_BINUNICODE => if N.of_nat (length (utf8_encode v)) <? 256 then Some (SHORT_BINUNICODE, AB (utf8_encode v)) else None
                     | _ => Some (o, AB (utf8_encode v))
                     end, s3, bool_n f) = Ok (t, src', m)).
  { cbn [In] in Ho. destruct Ho as [<-|[<-|[<-|[<-|[<-|[]]]]]]; unfold emit_token in H; cbn [int_like] in H;
      destruct (gen_u8 src) as [n s1] eqn:E1; destruct (repeat_res (N.to_nat (n mod 32)) gen_ascii_char s1) as [[str s2]|w] eqn:E2; try discriminate H;
      cbn [bind] in H; destruct (mutate_string c str (c_rate c) s2) as [[[v s3] f]|w] eqn:E3; try discriminate H; cbn [bind] in H;
      exists n, s1, str, s2, v, s3, f; (split; [reflexivity|]); (split; [exact E2|]); (split; [exact E3|]); exact H. }
  destruct K as (n & s1 & str & s2 & v & s3 & f & E1 & E2 & E3 & E4).
  destruct (string_draw_env c src n s1 str s2 v s3 f E1 E2 E3) as (Pv & Lv & Uv). rewrite Uv in E4.
  assert (L62 : len_le v 62 = true) by (apply len_le_of; exact Lv).
  assert (S256 : N.of_nat (length v) <? 256 = true) by (apply N.ltb_lt; lia).
  cbn [In] in Ho. destruct Ho as [<-|[<-|[<-|[<-|[<-|[]]]]]]; inversion E4; subst;
    try rewrite S256; eexists; (split; [reflexivity|]); apply emitsb_intro; try exact Hin; try (left; reflexivity);
    cbn [fst snd arg_env]; try (rewrite Pv, L62; reflexivity).
  rewrite (double_bs_printable _ Pv). cbn [andb].
  pose proof (double_bs_length v) as Hd.
  rewrite (len_le_of (double_bs v) 124 ltac:(lia)). cbn [andb]. apply raw_unicode_double_bs. lia.
Qed.

Lemma env_bytes : forall e c s o, In o (get_valid_opcodes c s) ->
  In o [BINSTRING; SHORT_BINSTRING; SHORT_BINBYTES; BINBYTES; BINBYTES8; BYTEARRAY8] -> EGoal e c s o.
Proof.
  intros e c s o Hin Ho src t src' m H.
  assert (K : exists n s1 bs s2 v s3 f, gen_u8 src = (n, s1) /\ repeat_res (N.to_nat (n mod 32)) (fun s0 => Ok (gen_u8 s0)) s1 = Ok (bs, s2)
              /\ mutate_bytes c bs (c_rate c) s2 = Ok (v, s3, f)
              /\ Ok (match o with
                     | SHORT_BINSTRING | SHORT_BINBYTES => if N.of_nat (length v) <? 256 then Some (o, AB v) else None
                     | _ => Some (o, AB v)
                     end, s3, bool_n f) = Ok (t, src', m)).
  { cbn [In] in Ho. destruct Ho as [<-|[<-|[<-|[<-|[<-|[<-|[]]]]]]]; unfold emit_token in H; cbn [int_like] in H;
      destruct (gen_u8 src) as [n s1] eqn:E1; destruct (repeat_res (N.to_nat (n mod 32)) (fun s0 => Ok (gen_u8 s0)) s1) as [[bs s2]|w] eqn:E2; try discriminate H;
      cbn [bind] in H; destruct (mutate_bytes c bs (c_rate c) s2) as [[[v s3] f]|w] eqn:E3; try discriminate H; cbn [bind] in H;
      exists n, s1, bs, s2, v, s3, f; (split; [reflexivity|]); (split; [exact E2|]); (split; [exact E3|]); exact H. }
  destruct K as (n & s1 & bs & s2 & v & s3 & f & E1 & E2 & E3 & E4).
  destruct (bytes_draw_env c src n s1 bs s2 v s3 f E1 E2 E3) as (Pv & Lv).
  assert (L62 : len_le v 62 = true) by (apply len_le_of; exact Lv).
  assert (S256 : N.of_nat (length v) <? 256 = true) by (apply N.ltb_lt; lia).
  cbn [In] in Ho. destruct Ho as [<-|[<-|[<-|[<-|[<-|[<-|[]]]]]]]; inversion E4; subst;
    try rewrite S256; eexists; (split; [reflexivity|]); apply emitsb_intro; try exact Hin; try (left; reflexivity);
    cbn [fst snd arg_env]; rewrite Pv, L62; reflexivity.
Qed.

Lemma env_global : forall e c s o, names_ok e -> In o (get_valid_opcodes c s) -> (o = GLOBAL \/ o = INST) -> EGoal e c s o.
Proof.
  intros e c s o Hn Hin Ho src t src' m H.
  assert (K : exists ma aa s1, random_module e src = Ok (ma, aa, s1) /\ Ok (Some (o, AP ma aa), s1, 0) = Ok (t, src', m)).
  { destruct Ho as [-> | ->]; unfold emit_token in H; cbn [int_like] in H;
      destruct (random_module e src) as [[[ma aa] s1]|w] eqn:Er; try discriminate H; cbn [bind] in H; exists ma, aa, s1; (split; [reflexivity | exact H]). }
  destruct K as (ma & aa & s1 & E1 & E2). inversion E2; subst.
  unfold random_module in E1. destruct (choose_index (N.of_nat (length (stdlib e))) src) as [[i s2]|w]; [|discriminate E1]. cbn [bind] in E1.
  destruct (nth_res (stdlib e) i) as [line|w] eqn:El; [|discriminate E1]. cbn [bind] in E1.
  apply nth_res_In in El. destruct (Hn line El) as (G1 & G2 & N1 & N2).
  destruct (split_name line) as [m0 a0]. cbn [fst snd] in *. inversion E1; subst.
  eexists. split; [reflexivity|]. apply emitsb_intro; [exact Hin | left; reflexivity|]. cbn [fst snd].
  assert (E : arg_env c s o (AP ma aa) = (forallb graphic ma && forallb graphic aa && negb (len_le ma 0) && negb (len_le aa 0)))
    by (destruct Ho as [-> | ->]; reflexivity).
  rewrite E, G1, G2. cbn [andb]. destruct ma; [contradiction|]. destruct aa; [contradiction|]. reflexivity.
Qed.

Lemma env_puts : forall e c s o, fstate_ok c s -> In o (get_valid_opcodes c s) -> In o [PUT; BINPUT; LONG_BINPUT] -> EGoal e c s o.
Proof.
  intros e c s o (Hk & Hl & _) Hin Ho src t src' m H. destruct (valid_facts _ _ _ Hin) as [Hce _].
  cbn [In] in Ho. destruct Ho as [<-|[<-|[<-|[]]]]; unfold emit_token in H; cbn [int_like] in H; inversion H; subst;
    eexists; (split; [reflexivity|]); apply emitsb_intro; try exact Hin; try (left; reflexivity); cbn [fst snd arg_env].
  - apply N.eqb_refl.
  - cbn [can_emit] in Hce. apply andb_prop in Hce. destruct Hce as [Hce _]. apply andb_prop in Hce. destruct Hce as [_ H256].
    apply N.ltb_lt in H256. rewrite N.mod_small by exact H256. rewrite N.eqb_refl. cbn [andb]. apply N.ltb_lt. exact H256.
  - rewrite N.mod_small by exact Hl. rewrite N.eqb_refl. cbn [andb]. apply N.ltb_lt. exact Hl.
Qed.

Lemma keys_nonempty : forall c s o, In o (get_valid_opcodes c s) -> In o [GET; BINGET; LONG_BINGET] -> memo s <> [].
Proof.
  intros c s o Hin Ho. destruct (valid_facts _ _ _ Hin) as [Hce _].
  assert (E : can_emit c s o = negb (memo_len s =? 0)) by (cbn [In] in Ho; destruct Ho as [<-|[<-|[<-|[]]]]; reflexivity).
  rewrite E in Hce. apply negb_true_iff, N.eqb_neq in Hce. unfold memo_len in Hce. intro N0. rewrite N0 in Hce. apply Hce. reflexivity.
Qed.

Lemma memo_keys_has : forall s x, In x (memo_keys id_order s) -> memo_has s x = true.
Proof. intros s x H. unfold memo_keys, id_order in H. apply sort_keys_In in H. apply memo_has_of_key. exact H. Qed.

Lemma env_get_long : forall e c s o, fstate_ok c s -> In o (get_valid_opcodes c s) -> (o = GET \/ o = LONG_BINGET) -> EGoal e c s o.
Proof.
  intros e c s o (Hk & Hl & _) Hin Ho src t src' m H.
  pose proof (keys_nonempty c s o Hin ltac:(destruct Ho as [-> | ->]; cbn; tauto)) as Hne.
  assert (K : exists i s1 idx mi s2 f,
            gen_range 0 (N.of_nat (length (memo_keys id_order s))) src = Ok (i, s1)
            /\ nth_res (memo_keys id_order s) i = Ok idx
            /\ mutate_memo_index c idx (c_rate c) s1 = Ok (mi, s2, f)
            /\ t = Some (o, AU (match o with LONG_BINGET => (if c_unsafe c || memo_has s mi then mi else idx) mod M32
                                           | _ => if c_unsafe c || memo_has s mi then mi else idx end))).
  { assert (Hkn : memo_keys id_order s <> []).
    { intro E. apply Hne. apply length_zero_iff_nil. rewrite <- memo_keys_length, E. reflexivity. }
    destruct Ho as [-> | ->]; unfold emit_token in H; cbn [int_like] in H;
      destruct (memo_keys id_order s) as [|k0 ks] eqn:Ek; try contradiction;
      destruct (gen_range 0 (N.of_nat (length (k0 :: ks))) src) as [[i s1]|w] eqn:E1; try discriminate H; cbn [bind] in H;
      destruct (nth_res (k0 :: ks) i) as [idx|w] eqn:E2; try discriminate H; cbn [bind] in H;
      destruct (mutate_memo_index c idx (c_rate c) s1) as [[[mi s2] f]|w] eqn:E3; try discriminate H; cbn [bind] in H;
      exists i, s1, idx, mi, s2, f; (split; [first [exact E1 | reflexivity]|]); (split; [first [exact E2 | reflexivity]|]);
      (split; [first [exact E3 | reflexivity]|]); inversion H; reflexivity. }
  destruct K as (i & s1 & idx & mi & s2 & f & E1 & E2 & E3 & ->).
  apply nth_res_In in E2. pose proof (memo_keys_has s idx E2) as Hidx.
  pose proof (memo_has_lt s idx Hk Hidx) as Hidxl.
  assert (Hmi : mi < M64) by (eapply mutate_memo_lt; [exact E3 | rewrite M64_val; rewrite M32_val in Hl; lia]).
  eexists. split; [reflexivity|]. apply emitsb_intro; [exact Hin | left; reflexivity|]. cbn [fst snd].
  set (j := if c_unsafe c || memo_has s mi then mi else idx).
  assert (Hj : c_unsafe c = true \/ memo_has s j = true).
  { unfold j. destruct (c_unsafe c); [left; reflexivity|]. right. cbn [orb]. destruct (memo_has s mi) eqn:Em; [exact Em | exact Hidx]. }
  assert (Hj64 : j < M64) by (unfold j; destruct (c_unsafe c || memo_has s mi); [exact Hmi | rewrite M64_val; rewrite M32_val in Hl; lia]).
  destruct Ho as [-> | ->]; cbn [arg_env].
  - destruct (c_unsafe c); [apply N.ltb_lt; exact Hj64 | destruct Hj as [Hj|Hj]; [discriminate Hj | exact Hj]].
  - assert (Hlt : j mod M32 < M32) by (apply N.mod_lt; discriminate).
    replace (2 ^ 32) with M32 by reflexivity. apply N.ltb_lt in Hlt. rewrite Hlt. cbn [andb].
    destruct (c_unsafe c); [reflexivity|]. cbn [orb]. destruct Hj as [Hj|Hj]; [discriminate Hj|].
    pose proof (memo_has_lt s j Hk Hj). rewrite N.mod_small by lia. exact Hj.
Qed.

Lemma env_binget : forall e c s, fstate_ok c s -> In BINGET (get_valid_opcodes c s) -> EGoal e c s BINGET.
Proof.
  intros e c s (Hk & Hl & _) Hin src t src' m H.
  pose proof (keys_nonempty c s BINGET Hin ltac:(cbn; tauto)) as Hne.
  set (keys := filter (fun k => k <? 256) (memo_keys id_order s)) in *.
  assert (Hkn : keys <> []).
  { assert (H0 : In 0 keys).
    { unfold keys. apply filter_In. split; [|reflexivity]. unfold memo_keys, id_order. apply sort_keys_In_rev. apply keys_seq_zero; assumption. }
    intro E. rewrite E in H0. destruct H0. }
  unfold emit_token in H. cbn [int_like] in H. fold keys in H.
  destruct keys as [|k0 ks] eqn:Ek; [contradiction|].
  destruct (gen_range 0 (N.of_nat (length (k0 :: ks))) src) as [[i s1]|w] eqn:E1; [|discriminate H]. cbn [bind] in H.
  destruct (nth_res (k0 :: ks) i) as [idx|w] eqn:E2; [|discriminate H]. cbn [bind] in H.
  destruct (mutate_memo_index c idx (c_rate c) s1) as [[[mi0 s2] f]|w] eqn:E3; [|discriminate H]. cbn [bind] in H.
  inversion H; subst. apply nth_res_In in E2. rewrite <- Ek in E2. unfold keys in E2. apply filter_In in E2. destruct E2 as [E2 H256].
  apply N.ltb_lt in H256. pose proof (memo_keys_has s idx E2) as Hidx.
  eexists. split; [reflexivity|]. apply emitsb_intro; [exact Hin | left; reflexivity|]. cbn [fst snd arg_env].
  set (mi := N.min mi0 255).
  assert (Hmi : mi < 256) by (unfold mi; lia).
  set (j := if c_unsafe c || (mi <? 256) && memo_has s mi then mi else idx).
  assert (Hj : j < 256) by (unfold j; destruct (c_unsafe c || (mi <? 256) && memo_has s mi); assumption).
  rewrite N.mod_small by exact Hj. apply N.ltb_lt in Hj. rewrite Hj. cbn [andb].
  destruct (c_unsafe c); [reflexivity|]. cbn [orb]. unfold j. cbn [orb].
  destruct ((mi <? 256) && memo_has s mi) eqn:Em; [apply andb_prop in Em; tauto | exact Hidx].
Qed.

Lemma env_ext : forall e c s o, In o (get_valid_opcodes c s) -> In o [EXT1; EXT2; EXT4] -> EGoal e c s o.
Proof.
  intros e c s o Hin Ho src t src' m H. cbn [In] in Ho.
  destruct Ho as [<-|[<-|[<-|[]]]]; unfold emit_token in H; cbn [int_like] in H.
  - pose proof (gen_u8_lt src) as Hx. destruct (gen_u8 src) as [x s1]. cbn [fst] in Hx. inversion H; subst.
    eexists. split; [reflexivity|]. apply emitsb_intro; [exact Hin | left; reflexivity|]. cbn [fst snd arg_env].
    apply andb_true_intro. split; [apply N.leb_le | apply N.ltb_lt]; lia.
  - pose proof (gen_uint_bound 2 src ltac:(simpl; auto)) as Hx. change (8 * N.of_nat 2) with 16 in Hx. change (2 ^ 16) with 65536 in Hx.
    unfold gen_u16 in H. destruct (gen_uint 2 src) as [x s1]. cbn [fst] in Hx. inversion H; subst.
    eexists. split; [reflexivity|]. apply emitsb_intro; [exact Hin | left; reflexivity|]. cbn [fst snd arg_env].
    apply andb_true_intro. split; [apply N.leb_le | apply N.ltb_lt]; lia.
  - unfold gen_u32 in H. destruct (gen_uint 4 src) as [x s1]. inversion H; subst.
    eexists. split; [reflexivity|]. apply emitsb_intro; [exact Hin | left; reflexivity|]. cbn [fst snd arg_env].
    pose proof (N.mod_lt x 2147483647 ltac:(discriminate)). apply andb_true_intro. split; apply Z.leb_le; lia.
Qed.

Lemma strip_prefix_app : forall pre d, strip_prefix pre (pre ++ d) = Some d.
Proof. induction pre as [|a pre IH]; intro d; [reflexivity|]. cbn [app strip_prefix]. rewrite N.eqb_refl. apply IH. Qed.

Lemma env_persid : forall e c s, In PERSID (get_valid_opcodes c s) -> EGoal e c s PERSID.
Proof.
  intros e c s Hin src t src' m H. unfold emit_token in H. cbn [int_like] in H.
  pose proof (gen_uint_bound 4 src ltac:(simpl; auto)) as Hx. change (8 * N.of_nat 4) with 32 in Hx.
  unfold gen_u32 in H. destruct (gen_uint 4 src) as [x s1]. cbn [fst] in Hx. inversion H; subst.
  eexists. split; [reflexivity|]. apply emitsb_intro; [exact Hin | left; reflexivity|]. cbn [fst snd arg_env].
  change (112 :: 105 :: 100 :: 95 :: print_N x) with (pid_prefix ++ print_N x). rewrite strip_prefix_app.
  destruct (print_N_spec x) as (_ & _ & Hp). rewrite Hp. apply N.ltb_lt in Hx. rewrite Hx. cbn [andb]. apply list_eqb_refl.
Qed.

(* every opcode *)
Theorem emit_token_env : forall e c s o src t src' m,
  names_ok e -> fmt_ok e -> fstate_ok c s -> In o (get_valid_opcodes c s) ->
  emit_token e id_order c s o src = Ok (t, src', m) ->
  exists tok, t = Some tok /\ emitsb c s o tok = true.
Proof.
  intros e c s o src t src' m Hn Hf Hst Hin H. revert src t src' m H. change (EGoal e c s o).
  destruct (valid_facts _ _ _ Hin) as [Hce Hrow]. pose proof Hst as (Hk & Hl & Hpe).
  destruct (int_like o) eqn:Hint; [apply env_int; assumption|].
  destruct o; try discriminate Hint;
    first [ apply env_float; [assumption | assumption | tauto]
          | apply env_strings; [assumption | cbn; tauto]
          | apply env_bytes; [assumption | cbn; tauto]
          | apply env_global; [assumption | assumption | tauto]
          | apply env_puts; [assumption | assumption | cbn; tauto]
          | apply env_get_long; [assumption | assumption | tauto]
          | apply env_binget; assumption
          | apply env_ext; [assumption | cbn; tauto]
          | apply env_persid; assumption
          | idtac ].
  all: try (intros src t src' m H; unfold emit_token in H; cbn [int_like] in H; inversion H; subst;
            eexists; (split; [reflexivity|]); apply emitsb_intro; [exact Hin | left; reflexivity | reflexivity]).
  all: try discriminate Hce.
  (* PROTO: never a candidate once the header is out *)
  cbn [can_emit] in Hce. rewrite Hpe in Hce. destruct (c_version c); try discriminate Hce;
    cbn [row] in Hrow; exfalso; revert Hrow; cbn; intuition discriminate.
Qed.

(* ---------- post-processing stays within TypeConfusion's contract ---------- *)
Lemma byte_type_code : forall o, byte_type (ref_code o) = stack_type o.
Proof. destruct o; reflexivity. Qed.

Lemma post_one_fired : forall m delta cur rate s res s', post_one m delta cur rate s = Ok (res, s', true) ->
  m = MTypeConf true /\ post_one m delta delta rate s = Ok (res, s', true).
Proof.
  intros m delta cur rate s res s' H. destruct m as [| | | | |u|u]; try (cbn [post_one] in H; inversion H; fail).
  destruct u; [|cbn [post_one] in H; inversion H]. split; [reflexivity|].
  cbn [post_one] in *. destruct (should_mutate rate s) as [go s1]. destruct go; [|inversion H].
  destruct delta as [|b r]; [inversion H|]. destruct (byte_type b =? 0); [inversion H|]. exact H.
Qed.

Definition out_rel (c : config) (t out : token) : Prop := out_ok c t out = true.

Lemma out_ok_refl : forall c t, out_ok c t t = true.
Proof.
  intros c [o a]. unfold out_ok, tok_eqb. cbn [fst snd]. rewrite op_eqb_refl.
  assert (E : arg_eqb a a = true).
  { destruct a; cbn [arg_eqb]; rewrite ?N.eqb_refl, ?Z.eqb_refl, ?list_eqb_refl; reflexivity. }
  rewrite E. reflexivity.
Qed.

Lemma post_all_env : forall c t ms cur rate s n res s' n',
  (forall m, In m ms -> In m (c_mutators c)) ->
  (exists out, cur = encode out /\ out_ok c t out = true) ->
  post_all ms (encode t) cur rate s n = Ok (res, s', n') ->
  exists out, res = encode out /\ out_ok c t out = true.
Proof.
  intros c t ms. induction ms as [|m ms IH]; intros cur rate s n res s' n' Hsub Hcur H.
  - inversion H; subst. exact Hcur.
  - cbn [post_all] in H. destruct (post_one m (encode t) cur rate s) as [[[r1 s1] fired]|w] eqn:E1; [|discriminate H]. cbn [bind] in H.
    apply (IH r1 rate s1 (if fired then n + 1 else n) res s' n' (fun m0 Hm0 => Hsub m0 (or_intror Hm0))); [|exact H].
    destruct fired.
    + destruct (post_one_fired _ _ _ _ _ _ _ E1) as [Hm E2]. subst m.
      destruct (post_one_spec (MTypeConf true) (encode t) (encode t) rate s) as (r2 & s2 & f2 & E3 & _ & _ & _ & Hc).
      rewrite E2 in E3. inversion E3; subst. specialize (Hc eq_refl). cbn [contract_post] in Hc.
      unfold encode in Hc at 1. apply andb_prop in Hc. destruct Hc as [Hb Hc].
      destruct (lex_one r2) as [[t' rest]|] eqn:El; [|discriminate Hc]. destruct rest; [|discriminate Hc].
      apply andb_prop in Hc. destruct Hc as [Hc Henc]. apply andb_prop in Hc. destruct Hc as [Hrepl Hdiff].
      apply list_eqb_eq in Henc. exists t'. split; [symmetry; exact Henc|].
      unfold out_ok. apply orb_true_iff. right. rewrite byte_type_code in Hb, Hdiff.
      assert (Htc : has_typeconf c = true).
      { unfold has_typeconf. apply existsb_exists. exists (MTypeConf true). split; [apply Hsub; left; reflexivity | reflexivity]. }
      rewrite Htc, Hb, Hrepl, Hdiff. reflexivity.
    + destruct (post_one_spec m (encode t) cur rate s) as (r2 & s2 & f2 & E3 & Hnf & _). rewrite E1 in E3. inversion E3; subst.
      rewrite (Hnf eq_refl). exact Hcur.
Qed.

Lemma post_process_env : forall c t s fin s' rw,
  post_process c (encode t) s = Ok (fin, s', rw) -> exists out, fin = encode out /\ out_ok c t out = true.
Proof.
  intros c t s fin s' rw H. unfold post_process in H. destruct (c_mutators c) as [|m ms] eqn:Em.
  - inversion H; subst. exists t. split; [reflexivity | apply out_ok_refl].
  - eapply (post_all_env c t (m :: ms)); [rewrite Em; auto | exists t; split; [reflexivity | apply out_ok_refl] | exact H].
Qed.

(* ---------- one whole step ---------- *)
Lemma sim_step_fstate : forall c s ch t, fstate_ok c s -> emitsb c s ch t = true -> memo_len s + 1 < M32 ->
  fstate_ok c (sim_step (c_version c) s t).
Proof.
  intros c s ch t (Hk & Hl & Hpe) He Hroom.
  destruct (emitsb_chosen _ _ _ _ He) as (_ & _ & _ & Harg).
  pose proof (sim_step_memo_len (c_version c) s t) as Hlen.
  assert (Hp : proto_emitted (sim_step (c_version c) s t) = proto_emitted s).
  { destruct s as [st m pe]. destruct t as [o a]. destruct o; unfold sim_step; cbn [fst snd stk memo with_stk with_memo push proto_emitted];
      try reflexivity;
      try (destruct st as [|k0 [|k1 [|k2 st']]]; cbn [with_stk with_memo push proto_emitted]; try reflexivity;
           repeat match goal with |- context [if ?b then _ else _] => destruct b end; reflexivity).
    all: try (destruct (memo_get _ m); reflexivity).
    all: try (destruct st as [|k0 st']; try reflexivity; destruct k0; reflexivity). }
  split; [|split; [unfold memo_len in *; lia | rewrite Hp; exact Hpe]].
  (* the key sequence: PUT-family writes index |memo| (fresh), MEMOIZE appends, everything else leaves the memo alone *)
  destruct s as [st m pe]. destruct t as [o a]. cbn [memo] in *.
  assert (Hfresh : memo_get (N.of_nat (length m)) m = None) by (apply keys_seq_get_len; [exact Hk | lia]).
  destruct o; unfold sim_step; cbn [fst snd stk memo with_stk with_memo push proto_emitted]; try exact Hk.
  all: try (destruct (memo_get (tok_index _) m); cbn [memo push with_stk]; exact Hk).
  all: try (destruct st as [|k0 [|k1 [|k2 st']]]; cbn [memo with_stk with_memo push]; try exact Hk;
         repeat match goal with |- context [if ?b then _ else _] => destruct b end; cbn [memo with_stk with_memo push]; try exact Hk).
  all: try (destruct st as [|k0 st']; try exact Hk; destruct k0; exact Hk).
  all: try (destruct k0; exact Hk).
  all: cbn [fst snd arg_env] in Harg; unfold memo_len in *; cbn [memo] in *.
  all: try (destruct a; try discriminate Harg;
            repeat match type of Harg with (_ && _) = true => apply andb_prop in Harg; destruct Harg as [Harg ?] end;
            apply N.eqb_eq in Harg; subst; cbn [tok_index snd]; rewrite (memo_put_fresh _ _ _ _ Hfresh); apply keys_seq_snoc; exact Hk).
  all: try (rewrite (memo_put_fresh _ _ _ _ Hfresh); apply keys_seq_snoc; exact Hk).
Qed.

Theorem emit_and_process_env : forall e c s o src em s' src',
  names_ok e -> fmt_ok e -> fstate_ok c s -> In o (get_valid_opcodes c s) ->
  emit_and_process e id_order c s o src = Ok (em, s', src') ->
  exists t out, e_tok em = Some t /\ emitsb c s o t = true /\ out_ok c t out = true
                /\ e_final em = encode out /\ e_orig em = encode t /\ s' = sim_step (c_version c) s t.
Proof.
  intros e c s o src em s' src' Hn Hf Hst Hin H. unfold emit_and_process in H.
  destruct (emit_token e id_order c s o src) as [[[t s1] muts]|w] eqn:Et; [|discriminate H]. cbn [bind] in H.
  destruct (emit_token_env _ _ _ _ _ _ _ _ Hn Hf Hst Hin Et) as (tok & -> & He).
  destruct (post_process c (encode tok) s1) as [[[fin s2] rw]|w] eqn:Ep; [|discriminate H]. cbn [bind] in H.
  destruct (post_process_env _ _ _ _ _ _ Ep) as (out & -> & Ho).
  inversion H; subst. exists tok, out. cbn [e_tok e_final e_orig]. auto 10.
Qed.

Lemma valid_nonempty : forall c s, get_valid_opcodes c s <> [].
Proof.
  intros c s. assert (H : In INT (get_valid_opcodes c s)).
  { unfold get_valid_opcodes. apply filter_In. split; [destruct (c_version c); cbn; tauto | reflexivity]. }
  intro E. rewrite E in H. destruct H.
Qed.

Lemma body_ok_app : forall c steps s st,
  body_ok c s (steps ++ [st]) =
  body_ok c s steps && (emitsb c (run_steps (c_version c) s (map rs_tok steps)) (rs_chosen st) (rs_tok st) && out_ok c (rs_tok st) (rs_out st)).
Proof.
  intros c steps. induction steps as [|x steps IH]; intros s st.
  - cbn [app body_ok map run_steps]. rewrite andb_true_r. reflexivity.
  - cbn [app body_ok map run_steps]. rewrite IH. rewrite !andb_assoc. reflexivity.
Qed.

Lemma run_steps_app : forall v ts s t, run_steps v s (ts ++ [t]) = sim_step v (run_steps v s ts) t.
Proof. intros v ts. induction ts as [|x ts IH]; intros s t; [reflexivity|]. cbn [app run_steps]. apply IH. Qed.

(* the loop invariant: the iterations done so far form a run of the envelope *)
Definition loop_inv (c : config) (k : N) (st : res loop_state) : Prop :=
  exists l steps, st = Ok l
    /\ N.of_nat (length steps) = k
    /\ body_ok c (s_start c) steps = true
    /\ l_sim l = run_steps (c_version c) (s_start c) (map rs_tok steps)
    /\ concat (rev (l_out l)) = serialize (map rs_out steps)
    /\ l_stopped l = false
    /\ fstate_ok c (l_sim l) /\ memo_len (l_sim l) <= k.

Lemma loop_inv_step : forall e c k st, names_ok e -> fmt_ok e -> k + 2 < M32 ->
  loop_inv c k st -> (exists l, loop_body e id_order c st = Ok l) -> loop_inv c (N.succ k) (loop_body e id_order c st).
Proof.
  intros e c k st Hn Hf Hk (l & steps & -> & Hlen & Hb & Hsim & Hout & Hns & Hst & Hml) (l' & Hl').
  unfold loop_body in *. cbn [bind] in *. rewrite Hns in *.
  destruct (get_valid_opcodes c (l_sim l)) as [|o0 rest] eqn:Ev; [exfalso; exact (valid_nonempty c (l_sim l) Ev)|].
  rewrite <- Ev in *.
  destruct (choose_index (N.of_nat (length (get_valid_opcodes c (l_sim l)))) (l_src l)) as [[i s1]|w] eqn:Ec; [|discriminate Hl']. cbn [bind] in *.
  destruct (nth_res (get_valid_opcodes c (l_sim l)) i) as [o|w] eqn:En; [|discriminate Hl']. cbn [bind] in *.
  destruct (emit_and_process e id_order c (l_sim l) o s1) as [[[em sim'] s2]|w] eqn:Ee; [|discriminate Hl']. cbn [bind] in *.
  pose proof (nth_res_In _ _ _ _ En) as Hin.
  destruct (emit_and_process_env _ _ _ _ _ _ _ _ Hn Hf Hst Hin Ee) as (t & out & Ht & He & Ho & Hfin & _ & Hs').
  set (stp := {| rs_chosen := o; rs_tok := t; rs_out := out |}).
  eexists _, (steps ++ [stp]). split; [reflexivity|].
  split; [rewrite app_length; cbn [length]; lia|].
  split; [rewrite body_ok_app, Hb; cbn [andb rs_chosen rs_tok rs_out stp]; rewrite <- Hsim, He, Ho; reflexivity|].
  split; [cbn [l_sim]; rewrite map_app; cbn [map rs_tok stp]; rewrite run_steps_app, <- Hsim; exact Hs'|].
  split; [cbn [l_out rev]; rewrite concat_app; cbn [concat]; rewrite app_nil_r, Hout, map_app, serialize_app; cbn [map rs_out stp];
          unfold serialize at 3; cbn [flat_map]; rewrite app_nil_r, Hfin; reflexivity|].
  split; [reflexivity|].
  cbn [l_sim]. subst sim'. split.
  - eapply sim_step_fstate; [exact Hst | exact He | lia].
  - pose proof (sim_step_memo_len (c_version c) (l_sim l) t). unfold memo_len in *. lia.
Qed.

Lemma loop_iter_inv : forall e c st0 n l, names_ok e -> fmt_ok e -> n + 2 < M32 ->
  loop_inv c 0 st0 -> N.iter n (loop_body e id_order c) st0 = Ok l -> loop_inv c n (N.iter n (loop_body e id_order c) st0).
Proof.
  intros e c st0 n. induction n as [|n IH] using N.peano_ind; intros l Hn Hf Hk H0 H.
  - exact H0.
  - rewrite N.iter_succ in *.
    destruct (N.iter n (loop_body e id_order c) st0) as [l0|w] eqn:E; [|discriminate H].
    apply loop_inv_step; [exact Hn | exact Hf | lia | apply (IH l0); [exact Hn | exact Hf | lia | exact H0 | reflexivity] | exists l; exact H].
Qed.

Lemma encode_argless : forall o, ref_reader o = no_arg -> encode (o, A0) = [ref_code o].
Proof. intros o H. unfold encode. cbn [fst snd]. destruct o; try discriminate H; reflexivity. Qed.

Lemma serialize_tail : forall v s, serialize (map (fun o => (o, A0)) (fst (cleanup_for_stop v s))) = map ref_code (fst (cleanup_for_stop v s)).
Proof.
  intros v s. destruct (cleanup_facts v s) as [_ Hops]. revert Hops. generalize (fst (cleanup_for_stop v s)). intro ops.
  induction ops as [|o ops IH]; intro H; [reflexivity|]. cbn [map]. unfold serialize in *. cbn [flat_map]. rewrite IH by (intros o' Ho'; apply H; right; exact Ho').
  rewrite encode_argless; [reflexivity|]. destruct (H o (or_introl eq_refl)) as [-> |[-> |[[_ ->]|[_ [-> | ->]]]]]; reflexivity.
Qed.

(* the physical hypothesis: opcode counts fit in 32 bits (LONG_BINPUT writes the memo size as u32) *)
Definition cfg_small (c : config) : Prop := c_min c + 2 < M32 /\ c_max c + 2 < M32.

Lemma serialize_header : forall c framed n,
  serialize (header c framed n) =
  (if v_lt2 (c_version c) then [] else [ref_code PROTO; vnum (c_version c)])
  ++ (if framed then ref_code FRAME :: le_bytes 8 n else []).
Proof.
  intros c framed n. unfold header. rewrite serialize_app. f_equal.
  - destruct (c_version c); reflexivity.
  - destruct framed; [|reflexivity]. unfold serialize. cbn [flat_map encode encode_arg fst snd]. rewrite app_nil_r. reflexivity.
Qed.

Lemma Ok_inj : forall (A : Type) (a b : A), Ok a = Ok b -> a = b.
Proof. intros A a b H. inversion H. reflexivity. Qed.

Theorem F_in_R : forall e c src r,
  names_ok e -> fmt_ok e -> cfg_small c ->
  generate_internal e id_order c src = Ok r ->
  exists steps, run_R c (g_framed r) steps /\ g_out r = serialize (run_tokens c (g_framed r) steps).
Proof.
  intros e c src r Hn Hf [Hmin Hmax] H. unfold generate_internal in H.
  assert (Hfr : fst (if v_ge4 (c_version c) then gen_bool src else (false, src)) = true -> v_ge4 (c_version c) = true)
    by (destruct (v_ge4 (c_version c)); [auto | cbn; discriminate]).
  destruct (if v_ge4 (c_version c) then gen_bool src else (false, src)) as [framed s0]. cbn [fst] in Hfr.
  match type of H with bind ?t _ = _ => destruct t as [[target s1]|w] eqn:ET; [|discriminate H] end. cbn [bind] in H.
  assert (HT : target_ok c target = true /\ target + 2 < M32).
  { unfold target_ok. destruct (N.ltb_spec 0 (c_max c - c_min c)) as [Hr|Hr].
    - destruct (choose_index_lt (c_max c - c_min c) s0 Hr ltac:(rewrite M64_val; rewrite M32_val in Hmax; lia)) as (i & s' & E & Hi).
      rewrite E in ET. cbn [bind] in ET. destruct (M64 <=? c_min c + i); [discriminate ET|]. inversion ET; subst.
      assert (E1 : c_min c <? c_max c = true) by (apply N.ltb_lt; lia). rewrite E1.
      split; [apply andb_true_intro; split; [apply N.leb_le | apply N.ltb_lt]; lia | lia].
    - inversion ET; subst. assert (E1 : c_min c <? c_max c = false) by (apply N.ltb_ge; lia). rewrite E1.
      split; [apply N.eqb_refl | exact Hmin]. }
  destruct HT as [HT Hsmall].
  set (st0 := Ok {| l_sim := {| stk := []; memo := []; proto_emitted := negb (v_lt2 (c_version c)) |};
                    l_src := s1; l_out := []; l_trace := []; l_stopped := false |}) in *.
  destruct (N.iter target (loop_body e id_order c) st0) as [l|w] eqn:EL; [|discriminate H]. cbn [bind] in H.
  assert (H0 : loop_inv c 0 st0).
  { eexists _, []. split; [reflexivity|]. split; [reflexivity|]. split; [reflexivity|]. split; [reflexivity|].
    split; [reflexivity|]. split; [reflexivity|]. split; [|unfold memo_len; cbn [l_sim memo length]; lia].
    split; [intros i k Hk; destruct i; discriminate Hk|]. split; [unfold memo_len; cbn [l_sim memo length]; rewrite M32_val; lia | reflexivity]. }
  destruct (loop_iter_inv e c st0 target l Hn Hf Hsmall H0 EL) as (l' & steps & E' & Hlen & Hb & Hsim & Hout & _ & _ & _).
  rewrite EL in E'. inversion E'; subst l'. clear E'.
  remember (cleanup_for_stop (c_version c) (l_sim l)) as cl eqn:ECl. destruct cl as [tail sim1]. symmetry in ECl.
  pose proof (Ok_inj _ _ _ H) as Hr. clear H.
  assert (Ef : g_framed r = framed) by (rewrite <- Hr; reflexivity).
  assert (Eo : g_out r = ((if v_lt2 (c_version c) then [] else [ref_code PROTO; vnum (c_version c)]) ++
             (if framed then ref_code FRAME :: le_bytes 8 (N.of_nat (length (concat (rev (l_out l)) ++ map ref_code tail ++ [ref_code STOP]))) else [])) ++
            concat (rev (l_out l)) ++ map ref_code tail ++ [ref_code STOP]) by (rewrite <- Hr; reflexivity).
  rewrite Ef, Eo. clear Hr Ef Eo.
  exists steps. split.
  - split; [exact Hfr|]. split; [rewrite Hlen; exact HT | exact Hb].
  - unfold run_tokens. cbv zeta.
    change {| stk := []; memo := []; proto_emitted := negb (v_lt2 (c_version c)) |} with (s_start c).
    rewrite <- Hsim, ECl. cbn [fst].
    rewrite serialize_app, serialize_header.
    assert (Erest : serialize (map rs_out steps ++ map (fun o => (o, A0)) tail ++ [(STOP, A0)])
                    = concat (rev (l_out l)) ++ map ref_code tail ++ [ref_code STOP]).
    { rewrite !serialize_app, <- Hout. f_equal. f_equal.
      pose proof (serialize_tail (c_version c) (l_sim l)) as Ht. rewrite ECl in Ht. exact Ht. }
    rewrite Erest. reflexivity.
Qed.

(* ---------- consequences: the level-R properties hold of the bytes the bit-exact model returns ---------- *)
Definition out_fits (r : gen_result) : Prop := N.of_nat (length (g_out r)) < 2 ^ 64.

Section EndToEnd.
  Variables (e : env) (c : config) (src : source) (r : gen_result).
  Hypothesis Hn : names_ok e.
  Hypothesis Hf : fmt_ok e.
  Hypothesis Hc : cfg_small c.
  Hypothesis Hgen : generate_internal e id_order c src = Ok r.
  Hypothesis Hfit : out_fits r.

  Lemma gen_run : exists steps, run_R c (g_framed r) steps /\ fits c (g_framed r) steps
                                 /\ g_out r = serialize (run_tokens c (g_framed r) steps).
  Proof.
    destruct (F_in_R e c src r Hn Hf Hc Hgen) as (steps & HR & Ho). exists steps. split; [exact HR|]. split; [|exact Ho].
    unfold fits. rewrite <- Ho. exact Hfit.
  Qed.

  Theorem gen_C04 : oracle_C04 (g_out r) = true.
  Proof. destruct gen_run as (steps & HR & HF & ->). apply C04_B; assumption. Qed.
  Theorem gen_C06 : oracle_C06 (c_version c) (g_out r) = true.
  Proof. destruct gen_run as (steps & HR & HF & ->). apply C06_B; assumption. Qed.
  Theorem gen_C10 : oracle_C10 c (g_out r) = true.
  Proof. destruct gen_run as (steps & HR & HF & ->). apply C10_B; assumption. Qed.
  Theorem gen_C11 : oracle_C11 c (g_out r) = true.
  Proof. destruct gen_run as (steps & HR & HF & ->). apply C11_B; assumption. Qed.

  Hypothesis Hsafe : safeb c = true.
  Theorem gen_C01 : oracle_C01 (g_out r) = true.
  Proof. destruct gen_run as (steps & HR & HF & ->). apply C01_B; assumption. Qed.
  Theorem gen_C02 : oracle_C02 (g_out r) = true.
  Proof. destruct gen_run as (steps & HR & HF & ->). apply C02_B; assumption. Qed.
  Theorem gen_C03 : oracle_C03 (g_out r) = true.
  Proof. destruct gen_run as (steps & HR & HF & ->). apply C03_B; assumption. Qed.
  Theorem gen_C05 : oracle_C05 (c_version c) (g_out r) = true.
  Proof. destruct gen_run as (steps & HR & HF & ->). apply C05_B; assumption. Qed.
  (* C17 on the generated bytes: they lex to tokens every prefix of which the reference machine accepts,
     in a state related by invb to the simulated state after the same prefix *)
  Theorem gen_C17 : exists ts, lex_all (g_out r) = Some ts /\ forall n, exists rn,
      ref_run rinit (firstn n ts) = Some rn /\ invb (sim_after c ts n) rn = true.
  Proof.
    destruct gen_run as (steps & HR & HF & ->). exists (run_tokens c (g_framed r) steps).
    split; [apply run_bytes_lex; assumption|]. intro n.
    destruct (C17_R c (g_framed r) steps Hsafe HR n) as (rn & H1 & _ & H3). exists rn. split; assumption.
  Qed.
End EndToEnd.
