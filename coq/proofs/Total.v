(* C09 on the model: generation is total.  The level-F model contains every point where the Rust
   code can panic (indexing, unwrap, asserted ranges, checked arithmetic, unreachable!) as an
   explicit Panic result; here we prove none of them is reachable, for every configuration in
   range, every entropy input, every mutator list (safe or not) and every rate bit pattern. *)
From Coq Require Import List NArith ZArith Bool Lia Arith.
Import ListNotations.
From PF Require Import Opcodes RefTable Config Sim Ref Lex Envelope Entropy Mutators Oracles Gen.
From PF.proofs Require Import EntropyP MutatorsP.
Local Open Scope N_scope.
Ltac Zify.zify_post_hook ::= Z.to_euclidean_division_equations.
Local Arguments N.pow : simpl never.
Local Arguments N.ltb : simpl never.
Local Arguments N.leb : simpl never.
Local Arguments N.eqb : simpl never.
Local Arguments N.of_nat : simpl never.
Local Arguments N.mul : simpl never.
Local Arguments N.add : simpl never.
Local Arguments N.sub : simpl never.
Local Arguments N.modulo : simpl never.

Definition env_ok (e : env) : Prop := stdlib e <> [] /\ N.of_nat (length (stdlib e)) < M64.
Definition cfg_in_range (c : config) : Prop := c_min c < M64 /\ c_max c < M64.

(* ---------- the pieces ---------- *)
Lemma mutate_int_total : forall c x rate s, exists v s' m, mutate_int c x rate s = Ok (v, s', m).
Proof.
  intros. destruct (first_some_total Z mutate_int_one (fun m _ => applies_int m) _ (fun _ => True) int_one_spec
                      (c_mutators c) x rate s I) as (v & s' & f & E & _). eauto.
Qed.
Lemma mutate_float_total : forall c x rate s, exists v s' m, mutate_float c x rate s = Ok (v, s', m).
Proof.
  intros. destruct (first_some_total N mutate_float_one (fun m _ => applies_float m) (fun m _ v' => contract_float m v')
                      (fun _ => True) float_one_spec (c_mutators c) x rate s I) as (v & s' & f & E & _). eauto.
Qed.
Lemma mutate_memo_total : forall c x rate s, exists v s' m, mutate_memo_index c x rate s = Ok (v, s', m).
Proof.
  intros. destruct (first_some_total N mutate_memo_one (fun m _ => applies_memo m) _ (fun _ => True) memo_one_spec
                      (c_mutators c) x rate s I) as (v & s' & f & E & _). eauto.
Qed.
Lemma mutate_seq_total : forall is_str c x rate s, seq_fits x ->
  exists v s' m, first_some (mutate_seq_one is_str) (c_mutators c) x rate s = Ok (v, s', m).
Proof.
  intros is_str c x rate s H.
  destruct (first_some_total (list N) (mutate_seq_one is_str) applies_seq _ seq_fits (seq_one_spec is_str)
              (c_mutators c) x rate s H) as (v & s' & f & E & _). eauto.
Qed.

Lemma repeat_ascii_total : forall n s,
  exists l s', repeat_res n gen_ascii_char s = Ok (l, s') /\ length l = n /\ Forall (fun c => c <= 126) l.
Proof.
  induction n as [|n IH]; intro s; [exists [], s; repeat split; constructor|].
  cbn [repeat_res]. destruct (gen_ascii_char_printable s) as (c & s1 & -> & _ & Hc). cbn [bind].
  destruct (IH s1) as (l & s2 & -> & Hl & Hall). cbn [bind].
  exists (c :: l), s2. split; [reflexivity|]. split; [simpl; lia | constructor; assumption].
Qed.

Lemma repeat_u8_total : forall n s,
  exists l s', repeat_res n (fun s0 => Ok (gen_u8 s0)) s = Ok (l, s') /\ length l = n.
Proof.
  induction n as [|n IH]; intro s; [exists [], s; split; reflexivity|].
  cbn [repeat_res bind]. destruct (gen_u8 s) as [b s1].
  destruct (IH s1) as (l & s2 & -> & Hl). cbn [bind]. exists (b :: l), s2. split; [reflexivity | simpl; lia].
Qed.

Lemma str_len_ascii : forall l, Forall (fun c => c <= 126) l -> str_len l = N.of_nat (length l).
Proof.
  induction l as [|c l IH]; intro H; [reflexivity|]. inversion H as [|? ? Hc Hl]; subst.
  unfold str_len in *. cbn [fold_right length]. rewrite (IH Hl). unfold utf8_len.
  assert (E : c <? 128 = true) by (apply N.ltb_lt; lia). rewrite E. lia.
Qed.

Lemma mod32_lt : forall n, (N.to_nat (n mod 32) < 32)%nat.
Proof. intro n. pose proof (N.mod_lt n 32 ltac:(discriminate)). lia. Qed.

Lemma small_fits_M64 : forall k : nat, (k < 32)%nat -> N.of_nat k < M64.
Proof. intros k H. rewrite M64_val. lia. Qed.

Lemma random_module_total : forall e s, env_ok e -> exists m a s', random_module e s = Ok (m, a, s').
Proof.
  intros e s [Hne Hlen]. unfold random_module.
  assert (H0 : 0 < N.of_nat (length (stdlib e))) by (destruct (stdlib e); [contradiction | simpl; lia]).
  destruct (choose_index_lt _ s H0 Hlen) as (i & s1 & -> & Hi). cbn [bind].
  destruct (nth_res_in _ (stdlib e) i Hi) as (line & -> & _). cbn [bind].
  destruct (split_name line) as [m a]. eauto.
Qed.

Lemma int_cands_len : forall v, 0 < N.of_nat (length (int_cands v)) /\ N.of_nat (length (int_cands v)) < M64.
Proof. destruct v; vm_compute; split; reflexivity. Qed.

Lemma insert_key_length : forall k l, length (insert_key k l) = S (length l).
Proof. induction l as [|x l IH]; [reflexivity|]. cbn [insert_key]. destruct (k <=? x); simpl; lia. Qed.
Lemma sort_keys_length : forall l, length (sort_keys l) = length l.
Proof. induction l as [|x l IH]; [reflexivity|]. unfold sort_keys in *. cbn [fold_right]. rewrite insert_key_length, IH. reflexivity. Qed.
Lemma memo_keys_length : forall s, length (memo_keys id_order s) = length (memo s).
Proof. intro s. unfold memo_keys, id_order. rewrite sort_keys_length, map_length. reflexivity. Qed.

Lemma filter_length_le : forall (A : Type) (f : A -> bool) l, (length (filter f l) <= length l)%nat.
Proof. induction l as [|x l IH]; [simpl; lia|]. cbn [filter]. destruct (f x); simpl; lia. Qed.

Lemma str_len_le4 : forall l : list N, str_len l <= 4 * N.of_nat (length l).
Proof.
  induction l as [|x l IH]; [cbn; lia|]. unfold str_len in *. cbn [fold_right length].
  set (r := fold_right (fun cp acc => utf8_len cp + acc) 0 l) in *.
  assert (U : utf8_len x <= 4) by (unfold utf8_len; destruct (x <? 128); [lia|]; destruct (x <? 2048); [lia|]; destruct (x <? 65536); lia).
  lia.
Qed.

(* the string family: draw a length, that many printable characters, mutate *)
Lemma string_draw_total : forall c src,
  exists n s1 str s2 v s3 m,
    gen_u8 src = (n, s1)
    /\ repeat_res (N.to_nat (n mod 32)) gen_ascii_char s1 = Ok (str, s2)
    /\ mutate_string c str (c_rate c) s2 = Ok (v, s3, m).
Proof.
  intros c src. destruct (gen_u8 src) as [n s1] eqn:E1.
  destruct (repeat_ascii_total (N.to_nat (n mod 32)) s1) as (str & s2 & E2 & Hl & Hall).
  assert (Hf : seq_fits str).
  { split; [rewrite (str_len_ascii _ Hall)|]; apply small_fits_M64; rewrite Hl; apply mod32_lt. }
  destruct (mutate_seq_total true c str (c_rate c) s2 Hf) as (v & s3 & m & E3).
  exists n, s1, str, s2, v, s3, m. auto.
Qed.

Lemma bytes_draw_total : forall c src,
  exists n s1 bs s2 v s3 m,
    gen_u8 src = (n, s1)
    /\ repeat_res (N.to_nat (n mod 32)) (fun s0 => Ok (gen_u8 s0)) s1 = Ok (bs, s2)
    /\ mutate_bytes c bs (c_rate c) s2 = Ok (v, s3, m).
Proof.
  intros c src. destruct (gen_u8 src) as [n s1] eqn:E1.
  destruct (repeat_u8_total (N.to_nat (n mod 32)) s1) as (bs & s2 & E2 & Hl).
  assert (Hf : seq_fits bs).
  { assert (Hb : N.of_nat (length bs) < M64) by (apply small_fits_M64; rewrite Hl; apply mod32_lt).
    split; [|exact Hb]. pose proof (str_len_le4 bs). pose proof (mod32_lt n). rewrite M64_val. lia. }
  destruct (mutate_seq_total false c bs (c_rate c) s2 Hf) as (v & s3 & m & E3).
  exists n, s1, bs, s2, v, s3, m. auto.
Qed.

Lemma keys_draw_total : forall c (keys : list N) src, keys <> [] -> N.of_nat (length keys) < M64 ->
  exists i s1 idx mi s2 m,
    gen_range 0 (N.of_nat (length keys)) src = Ok (i, s1)
    /\ nth_res keys i = Ok idx
    /\ mutate_memo_index c idx (c_rate c) s1 = Ok (mi, s2, m).
Proof.
  intros c keys src Hne Hlen.
  assert (H0 : 0 < N.of_nat (length keys)) by (destruct keys; [contradiction | simpl; lia]).
  destruct (gen_range_in 0 _ src H0 Hlen) as (i & s1 & E1 & _ & Hi).
  destruct (nth_res_in _ keys i Hi) as (idx & E2 & _).
  destruct (mutate_memo_total c idx (c_rate c) s1) as (mi & s2 & m & E3).
  exists i, s1, idx, mi, s2, m. auto.
Qed.

Ltac string_case c src :=
  destruct (string_draw_total c src) as (n & s1 & str & s2 & v & s3 & m & E1 & E2 & E3);
  rewrite E1, E2; cbn [bind]; rewrite E3; cbn [bind]; eauto.
Ltac bytes_case c src :=
  destruct (bytes_draw_total c src) as (n & s1 & bs & s2 & v & s3 & m & E1 & E2 & E3);
  rewrite E1, E2; cbn [bind]; rewrite E3; cbn [bind]; eauto.

Theorem emit_token_total : forall e c s o src, env_ok e -> memo_len s < M64 -> o <> FRAME ->
  exists t src' m, emit_token e id_order c s o src = Ok (t, src', m).
Proof.
  intros e c s o src He Hmemo Hnf. unfold emit_token.
  destruct (int_like o) eqn:Hint.
  { destruct (int_cands_len (c_version c)) as [L0 L1].
    destruct (choose_index_lt _ src L0 L1) as (i & s1 & -> & Hi). cbn [bind].
    destruct (nth_res_in _ (int_cands (c_version c)) i Hi) as (k & -> & _). cbn [bind].
    destruct (gen_i32 s1) as [x s2].
    destruct (mutate_int_total c x (c_rate c) s2) as (v & s3 & m & ->). cbn [bind]. eauto. }
  assert (Hkeys : N.of_nat (length (memo_keys id_order s)) < M64)
    by (rewrite memo_keys_length; exact Hmemo).
  assert (Hkeys2 : N.of_nat (length (filter (fun k => k <? 256) (memo_keys id_order s))) < M64).
  { pose proof (filter_length_le _ (fun k => k <? 256) (memo_keys id_order s)). lia. }
  destruct o; try discriminate Hint; try contradiction;
    try (eexists _, _, _; reflexivity);
    try (string_case c src); try (bytes_case c src);
    try (destruct (gen_f64 src) as [x s1]; destruct (mutate_float_total c x (c_rate c) s1) as (v & s2 & m & ->); cbn [bind]; eauto);
    try (destruct (random_module_total e src He) as (m & a & s1 & ->); cbn [bind]; eauto);
    try (match goal with |- context [gen_uint ?k src] => destruct (gen_uint k src) as [x s1]; eauto end).
  all: try (destruct (memo_keys id_order s) as [|k0 ks] eqn:Ek; [eauto|];
            destruct (keys_draw_total c (k0 :: ks) src ltac:(discriminate) Hkeys) as (i & s1 & idx & mi & s2 & m & E1 & E2 & E3);
            rewrite E1; cbn [bind]; rewrite E2; cbn [bind]; rewrite E3; cbn [bind]; eauto).
  all: try (destruct (filter (fun k => k <? 256) (memo_keys id_order s)) as [|k0 ks] eqn:Ek; [eauto|];
            destruct (keys_draw_total c (k0 :: ks) src ltac:(discriminate) Hkeys2) as (i & s1 & idx & mi & s2 & m & E1 & E2 & E3);
            rewrite E1; cbn [bind]; rewrite E2; cbn [bind]; rewrite E3; cbn [bind]; eauto).
  - destruct (gen_u8 src) as [x s1]. eauto.
  - destruct (gen_u16 src) as [x s1]. eauto.
  - destruct (gen_u32 src) as [x s1]. eauto.
  - destruct (gen_u32 src) as [x s1]. eauto.
Qed.

(* ---------- one step, the loop, the whole call ---------- *)
Lemma post_process_total : forall c delta s, exists res s' n, post_process c delta s = Ok (res, s', n).
Proof.
  intros c delta s. unfold post_process. destruct (c_mutators c) as [|m ms]; [eauto|]. apply post_all_total.
Qed.

Lemma memo_put_length : forall (A : Set) i (k : A) m, (length (memo_put i k m) <= S (length m))%nat.
Proof.
  intros A i k m. induction m as [|[j k0] m IH]; [simpl; lia|]. cbn [memo_put]. destruct (i =? j); simpl; lia.
Qed.

Lemma sim_step_memo_len : forall v s t, (length (memo (sim_step v s t)) <= S (length (memo s)))%nat.
Proof.
  intros v [st m pe] [o a]. pose proof (memo_put_length kind) as MP.
  destruct o; unfold sim_step; cbn [fst snd stk memo with_stk with_memo push proto_emitted]; try lia;
    try (destruct st as [|k0 [|k1 [|k2 st']]]; cbn [memo with_stk with_memo stk push]; try lia;
         repeat match goal with |- context [if ?b then _ else _] => destruct b end;
         cbn [memo with_stk with_memo stk push]; try lia; apply MP).
  all: try (destruct (memo_get _ m); cbn [memo push with_stk]; lia).
  all: try (destruct st as [|k0 st']; cbn [memo with_stk stk]; try lia; destruct k0; cbn [memo with_stk]; lia).
Qed.

Theorem emit_and_process_total : forall e c s o src, env_ok e -> memo_len s < M64 -> o <> FRAME ->
  exists em s' src', emit_and_process e id_order c s o src = Ok (em, s', src')
    /\ (length (memo s') <= S (length (memo s)))%nat.
Proof.
  intros e c s o src He Hm Hnf. unfold emit_and_process.
  destruct (emit_token_total e c s o src He Hm Hnf) as (t & s1 & muts & ->). cbn [bind].
  destruct (post_process_total c (match t with Some tk => encode tk | None => [] end) s1) as (fin & s2 & rw & ->). cbn [bind].
  eexists _, _, _. split; [reflexivity|].
  destruct t as [tk|]; [apply sim_step_memo_len | lia].
Qed.

Lemma valid_not_frame : forall c s o, In o (get_valid_opcodes c s) -> o <> FRAME.
Proof.
  intros c s o H. unfold get_valid_opcodes in H. apply filter_In in H. destruct H as [_ H].
  intro E. subst o. discriminate H.
Qed.

Lemma get_valid_len : forall c s, N.of_nat (length (get_valid_opcodes c s)) < M64.
Proof.
  intros c s. unfold get_valid_opcodes.
  pose proof (filter_length_le _ (can_emit c s) (row (c_version c))) as H.
  assert (L : (length (row (c_version c)) <= 68)%nat) by (destruct (c_version c); vm_compute; lia).
  rewrite M64_val. lia.
Qed.

(* the loop invariant: still Ok, and the memo has at most as many entries as iterations done *)
Definition loop_ok (n : N) (st : res loop_state) : Prop :=
  exists l, st = Ok l /\ N.of_nat (length (memo (l_sim l))) <= n.

Lemma loop_body_ok : forall e c n st, env_ok e -> n < M64 -> loop_ok n st -> loop_ok (N.succ n) (loop_body e id_order c st).
Proof.
  intros e c n st He Hn (l & -> & Hl). unfold loop_body. cbn [bind].
  destruct (l_stopped l); [exists l; split; [reflexivity | lia]|].
  destruct (get_valid_opcodes c (l_sim l)) as [|o0 rest] eqn:Ev.
  { eexists. split; [reflexivity|]. cbn [l_sim]. lia. }
  rewrite <- Ev.
  assert (H0 : 0 < N.of_nat (length (get_valid_opcodes c (l_sim l)))) by (rewrite Ev; simpl; lia).
  destruct (choose_index_lt _ (l_src l) H0 (get_valid_len c (l_sim l))) as (i & s1 & -> & Hi). cbn [bind].
  destruct (nth_res_in _ (get_valid_opcodes c (l_sim l)) i Hi) as (o & -> & Hin). cbn [bind].
  assert (Hm : memo_len (l_sim l) < M64) by (unfold memo_len; lia).
  destruct (emit_and_process_total e c (l_sim l) o s1 He Hm (valid_not_frame _ _ _ Hin)) as (em & sim' & s2 & -> & Hlen).
  cbn [bind]. eexists. split; [reflexivity|]. cbn [l_sim]. lia.
Qed.

Lemma loop_iter_ok : forall e c target st0, env_ok e -> target < M64 -> loop_ok 0 st0 ->
  forall n, n <= target -> loop_ok n (N.iter n (loop_body e id_order c) st0).
Proof.
  intros e c target st0 He Ht H0 n. induction n as [|n IH] using N.peano_ind; intro Hn.
  - exact H0.
  - rewrite N.iter_succ. apply loop_body_ok; [exact He | lia | apply IH; lia].
Qed.

Theorem generate_internal_total : forall e c src, env_ok e -> cfg_in_range c ->
  exists r, generate_internal e id_order c src = Ok r
    /\ g_out r <> [] /\ last (g_out r) 0 = ref_code STOP.
Proof.
  intros e c src He [Hmin Hmax]. unfold generate_internal.
  destruct (if v_ge4 (c_version c) then gen_bool src else (false, src)) as [framed s0].
  assert (HT : exists target s1,
            (if 0 <? c_max c - c_min c
             then do (i, s') <- choose_index (c_max c - c_min c) s0;
                  (if M64 <=? c_min c + i then Panic P_overflow else Ok (c_min c + i, s'))
             else Ok (c_min c, s0)) = Ok (target, s1) /\ target < M64).
  { destruct (N.ltb_spec 0 (c_max c - c_min c)) as [Hr|Hr].
    - destruct (choose_index_lt (c_max c - c_min c) s0 Hr ltac:(lia)) as (i & s' & -> & Hi). cbn [bind].
      assert (E : M64 <=? c_min c + i = false) by (apply N.leb_gt; lia). rewrite E. eexists _, _. split; [reflexivity | lia].
    - eexists _, _. split; [reflexivity | exact Hmin]. }
  destruct HT as (target & s1 & -> & Ht). cbn [bind].
  set (st0 := Ok {| l_sim := {| stk := []; memo := []; proto_emitted := negb (v_lt2 (c_version c)) |};
                    l_src := s1; l_out := []; l_trace := []; l_stopped := false |}).
  assert (H0 : loop_ok 0 st0) by (eexists; split; [reflexivity | cbn; lia]).
  destruct (loop_iter_ok e c target st0 He Ht H0 target ltac:(lia)) as (l & -> & _). cbn [bind].
  destruct (cleanup_for_stop (c_version c) (l_sim l)) as [tail sim1].
  eexists. split; [reflexivity|]. cbn [g_out].
  split.
  - intro E. apply app_eq_nil in E. destruct E as [_ E]. apply app_eq_nil in E. destruct E as [_ E].
    apply app_eq_nil in E. destruct E as [_ E]. discriminate E.
  - rewrite !app_assoc. apply last_last.
Qed.
