(* Facts about the ChaCha8 model: the table inside chacha8_word is only a cache. *)
From Coq Require Import List NArith Bool Lia Arith.
Import ListNotations.
From PF Require Import Entropy ChaCha.
Local Open Scope N_scope.

Lemma block_table_nth : forall key n c, (c < n)%nat ->
  nth_error (block_table key n) c = Some (chacha8_block key (N.of_nat c)).
Proof.
  intros key n c H. unfold block_table. rewrite nth_error_map, nth_error_nth' with (d := O) by (rewrite seq_length; exact H).
  rewrite seq_nth by exact H. reflexivity.
Qed.

Lemma block_table_none : forall key n c, (n <= c)%nat -> nth_error (block_table key n) c = None.
Proof. intros key n c H. apply nth_error_None. unfold block_table. rewrite map_length, seq_length. exact H. Qed.

(* word i of the stream of a seed = word (i mod 16) of block (i / 16) under the PCG32-expanded key *)
Theorem chacha8_word_spec : forall seed i,
  chacha8_word seed i = getw (chacha8_block (key_of_seed seed) (N.shiftr i 4)) (N.to_nat (N.land i 15)).
Proof.
  intros seed i. unfold chacha8_word, word_of_block. cbv zeta.
  destruct (Nat.lt_ge_cases (N.to_nat (N.shiftr i 4)) TABLE_BLOCKS) as [H|H].
  - rewrite block_table_nth by exact H. rewrite Nnat.N2Nat.id. reflexivity.
  - rewrite block_table_none by exact H. reflexivity.
Qed.

(* rand_chacha test vector shape: first words of seed 42 and of u64::MAX (values printed by the real crate) *)
Example chacha8_seed42 : map (chacha8_word 42) [0; 1; 2; 3; 15; 16; 17; 19; 1023; 1024; 5000]
  = [962419617; 2928721845; 628724104; 4081401798; 3452607245; 2697858048; 3312488290; 1024715907; 596562783; 790672810; 1294344856].
Proof. vm_compute. reflexivity. Qed.
Example chacha8_seed_max : map (chacha8_word 18446744073709551615) [0; 1; 2; 3] = [3819388078; 2938119046; 2545823192; 1839259395].
Proof. vm_compute. reflexivity. Qed.
