(* Contracts (C16), totality, and the behaviour of the rate gate at its extremes (C15) for the
   seven mutators and the first-applicable-wins dispatch, for every value and every state of
   either entropy source. *)
From Coq Require Import List NArith ZArith Bool Lia Arith.
Import ListNotations.
From PF Require Import Opcodes RefTable Config Sim Ref Lex Envelope Entropy Mutators Oracles.
From PF.proofs Require Import EntropyP LexRT PropsB.
Local Open Scope N_scope.
Ltac Zify.zify_post_hook ::= Z.to_euclidean_division_equations.
Local Arguments N.pow : simpl never.
Local Arguments N.ltb : simpl never.
Local Arguments N.leb : simpl never.
Local Arguments N.eqb : simpl never.
Local Arguments N.of_nat : simpl never.
Local Arguments N.mul : simpl never.
Local Arguments N.add : simpl never.
Local Arguments N.sub : simpl never.
Local Arguments N.land : simpl never.
Local Arguments N.lxor : simpl never.
Local Arguments N.shiftr : simpl never.
Local Arguments N.shiftl : simpl never.
Local Arguments N.div : simpl never.
Local Arguments N.modulo : simpl never.
Local Arguments N.testbit : simpl never.

(* ---------- the gate ---------- *)
Definition never_fires (rate : N) : Prop := forall k, dyadic_lt k rate = false.
Definition always_fires (rate : N) : Prop := forall k, k < 2 ^ 53 -> dyadic_lt k rate = true.

Definition rate_zero : N := 0.
Definition rate_negzero : N := 2 ^ 63.
Definition rate_one : N := 4607182418800017408.      (* 0x3FF0000000000000 *)

Lemma zero_never_fires : never_fires rate_zero.
Proof.
  intro k. unfold dyadic_lt, rate_zero.
  change (N.testbit 0 63) with false. change (N.land (N.shiftr 0 52) 2047) with 0.
  change (N.land 0 (2 ^ 52 - 1)) with 0. change (0 =? 2047) with false. change (0 =? 0) with true. cbv iota.
  apply N.ltb_ge. lia.
Qed.

Lemma negzero_never_fires : never_fires rate_negzero.
Proof. intro k. unfold dyadic_lt, rate_negzero. reflexivity. Qed.

Lemma one_always_fires : always_fires rate_one.
Proof.
  intros k Hk. unfold dyadic_lt, rate_one.
  change (N.testbit 4607182418800017408 63) with false.
  change (N.land (N.shiftr 4607182418800017408 52) 2047) with 1023.
  change (N.land 4607182418800017408 (2 ^ 52 - 1)) with 0.
  change (1023 =? 2047) with false. change (1023 =? 0) with false. cbv iota.
  apply N.ltb_lt. rewrite N.add_0_r.
  replace (2 ^ 52 * 2 ^ 1023) with (2 ^ 53 * 2 ^ 1022) by (rewrite <- !N.pow_add_r; reflexivity).
  apply N.mul_lt_mono_pos_r; [apply N.neq_0_lt_0, N.pow_nonzero; discriminate | exact Hk].
Qed.

Lemma gen_u64_draw_lt : forall s, N.shiftr (fst (gen_u64 s)) 11 < 2 ^ 53.
Proof.
  intro s. pose proof (gen_uint_bound 8 s ltac:(simpl; auto)) as H. change (8 * N.of_nat 8) with 64 in H.
  unfold gen_u64. rewrite N.shiftr_div_pow2. apply N.div_lt_upper_bound; [discriminate|].
  rewrite <- N.pow_add_r. exact H.
Qed.

Lemma gate_never : forall rate s, never_fires rate -> fst (should_mutate rate s) = false.
Proof. intros rate s H. unfold should_mutate. destruct (gen_u64 s) as [x s']. apply H. Qed.

Lemma gate_always : forall rate s, always_fires rate -> fst (should_mutate rate s) = true.
Proof.
  intros rate s H. unfold should_mutate. pose proof (gen_u64_draw_lt s) as Hd.
  destruct (gen_u64 s) as [x s']. cbn [fst] in *. apply H. exact Hd.
Qed.

(* ---------- small arithmetic facts ---------- *)
Lemma In_n_range : forall n p, p < N.of_nat n -> In p (n_range n).
Proof.
  induction n as [|n IH]; intros p H; [lia|]. cbn [n_range]. apply in_app_iff.
  destruct (N.eq_dec p (N.of_nat n)) as [->|Hne]; [right; left; reflexivity|]. left. apply IH. lia.
Qed.

Lemma unsigned_signed : forall w u, 0 < w -> u < 2 ^ w -> to_unsigned w (to_signed w u) = u.
Proof.
  intros w u Hw Hu. unfold to_unsigned, to_signed.
  assert (Hp : (0 < Z.of_N (2 ^ w))%Z) by (pose proof (N.pow_nonzero 2 w ltac:(discriminate)); lia).
  destruct (u <? 2 ^ (w - 1)).
  - rewrite Z.mod_small by lia. lia.
  - replace (Z.of_N u - Z.of_N (2 ^ w))%Z with (Z.of_N u + (-1) * Z.of_N (2 ^ w))%Z by lia.
    rewrite Z.mod_add by lia. rewrite Z.mod_small by lia. lia.
Qed.

Lemma to_unsigned_lt : forall w z, to_unsigned w z < 2 ^ w.
Proof.
  intros w z. unfold to_unsigned.
  assert (Hp : (0 < Z.of_N (2 ^ w))%Z) by (pose proof (N.pow_nonzero 2 w ltac:(discriminate)); lia).
  pose proof (Z.mod_pos_bound z (Z.of_N (2 ^ w)) Hp). lia.
Qed.

Lemma lxor_lt_pow2 : forall a b w, a < 2 ^ w -> b < 2 ^ w -> N.lxor a b < 2 ^ w.
Proof.
  intros a b w Ha Hb.
  destruct (N.eq_dec (N.lxor a b) 0) as [E|E]; [rewrite E; apply N.neq_0_lt_0, N.pow_nonzero; discriminate|].
  apply N.log2_lt_pow2; [lia|].
  eapply N.le_lt_trans; [apply N.log2_lxor|].
  destruct (N.eq_dec a 0) as [->|Ha0]; destruct (N.eq_dec b 0) as [->|Hb0].
  - rewrite N.lxor_0_l in E. contradiction.
  - cbn [N.log2]. rewrite N.max_r by lia. apply N.log2_lt_pow2; lia.
  - cbn [N.log2]. rewrite N.max_l by lia. apply N.log2_lt_pow2; lia.
  - apply N.max_lub_lt; apply N.log2_lt_pow2; lia.
Qed.

Lemma flip_one_bit : forall w v p, 0 < w -> p < w -> one_bit_apart w v (flip w v p) = true.
Proof.
  intros w v p Hw Hp. unfold one_bit_apart, flip. apply existsb_exists. exists p.
  split; [apply In_n_range; rewrite N2Nat.id; exact Hp|].
  apply N.eqb_eq.
  assert (H2 : 2 ^ p < 2 ^ w) by (apply N.pow_lt_mono_r; lia).
  rewrite unsigned_signed; [|exact Hw | apply lxor_lt_pow2; [apply to_unsigned_lt | exact H2]].
  rewrite <- N.lxor_assoc, N.lxor_nilpotent, N.lxor_0_l. reflexivity.
Qed.

Lemma existsb_In_Z : forall (b : Z) l, In b l -> existsb (Z.eqb b) l = true.
Proof. intros b l H. apply existsb_exists. exists b. split; [exact H | apply Z.eqb_refl]. Qed.
Lemma existsb_In_N : forall (b : N) l, In b l -> existsb (N.eqb b) l = true.
Proof. intros b l H. apply existsb_exists. exists b. split; [exact H | apply N.eqb_refl]. Qed.

(* ---------- integers ---------- *)
(* the shape every value method has: total; Some only if the gate fired and the method is
   implemented, and then within the contract; a mutator that does not implement the method
   draws nothing *)
Lemma mut_int_spec : forall w bounds m v rate s,
  0 < w -> w < M64 -> N.of_nat (length bounds) < M64 -> bounds <> [] ->
  exists r s', mut_int w bounds m v rate s = Ok (r, s')
    /\ (applies_int m = false -> r = None /\ s' = s)
    /\ (applies_int m = true -> (r = None <-> fst (should_mutate rate s) = false))
    /\ (forall v', r = Some v' -> contract_int w bounds m v v' = true).
Proof.
  intros w bounds m v rate s Hw HwM Hb Hne.
  destruct m; cbn [mut_int applies_int];
    try (exists None, s; split; [reflexivity|]; split; [auto|]; split; [discriminate | discriminate]).
  - (* bitflip *)
    destruct (should_mutate rate s) as [go s1] eqn:Eg. cbn [fst]. destruct go.
    + destruct (gen_range_in 0 w s1 Hw HwM) as (p & s2 & -> & _ & Hp). cbn [bind].
      assert (E : w <=? p = false) by (apply N.leb_gt; exact Hp). rewrite E.
      eexists _, _. split; [reflexivity|]. split; [discriminate|]. split; [intros _; split; discriminate|].
      intros v' Hv. inversion Hv; subst. cbn [contract_int]. apply flip_one_bit; assumption.
    + eexists _, _. split; [reflexivity|]. split; [discriminate|]. split; [tauto|]. discriminate.
  - (* boundary *)
    destruct (should_mutate rate s) as [go s1] eqn:Eg. cbn [fst]. destruct go.
    + assert (Hl : 0 < N.of_nat (length bounds)) by (destruct bounds; [contradiction | simpl; lia]).
      destruct (gen_range_in 0 (N.of_nat (length bounds)) s1 Hl Hb) as (i & s2 & -> & _ & Hi). cbn [bind].
      destruct (nth_res_in _ bounds i Hi) as (b & -> & Hin). cbn [bind].
      eexists _, _. split; [reflexivity|]. split; [discriminate|]. split; [intros _; split; discriminate|].
      intros v' Hv. inversion Hv; subst. cbn [contract_int]. apply existsb_In_Z. exact Hin.
    + eexists _, _. split; [reflexivity|]. split; [discriminate|]. split; [tauto|]. discriminate.
  - (* off by one *)
    destruct (should_mutate rate s) as [go s1] eqn:Eg. cbn [fst]. destruct go.
    + destruct (gen_bool s1) as [up s2].
      eexists _, _. split; [reflexivity|]. split; [discriminate|]. split; [intros _; split; discriminate|].
      intros v' Hv. inversion Hv; subst. cbn [contract_int]. destruct up; rewrite Z.eqb_refl; [reflexivity | apply orb_true_r].
    + eexists _, _. split; [reflexivity|]. split; [discriminate|]. split; [tauto|]. discriminate.
Qed.

Lemma mutate_float_spec : forall m v rate s,
  exists r s', mutate_float_one m v rate s = Ok (r, s')
    /\ (applies_float m = false -> r = None /\ s' = s)
    /\ (applies_float m = true -> (r = None <-> fst (should_mutate rate s) = false))
    /\ (forall v', r = Some v' -> contract_float m v' = true).
Proof.
  intros m v rate s.
  destruct m; cbn [mutate_float_one applies_float];
    try (exists None, s; split; [reflexivity|]; split; [auto|]; split; [discriminate | discriminate]).
  destruct (should_mutate rate s) as [go s1] eqn:Eg. cbn [fst]. destruct go.
  - destruct (gen_range_in 0 (N.of_nat (length float_boundaries)) s1 ltac:(vm_compute; reflexivity) ltac:(vm_compute; reflexivity))
      as (i & s2 & -> & _ & Hi). cbn [bind].
    destruct (nth_res_in _ float_boundaries i Hi) as (b & -> & Hin). cbn [bind].
    eexists _, _. split; [reflexivity|]. split; [discriminate|]. split; [intros _; split; discriminate|].
    intros v' Hv. inversion Hv; subst. cbn [contract_float]. apply existsb_In_N. exact Hin.
  - eexists _, _. split; [reflexivity|]. split; [discriminate|]. split; [tauto|]. discriminate.
Qed.

(* ---------- memo indices ---------- *)
Lemma mutate_memo_spec : forall m v rate s,
  exists r s', mutate_memo_one m v rate s = Ok (r, s')
    /\ (applies_memo m = false -> r = None /\ s' = s)
    /\ (applies_memo m = true -> (r = None <-> fst (should_mutate rate s) = false))
    /\ (forall v', r = Some v' -> contract_memo m v v' = true).
Proof.
  intros m v rate s.
  destruct m as [| | | | |u|u]; cbn [mutate_memo_one applies_memo];
    try (exists None, s; split; [reflexivity|]; split; [auto|]; split; [discriminate | discriminate]).
  - destruct (should_mutate rate s) as [go s1] eqn:Eg. cbn [fst]. destruct go.
    + destruct (gen_bool s1) as [up s2].
      eexists _, _. split; [reflexivity|]. split; [discriminate|]. split; [intros _; split; discriminate|].
      intros v' Hv. inversion Hv; subst. cbn [contract_memo]. destruct up; rewrite N.eqb_refl; [reflexivity | apply orb_true_r].
    + eexists _, _. split; [reflexivity|]. split; [discriminate|]. split; [tauto|]. discriminate.
  - destruct (should_mutate rate s) as [go s1] eqn:Eg. cbn [fst]. destruct go.
    + destruct u.
      * destruct (gen_range_in 0 1000 s1 ltac:(reflexivity) ltac:(reflexivity)) as (r & s2 & -> & _ & Hr). cbn [bind].
        eexists _, _. split; [reflexivity|]. split; [discriminate|]. split; [intros _; split; discriminate|].
        intros v' Hv. inversion Hv; subst. cbn [contract_memo]. apply N.ltb_lt. exact Hr.
      * destruct (gen_range_in 0 3 s1 ltac:(reflexivity) ltac:(reflexivity)) as (k & s2 & -> & _ & Hk). cbn [bind].
        eexists _, _. split; [reflexivity|]. split; [discriminate|]. split; [intros _; split; discriminate|].
        intros v' Hv. inversion Hv; subst. cbn [contract_memo].
        destruct (k =? 0); [rewrite N.eqb_refl; reflexivity|].
        destruct (k =? 1); rewrite N.eqb_refl; rewrite ?orb_true_r; reflexivity.
    + eexists _, _. split; [reflexivity|]. split; [discriminate|]. split; [tauto|]. discriminate.
Qed.

(* ---------- strings and byte strings ---------- *)
Lemma is_prefix_firstn : forall n (v : list N), is_prefix (firstn n v) v = true.
Proof.
  induction n as [|n IH]; intro v; [reflexivity|]. destruct v as [|x v]; [reflexivity|].
  cbn [firstn is_prefix]. rewrite N.eqb_refl, IH. reflexivity.
Qed.

Lemma is_prefix_app : forall (v e : list N), is_prefix v (v ++ e) = true.
Proof. induction v as [|x v IH]; intro e; [reflexivity|]. cbn [app is_prefix]. rewrite N.eqb_refl, IH. reflexivity. Qed.

Lemma skipn_app_exact : forall (v e : list N), skipn (length v) (v ++ e) = e.
Proof. induction v as [|x v IH]; intro e; [reflexivity|]. cbn [length app skipn]. apply IH. Qed.

Lemma list_eqb_refl' : forall l, list_eqb l l = true.
Proof.
  intro l. unfold list_eqb. rewrite N.eqb_refl. cbn [andb].
  induction l as [|x l IH]; [reflexivity|]. cbn [combine forallb fst snd]. rewrite N.eqb_refl, IH. reflexivity.
Qed.

Lemma gen_u8_lt : forall s, fst (gen_u8 s) < 256.
Proof. intro s. apply (gen_uint_bound 1 s). simpl; auto. Qed.

Lemma draw_items_spec : forall n (f : N -> N) (P : N -> bool) acc s,
  (forall b, b < 256 -> P (f b) = true) ->
  exists ext s', draw_items n f acc s = (acc ++ ext, s') /\ length ext = n /\ forallb P ext = true.
Proof.
  induction n as [|n IH]; intros f P acc s HP.
  - exists [], s. rewrite app_nil_r. auto.
  - cbn [draw_items]. pose proof (gen_u8_lt s) as Hb. destruct (gen_u8 s) as [b s1]. cbn [fst] in Hb.
    destruct (IH f P (acc ++ [f b]) s1 HP) as (ext & s' & E & Hl & Hall).
    exists (f b :: ext), s'. rewrite E, <- app_assoc. split; [reflexivity|]. split; [simpl; lia|].
    cbn [forallb]. rewrite (HP b Hb), Hall. reflexivity.
Qed.

Lemma set_nth_spec : forall (p : N -> bool) v i x, (i < length v)%nat -> p x = true ->
  exists r n, set_nth v i x = Some r /\ diff_ok p v r = Some n /\ (n <= 1)%nat.
Proof.
  intros p. induction v as [|a v IH]; intros i x Hi Hp; [simpl in Hi; lia|].
  destruct i as [|i].
  - exists (x :: v), (if (a =? x)%N then 0%nat else 1%nat). split; [reflexivity|]. cbn [diff_ok].
    assert (D : diff_ok p v v = Some 0%nat).
    { clear. induction v as [|y v IH]; [reflexivity|]. cbn [diff_ok]. rewrite IH, N.eqb_refl. reflexivity. }
    rewrite D. destruct (a =? x); [split; [reflexivity | lia]|]. rewrite Hp. split; [reflexivity | lia].
  - cbn [length] in Hi. destruct (IH i x ltac:(lia) Hp) as (r & n & E & D & Hn).
    exists (a :: r), n. cbn [set_nth]. rewrite E. split; [reflexivity|]. cbn [diff_ok]. rewrite D, N.eqb_refl. auto.
Qed.

Lemma str_len_pos : forall v, v <> [] -> 0 < str_len v.
Proof.
  intros v H. destruct v as [|c v]; [contradiction|]. unfold str_len. cbn [fold_right].
  unfold utf8_len. destruct (c <? 128); [lia|]. destruct (c <? 2048); [lia|]. destruct (c <? 65536); lia.
Qed.

Definition seq_gated (m : mutator) : bool := match m with MStringLen | MCharacter => true | _ => false end.

Lemma mutate_seq_spec : forall is_str m v rate s,
  str_len v < M64 -> N.of_nat (length v) < M64 ->
  exists r s', mutate_seq_one is_str m v rate s = Ok (r, s')
    /\ (seq_gated m = false -> r = None /\ s' = s)
    /\ (applies_seq m v = false -> r = None)
    /\ (applies_seq m v = true -> (r = None <-> fst (should_mutate rate s) = false))
    /\ (forall v', r = Some v' -> contract_seq is_str m v v' = true).
Proof.
  intros is_str m v rate s Hsl Hl.
  destruct m; cbn [mutate_seq_one applies_seq seq_gated];
    try (exists None, s; split; [reflexivity|]; split; [auto|]; split; [auto|]; split; [discriminate | discriminate]).
  - (* string length *)
    destruct (should_mutate rate s) as [go s1] eqn:Eg. cbn [fst]. destruct go.
    2:{ eexists _, _. split; [reflexivity|]. split; [discriminate|]. split; [discriminate|]. split; [tauto | discriminate]. }
    destruct (gen_range_in 0 3 s1 ltac:(reflexivity) ltac:(reflexivity)) as (k & s2 & -> & _ & Hk). cbn [bind].
    destruct (N.eqb_spec k 0) as [K0|K0].
    + destruct v as [|c v'] eqn:Ev.
      * eexists _, _. split; [reflexivity|]. split; [discriminate|]. split; [discriminate|].
        split; [intros _; split; discriminate|]. intros x Hx. inversion Hx. reflexivity.
      * rewrite <- Ev in *.
        set (blen := if is_str then str_len v else N.of_nat (length v)).
        assert (Hb0 : 0 < blen).
        { unfold blen. destruct is_str; [apply str_len_pos; rewrite Ev; discriminate | rewrite Ev; simpl; lia]. }
        assert (HbM : blen < M64) by (unfold blen; destruct is_str; assumption).
        destruct (gen_range_in 0 blen s2 Hb0 HbM) as (n & s3 & -> & _ & Hn). cbn [bind].
        assert (Eg2 : negb is_str && (N.of_nat (length v) <? n) = false).
        { destruct is_str; [reflexivity|]. cbn [negb andb]. apply N.ltb_ge. unfold blen in Hn. cbv iota in Hn. apply N.lt_le_incl. exact Hn. }
        rewrite Eg2. eexists _, _. split; [reflexivity|]. split; [discriminate|]. split; [discriminate|].
        split; [intros _; split; discriminate|].
        intros x Hx. inversion Hx; subst x. cbn [contract_seq]. rewrite is_prefix_firstn. reflexivity.
    + destruct (N.eqb_spec k 1) as [K1|K1].
      * destruct (gen_range_in 1 10 s2 ltac:(reflexivity) ltac:(reflexivity)) as (extra & s3 & -> & He1 & He2). cbn [bind].
        set (f := fun b : N => if is_str then b mod 26 + 97 else b).
        set (P := fun c : N => if is_str then (97 <=? c) && (c <=? 122) else c <? 256).
        assert (HP : forall b, b < 256 -> P (f b) = true).
        { intros b Hb. unfold P, f. destruct is_str; [|apply N.ltb_lt; exact Hb].
          pose proof (N.mod_lt b 26 ltac:(discriminate)). apply andb_true_intro. split; apply N.leb_le; lia. }
        destruct (draw_items_spec (N.to_nat extra) f P v s3 HP) as (ext & s4 & -> & Hlen & Hall).
        eexists _, _. split; [reflexivity|]. split; [discriminate|]. split; [discriminate|].
        split; [intros _; split; discriminate|].
        intros x Hx. inversion Hx; subst x. cbn [contract_seq].
        rewrite is_prefix_app, skipn_app_exact. fold P. rewrite Hall, Hlen.
        assert (E1 : Nat.leb 1 (N.to_nat extra) = true) by (apply Nat.leb_le; lia).
        assert (E2 : Nat.leb (N.to_nat extra) 9 = true) by (apply Nat.leb_le; lia).
        rewrite E1, E2. cbn [andb]. apply orb_true_r.
      * eexists _, _. split; [reflexivity|]. split; [discriminate|]. split; [discriminate|].
        split; [intros _; split; discriminate|].
        intros x Hx. inversion Hx; subst x. cbn [contract_seq]. rewrite list_eqb_refl'. rewrite orb_true_r. reflexivity.
  - (* character *)
    destruct (should_mutate rate s) as [go s1] eqn:Eg. cbn [fst]. destruct go.
    2:{ eexists _, _. split; [reflexivity|]. split; [discriminate|]. split; [auto|]. split; [tauto | discriminate]. }
    destruct v as [|c v'] eqn:Ev.
    + eexists _, _. split; [reflexivity|]. split; [discriminate|]. split; [auto|]. split; [discriminate | discriminate].
    + rewrite <- Ev in *.
      assert (Hl0 : 0 < N.of_nat (length v)) by (rewrite Ev; simpl; lia).
      destruct (gen_range_in 0 (N.of_nat (length v)) s1 Hl0 Hl) as (i & s2 & -> & _ & Hi). cbn [bind].
      pose proof (gen_u8_lt s2) as Hb. destruct (gen_u8 s2) as [b s3]. cbn [fst] in Hb.
      set (x := if is_str then b mod 94 + 33 else b).
      set (p := fun c : N => if is_str then (33 <=? c) && (c <=? 126) else c <? 256).
      assert (Hp : p x = true).
      { unfold p, x. destruct is_str; [|apply N.ltb_lt; exact Hb].
        pose proof (N.mod_lt b 94 ltac:(discriminate)). apply andb_true_intro. split; apply N.leb_le; lia. }
      destruct (set_nth_spec p v (N.to_nat i) x ltac:(lia) Hp) as (r & n & -> & D & Hn).
      eexists _, _. split; [reflexivity|]. split; [discriminate|]. split; [rewrite Ev; discriminate|].
      split; [intros _; split; discriminate|].
      intros y Hy. inversion Hy; subst y. cbn [contract_seq]. fold p. rewrite D.
      assert (E1 : Nat.leb n 1 = true) by (apply Nat.leb_le; exact Hn). rewrite E1, Ev. reflexivity.
Qed.

(* ---------- TypeConfusion ---------- *)
Lemma f64_of_dyadic53_lt : forall k, k < 2 ^ 53 -> f64_of_dyadic53 k < 2 ^ 64.
Proof.
  intros k Hk. unfold f64_of_dyadic53. destruct (N.eqb_spec k 0) as [->|H0]; [reflexivity|].
  assert (He : N.log2 k < 53) by (apply N.log2_lt_pow2; lia).
  destruct (N.log2_spec k ltac:(lia)) as [L1 L2].
  set (e := N.log2 k) in *.
  rewrite !N.shiftl_mul_pow2.
  assert (Hm : k * 2 ^ (52 - e) < 2 ^ 53).
  { replace 53 with (N.succ e + (52 - e)) by lia. rewrite N.pow_add_r.
    apply N.mul_lt_mono_pos_r; [apply N.neq_0_lt_0, N.pow_nonzero; discriminate | exact L2]. }
  assert (Hx : (1023 - 53 + e) * 2 ^ 52 <= 1022 * 2 ^ 52) by (apply N.mul_le_mono_r; lia).
  change (2 ^ 64) with (4096 * 2 ^ 52). change (2 ^ 53) with (2 * 2 ^ 52) in Hm. lia.
Qed.

Lemma gen_f64_lt : forall s, fst (gen_f64 s) < 2 ^ 64.
Proof.
  intro s. unfold gen_f64. destruct s as [l|f p].
  - pose proof (gen_uint_bound 8 (SrcBytes l) ltac:(simpl; auto)) as H. unfold gen_uint in H.
    destruct (arb_uint 8 l) as [v r]. exact H.
  - pose proof (next_u64_lt f p) as H. destruct (next_u64 f p) as [x p']. cbn [fst] in *.
    apply f64_of_dyadic53_lt. rewrite N.shiftr_div_pow2. apply N.div_lt_upper_bound; [discriminate|].
    rewrite <- N.pow_add_r. exact H.
Qed.

Lemma gen_i32_range : forall s, i32_range (fst (gen_i32 s)) = true.
Proof.
  intro s. unfold gen_i32. pose proof (gen_uint_bound 4 s ltac:(simpl; auto)) as H. change (8 * N.of_nat 4) with 32 in H.
  unfold gen_u32. destruct (gen_uint 4 s) as [v s']. cbn [fst] in *.
  unfold i32_range, to_signed. change (2 ^ (32 - 1)) with 2147483648. change (2 ^ 32) with 4294967296 in *.
  destruct (N.ltb_spec v 2147483648); apply andb_true_intro; split; apply Z.leb_le; lia.
Qed.

Lemma replacement_spec : forall ty s, In ty all_types ->
  typeconf_repl (fst (replacement ty s)) = true /\ stack_type (fst (fst (replacement ty s))) = ty.
Proof.
  intros ty s Hin. unfold replacement.
  cbn [all_types In] in Hin.
  destruct Hin as [<-|[<-|[<-|[<-|[<-|[<-|[<-|[<-|[<-|[]]]]]]]]]]; cbn [N.eqb]; try (split; reflexivity).
  - change (1 =? 1) with true. cbv iota. pose proof (gen_i32_range s) as H. destruct (gen_i32 s) as [z s'].
    cbn [fst] in *. split; [exact H | reflexivity].
  - change (2 =? 1) with false. change (2 =? 2) with true. cbv iota. pose proof (gen_f64_lt s) as H.
    destruct (gen_f64 s) as [b s']. cbn [fst typeconf_repl] in *. split; [apply N.ltb_lt; exact H | reflexivity].
  - change (9 =? 1) with false. change (9 =? 2) with false. change (9 =? 3) with false. change (9 =? 4) with false.
    change (9 =? 5) with false. change (9 =? 6) with false. change (9 =? 7) with false. change (9 =? 8) with false.
    cbv iota. destruct (gen_bool s) as [b s']. destruct b; split; reflexivity.
Qed.

Lemma byte_type_range : forall b, byte_type b = 0 \/ In (byte_type b) all_types.
Proof.
  intro b. unfold byte_type.
  repeat match goal with |- context [if ?c then _ else _] => destruct c; [right; cbn; tauto|] end.
  left; reflexivity.
Qed.

Lemma filter_neq_length : forall t, In t all_types ->
  length (filter (fun x => negb (x =? t)) all_types) = 8%nat
  /\ forall ty, In ty (filter (fun x => negb (x =? t)) all_types) -> In ty all_types /\ ty <> t.
Proof.
  intros t Hin. split.
  - cbn [all_types In] in Hin. destruct Hin as [<-|[<-|[<-|[<-|[<-|[<-|[<-|[<-|[<-|[]]]]]]]]]]; reflexivity.
  - intros ty H. apply filter_In in H. destruct H as [H1 H2]. split; [exact H1|].
    apply negb_true_iff, N.eqb_neq in H2. exact H2.
Qed.

Lemma post_one_spec : forall m delta cur rate s,
  exists res s' fired, post_one m delta cur rate s = Ok (res, s', fired)
    /\ (fired = false -> res = cur)
    /\ (fired = true -> fst (should_mutate rate s) = true)
    /\ (match m with MTypeConf true => True | _ => fired = false /\ s' = s end)
    /\ (cur = delta -> contract_post m delta res fired = true).
Proof.
  intros m delta cur rate s.
  assert (Dflt : forall m0, (match m0 with MTypeConf true => False | _ => True end) ->
            contract_post m0 delta delta false = true).
  { intros m0 H. destruct m0 as [| | | | |u|u]; cbn [contract_post negb andb]; try apply list_eqb_refl'.
    destruct u; [contradiction | apply list_eqb_refl']. }
  destruct m as [| | | | |u|u]; cbn [post_one];
    try (exists cur, s, false; split; [reflexivity|]; split; [auto|]; split; [discriminate|]; split; [auto|];
         intros ->; apply Dflt; exact I).
  destruct u.
  2:{ exists cur, s, false. split; [reflexivity|]. split; [auto|]. split; [discriminate|]. split; [auto|].
      intros ->. apply Dflt. exact I. }
  destruct (should_mutate rate s) as [go s1] eqn:Eg. cbn [fst]. destruct go.
  2:{ eexists _, _, _. split; [reflexivity|]. split; [auto|]. split; [discriminate|]. split; [exact I|].
      intros ->. cbn [contract_post]. apply list_eqb_refl'. }
  destruct delta as [|b delta'].
  { eexists _, _, _. split; [reflexivity|]. split; [auto|]. split; [discriminate|]. split; [exact I|].
    intros ->. reflexivity. }
  destruct (N.eqb_spec (byte_type b) 0) as [T0|T0].
  { eexists _, _, _. split; [reflexivity|]. split; [auto|]. split; [discriminate|]. split; [exact I|].
    intros ->. cbn [contract_post]. apply list_eqb_refl'. }
  destruct (byte_type_range b) as [E|Hin]; [contradiction|].
  destruct (filter_neq_length _ Hin) as [Hlen Hmem].
  set (others := filter (fun x => negb (x =? byte_type b)) all_types) in *.
  rewrite Hlen.
  destruct (choose_index_lt (N.of_nat 8) s1 ltac:(reflexivity) ltac:(reflexivity)) as (i & s2 & -> & Hi). cbn [bind].
  destruct (nth_res_in _ others i ltac:(rewrite Hlen; exact Hi)) as (ty & -> & Hty). cbn [bind].
  destruct (Hmem ty Hty) as [Hall Hne].
  destruct (replacement_spec ty s2 Hall) as [Hrepl Hst].
  destruct (replacement ty s2) as [tok s3]. cbn [fst] in *.
  eexists _, _, _. split; [reflexivity|]. split; [discriminate|]. split; [auto|]. split; [exact I|].
  intros _. cbn [contract_post].
  assert (E0 : byte_type b =? 0 = false) by (apply N.eqb_neq; exact T0). rewrite E0. cbn [negb andb].
  pose proof (PF.proofs.LexRT.lex_one_encode (fst tok) (snd tok) []) as Hlex.
  rewrite app_nil_r in Hlex. rewrite <- surjective_pairing in Hlex.
  rewrite Hlex by (apply PF.proofs.PropsB.typeconf_repl_wf; exact Hrepl).
  rewrite Hrepl, Hst, list_eqb_refl'.
  assert (E1 : ty =? byte_type b = false) by (apply N.eqb_neq; exact Hne). rewrite E1. reflexivity.
Qed.

(* ---------- mutation.rs: first applicable mutator wins; the rate at its extremes (C15) ---------- *)
Section FirstSome.
  Variable A : Type.
  Variable one : mutator -> A -> N -> source -> res (option A * source).
  Variable applies : mutator -> A -> bool.
  Variable contract : mutator -> A -> A -> bool.
  Variable okv : A -> Prop.            (* values the machine can hold (lengths below 2^64) *)
  Hypothesis one_spec : forall m v rate s, okv v ->
    exists r s', one m v rate s = Ok (r, s')
      /\ (applies m v = false -> r = None)
      /\ (applies m v = true -> (r = None <-> fst (should_mutate rate s) = false))
      /\ (forall v', r = Some v' -> contract m v v' = true).

  (* never panics; an applied mutation is within the contract of the mutator that made it, and
     every mutator before it declined *)
  Lemma first_some_total : forall ms v rate s, okv v ->
    exists v' s' fired, first_some one ms v rate s = Ok (v', s', fired)
      /\ (fired = false -> v' = v)
      /\ (fired = true -> exists pre m post, ms = pre ++ m :: post /\ contract m v v' = true).
  Proof.
    induction ms as [|m ms IH]; intros v rate s Hok.
    - exists v, s, false. split; [reflexivity|]. split; [auto | discriminate].
    - cbn [first_some]. destruct (one_spec m v rate s Hok) as (r & s1 & -> & _ & _ & Hc). cbn [bind].
      destruct r as [v1|].
      + exists v1, s1, true. split; [reflexivity|]. split; [discriminate|]. intros _.
        exists [], m, ms. split; [reflexivity | apply Hc; reflexivity].
      + destruct (IH v rate s1 Hok) as (v' & s' & fired & -> & H1 & H2).
        exists v', s', fired. split; [reflexivity|]. split; [exact H1|]. intro Hf.
        destruct (H2 Hf) as (pre & m' & post & -> & Hct). exists (m :: pre), m', post. split; [reflexivity | exact Hct].
  Qed.

  (* rate 0.0 (or -0.0, or anything the draw can never be below): nothing is ever mutated *)
  Lemma first_some_never : forall ms v rate s, okv v -> never_fires rate ->
    exists s', first_some one ms v rate s = Ok (v, s', false).
  Proof.
    induction ms as [|m ms IH]; intros v rate s Hok Hr.
    - exists s. reflexivity.
    - cbn [first_some]. destruct (one_spec m v rate s Hok) as (r & s1 & -> & Hna & Ha & _). cbn [bind].
      assert (r = None).
      { destruct (applies m v) eqn:E; [apply Ha; [reflexivity | apply gate_never; exact Hr] | apply Hna; reflexivity]. }
      subst r. apply IH; assumption.
  Qed.

  (* rate 1.0: the first mutator applicable to the value mutates it *)
  Lemma first_some_always : forall ms v rate s, okv v -> always_fires rate ->
    exists v' s' fired, first_some one ms v rate s = Ok (v', s', fired)
      /\ fired = existsb (fun m => applies m v) ms
      /\ (fired = true -> exists pre m post, ms = pre ++ m :: post
                            /\ forallb (fun m0 => negb (applies m0 v)) pre = true
                            /\ applies m v = true /\ contract m v v' = true).
  Proof.
    induction ms as [|m ms IH]; intros v rate s Hok Hr.
    - exists v, s, false. split; [reflexivity|]. split; [reflexivity | discriminate].
    - cbn [first_some existsb]. destruct (one_spec m v rate s Hok) as (r & s1 & -> & Hna & Ha & Hc). cbn [bind].
      destruct (applies m v) eqn:E.
      + destruct r as [v1|].
        * exists v1, s1, true. split; [reflexivity|]. split; [reflexivity|]. intros _.
          exists [], m, ms. split; [reflexivity|]. split; [reflexivity|]. split; [exact E | apply Hc; reflexivity].
        * exfalso. destruct (Ha eq_refl) as [H _]. specialize (H eq_refl). rewrite gate_always in H by exact Hr. discriminate H.
      + rewrite (Hna eq_refl). destruct (IH v rate s1 Hok Hr) as (v' & s' & fired & -> & H1 & H2).
        exists v', s', fired. split; [reflexivity|]. split; [exact H1|]. intro Hf.
        destruct (H2 Hf) as (pre & m' & post & -> & Hp & Hm & Hct). exists (m :: pre), m', post.
        split; [reflexivity|]. split; [cbn [forallb]; rewrite E, Hp; reflexivity|]. split; assumption.
  Qed.
End FirstSome.

(* instances *)
Lemma int_one_spec : forall m v rate s, True ->
  exists r s', mutate_int_one m v rate s = Ok (r, s')
    /\ (applies_int m = false -> r = None)
    /\ (applies_int m = true -> (r = None <-> fst (should_mutate rate s) = false))
    /\ (forall v', r = Some v' -> contract_int 32 int_boundaries m v v' = true).
Proof.
  intros m v rate s _.
  destruct (mut_int_spec 32 int_boundaries m v rate s ltac:(reflexivity) ltac:(reflexivity) ltac:(reflexivity) ltac:(discriminate))
    as (r & s' & E & H1 & H2 & H3).
  exists r, s'. split; [exact E|]. split; [intro H; apply H1; exact H|]. split; assumption.
Qed.

Lemma long_one_spec : forall m v rate s, True ->
  exists r s', mutate_long_one m v rate s = Ok (r, s')
    /\ (applies_int m = false -> r = None)
    /\ (applies_int m = true -> (r = None <-> fst (should_mutate rate s) = false))
    /\ (forall v', r = Some v' -> contract_int 64 long_boundaries m v v' = true).
Proof.
  intros m v rate s _.
  destruct (mut_int_spec 64 long_boundaries m v rate s ltac:(reflexivity) ltac:(reflexivity) ltac:(reflexivity) ltac:(discriminate))
    as (r & s' & E & H1 & H2 & H3).
  exists r, s'. split; [exact E|]. split; [intro H; apply H1; exact H|]. split; assumption.
Qed.

Lemma float_one_spec : forall m v rate s, True ->
  exists r s', mutate_float_one m v rate s = Ok (r, s')
    /\ (applies_float m = false -> r = None)
    /\ (applies_float m = true -> (r = None <-> fst (should_mutate rate s) = false))
    /\ (forall v', r = Some v' -> contract_float m v' = true).
Proof.
  intros m v rate s _. destruct (mutate_float_spec m v rate s) as (r & s' & E & H1 & H2 & H3).
  exists r, s'. split; [exact E|]. split; [intro H; apply H1; exact H|]. split; assumption.
Qed.

Lemma memo_one_spec : forall m v rate s, True ->
  exists r s', mutate_memo_one m v rate s = Ok (r, s')
    /\ (applies_memo m = false -> r = None)
    /\ (applies_memo m = true -> (r = None <-> fst (should_mutate rate s) = false))
    /\ (forall v', r = Some v' -> contract_memo m v v' = true).
Proof.
  intros m v rate s _. destruct (mutate_memo_spec m v rate s) as (r & s' & E & H1 & H2 & H3).
  exists r, s'. split; [exact E|]. split; [intro H; apply H1; exact H|]. split; assumption.
Qed.

Definition seq_fits (v : list N) : Prop := str_len v < M64 /\ N.of_nat (length v) < M64.

Lemma seq_one_spec : forall is_str m v rate s, seq_fits v ->
  exists r s', mutate_seq_one is_str m v rate s = Ok (r, s')
    /\ (applies_seq m v = false -> r = None)
    /\ (applies_seq m v = true -> (r = None <-> fst (should_mutate rate s) = false))
    /\ (forall v', r = Some v' -> contract_seq is_str m v v' = true).
Proof.
  intros is_str m v rate s [H1 H2]. destruct (mutate_seq_spec is_str m v rate s H1 H2) as (r & s' & E & _ & A & B & C).
  exists r, s'. auto.
Qed.

(* post-processing at rate 0: the emitted bytes are left alone, nothing fires *)
Lemma post_all_never : forall ms delta cur rate s n, never_fires rate ->
  exists s', post_all ms delta cur rate s n = Ok (cur, s', n).
Proof.
  induction ms as [|m ms IH]; intros delta cur rate s n Hr.
  - exists s. reflexivity.
  - cbn [post_all]. destruct (post_one_spec m delta cur rate s) as (res & s1 & fired & -> & H1 & H2 & _). cbn [bind].
    assert (fired = false).
    { destruct fired; [|reflexivity]. specialize (H2 eq_refl). rewrite gate_never in H2 by exact Hr. discriminate H2. }
    subst fired. rewrite (H1 eq_refl). apply IH. exact Hr.
Qed.

Lemma post_process_never : forall c delta s, never_fires (c_rate c) ->
  exists s', post_process c delta s = Ok (delta, s', 0).
Proof.
  intros c delta s Hr. unfold post_process. destruct (c_mutators c) as [|m ms]; [exists s; reflexivity|].
  apply post_all_never. exact Hr.
Qed.

Lemma post_all_total : forall ms delta cur rate s n,
  exists res s' n', post_all ms delta cur rate s n = Ok (res, s', n').
Proof.
  induction ms as [|m ms IH]; intros delta cur rate s n.
  - exists cur, s, n. reflexivity.
  - cbn [post_all]. destruct (post_one_spec m delta cur rate s) as (res & s1 & fired & -> & _). cbn [bind]. apply IH.
Qed.
