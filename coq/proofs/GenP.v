(* Facts about the level-F driver and the Generator API: independence from the hash map's
   iteration order (C07), independence of a call's result from the call history (C08). *)
From Coq Require Import List NArith ZArith Bool Lia Arith Permutation.
Import ListNotations.
From PF Require Import Opcodes RefTable Config Sim Lex Entropy Mutators Gen.
Local Open Scope N_scope.

(* ---------- C07: sorting makes the key order irrelevant ---------- *)
Lemma insert_key_comm : forall a b l, insert_key a (insert_key b l) = insert_key b (insert_key a l).
Proof.
  intros a b l. induction l as [|x l IH].
  - cbn [insert_key]. destruct (N.leb_spec a b); destruct (N.leb_spec b a); try reflexivity; try lia.
    assert (a = b) by lia. subst. reflexivity.
  - cbn [insert_key].
    destruct (N.leb_spec b x) as [Hbx|Hbx]; destruct (N.leb_spec a x) as [Hax|Hax]; cbn [insert_key].
    + destruct (N.leb_spec a b) as [Hab|Hab]; destruct (N.leb_spec b a) as [Hba|Hba]; cbn [insert_key].
      * assert (a = b) by lia. subst. reflexivity.
      * destruct (N.leb_spec b x); [reflexivity | lia].
      * destruct (N.leb_spec a x); [reflexivity | lia].
      * lia.
    + destruct (N.leb_spec a b); [lia|]. cbn [insert_key].
      destruct (N.leb_spec a x); [lia|]. destruct (N.leb_spec b x); [reflexivity | lia].
    + destruct (N.leb_spec b a); [lia|]. cbn [insert_key].
      destruct (N.leb_spec b x); [lia|]. destruct (N.leb_spec a x); [reflexivity | lia].
    + destruct (N.leb_spec a x); [lia|]. destruct (N.leb_spec b x); [lia|]. rewrite IH. reflexivity.
Qed.

Lemma sort_keys_perm : forall l1 l2, Permutation l1 l2 -> sort_keys l1 = sort_keys l2.
Proof.
  intros l1 l2 H. induction H as [|x l l' H IH|x y l|l l' l'' H1 IH1 H2 IH2].
  - reflexivity.
  - unfold sort_keys in *. cbn [fold_right]. rewrite IH. reflexivity.
  - unfold sort_keys. cbn [fold_right]. apply insert_key_comm.
  - congruence.
Qed.

Definition perm_oracle (ho : list N -> list N) : Prop := forall l, Permutation (ho l) l.

Lemma memo_keys_order : forall ho1 ho2 s, perm_oracle ho1 -> perm_oracle ho2 -> memo_keys ho1 s = memo_keys ho2 s.
Proof.
  intros ho1 ho2 s H1 H2. unfold memo_keys. apply sort_keys_perm.
  eapply Permutation_trans; [apply H1 | apply Permutation_sym, H2].
Qed.

Lemma emit_token_order : forall e ho1 ho2 c s o src, perm_oracle ho1 -> perm_oracle ho2 ->
  emit_token e ho1 c s o src = emit_token e ho2 c s o src.
Proof.
  intros e ho1 ho2 c s o src H1 H2. unfold emit_token. rewrite (memo_keys_order ho1 ho2 s H1 H2). reflexivity.
Qed.

Lemma loop_body_order : forall e ho1 ho2 c st, perm_oracle ho1 -> perm_oracle ho2 ->
  loop_body e ho1 c st = loop_body e ho2 c st.
Proof.
  intros e ho1 ho2 c st H1 H2. unfold loop_body, emit_and_process.
  destruct st as [l|w]; [|reflexivity]. cbn [bind].
  destruct (l_stopped l); [reflexivity|].
  destruct (get_valid_opcodes c (l_sim l)); [reflexivity|].
  destruct (choose_index _ (l_src l)) as [[i s1]|w]; [|reflexivity]. cbn [bind].
  destruct (nth_res _ i) as [o0|w]; [|reflexivity]. cbn [bind].
  rewrite (emit_token_order e ho1 ho2 c (l_sim l) o0 s1 H1 H2). reflexivity.
Qed.

Lemma N_iter_ext : forall (A : Type) (f g : A -> A) n x, (forall y, f y = g y) -> N.iter n f x = N.iter n g x.
Proof.
  intros A f g n x H. revert x. induction n as [|n IH] using N.peano_ind; intro x; [reflexivity|].
  rewrite !N.iter_succ. rewrite IH. apply H.
Qed.

Theorem generate_order_independent : forall e ho1 ho2 c src, perm_oracle ho1 -> perm_oracle ho2 ->
  generate_internal e ho1 c src = generate_internal e ho2 c src.
Proof.
  intros e ho1 ho2 c src H1 H2. unfold generate_internal.
  destruct (if v_ge4 (c_version c) then gen_bool src else (false, src)) as [framed s0].
  match goal with |- bind ?t _ = bind ?t _ => destruct t as [[target s1]|w]; [|reflexivity] end. cbn [bind].
  rewrite (N_iter_ext _ (loop_body e ho1 c) (loop_body e ho2 c) target _
             (fun st => loop_body_order e ho1 ho2 c st H1 H2)).
  reflexivity.
Qed.

(* ---------- C08: a call's result depends on the configuration and that call's entropy only ---------- *)
Lemma gen_call_result : forall e g src, fst (gen_call e g src) = generate e (gn_cfg g) src.
Proof.
  intros e g src. unfold gen_call, generate. cbn [gen_reset gn_cfg].
  destruct (generate_internal e id_order (gn_cfg g) src); reflexivity.
Qed.

Lemma gen_call_cfg : forall e g src, gn_cfg (snd (gen_call e g src)) = gn_cfg g.
Proof.
  intros e g src. unfold gen_call. cbn [gen_reset gn_cfg].
  destruct (generate_internal e id_order (gn_cfg g) src); reflexivity.
Qed.

Lemma api_step_cfg : forall e g call, gn_cfg (snd (api_step e g call)) = gn_cfg g.
Proof.
  intros e g call. destruct call as [f|d|]; cbn [api_step].
  - pose proof (gen_call_cfg e g (SrcWords f 0)) as H. destruct (gen_call e g (SrcWords f 0)). exact H.
  - pose proof (gen_call_cfg e g (SrcBytes d)) as H. destruct (gen_call e g (SrcBytes d)). exact H.
  - reflexivity.
Qed.

Lemma run_history_cfg : forall e h g, gn_cfg (snd (run_history e g h)) = gn_cfg g.
Proof.
  intros e h. induction h as [|call h IH]; intro g; [reflexivity|].
  cbn [run_history]. pose proof (api_step_cfg e g call) as H1.
  destruct (api_step e g call) as [r g']. cbn [snd] in H1.
  specialize (IH g'). destruct (run_history e g' h) as [rs g'']. cbn [snd] in *. congruence.
Qed.

(* what a call returns, as a function of the configuration alone *)
Definition call_result (e : env) (c : config) (call : api_call) : option (res (list N)) :=
  match call with
  | CGenerate f => Some (generate e c (SrcWords f 0))
  | CFromBytes d => Some (generate e c (SrcBytes d))
  | CReset => None
  end.

Lemma api_step_result : forall e g call, fst (api_step e g call) = call_result e (gn_cfg g) call.
Proof.
  intros e g call. destruct call as [f|d|]; cbn [api_step call_result].
  - pose proof (gen_call_result e g (SrcWords f 0)) as H. destruct (gen_call e g (SrcWords f 0)). cbn [fst] in *. congruence.
  - pose proof (gen_call_result e g (SrcBytes d)) as H. destruct (gen_call e g (SrcBytes d)). cbn [fst] in *. congruence.
  - reflexivity.
Qed.

(* after ANY history of generate / generate_from_arbitrary / reset calls, the next call returns
   exactly what a fresh generator with the same configuration returns for it *)
Theorem history_independent : forall e g h call,
  fst (api_step e (snd (run_history e g h)) call) = fst (api_step e (gen_new (gn_cfg g)) call).
Proof.
  intros e g h call. rewrite !api_step_result, run_history_cfg. reflexivity.
Qed.

Theorem repeated_call_same : forall e g h1 h2 call,
  fst (api_step e (snd (run_history e g h1)) call) = fst (api_step e (snd (run_history e g (h1 ++ call :: h2))) call).
Proof. intros. rewrite !api_step_result, !run_history_cfg. reflexivity. Qed.
