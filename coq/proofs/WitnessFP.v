(* The level-F witnesses are correct: for every protocol, both settings of the two opt-in flags and of
   the FRAME coin, and every loop-emitted opcode of the protocol's row that is not switched off, the
   compiled fuzzer bytes make the bit-exact model return a pickle that contains the opcode (and is
   framed exactly when asked, for protocols >= 4).  Decided by evaluation: the domain is finite
   (6 x 2 x 2 x 2 x 68 runs of generate_internal). *)
From Coq Require Import List NArith ZArith Bool.
Import ListNotations.
From PF Require Import Opcodes RefTable Config Sim Ref Lex Entropy Mutators Gen Witness WitnessF SrcStdlibP.
Local Open Scope N_scope.

(* the float formatter only decides the text of FLOAT arguments; any FLOAT-lexable text serves *)
Definition fmt0 (b : N) : list N := [48; 46; 48].

Lemma witnessF_all : forall v ext buf framed, witnessF_ok (src_env fmt0) v ext buf framed = true.
Proof. intros v ext buf framed. destruct v; destruct ext; destruct buf; destruct framed; vm_compute; reflexivity. Qed.

Theorem witnessF_sound : forall v ext buf framed o,
  In o (row v) -> driver_emitted o = false -> flag_ok (default_cfg v ext buf) o = true ->
  exists w r,
    witness_bytes (src_env fmt0) v ext buf framed o = Some w
    /\ generate_internal (src_env fmt0) id_order (default_cfg v ext buf) (SrcBytes w) = Ok r
    /\ occurs o (g_out r) = true
    /\ g_framed r = (framed && v_ge4 v).
Proof.
  intros v ext buf framed o Hin Hd Hf.
  pose proof (witnessF_all v ext buf framed) as E. unfold witnessF_ok in E.
  rewrite forallb_forall in E. specialize (E o (all_opcodes_complete o)).
  assert (Hex : existsb (op_eqb o) (row v) = true)
    by (apply existsb_exists; exists o; split; [exact Hin | apply op_eqb_refl]).
  rewrite Hex, Hd, Hf in E. cbn [negb orb] in E. unfold witnessF_one in E.
  destruct (witness_bytes (src_env fmt0) v ext buf framed o) as [w|]; [|discriminate E].
  destruct (generate_internal (src_env fmt0) id_order (default_cfg v ext buf) (SrcBytes w)) as [r|p] eqn:Eg; [|discriminate E].
  apply andb_prop in E. destruct E as [E1 E2]. exists w, r.
  refine (conj eq_refl (conj Eg (conj E1 _))). apply Bool.eqb_prop. exact E2.
Qed.
Print Assumptions witnessF_sound.
