(* Byte-level corollaries: the token-level theorems of PropsR transported through the lexer
   round trip to the emitted bytes serialize (run_tokens ...). *)
From Coq Require Import List NArith ZArith Bool Lia Arith.
Import ListNotations.
From PF Require Import Opcodes RefTable Config Sim Ref Lex Envelope Oracles.
From PF.proofs Require Import Refine Run Tail PropsR LexRT.
Local Open Scope N_scope.
Local Arguments N.pow : simpl never.
Local Arguments N.ltb : simpl never.
Local Arguments N.leb : simpl never.
Local Arguments N.eqb : simpl never.
Local Arguments N.of_nat : simpl never.

Lemma strip_prefix_spec : forall pre l d, strip_prefix pre l = Some d -> l = pre ++ d.
Proof.
  induction pre as [|a pre IH]; intros l d H.
  - inversion H; reflexivity.
  - destruct l as [|b l]; [discriminate H|]. cbn [strip_prefix] in H.
    destruct (N.eqb_spec a b) as [->|]; [|discriminate H]. rewrite (IH _ _ H). reflexivity.
Qed.

Lemma len_le_mono : forall (p : list N) a b, (a <= b)%nat -> len_le p a = true -> len_le p b = true.
Proof. intros p a b H. unfold len_le. rewrite !Nat.leb_le. lia. Qed.

Lemma arg_env_wf : forall c s o a, arg_env c s o a = true -> arg_wf o a = true.
Proof.
  intros c s o a H.
  destruct o; destruct a; try discriminate H; cbn [arg_env arg_wf] in *; try exact H; try reflexivity.
  all: try (apply andb_prop in H; destruct H as [H1 H2]; rewrite H1;
            first [ rewrite (len_le_mono _ 62 124 ltac:(lia) H2); reflexivity | exact H2 ]).
  all: try (apply andb_prop in H; destruct H as [H1 H2]; first [exact H1 | exact H2]).
  - (* GLOBAL *) apply andb_prop in H; destruct H as [H _]. apply andb_prop in H; destruct H as [H _]. exact H.
  - (* INST *) apply andb_prop in H; destruct H as [H _]. apply andb_prop in H; destruct H as [H _]. exact H.
  - (* PERSID *)
    destruct (strip_prefix pid_prefix b) as [d|] eqn:E; [|discriminate H].
    apply strip_prefix_spec in E. subst b.
    destruct (parse_N d) as [n|]; [|discriminate H]. apply andb_prop in H; destruct H as [_ H].
    apply list_eqb_eq in H. subst d. rewrite forallb_app. cbn [pid_prefix forallb].
    rewrite (digits_graphic _ (proj1 (proj2 (print_N_spec n)))). reflexivity.
Qed.

Lemma typeconf_repl_wf : forall t, typeconf_repl t = true -> tok_wf t = true.
Proof.
  intros [o a] H. unfold tok_wf. cbn [fst snd].
  destruct o; destruct a; try discriminate H; cbn [typeconf_repl arg_wf] in *; try exact H; try reflexivity.
  - apply list_eqb_eq in H. subst b. reflexivity.
  - apply list_eqb_eq in H. subst b. reflexivity.
Qed.

Lemma typeconf_repl_not_hdr : forall t, typeconf_repl t = true -> fst t <> STOP /\ fst t <> FRAME /\ fst t <> PROTO.
Proof. intros [o a] H. destruct o; try discriminate H; cbn [fst]; repeat split; discriminate. Qed.

(* every body output token is well-formed and is not STOP / FRAME / PROTO *)
Lemma body_out_facts : forall c steps s, body_ok c s steps = true ->
  forall st, In st steps ->
    tok_wf (rs_out st) = true /\ fst (rs_out st) <> STOP /\ fst (rs_out st) <> FRAME /\ fst (rs_out st) <> PROTO.
Proof.
  intros c steps s Hb st Hin. destruct (body_ok_each _ _ _ Hb st Hin) as (s' & He & Hout).
  destruct (emitsb_chosen _ _ _ _ He) as (_ & _ & _ & Harg).
  unfold out_ok in Hout. apply orb_prop in Hout. destruct Hout as [Hout|Hout].
  - apply tok_eqb_eq in Hout. rewrite <- Hout. split; [unfold tok_wf; eapply arg_env_wf; exact Harg|].
    destruct (arg_env_not_header _ _ _ _ Harg) as (A & B & C). auto.
  - apply andb_prop in Hout; destruct Hout as [Hout _]. apply andb_prop in Hout; destruct Hout as [_ Hr].
    split; [apply typeconf_repl_wf; exact Hr|]. apply typeconf_repl_not_hdr; exact Hr.
Qed.

Definition tail_tokens (c : config) (steps : list rstep) : list token :=
  map (fun o => (o, A0)) (fst (cleanup_for_stop (c_version c)
     (run_steps (c_version c) (s_start c) (map rs_tok steps)))).

Definition body_rest (c : config) (steps : list rstep) : list token :=
  map rs_out steps ++ tail_tokens c steps.

Lemma run_tokens_eq : forall c framed steps,
  run_tokens c framed steps =
  (header c framed (N.of_nat (length (serialize (body_rest c steps ++ [(STOP, A0)])))) ++ body_rest c steps)
  ++ [(STOP, A0)].
Proof.
  intros. unfold run_tokens, body_rest, tail_tokens. cbv zeta.
  change {| stk := []; memo := []; proto_emitted := negb (v_lt2 (c_version c)) |} with (s_start c).
  rewrite <- !app_assoc. reflexivity.
Qed.

Lemma tail_token_facts : forall c steps t, In t (tail_tokens c steps) ->
  tok_wf t = true /\ fst t <> STOP /\ fst t <> FRAME /\ fst t <> PROTO
  /\ (ref_code (fst t) <? 128 = true \/ v_lt2 (c_version c) = false) /\ snd t = A0.
Proof.
  intros c steps t Hin. unfold tail_tokens in Hin. apply in_map_iff in Hin. destruct Hin as (o & <- & Ho).
  destruct (cleanup_facts (c_version c) (run_steps (c_version c) (s_start c) (map rs_tok steps))) as [_ Hops].
  cbn [fst snd].
  destruct (Hops o Ho) as [-> |[-> |[[Hv ->]|[Hv [-> | ->]]]]]; (split; [reflexivity|]);
    repeat (split; [discriminate|]); (split; [|reflexivity]); auto.
Qed.

Lemma body_rest_facts : forall c framed steps, run_R c framed steps ->
  forall t, In t (body_rest c steps) ->
    tok_wf t = true /\ fst t <> STOP /\ fst t <> FRAME /\ fst t <> PROTO.
Proof.
  intros c framed steps (_ & _ & Hb) t Hin. unfold body_rest in Hin. apply in_app_iff in Hin.
  destruct Hin as [Hin|Hin].
  - apply in_map_iff in Hin. destruct Hin as (st & <- & Hst). eapply body_out_facts; eassumption.
  - destruct (tail_token_facts _ _ _ Hin) as (A & B & C & D & _). auto.
Qed.

Lemma forallb_of_In : forall (A : Type) (f : A -> bool) l, (forall x, In x l -> f x = true) -> forallb f l = true.
Proof. intros A f l H. apply forallb_forall. exact H. Qed.

Lemma not_stop_of_neq : forall t, fst t <> STOP -> not_stop t = true.
Proof. intros t H. unfold not_stop. apply negb_true_iff. apply op_eqb_neq. exact H. Qed.

Lemma vnum_lt : forall v, vnum v <? 256 = true.
Proof. destruct v; reflexivity. Qed.

(* C04 at byte level.  The only hypothesis beyond run_R is physical: the output is shorter
   than 2^64 bytes (it is a Vec<u8>), needed for the 8-byte FRAME length to be exact. *)
Theorem run_bytes_lex : forall c framed steps, run_R c framed steps ->
  N.of_nat (length (serialize (run_tokens c framed steps))) < 2 ^ 64 ->
  lex_all (serialize (run_tokens c framed steps)) = Some (run_tokens c framed steps).
Proof.
  intros c framed steps HR Hlen. rewrite run_tokens_eq in *.
  set (rest := body_rest c steps) in *.
  set (n := N.of_nat (length (serialize (rest ++ [(STOP, A0)])))) in *.
  apply lex_all_serialize.
  - rewrite forallb_app. apply andb_true_intro. split.
    + unfold header. destruct (v_lt2 (c_version c)); destruct framed; cbn [app forallb tok_wf arg_wf fst snd];
        rewrite ?vnum_lt; try reflexivity.
      all: rewrite andb_true_r; try (rewrite andb_true_l); apply N.ltb_lt;
        rewrite !serialize_app, !app_length in Hlen; fold n in Hlen; unfold n; rewrite !serialize_app, !app_length; lia.
    + apply forallb_of_In. intros t Ht. apply (body_rest_facts _ _ _ HR t Ht).
  - rewrite forallb_app. apply andb_true_intro. split.
    + unfold header. destruct (v_lt2 (c_version c)); destruct framed; reflexivity.
    + apply forallb_of_In. intros t Ht. apply not_stop_of_neq. apply (body_rest_facts _ _ _ HR t Ht).
Qed.

(* ---------- the oracles, on the bytes of every run ---------- *)
Definition fits (c : config) (framed : bool) (steps : list rstep) : Prop :=
  N.of_nat (length (serialize (run_tokens c framed steps))) < 2 ^ 64.

Lemma C04_B : forall c framed steps, run_R c framed steps -> fits c framed steps ->
  oracle_C04 (serialize (run_tokens c framed steps)) = true.
Proof. intros c framed steps HR HF. unfold oracle_C04. rewrite (run_bytes_lex _ _ _ HR HF). reflexivity. Qed.

(* exactly one STOP and it is the last opcode - for any accepted byte string *)
Lemma oracle_C04_stop : forall out, oracle_C04 out = true ->
  exists ts pre a, lex_all out = Some ts /\ ts = pre ++ [(STOP, a)] /\ forallb not_stop pre = true.
Proof.
  intros out H. unfold oracle_C04 in H. destruct (lex_all out) as [ts|] eqn:E; [|discriminate H].
  unfold lex_all in E. destruct (lex_stop_last _ _ _ E) as (pre & a & H1 & H2). exists ts, pre, a. auto.
Qed.

Lemma C01_B : forall c framed steps, safeb c = true -> run_R c framed steps -> fits c framed steps ->
  oracle_C01 (serialize (run_tokens c framed steps)) = true.
Proof.
  intros c framed steps Hs HR HF. unfold oracle_C01. rewrite (run_bytes_lex _ _ _ HR HF). apply C01_R; assumption.
Qed.

Lemma C02_B : forall c framed steps, safeb c = true -> run_R c framed steps -> fits c framed steps ->
  oracle_C02 (serialize (run_tokens c framed steps)) = true.
Proof.
  intros c framed steps Hs HR HF. unfold oracle_C02. rewrite (run_bytes_lex _ _ _ HR HF). apply C02_R; assumption.
Qed.

Lemma C03_B : forall c framed steps, safeb c = true -> run_R c framed steps -> fits c framed steps ->
  oracle_C03 (serialize (run_tokens c framed steps)) = true.
Proof.
  intros c framed steps Hs HR HF. unfold oracle_C03. rewrite (run_bytes_lex _ _ _ HR HF).
  destruct (C03_R _ _ _ Hs HR) as (r & ->). reflexivity.
Qed.

Lemma C10_B : forall c framed steps, run_R c framed steps -> fits c framed steps ->
  oracle_C10 c (serialize (run_tokens c framed steps)) = true.
Proof.
  intros c framed steps HR HF. unfold oracle_C10. rewrite (run_bytes_lex _ _ _ HR HF).
  pose proof (C10_R _ _ _ HR) as H.
  apply andb_true_intro. split.
  - destruct (c_ext c) eqn:E; [reflexivity|]. cbn [orb]. apply negb_true_iff.
    destruct (existsb is_ext (run_tokens c framed steps)) eqn:Ex; [|reflexivity].
    apply existsb_exists in Ex. destruct Ex as (t & Hin & Ht). destruct (H t Hin) as [H1 _]. specialize (H1 Ht). discriminate H1.
  - destruct (c_buf c) eqn:E; [reflexivity|]. cbn [orb]. apply negb_true_iff.
    destruct (existsb is_buffer (run_tokens c framed steps)) eqn:Ex; [|reflexivity].
    apply existsb_exists in Ex. destruct Ex as (t & Hin & Ht). destruct (H t Hin) as [_ H1]. specialize (H1 Ht). discriminate H1.
Qed.

Lemma C11_B : forall c framed steps, run_R c framed steps -> fits c framed steps ->
  oracle_C11 c (serialize (run_tokens c framed steps)) = true.
Proof.
  intros c framed steps HR HF. unfold oracle_C11. rewrite (run_bytes_lex _ _ _ HR HF).
  destruct (C11_R _ _ _ HR) as (hdr & tail & Hlen & Hh & Ht & HT). rewrite Hlen.
  unfold target_ok in HT. apply andb_true_intro.
  destruct (N.ltb_spec (c_min c) (c_max c)) as [Hlt|Hge].
  - apply andb_prop in HT. destruct HT as [H1 H2]. apply N.leb_le in H1. apply N.ltb_lt in H2.
    split; apply N.leb_le; lia.
  - apply N.eqb_eq in HT. split; apply N.leb_le; lia.
Qed.

(* ---------- C06: FRAME ---------- *)
Lemma no_frame_rest : forall c framed steps, run_R c framed steps ->
  existsb is_frame (body_rest c steps ++ [(STOP, A0)]) = false.
Proof.
  intros c framed steps HR. rewrite existsb_app.
  replace (existsb is_frame [(STOP, A0)]) with false by reflexivity. rewrite orb_false_r.
  destruct (existsb is_frame (body_rest c steps)) eqn:E; [|reflexivity].
  apply existsb_exists in E. destruct E as (t & Hin & Ht). unfold is_frame in Ht. apply op_eqb_eq in Ht.
  destruct (body_rest_facts _ _ _ HR t Hin) as (_ & _ & Hf & _). contradiction.
Qed.

Lemma frame_match_unframed : forall p l (X : N -> list token -> bool), existsb is_frame l = false ->
  match (PROTO, p) :: l with
  | (PROTO, _) :: (FRAME, AU n) :: rest => X n rest
  | _ => negb (existsb is_frame ((PROTO, p) :: l))
  end = true.
Proof.
  intros p l X H. destruct l as [|[o a] r].
  - reflexivity.
  - cbn [existsb] in H. apply orb_false_elim in H. destruct H as [H1 H2].
    unfold is_frame in H1. cbn [fst] in H1.
    destruct o; try discriminate H1; cbn [existsb is_frame fst op_eqb]; rewrite ?H2; reflexivity.
Qed.

Lemma hdr_len_11 : forall p f, length (serialize [(PROTO, AU p); (FRAME, AU f)]) = 11%nat.
Proof.
  intros p f. unfold serialize. cbn [flat_map app encode encode_arg fst snd length].
  rewrite ?app_length, ?le_bytes_length. reflexivity.
Qed.

Lemma C06_B : forall c framed steps, run_R c framed steps -> fits c framed steps ->
  oracle_C06 (c_version c) (serialize (run_tokens c framed steps)) = true.
Proof.
  intros c framed steps HR HF. unfold oracle_C06. rewrite (run_bytes_lex _ _ _ HR HF).
  pose proof (no_frame_rest _ _ _ HR) as Hnf. pose proof HR as (Hfr & _ & _).
  rewrite run_tokens_eq. rewrite <- app_assoc.
  set (rest := body_rest c steps ++ [(STOP, A0)]) in *.
  unfold header. destruct framed.
  - specialize (Hfr eq_refl). rewrite Hfr.
    assert (Hv : v_lt2 (c_version c) = false) by (destruct (c_version c); try discriminate Hfr; reflexivity).
    rewrite Hv. cbn [app]. rewrite Hnf. cbn [negb andb].
    apply N.eqb_eq.
    match goal with |- context [(PROTO, ?p) :: (FRAME, ?f) :: rest] =>
      change ((PROTO, p) :: (FRAME, f) :: rest) with ([(PROTO, p); (FRAME, f)] ++ rest) end.
    rewrite serialize_app, app_length.
    rewrite hdr_len_11. lia.
  - destruct (v_lt2 (c_version c)) eqn:Hv.
    + assert (Hg : v_ge4 (c_version c) = false) by (destruct (c_version c); try discriminate Hv; reflexivity).
      rewrite Hg. cbn [app]. rewrite Hnf. reflexivity.
    + cbn [app]. destruct (v_ge4 (c_version c)).
      * apply frame_match_unframed. exact Hnf.
      * cbn [existsb is_frame fst op_eqb]. replace (op_eqb PROTO FRAME) with false by reflexivity. rewrite Hnf. reflexivity.
Qed.

(* ---------- C05: header / protocol at byte level, and 7-bit output for protocol 0 ---------- *)
Definition b7 (b : N) : bool := b <? 128.

Lemma printable_b7 : forall l, forallb printable l = true -> forallb b7 l = true.
Proof.
  apply forallb_impl. intros x H. unfold printable in H. apply andb_prop in H. destruct H as [_ H].
  apply N.leb_le in H. unfold b7. apply N.ltb_lt. lia.
Qed.

Lemma graphic_b7 : forall l, forallb graphic l = true -> forallb b7 l = true.
Proof. intros l H. apply printable_b7, graphic_printable, H. Qed.

Definition in_row0 (o : opcode) : bool := existsb (op_eqb o) row0.

Lemma encode_7bit : forall o a, in_row0 o = true -> arg_wf o a = true -> forallb b7 (encode (o, a)) = true.
Proof.
  intros o a Hr H. unfold encode. cbn [fst snd].
  destruct o; try discriminate Hr; destruct a; try discriminate H;
    cbn [arg_wf ref_reader] in H; cbn [encode_arg ref_code forallb]; unfold nl;
    rewrite ?forallb_app; cbn [forallb]; split_wf H; try reflexivity.
  all: try (rewrite (graphic_b7 _ (print_Z_graphic z)); reflexivity).
  all: try (rewrite (graphic_b7 _ (digits_graphic _ (proj1 (proj2 (print_N_spec n))))); reflexivity).
  all: try (rewrite (printable_b7 _ (escape_printable _ H)); reflexivity).
  all: try (rewrite (printable_b7 _ H); reflexivity).
  all: try (rewrite (graphic_b7 _ H); reflexivity).
  all: try (rewrite (graphic_b7 _ W); reflexivity).
  all: try (rewrite (graphic_b7 _ H), (graphic_b7 _ W); reflexivity).
Qed.

Lemma emitsb_row : forall c s ch t, emitsb c s ch t = true -> In (fst t) (row (c_version c)).
Proof.
  intros c s ch t H. destruct (emitsb_chosen _ _ _ _ H) as (_ & Hrow & Hop & _).
  destruct Hop as [-> | [_ Hin]]; assumption.
Qed.

Lemma C05_bytes7 : forall c framed steps, safeb c = true -> run_R c framed steps -> c_version c = V0 ->
  forallb b7 (serialize (run_tokens c framed steps)) = true.
Proof.
  intros c framed steps Hs HR Hv. pose proof HR as (Hfr & _ & Hb).
  assert (Hnf : framed = false) by (destruct framed; [specialize (Hfr eq_refl); rewrite Hv in Hfr; discriminate Hfr | reflexivity]).
  subst framed. rewrite run_tokens_eq. unfold header. rewrite Hv. cbn [v_lt2 app].
  rewrite !serialize_app, !forallb_app.
  assert (Hall : forall ts, (forall t, In t ts -> forallb b7 (encode t) = true) -> forallb b7 (serialize ts) = true).
  { induction ts as [|t ts IH]; intro H; [reflexivity|]. unfold serialize. cbn [flat_map]. fold (serialize ts).
    rewrite forallb_app, (H t (or_introl eq_refl)), IH; [reflexivity|]. intros t' Ht'; apply H; right; exact Ht'. }
  apply andb_true_intro. split; [|reflexivity].
  apply Hall. intros t Hin. unfold body_rest in Hin. apply in_app_iff in Hin. destruct Hin as [Hin|Hin].
  - apply in_map_iff in Hin. destruct Hin as (st & <- & Hst).
    destruct (body_ok_each _ _ _ Hb st Hst) as (s' & He & Hout).
    rewrite (out_ok_safe _ _ _ Hs Hout). destruct (rs_tok st) as [o a] eqn:Et.
    apply encode_7bit.
    + pose proof (emitsb_row _ _ _ _ He) as Hrow. rewrite Hv in Hrow. cbn [fst row] in Hrow.
      unfold in_row0. apply existsb_exists. exists o. split; [exact Hrow | apply op_eqb_refl].
    + destruct (emitsb_chosen _ _ _ _ He) as (_ & _ & _ & Harg). eapply arg_env_wf. exact Harg.
  - destruct (tail_token_facts _ _ _ Hin) as (_ & _ & _ & _ & H7 & Ha).
    destruct t as [o a]. cbn [fst snd] in *. subst a. unfold encode. cbn [fst snd].
    destruct H7 as [H7|H7]; [|rewrite Hv in H7; discriminate H7].
    cbn [forallb]. unfold b7 at 1. rewrite H7.
    destruct o; reflexivity.
Qed.

Lemma C05_B : forall c framed steps, safeb c = true -> run_R c framed steps -> fits c framed steps ->
  oracle_C05 (c_version c) (serialize (run_tokens c framed steps)) = true.
Proof.
  intros c framed steps Hs HR HF. unfold oracle_C05. rewrite (run_bytes_lex _ _ _ HR HF).
  destruct (C05_R _ _ _ Hs HR) as [H1 H2]. cbv zeta in H1, H2. rewrite H1, H2. cbn [andb].
  destruct (c_version c) eqn:Hv; try reflexivity.
  apply (C05_bytes7 _ _ _ Hs HR Hv).
Qed.
