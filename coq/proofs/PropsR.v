(* Level-R property lemmas (token level): what holds of every run of the envelope. *)
From Coq Require Import List NArith ZArith Bool Lia Arith.
Import ListNotations.
From PF Require Import Opcodes RefTable Config Sim Ref Lex Envelope Oracles.
From PF.proofs Require Import Refine Run.

Lemma C01_R : forall c framed steps,
  safeb c = true -> run_R c framed steps -> ref_accepts (run_tokens c framed steps) = true.
Proof.
  intros c framed steps Hs HR. eapply lockstep_accepts; [apply run_lockstep; eassumption | apply Inv_start].
Qed.

Lemma C02_R : forall c framed steps,
  safeb c = true -> run_R c framed steps -> memo_run rinit (run_tokens c framed steps) = true.
Proof. intros c framed steps Hs HR. eapply lockstep_memo. apply run_lockstep; eassumption. Qed.

Lemma C03_R : forall c framed steps,
  safeb c = true -> run_R c framed steps ->
  exists r, ref_run_req rinit (run_tokens c framed steps) = Some r.
Proof.
  intros c framed steps Hs HR. eapply lockstep_req; [apply run_lockstep; eassumption | apply Inv_start].
Qed.

(* after every prefix of the emitted tokens the simulated state mirrors the reference state *)
Lemma C17_R : forall c framed steps,
  safeb c = true -> run_R c framed steps ->
  forall n, exists rn,
    ref_run rinit (firstn n (run_tokens c framed steps)) = Some rn
    /\ Inv (sim_after c (run_tokens c framed steps) n) rn
    /\ invb (sim_after c (run_tokens c framed steps) n) rn = true.
Proof.
  intros c framed steps Hs HR n.
  destruct (lockstep_prefix _ _ _ _ _ (run_lockstep c framed steps Hs HR) (Inv_start c) n) as (rn & H1 & H2).
  exists rn. split; [exact H1|]. split; [exact H2 | apply Inv_invb; exact H2].
Qed.

(* what invb says, spelled out: same depth, same MARK positions, compatible kinds, same memo keys *)
Lemma invb_spelled : forall s r, invb s r = true ->
  length (stk s) = length (rstk r)
  /\ (forall i k rk, nth_error (stk s) i = Some k -> nth_error (rstk r) i = Some rk ->
        compatb k rk = true /\ (is_mark k = r_is_mark rk))
  /\ map fst (memo s) = map fst (rmemo r).
Proof.
  intros [st m pe] [rst rmk rm]; unfold invb; simpl; intro H.
  apply andb_prop in H; destruct H as [H1 H2].
  assert (A : forall (st : list kind) (rst : list rkind), forall2b compatb st rst = true ->
            length st = length rst /\
            forall i k rk, nth_error st i = Some k -> nth_error rst i = Some rk ->
                           compatb k rk = true /\ is_mark k = r_is_mark rk).
  { induction st0 as [|k0 st0 IH]; destruct rst0 as [|rk0 rst0]; simpl; intro H; try discriminate H.
    - split; [reflexivity|]. intros i k rk Hk; destruct i; discriminate Hk.
    - apply andb_prop in H; destruct H as [Hc Hr]. destruct (IH _ Hr) as [Hl Hn].
      split; [congruence|]. intros i k rk Hk Hrk. destruct i as [|i]; simpl in Hk, Hrk.
      + inversion Hk; inversion Hrk; subst. split; [exact Hc|]. destruct k, rk; try discriminate Hc; reflexivity.
      + eapply Hn; eassumption. }
  destruct (A _ _ H1) as [Hl Hn]. split; [exact Hl|]. split; [exact Hn|].
  clear -H2. revert rm H2. induction m as [|[i k] m IH]; destruct rm as [|[j rk] rm]; simpl; intro H;
    try discriminate H; [reflexivity|].
  apply andb_prop in H; destruct H as [H Hr]. apply andb_prop in H; destruct H as [Hij _].
  apply N.eqb_eq in Hij. rewrite Hij. f_equal. apply IH; exact Hr.
Qed.

(* ===================== C10 / C05 / C11 at token level ===================== *)
From PF.proofs Require Import Tail.
Local Arguments N.pow : simpl never.
Local Arguments N.ltb : simpl never.
Local Arguments N.leb : simpl never.
Local Arguments N.eqb : simpl never.
Local Arguments N.of_nat : simpl never.

(* every body step of a run satisfies the envelope in some state *)
Lemma body_ok_each : forall c steps s, body_ok c s steps = true ->
  forall st, In st steps -> exists s', emitsb c s' (rs_chosen st) (rs_tok st) = true
                                     /\ out_ok c (rs_tok st) (rs_out st) = true.
Proof.
  intros c steps. induction steps as [|x steps IH]; simpl; intros s Hb st Hin; [destruct Hin|].
  apply andb_prop in Hb; destruct Hb as [Hb Hrest]. apply andb_prop in Hb; destruct Hb as [He Ho].
  destruct Hin as [-> |Hin]; [exists s; split; assumption | eapply IH; eassumption].
Qed.

Lemma tokens_cases : forall c framed steps t, In t (run_tokens c framed steps) ->
  (v_lt2 (c_version c) = false /\ t = (PROTO, AU (vnum (c_version c))))
  \/ (framed = true /\ fst t = FRAME)
  \/ (exists st, In st steps /\ t = rs_out st)
  \/ (exists o, In o (fst (cleanup_for_stop (c_version c)
                  (run_steps (c_version c) (s_start c) (map rs_tok steps)))) /\ t = (o, A0))
  \/ t = (STOP, A0).
Proof.
  intros c framed steps t. unfold run_tokens. cbv zeta. unfold header. rewrite !in_app_iff.
  intros [[H|H]|[H|[H|H]]].
  - destruct (v_lt2 (c_version c)); [destruct H|]. destruct H as [<-|[]]. left; auto.
  - destruct framed; [|destruct H]. destruct H as [<-|[]]. right; left; auto.
  - apply in_map_iff in H. destruct H as (st & <- & Hin). right; right; left. exists st; auto.
  - apply in_map_iff in H. destruct H as (o & <- & Hin). right; right; right; left. exists o; auto.
  - destruct H as [<-|[]]. right; right; right; right; reflexivity.
Qed.

Lemma typeconf_repl_ops : forall t, typeconf_repl t = true ->
  In (fst t) [BININT; BINFLOAT; SHORT_BINUNICODE; SHORT_BINBYTES; EMPTY_LIST; EMPTY_DICT; EMPTY_TUPLE;
              NONE; NEWTRUE; NEWFALSE].
Proof. intros [o a] H; destruct o; try discriminate H; simpl; tauto. Qed.

Lemma emitsb_chosen : forall c s ch t, emitsb c s ch t = true ->
  can_emit c s ch = true /\ In ch (row (c_version c))
  /\ (fst t = ch \/ (int_like (fst t) = true /\ In (fst t) (row (c_version c))))
  /\ arg_env c s (fst t) (snd t) = true.
Proof.
  intros c s ch t H. unfold emitsb in H.
  apply andb_prop in H; destruct H as [H Harg]. apply andb_prop in H; destruct H as [Hv Hop].
  apply existsb_exists in Hv. destruct Hv as (x & Hin & Hx). apply op_eqb_eq in Hx; subst x.
  unfold get_valid_opcodes in Hin. apply filter_In in Hin. destruct Hin as [Hrow Hce].
  split; [exact Hce|]. split; [exact Hrow|]. split; [|exact Harg].
  apply orb_prop in Hop. destruct Hop as [Hop|Hop]; [left; apply op_eqb_eq; exact Hop|].
  right. apply andb_prop in Hop; destruct Hop as [Hop Hex]. apply andb_prop in Hop; destruct Hop as [_ Hi].
  split; [exact Hi|]. apply existsb_exists in Hex. destruct Hex as (x & Hin & Hx). apply op_eqb_eq in Hx; subst x. exact Hin.
Qed.

(* C10: no EXT* unless allow_ext, no buffer opcode unless allow_buffer - any configuration *)
Lemma C10_R : forall c framed steps, run_R c framed steps ->
  forall t, In t (run_tokens c framed steps) ->
    (is_ext t = true -> c_ext c = true) /\ (is_buffer t = true -> c_buf c = true).
Proof.
  intros c framed steps (_ & _ & Hb) t Hin.
  destruct (tokens_cases _ _ _ _ Hin) as [[_ ->]|[[_ Hf]|[(st & Hst & ->)|[(o & Ho & ->)| ->]]]].
  - split; discriminate.
  - unfold is_ext, is_buffer; rewrite Hf; split; discriminate.
  - destruct (body_ok_each _ _ _ Hb st Hst) as (s' & He & Hout).
    destruct (emitsb_chosen _ _ _ _ He) as (Hce & _ & Hop & _).
    unfold out_ok in Hout. apply orb_prop in Hout. destruct Hout as [Hout|Hout].
    + apply tok_eqb_eq in Hout. rewrite <- Hout.
      destruct Hop as [Hop|[Hi _]].
      * rewrite <- Hop in Hce. unfold is_ext, is_buffer.
        destruct (fst (rs_tok st)); split; intro Hx; try discriminate Hx; simpl in Hce; try exact Hce;
          apply andb_prop in Hce; tauto.
      * unfold is_ext, is_buffer. destruct (fst (rs_tok st)); try discriminate Hi; split; discriminate.
    + apply andb_prop in Hout; destruct Hout as [Hout _]. apply andb_prop in Hout; destruct Hout as [_ Hr].
      apply typeconf_repl_ops in Hr. unfold is_ext, is_buffer.
      simpl in Hr. repeat (destruct Hr as [<-|Hr]; [split; discriminate|]). destruct Hr.
  - destruct (cleanup_facts (c_version c) (run_steps (c_version c) (s_start c) (map rs_tok steps))) as [_ Hops].
    destruct (Hops o Ho) as [-> |[-> |[[_ ->]|[_ [-> | ->]]]]]; split; discriminate.
  - split; discriminate.
Qed.

(* C05 (token part): every opcode belongs to the protocol; PROTO exactly as the header *)
Lemma row_proto_ok : forall v o, In o (row v) -> (ref_proto o <=? vnum v)%N = true.
Proof.
  intros v o H.
  assert (E : forallb (fun o => (ref_proto o <=? vnum v)%N) (row v) = true) by (destruct v; vm_compute; reflexivity).
  rewrite forallb_forall in E. apply E; exact H.
Qed.

Lemma arg_env_not_header : forall c s o a, arg_env c s o a = true -> o <> PROTO /\ o <> FRAME /\ o <> STOP.
Proof. intros c s o a H; destruct o; repeat split; try discriminate; destruct a; discriminate H. Qed.

Lemma C05_R : forall c framed steps, safeb c = true -> run_R c framed steps ->
  let ts := run_tokens c framed steps in
  forallb (fun t => (ref_proto (fst t) <=? vnum (c_version c))%N) ts = true
  /\ header_ok (c_version c) ts = true.
Proof.
  intros c framed steps Hs HR. pose proof HR as (Hfr & _ & Hb). cbv zeta.
  assert (Hbody : forall st, In st steps ->
            (ref_proto (fst (rs_out st)) <=? vnum (c_version c))%N = true /\ is_proto (rs_out st) = false).
  { intros st Hst. destruct (body_ok_each _ _ _ Hb st Hst) as (s' & He & Hout).
    rewrite (out_ok_safe _ _ _ Hs Hout).
    destruct (emitsb_chosen _ _ _ _ He) as (_ & Hrow & Hop & Harg).
    destruct (arg_env_not_header _ _ _ _ Harg) as (Hnp & _).
    split.
    - destruct Hop as [Hop|[_ Hin]]; [rewrite Hop|]; apply row_proto_ok; assumption.
    - unfold is_proto. apply op_eqb_neq. exact Hnp. }
  assert (Htail : forall o, In o (fst (cleanup_for_stop (c_version c)
                    (run_steps (c_version c) (s_start c) (map rs_tok steps)))) ->
            (ref_proto o <=? vnum (c_version c))%N = true /\ op_eqb o PROTO = false).
  { intros o Ho.
    destruct (cleanup_facts (c_version c) (run_steps (c_version c) (s_start c) (map rs_tok steps))) as [_ Hops].
    destruct (Hops o Ho) as [-> |[-> |[[_ ->]|[Hv [-> | ->]]]]]; split; try reflexivity;
      destruct (c_version c); try discriminate Hv; reflexivity. }
  split.
  - apply forallb_forall. intros t Hin.
    destruct (tokens_cases _ _ _ _ Hin) as [[Hv ->]|[[Hf Ht]|[(st & Hst & ->)|[(o & Ho & ->)| ->]]]].
    + destruct (c_version c); try discriminate Hv; reflexivity.
    + rewrite Ht. specialize (Hfr Hf). destruct (c_version c); try discriminate Hfr; reflexivity.
    + apply Hbody; exact Hst.
    + apply Htail; exact Ho.
    + destruct (c_version c); reflexivity.
  - unfold run_tokens. cbv zeta. unfold header, header_ok.
    change {| stk := []; memo := []; proto_emitted := negb (v_lt2 (c_version c)) |} with (s_start c).
    assert (Hrest : forall l, (forall t, In t l -> is_proto t = false) -> existsb is_proto l = false).
    { induction l as [|x l IH]; simpl; intro H; [reflexivity|]. rewrite (H x (or_introl eq_refl)). apply IH.
      intros t Ht; apply H; right; exact Ht. }
    assert (Hnp : forall t, In t (map rs_out steps ++ map (fun o => (o, A0))
                     (fst (cleanup_for_stop (c_version c)
                        (run_steps (c_version c) (s_start c) (map rs_tok steps)))) ++ [(STOP, A0)]) ->
                  is_proto t = false).
    { intros t Ht. rewrite !in_app_iff in Ht. destruct Ht as [Ht|[Ht|Ht]].
      - apply in_map_iff in Ht. destruct Ht as (st & <- & Hst). apply Hbody; exact Hst.
      - apply in_map_iff in Ht. destruct Ht as (o & <- & Ho). apply Htail; exact Ho.
      - destruct Ht as [<-|[]]. reflexivity. }
    destruct framed.
    + specialize (Hfr eq_refl). destruct (v_lt2 (c_version c)) eqn:Hv.
      * destruct (c_version c); discriminate.
      * cbn [app]. rewrite N.eqb_refl. cbn [andb]. apply negb_true_iff. apply Hrest.
        intros t Ht. destruct Ht as [Ht|Ht]; [subst t; reflexivity | apply Hnp; exact Ht].
    + destruct (v_lt2 (c_version c)) eqn:Hv; cbn [app].
      * apply negb_true_iff. apply Hrest. exact Hnp.
      * rewrite N.eqb_refl. cbn [andb]. apply negb_true_iff. apply Hrest. exact Hnp.
Qed.

(* C11: the body contributes exactly one token per step, the tail at most 2T+1 *)
Lemma pop_to_mark_len : forall st, length (pop_to_mark st) <= length st.
Proof. induction st as [|k st IH]; simpl; [lia|]. destruct k; simpl; lia. Qed.

Lemma dict_pop_len : forall st, length (dict_pop st) <= length st.
Proof.
  intro st. remember (length st) as n eqn:Hn. revert st Hn.
  induction n as [n IH] using lt_wf_ind. intros st Hn.
  destruct st as [|k st]; [simpl; lia|].
  destruct st as [|k1 st].
  - destruct k; simpl; lia.
  - assert (H : length (dict_pop st) <= length st) by (apply (IH (length st)); [simpl in Hn; lia | reflexivity]).
    destruct k; simpl in *; lia.
Qed.

Lemma sim_step_len : forall v s t, length (stk (sim_step v s t)) <= S (length (stk s)).
Proof.
  intros v [st m pe] [o a].
  pose proof (pop_to_mark_len st) as Hp. pose proof (dict_pop_len st) as Hd.
  destruct o; unfold sim_step; cbn [fst snd stk memo with_stk with_memo push proto_emitted];
    try (cbn [length]; lia);
    try (destruct st as [|k0 [|k1 [|k2 st']]]; cbn [length stk with_stk with_memo push tl]; try lia;
         repeat match goal with |- context [if ?b then _ else _] => destruct b end;
         cbn [length stk with_stk with_memo push]; lia).
  all: try (destruct (memo_get _ m); cbn [length stk push with_stk]; lia).
  (* OBJ *)
  destruct st as [|k0 st']; [cbn [length stk]; lia|].
  destruct k0; cbn [length stk with_stk] in *; lia.
Qed.

Lemma run_steps_len : forall v ts s, length (stk (run_steps v s ts)) <= length ts + length (stk s).
Proof.
  induction ts as [|t ts IH]; simpl; intro s; [lia|].
  specialize (IH (sim_step v s t)). pose proof (sim_step_len v s t). lia.
Qed.

Lemma C11_R : forall c framed steps, run_R c framed steps ->
  exists hdr tail,
    length (run_tokens c framed steps) = hdr + length steps + tail + 1
    /\ hdr <= 2 /\ tail <= 2 * length steps + 1
    /\ target_ok c (N.of_nat (length steps)) = true.
Proof.
  intros c framed steps (_ & HT & _).
  unfold run_tokens. cbv zeta.
  change {| stk := []; memo := []; proto_emitted := negb (v_lt2 (c_version c)) |} with (s_start c).
  set (s1 := run_steps (c_version c) (s_start c) (map rs_tok steps)).
  set (tail := fst (cleanup_for_stop (c_version c) s1)).
  match goal with |- context [header c framed ?n] => set (hd := header c framed n) end.
  exists (length hd), (length tail).
  split; [rewrite !app_length, !map_length; cbn [length]; lia|].
  split; [unfold hd, header; destruct (v_lt2 (c_version c)); destruct framed; cbn [length app]; lia|].
  split; [|exact HT].
  destruct (cleanup_facts (c_version c) s1) as [Hlen _]. fold tail in Hlen.
  pose proof (run_steps_len (c_version c) (map rs_tok steps) (s_start c)) as Hl.
  rewrite map_length in Hl. cbn [s_start stk length] in Hl. fold s1 in Hl. lia.
Qed.
