(* Level-R property lemmas (token level): what holds of every run of the envelope. *)
From Coq Require Import List NArith ZArith Bool Lia Arith.
Import ListNotations.
From PF Require Import Opcodes RefTable Config Sim Ref Lex Envelope Oracles.
From PF.proofs Require Import Refine Run.

Lemma C01_R : forall c framed steps,
  safeb c = true -> run_R c framed steps -> ref_accepts (run_tokens c framed steps) = true.
Proof.
  intros c framed steps Hs HR. eapply lockstep_accepts; [apply run_lockstep; eassumption | apply Inv_start].
Qed.

Lemma C02_R : forall c framed steps,
  safeb c = true -> run_R c framed steps -> memo_run rinit (run_tokens c framed steps) = true.
Proof. intros c framed steps Hs HR. eapply lockstep_memo. apply run_lockstep; eassumption. Qed.

Lemma C03_R : forall c framed steps,
  safeb c = true -> run_R c framed steps ->
  exists r, ref_run_req rinit (run_tokens c framed steps) = Some r.
Proof.
  intros c framed steps Hs HR. eapply lockstep_req; [apply run_lockstep; eassumption | apply Inv_start].
Qed.

(* after every prefix of the emitted tokens the simulated state mirrors the reference state *)
Lemma C17_R : forall c framed steps,
  safeb c = true -> run_R c framed steps ->
  forall n, exists rn,
    ref_run rinit (firstn n (run_tokens c framed steps)) = Some rn
    /\ Inv (sim_after c (run_tokens c framed steps) n) rn
    /\ invb (sim_after c (run_tokens c framed steps) n) rn = true.
Proof.
  intros c framed steps Hs HR n.
  destruct (lockstep_prefix _ _ _ _ _ (run_lockstep c framed steps Hs HR) (Inv_start c) n) as (rn & H1 & H2).
  exists rn. split; [exact H1|]. split; [exact H2 | apply Inv_invb; exact H2].
Qed.

(* what invb says, spelled out: same depth, same MARK positions, compatible kinds, same memo keys *)
Lemma invb_spelled : forall s r, invb s r = true ->
  length (stk s) = length (rstk r)
  /\ (forall i k rk, nth_error (stk s) i = Some k -> nth_error (rstk r) i = Some rk ->
        compatb k rk = true /\ (is_mark k = r_is_mark rk))
  /\ map fst (memo s) = map fst (rmemo r).
Proof.
  intros [st m pe] [rst rmk rm]; unfold invb; simpl; intro H.
  apply andb_prop in H; destruct H as [H1 H2].
  assert (A : forall (st : list kind) (rst : list rkind), forall2b compatb st rst = true ->
            length st = length rst /\
            forall i k rk, nth_error st i = Some k -> nth_error rst i = Some rk ->
                           compatb k rk = true /\ is_mark k = r_is_mark rk).
  { induction st0 as [|k0 st0 IH]; destruct rst0 as [|rk0 rst0]; simpl; intro H; try discriminate H.
    - split; [reflexivity|]. intros i k rk Hk; destruct i; discriminate Hk.
    - apply andb_prop in H; destruct H as [Hc Hr]. destruct (IH _ Hr) as [Hl Hn].
      split; [congruence|]. intros i k rk Hk Hrk. destruct i as [|i]; simpl in Hk, Hrk.
      + inversion Hk; inversion Hrk; subst. split; [exact Hc|]. destruct k, rk; try discriminate Hc; reflexivity.
      + eapply Hn; eassumption. }
  destruct (A _ _ H1) as [Hl Hn]. split; [exact Hl|]. split; [exact Hn|].
  clear -H2. revert rm H2. induction m as [|[i k] m IH]; destruct rm as [|[j rk] rm]; simpl; intro H;
    try discriminate H; [reflexivity|].
  apply andb_prop in H; destruct H as [H Hr]. apply andb_prop in H; destruct H as [Hij _].
  apply N.eqb_eq in Hij. rewrite Hij. f_equal. apply IH; exact Hr.
Qed.
