(* Concrete runs used as non-vacuity witnesses by the property files. *)
From Coq Require Import List NArith ZArith Bool.
Import ListNotations.
From PF Require Import Opcodes RefTable Config Sim Ref Lex Envelope Oracles.
Local Open Scope N_scope.

Definition ex_cfg (v : version) (n : N) : config :=
  {| c_version := v; c_min := n; c_max := n; c_mutators := [MOffByOne; MMemoIndex false]; c_rate := 0;
     c_unsafe := false; c_ext := false; c_buf := false |}.

Definition st (o : opcode) (a : arg) : rstep := {| rs_chosen := o; rs_tok := (o, a); rs_out := (o, a) |}.

(* MARK, a value, a list that is memoised and fetched again, a dict built from the MARK:
   leaves [dict] ... the tail then has to close nothing; second example leaves an open MARK *)
Definition ex_steps1 : list rstep :=
  [st MARK A0; st BININT (AZ 7); st EMPTY_LIST A0; st BINPUT (AU 0); st DICT A0; st BINGET (AU 0);
   st EMPTY_LIST A0; st MARK A0; st NONE A0; st NEWTRUE A0; st APPENDS A0].
Definition ex_steps2 : list rstep :=
  [st NONE A0; st MARK A0; st INT (AZ 1); st MARK A0; st GLOBAL (AP [111; 115] [115; 101; 112]);
   st EMPTY_TUPLE A0; st REDUCE A0].

Example ex_run1 : run_R (ex_cfg V2 11) false ex_steps1.
Proof. split; [discriminate|]. split; vm_compute; reflexivity. Qed.
Example ex_run2 : run_R (ex_cfg V4 7) true ex_steps2.
Proof. split; [reflexivity|]. split; vm_compute; reflexivity. Qed.
Example ex_safe : safeb (ex_cfg V2 11) = true /\ safeb (ex_cfg V4 7) = true.
Proof. split; reflexivity. Qed.
