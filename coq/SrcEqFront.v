(* The translator tie, part 3b: Default for Generator, the clap defaults, MutatorKind::all_mutators and create
   (gen/SrcAscii.v, gen/SrcFront.v, gen/SrcMut.v) are the model's. *)
From Coq Require Import List NArith ZArith Bool Arith Lia.
Import ListNotations.
From PF Require Import Opcodes RefTable Config Sim.
From PF Require Import Lex Entropy Mutators Front.
From PF.gen Require SrcFront.

Lemma src_defaults_eq :
  SrcFront.Src.gen_default_min = default_min /\ SrcFront.Src.gen_default_max = default_max
  /\ SrcFront.Src.gen_default_rate = default_rate /\ SrcFront.Src.gen_default_flags = [false; false; false]
  /\ SrcFront.Src.cli_default_min = default_min /\ SrcFront.Src.cli_default_max = default_max
  /\ SrcFront.Src.cli_default_rate = default_rate /\ SrcFront.Src.cli_default_samples = default_samples.
Proof. repeat split. Qed.

Lemma src_all_mutators_eq : forall u, SrcFront.Src.all_mutators u = all_mutators u.
Proof. destruct u; reflexivity. Qed.

Lemma src_create_eq : forall u k, SrcFront.Src.create u k = create u k.
Proof. destruct k; reflexivity. Qed.
