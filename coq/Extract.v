(* Extraction of the executable model and oracles to OCaml.
   ExtrOcamlBasic only: bool, option, list, prod, unit, sumbool map to OCaml's own types;
   nat, positive, N, Z stay the Coq datatypes.  No Extract Constant / Extract Inductive
   directives of our own. *)
Require Extraction.
Require Import ExtrOcamlBasic.
From PF Require Import Opcodes RefTable Config Sim Ref Lex Envelope Oracles Check Entropy Mutators Gen ChaCha Front Heap Witness WitnessF.
Extraction Language OCaml.
Extraction "model.ml"
  all_opcodes op_name op_index op_eqb
  ref_code ref_proto
  vnum version_of_N
  sim_init get_valid_opcodes can_emit sim_step cleanup_for_stop
  rinit ref_step req_ok memo_ok ref_accepts
  lex_one lex_all encode serialize
  emitsb out_ok invb
  oracle_C01 oracle_C02 oracle_C03 oracle_C04 oracle_C05 oracle_C06 oracle_C10 oracle_C11
  lex_exact s1_step s1_tail_step
  generate_internal emit_and_process run_history gen_new to_signed to_unsigned utf8_encode
  choose_index gen_range gen_uint gen_bool gen_i32 gen_i64 gen_f64 should_mutate gen_bytes gen_ascii_char
  mutate_int_one mutate_long_one mutate_float_one mutate_seq_one mutate_memo_one post_one
  mutate_int mutate_float mutate_string mutate_bytes mutate_memo_index post_process
  ok_choose_index ok_gen_range ok_ascii ok_bytes
  contract_int contract_float contract_seq contract_memo contract_post
  applies_int applies_float applies_seq applies_memo int_boundaries long_boundaries
  heap_init heap_step has_cycle step_mut release
  chacha8_word seeded_source
  witness_bytes occurs default_cfg driver_emitted flag_ok row
  cli_config default_min default_max default_rate default_samples py_new py_set_opcode_range action_run.
