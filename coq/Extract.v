(* Extraction of the executable model and oracles to OCaml.
   ExtrOcamlBasic only: bool, option, list, prod, unit, sumbool map to OCaml's own types;
   nat, positive, N, Z stay the Coq datatypes.  No Extract Constant / Extract Inductive
   directives of our own. *)
Require Extraction.
Require Import ExtrOcamlBasic.
From PF Require Import Opcodes RefTable Config Sim Ref Lex Envelope Oracles Check.
Extraction Language OCaml.
Extraction "model.ml"
  all_opcodes op_name op_index op_eqb
  ref_code ref_proto
  vnum version_of_N
  sim_init get_valid_opcodes can_emit sim_step cleanup_for_stop
  rinit ref_step req_ok memo_ok ref_accepts
  lex_one lex_all encode serialize
  emitsb out_ok invb
  oracle_C01 oracle_C02 oracle_C03 oracle_C04 oracle_C05 oracle_C06 oracle_C10 oracle_C11
  s1_step s1_tail_step.
