(* Definitions and generic lemmas for SeedWitP.v.  C12 for the seeded entry point: the bit-exact model of Generator::new(v).with_seed(s).generate()
   (Gen.generate_internal on ChaCha.seeded_source s, default settings) is run, inside Coq, on the
   witness seeds of gen/SeedWit.v (a table regenerated on every run from a census of the
   implementation); every opcode of every protocol's vocabulary must occur in the pickle of its seed. *)
From Coq Require Import List NArith ZArith Bool.
Import ListNotations.
From PF Require Import Opcodes RefTable Config Sim Lex Entropy Gen ChaCha Witness WitnessF SrcStdlibP.
From PF.gen Require SrcOpcodes.
From PF.proofs Require Import WitnessFP.
Local Open Scope N_scope.

Definition version_eqb (a b : version) : bool := N.eqb (vnum a) (vnum b).
Lemma version_eqb_eq : forall a b, version_eqb a b = true -> a = b.
Proof. intros a b H. apply N.eqb_eq in H. destruct a, b; try reflexivity; discriminate H. Qed.
Definition all_versions : list version := [V0; V1; V2; V3; V4; V5].

(* Generator::new(v) (+ both opt-in flags when fl) .with_seed(seed).generate() *)
Definition run_seed (v : version) (fl : bool) (seed : N) : res gen_result :=
  generate_internal (src_env fmt0) id_order (default_cfg v fl fl) (seeded_source seed).

(* the checks, generic in the table and in the run function (so that the proofs below never make the
   kernel look inside the generator or the table) *)
Section Generic.
Variable run : version -> bool -> N -> res gen_result.
Variable tbl : list (version * bool * list (N * list opcode)).
Variable ftbl : list (version * N * N).

Definition entry_ok (v : version) (fl : bool) (e : N * list opcode) : bool :=
  match run v fl (fst e) with
  | Ok r => forallb (fun o => occurs o (g_out r)) (snd e)
  | Panic _ => false
  end.

Definition row_ok (row : version * bool * list (N * list opcode)) : bool :=
  forallb (entry_ok (fst (fst row)) (snd (fst row))) (snd row).
Definition table_ok : bool := forallb row_ok tbl.

Definition row_covers (v : version) (fl : bool) (o : opcode) (row : version * bool * list (N * list opcode)) : bool :=
  version_eqb v (fst (fst row)) && Bool.eqb fl (snd (fst row)) && existsb (fun e => existsb (op_eqb o) (snd e)) (snd row).
Definition covered (v : version) (fl : bool) (o : opcode) : bool := existsb (row_covers v fl o) tbl.

(* with the flags off: every opcode of the row that is not opt-in; with the flags on: the opt-in ones *)
Definition wanted (v : version) (fl : bool) (o : opcode) : bool :=
  existsb (op_eqb o) (SrcOpcodes.Src.row v) && Bool.eqb (negb (flag_ok (default_cfg v false false) o)) fl.

Definition coverage_ok : bool :=
  forallb (fun v => forallb (fun fl => forallb (fun o => implb (wanted v fl o) (covered v fl o)) all_opcodes) [false; true]) all_versions.

Definition frame_row_ok (v : version) (f : version * N * N) : bool :=
  version_eqb v (fst (fst f))
  && match run v false (snd (fst f)) with Ok r => g_framed r && occurs FRAME (g_out r) | Panic _ => false end
  && match run v false (snd f) with Ok r => negb (g_framed r) && negb (occurs FRAME (g_out r)) | Panic _ => false end.
Definition frames_ok : bool :=
  forallb (fun v => implb (v_ge4 v) (existsb (frame_row_ok v) ftbl)) all_versions.

Lemma all_versions_complete : forall v, In v all_versions.
Proof. destruct v; cbn; tauto. Qed.

Lemma seed_witness_gen : table_ok = true -> coverage_ok = true -> forall v o, In o (SrcOpcodes.Src.row v) ->
  exists seed r, run v (negb (flag_ok (default_cfg v false false) o)) seed = Ok r /\ occurs o (g_out r) = true.
Proof.
  intros T C v o Hin. remember (negb (flag_ok (default_cfg v false false) o)) as fl eqn:Efl.
  unfold coverage_ok in C. rewrite forallb_forall in C.
  specialize (C v (all_versions_complete v)). rewrite forallb_forall in C.
  assert (Hfl : In fl [false; true]) by (destruct fl; cbn; tauto).
  specialize (C fl Hfl). rewrite forallb_forall in C. specialize (C o (all_opcodes_complete o)).
  assert (W : wanted v fl o = true).
  { unfold wanted. apply andb_true_intro. split; [apply existsb_exists; exists o; split; [exact Hin | apply op_eqb_refl] | rewrite <- Efl; apply eqb_reflx]. }
  rewrite W in C. cbn [implb] in C. unfold covered in C. apply existsb_exists in C. destruct C as (row & Hrow & Hc).
  unfold row_covers in Hc.
  apply andb_prop in Hc. destruct Hc as [Hc He]. apply andb_prop in Hc. destruct Hc as [Hv Hf].
  apply version_eqb_eq in Hv. apply eqb_prop in Hf.
  apply existsb_exists in He. destruct He as (e & Hein & Ho). apply existsb_exists in Ho. destruct Ho as (o' & Hoin & Heq).
  apply op_eqb_eq in Heq. subst o'.
  unfold table_ok in T. rewrite forallb_forall in T. specialize (T _ Hrow). unfold row_ok in T. rewrite <- Hv, <- Hf in T.
  rewrite forallb_forall in T. specialize (T e Hein). unfold entry_ok in T.
  destruct (run v fl (fst e)) as [r|w] eqn:Er; [|discriminate T].
  rewrite forallb_forall in T. exists (fst e), r. split; [exact Er | apply T; exact Hoin].
Qed.

Lemma frame_witness_gen : frames_ok = true -> forall v, v_ge4 v = true ->
  exists s1 s2 r1 r2, run v false s1 = Ok r1 /\ g_framed r1 = true /\ occurs FRAME (g_out r1) = true
                   /\ run v false s2 = Ok r2 /\ g_framed r2 = false /\ occurs FRAME (g_out r2) = false.
Proof.
  intros F v Hv. unfold frames_ok in F. rewrite forallb_forall in F.
  specialize (F v (all_versions_complete v)). rewrite Hv in F. cbn [implb] in F.
  apply existsb_exists in F. destruct F as (f & _ & H). unfold frame_row_ok in H.
  apply andb_prop in H. destruct H as [H H2]. apply andb_prop in H. destruct H as [_ H1].
  destruct (run v false (snd (fst f))) as [r1|] eqn:E1; [|discriminate H1].
  destruct (run v false (snd f)) as [r2|] eqn:E2; [|discriminate H2].
  apply andb_prop in H1. destruct H1 as [A1 B1]. apply andb_prop in H2. destruct H2 as [A2 B2].
  exists (snd (fst f)), (snd f), r1, r2. repeat split; try assumption; [apply negb_true_iff; exact A2 | apply negb_true_iff; exact B2].
Qed.
End Generic.

