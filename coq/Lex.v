(* Byte level: the encoder the emitters implement (encode) and an independent lexer
   (lex_one / lex) written from pickletools' argument readers with the domain checks of
   property C04.  Bytes are N values below 256.  Definitions only. *)
From Coq Require Import List NArith ZArith Bool.
Import ListNotations.
From PF Require Import Opcodes RefTable Config.
Local Open Scope N_scope.

(* ---------- little/big endian ---------- *)
Fixpoint le_bytes (n : nat) (x : N) : list N :=
  match n with
  | O => []
  | S k => N.land x 255 :: le_bytes k (N.shiftr x 8)
  end.

Fixpoint le_val (l : list N) : N :=
  match l with
  | [] => 0
  | b :: r => b + 256 * le_val r
  end.

Definition be_bytes (n : nat) (x : N) : list N := rev (le_bytes n x).
Definition be_val (l : list N) : N := le_val (rev l).

(* two's complement on w bits *)
Definition to_unsigned (w : N) (z : Z) : N := Z.to_N (Z.modulo z (Z.of_N (2 ^ w))).
Definition to_signed (w : N) (x : N) : Z :=
  if x <? 2 ^ (w - 1) then Z.of_N x else (Z.of_N x - Z.of_N (2 ^ w))%Z.

(* ---------- decimal text ---------- *)
Definition digit (d : N) : N := 48 + d.

Fixpoint dec_digits (fuel : nat) (n : N) (acc : list N) : list N :=
  match fuel with
  | O => acc
  | S f => let acc' := digit (n mod 10) :: acc in
           if n <? 10 then acc' else dec_digits f (n / 10) acc'
  end.

(* Rust's Display for unsigned integers *)
Definition print_N (n : N) : list N := dec_digits (S (N.to_nat (N.log2 n))) n [].
(* Rust's Display for signed integers *)
Definition print_Z (z : Z) : list N :=
  match z with
  | Zneg p => 45 :: print_N (Npos p)
  | _ => print_N (Z.to_N z)
  end.

Definition is_digit (b : N) : bool := (48 <=? b) && (b <=? 57).

Fixpoint parse_digits (l : list N) (acc : N) : option N :=
  match l with
  | [] => Some acc
  | b :: r => if is_digit b then parse_digits r (10 * acc + (b - 48)) else None
  end.

(* one or more decimal digits *)
Definition parse_N (l : list N) : option N :=
  match l with [] => None | _ => parse_digits l 0 end.

(* -?[0-9]+ *)
Definition parse_Z (l : list N) : option Z :=
  match l with
  | b :: r =>
      if b =? 45 then
        match parse_N r with
        | Some n => Some (- Z.of_N n)%Z
        | None => None
        end
      else match parse_N l with Some n => Some (Z.of_N n) | None => None end
  | [] => None
  end.

(* the rest of l after the prefix pre, if l starts with it *)
Fixpoint strip_prefix (pre l : list N) : option (list N) :=
  match pre with
  | [] => Some l
  | a :: pre' => match l with
                 | b :: l' => if a =? b then strip_prefix pre' l' else None
                 | [] => None
                 end
  end.

(* l without its last element, if that element is c *)
Definition strip_last (c : N) (l : list N) : option (list N) :=
  match rev l with
  | b :: r => if b =? c then Some (rev r) else None
  | [] => None
  end.

(* ---------- lines ---------- *)
Fixpoint read_line (l : list N) : option (list N * list N) :=
  match l with
  | [] => None
  | b :: r => if b =? 10 then Some ([], r)
              else match read_line r with
                   | Some (ln, rest) => Some (b :: ln, rest)
                   | None => None
                   end
  end.

(* the next n bytes, or None when fewer are left (structural on the input, so a huge
   length prefix costs nothing) *)
Fixpoint take_n (n : N) (l : list N) {struct l} : option (list N * list N) :=
  if n =? 0 then Some ([], l)
  else match l with
       | [] => None
       | b :: r => match take_n (n - 1) r with
                   | Some (x, rest) => Some (b :: x, rest)
                   | None => None
                   end
       end.

(* ---------- STRING: quoting and escapes (codecs.escape_decode, restricted) ---------- *)
(* emission.rs: backslash, quote, LF, CR, TAB are escaped *)
Fixpoint escape_str (s : list N) : list N :=
  match s with
  | [] => []
  | b :: r =>
      (if b =? 92 then [92; 92]
       else if b =? 39 then [92; 39]
       else if b =? 10 then [92; 110]
       else if b =? 13 then [92; 114]
       else if b =? 9 then [92; 116]
       else [b]) ++ escape_str r
  end.

Definition hexval (b : N) : option N :=
  if is_digit b then Some (b - 48)
  else if (97 <=? b) && (b <=? 102) then Some (b - 87)
  else if (65 <=? b) && (b <=? 70) then Some (b - 55)
  else None.

(* accepted escapes: backslash followed by backslash, single quote, double quote, n, r, t or
   xHH; anything else after a backslash, and a trailing backslash, is rejected (a deliberate
   subset of what CPython tolerates) *)
Fixpoint unescape (fuel : nat) (s : list N) : option (list N) :=
  match fuel with
  | O => None
  | S f =>
      match s with
      | [] => Some []
      | b :: r =>
          if b =? 92 then
            match r with
            | [] => None
            | c :: r' =>
                let k x := match unescape f r' with Some t => Some (x :: t) | None => None end in
                if c =? 92 then k 92
                else if c =? 39 then k 39
                else if c =? 34 then k 34
                else if c =? 110 then k 10
                else if c =? 114 then k 13
                else if c =? 116 then k 9
                else if c =? 120 then
                  match r' with
                  | h1 :: h2 :: r'' =>
                      match hexval h1, hexval h2, unescape f r'' with
                      | Some a, Some b, Some t => Some (16 * a + b :: t)
                      | _, _, _ => None
                      end
                  | _ => None
                  end
                else None
            end
          else match unescape f r with Some t => Some (b :: t) | None => None end
      end
  end.

(* the line must start and end with the same quote character (39 or 34) *)
Definition unquote (ln : list N) : option (list N) :=
  match ln with
  | q :: r => if (q =? 39) || (q =? 34) then strip_last q r else None
  | [] => None
  end.

(* ---------- UNICODE: raw-unicode-escape well-formedness ---------- *)
Fixpoint all_hex (n : nat) (l : list N) : option (N * list N) :=
  match n with
  | O => Some (0, l)
  | S k => match l with
           | h :: r => match hexval h, all_hex k r with
                       | Some a, Some (v, rest) => Some (a * 16 ^ N.of_nat k + v, rest)
                       | _, _ => None
                       end
           | [] => None
           end
  end.

(* odd : are we right after an odd-length run of backslashes? *)
Fixpoint raw_unicode_ok (fuel : nat) (odd : bool) (l : list N) : bool :=
  match fuel with
  | O => false
  | S f =>
      match l with
      | [] => true
      | b :: r =>
          if b =? 92 then raw_unicode_ok f (negb odd) r
          else if odd && (b =? 117) then
            match all_hex 4 r with Some (_, rest) => raw_unicode_ok f false rest | None => false end
          else if odd && (b =? 85) then
            match all_hex 8 r with
            | Some (v, rest) => (v <=? 1114111) && raw_unicode_ok f false rest
            | None => false
            end
          else raw_unicode_ok f false r
      end
  end.

(* ---------- UTF-8 (surrogates allowed, as with errors='surrogatepass') ---------- *)
Definition cont (b : N) : bool := (128 <=? b) && (b <=? 191).

Fixpoint utf8_ok (fuel : nat) (l : list N) : bool :=
  match fuel with
  | O => false
  | S f =>
      match l with
      | [] => true
      | b :: r =>
          if b <? 128 then utf8_ok f r
          else if (194 <=? b) && (b <=? 223) then
            match r with c1 :: r1 => cont c1 && utf8_ok f r1 | _ => false end
          else if (224 <=? b) && (b <=? 239) then
            match r with
            | c1 :: c2 :: r2 =>
                (if b =? 224 then (160 <=? c1) && (c1 <=? 191) else cont c1) && cont c2 && utf8_ok f r2
            | _ => false
            end
          else if (240 <=? b) && (b <=? 244) then
            match r with
            | c1 :: c2 :: c3 :: r3 =>
                (if b =? 240 then (144 <=? c1) && (c1 <=? 191)
                 else if b =? 244 then (128 <=? c1) && (c1 <=? 143) else cont c1)
                && cont c2 && cont c3 && utf8_ok f r3
            | _ => false
            end
          else false
      end
  end.

(* ---------- float literals ---------- *)
Fixpoint all_digits (l : list N) : bool :=
  match l with [] => true | b :: r => is_digit b && all_digits r end.

Fixpoint split_at (c : N) (l : list N) : option (list N * list N) :=
  match l with
  | [] => None
  | b :: r => if b =? c then Some ([], r)
              else match split_at c r with
                   | Some (x, y) => Some (b :: x, y)
                   | None => None
                   end
  end.

Definition nonempty_digits (l : list N) : bool :=
  match l with [] => false | _ => all_digits l end.

(* [-]d+[.d+][e[+-]d+] | NaN | nan | inf | -inf *)
Definition mantissa_ok (l : list N) : bool :=
  match split_at 46 l with
  | Some (i, f) => nonempty_digits i && nonempty_digits f
  | None => nonempty_digits l
  end.

Definition exponent_ok (e : list N) : bool :=
  match e with
  | b :: d => if (b =? 43) || (b =? 45) then nonempty_digits d else nonempty_digits e
  | [] => false
  end.

Definition unsigned_float_ok (l : list N) : bool :=
  match split_at 101 l with
  | Some (m, e) => mantissa_ok m && exponent_ok e
  | None => mantissa_ok l
  end.

Definition list_eqb (a b : list N) : bool :=
  (N.of_nat (length a) =? N.of_nat (length b)) && forallb (fun p => fst p =? snd p) (combine a b).

Definition float_text_ok (l : list N) : bool :=
  list_eqb l [78; 97; 78] || list_eqb l [110; 97; 110]
  || list_eqb l [105; 110; 102] || list_eqb l [45; 105; 110; 102]
  || match l with
     | b :: r => if b =? 45 then unsigned_float_ok r else unsigned_float_ok l
     | [] => false
     end.

(* ---------- encode: what the emitters append for a token ---------- *)
Definition nl : list N := [10].

Definition encode_arg (o : opcode) (a : arg) : list N :=
  match o, a with
  | INT, AZ z => print_Z z ++ nl
  | LONG, AZ z => print_Z z ++ [76] ++ nl
  | LONG1, AZ z => [4] ++ le_bytes 4 (to_unsigned 32 z)
  | LONG4, AZ z => le_bytes 4 4 ++ le_bytes 4 (to_unsigned 32 z)
  | BININT, AZ z => le_bytes 4 (to_unsigned 32 z)
  | BININT1, AU n => le_bytes 1 n
  | BININT2, AU n => le_bytes 2 n
  | FLOAT, AB txt => txt ++ nl
  | BINFLOAT, AF bits => be_bytes 8 bits
  | STRING, AB s => [39] ++ escape_str s ++ [39] ++ nl
  | UNICODE, AB raw => raw ++ nl
  | SHORT_BINUNICODE, AB p | SHORT_BINSTRING, AB p | SHORT_BINBYTES, AB p =>
      le_bytes 1 (N.of_nat (length p)) ++ p
  | BINUNICODE, AB p | BINSTRING, AB p | BINBYTES, AB p => le_bytes 4 (N.of_nat (length p)) ++ p
  | BINUNICODE8, AB p | BINBYTES8, AB p | BYTEARRAY8, AB p => le_bytes 8 (N.of_nat (length p)) ++ p
  | GLOBAL, AP m a | INST, AP m a => m ++ nl ++ a ++ nl
  | PERSID, AB p => p ++ nl
  | PUT, AU n | GET, AU n => print_N n ++ nl
  | BINPUT, AU n | BINGET, AU n => le_bytes 1 n
  | LONG_BINPUT, AU n | LONG_BINGET, AU n => le_bytes 4 n
  | EXT1, AU n => le_bytes 1 n
  | EXT2, AU n => le_bytes 2 n
  | EXT4, AZ z => le_bytes 4 (to_unsigned 32 z)
  | PROTO, AU n => le_bytes 1 n
  | FRAME, AU n => le_bytes 8 n
  | _, _ => []
  end.

Definition encode (t : token) : list N := ref_code (fst t) :: encode_arg (fst t) (snd t).

Definition serialize (ts : list token) : list N := flat_map encode ts.

(* ---------- lexer: one opcode with its argument ---------- *)
Definition opcode_of_byte (b : N) : option opcode :=
  find (fun o => ref_code o =? b) all_opcodes.

Definition get_uint (n : nat) (l : list N) : option (N * list N) :=
  match take_n (N.of_nat n) l with
  | Some (bs, rest) => Some (le_val bs, rest)
  | None => None
  end.

Definition get_int4 (l : list N) : option (Z * list N) :=
  match get_uint 4 l with
  | Some (x, rest) => Some (to_signed 32 x, rest)
  | None => None
  end.

Definition get_counted (w : nat) (l : list N) : option (list N * list N) :=
  match get_uint w l with
  | Some (n, rest) => take_n n rest
  | None => None
  end.

(* pickletools decodes the text arguments of STRING (after unescaping), PERSID, GLOBAL and INST as ASCII, and runs
   the latter three through the escape decoder too (read_stringnl(decode=True)): bytes >= 0x80 are rejected, and a backslash
   in a name would be read as an escape.  The formal lexer therefore accepts only 7-bit text there, and no backslash in
   the unquoted forms (found by validating this lexer against pickletools.genops, suite `ref`). *)
Definition ascii7 (l : list N) : bool := forallb (fun b => b <? 128) l.
Definition line_plain (l : list N) : bool := forallb (fun b => (b <? 128) && negb (b =? 92)) l.

Definition read_arg (r : argreader) (l : list N) : option (arg * list N) :=
  match r with
  | no_arg => Some (A0, l)
  | rd_uint1 => match get_uint 1 l with Some (n, rest) => Some (AU n, rest) | None => None end
  | rd_uint2 => match get_uint 2 l with Some (n, rest) => Some (AU n, rest) | None => None end
  | rd_uint4 => match get_uint 4 l with Some (n, rest) => Some (AU n, rest) | None => None end
  | rd_uint8 => match get_uint 8 l with Some (n, rest) => Some (AU n, rest) | None => None end
  | rd_int4 => match get_int4 l with Some (z, rest) => Some (AZ z, rest) | None => None end
  | rd_decimalnl_short =>
      match read_line l with
      | Some (ln, rest) => match parse_Z ln with Some z => Some (AZ z, rest) | None => None end
      | None => None
      end
  | rd_decimalnl_long =>
      match read_line l with
      | Some (ln, rest) =>
          let body := match strip_last 76 ln with Some b => b | None => ln end in
          match parse_Z body with Some z => Some (AZ z, rest) | None => None end
      | None => None
      end
  | rd_stringnl =>
      match read_line l with
      | Some (ln, rest) =>
          match unquote ln with
          | Some body => match unescape (S (length body)) body with
                         | Some s => if ascii7 s then Some (AB s, rest) else None
                         | None => None
                         end
          | None => None
          end
      | None => None
      end
  | rd_stringnl_noescape =>
      match read_line l with Some (ln, rest) => if line_plain ln then Some (AB ln, rest) else None | None => None end
  | rd_stringnl_noescape_pair =>
      match read_line l with
      | Some (m, rest) => match read_line rest with
                          | Some (a, rest') => if line_plain m && line_plain a then Some (AP m a, rest') else None
                          | None => None
                          end
      | None => None
      end
  | rd_unicodestringnl =>
      match read_line l with
      | Some (ln, rest) => if raw_unicode_ok (S (length ln)) false ln then Some (AB ln, rest) else None
      | None => None
      end
  | rd_string1 | rd_bytes1 =>
      match get_counted 1 l with Some (p, rest) => Some (AB p, rest) | None => None end
  | rd_string4 =>
      match get_int4 l with
      | Some (n, rest) =>
          if (n <? 0)%Z then None
          else match take_n (Z.to_N n) rest with Some (p, rest') => Some (AB p, rest') | None => None end
      | None => None
      end
  | rd_bytes4 =>
      match get_counted 4 l with Some (p, rest) => Some (AB p, rest) | None => None end
  | rd_bytes8 | rd_bytearray8 =>
      match get_counted 8 l with Some (p, rest) => Some (AB p, rest) | None => None end
  | rd_unicodestring1 =>
      match get_counted 1 l with
      | Some (p, rest) => if utf8_ok (S (length p)) p then Some (AB p, rest) else None
      | None => None
      end
  | rd_unicodestring4 =>
      match get_counted 4 l with
      | Some (p, rest) => if utf8_ok (S (length p)) p then Some (AB p, rest) else None
      | None => None
      end
  | rd_unicodestring8 =>
      match get_counted 8 l with
      | Some (p, rest) => if utf8_ok (S (length p)) p then Some (AB p, rest) else None
      | None => None
      end
  | rd_floatnl =>
      match read_line l with
      | Some (ln, rest) => if float_text_ok ln then Some (AB ln, rest) else None
      | None => None
      end
  | rd_float8 =>
      match take_n 8 l with Some (bs, rest) => Some (AF (be_val bs), rest) | None => None end
  | rd_long1 =>
      match get_counted 1 l with
      | Some (p, rest) =>
          Some (AZ (match p with [] => 0%Z | _ => to_signed (8 * N.of_nat (length p)) (le_val p) end), rest)
      | None => None
      end
  | rd_long4 =>
      match get_int4 l with
      | Some (n, rest) =>
          if (n <? 0)%Z then None
          else match take_n (Z.to_N n) rest with
               | Some (p, rest') =>
                   Some (AZ (match p with [] => 0%Z | _ => to_signed (8 * N.of_nat (length p)) (le_val p) end), rest')
               | None => None
               end
      | None => None
      end
  end.

(* domain restrictions beyond the readers (C04): memo indices non-negative, EXT codes >= 1 *)
Definition normalize (o : opcode) (a : arg) : option arg :=
  match o, a with
  | (GET | PUT), AZ z => if (z <? 0)%Z then None else Some (AU (Z.to_N z))
  | (EXT1 | EXT2), AU n => if n <? 1 then None else Some a
  | EXT4, AZ z => if (z <? 1)%Z then None else Some a
  | _, _ => Some a
  end.

Definition lex_one (l : list N) : option (token * list N) :=
  match l with
  | [] => None
  | b :: r =>
      match opcode_of_byte b with
      | None => None
      | Some o =>
          match read_arg (ref_reader o) r with
          | None => None
          | Some (a, rest) =>
              match normalize o a with
              | Some a' => Some ((o, a'), rest)
              | None => None
              end
          end
      end
  end.

(* whole stream: consumed exactly, ends at the first STOP, nothing after it *)
Fixpoint lex (fuel : nat) (l : list N) : option (list token) :=
  match fuel with
  | O => None
  | S f =>
      match lex_one l with
      | None => None
      | Some (t, rest) =>
          match fst t with
          | STOP => match rest with [] => Some [t] | _ => None end
          | _ => match lex f rest with
                 | Some ts => Some (t :: ts)
                 | None => None
                 end
          end
      end
  end.

Definition lex_all (l : list N) : option (list token) := lex (S (length l)) l.
