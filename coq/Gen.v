(* Level F, part 3: the emitters (src/generator/emission.rs), the driver loop
   (src/generator/core.rs) and the Generator API (src/generator/mod.rs) - bit exact: given the
   configuration and the entropy input it computes the very bytes Generator::generate* returns.
   Two external functions are parameters (record env): the stdlib name table and Rust's
   Display for f64.  Definitions only. *)
From Coq Require Import List NArith ZArith Bool.
Import ListNotations.
From PF Require Import Opcodes RefTable Config Sim Lex Entropy Mutators.
Local Open Scope N_scope.

Record env : Type := {
  stdlib : list (list N);         (* data/stdlib_complete.txt, one entry per line *)
  fmt_f64 : N -> list N           (* format!("{}", f64::from_bits(b)) *)
}.

(* what one emission did, for the trace comparison *)
Record emitted : Type := {
  e_tok : option token;           (* the opcode with its argument as simulated; None = nothing emitted *)
  e_orig : list N;                (* bytes appended by the emitter *)
  e_final : list N;               (* bytes standing after post-processing *)
  e_muts : N;                     (* value mutations applied *)
  e_rewrites : N                  (* post_process calls that rewrote the bytes *)
}.

Fixpoint repeat_res {A : Type} (n : nat) (f : source -> res (A * source)) (s : source)
  : res (list A * source) :=
  match n with
  | O => Ok ([], s)
  | S k => do (a, s1) <- f s; do (l, s2) <- repeat_res k f s1; Ok (a :: l, s2)
  end.

Fixpoint double_bs (l : list N) : list N :=
  match l with
  | [] => []
  | b :: r => if b =? 92 then 92 :: 92 :: double_bs r else b :: double_bs r
  end.

(* get_random_module: "module\nattr\n" from a table line split at the first '.' *)
Definition object_name : list N := [111; 98; 106; 101; 99; 116].
Definition split_name (line : list N) : list N * list N :=
  match split_at 46 line with
  | Some (m, a) => (m, a)
  | None => (line, object_name)
  end.

Definition random_module (e : env) (s : source) : res (list N * list N * source) :=
  do (i, s1) <- choose_index (N.of_nat (length (stdlib e))) s;
  do line <- nth_res (stdlib e) i;
  let (m, a) := split_name line in Ok (m, a, s1).

Definition pid_prefix_bytes : list N := [112; 105; 100; 95].   (* "pid_" *)

Definition int_cands (v : version) : list opcode := filter int_like (row v).

Definition bool_n (b : bool) : N := if b then 1 else 0.

(* sorted memo keys (keys().collect(); sort_unstable()) - the iteration order of the HashMap
   is irrelevant after sorting; ho is the adversarial order in which the keys come out *)
Fixpoint insert_key (k : N) (l : list N) : list N :=
  match l with
  | [] => [k]
  | x :: r => if k <=? x then k :: l else x :: insert_key k r
  end.
Definition sort_keys (l : list N) : list N := fold_right insert_key [] l.
Definition memo_keys (ho : list N -> list N) (s : sim) : list N := sort_keys (ho (map fst (memo s))).

(* the token an emitter produces for opcode o (before process_stack_ops / post-processing) *)
Definition emit_token (e : env) (ho : list N -> list N) (c : config) (s : sim) (o : opcode) (src : source)
  : res (option token * source * N) :=
  let v := c_version c in
  if int_like o then
    let cands := int_cands v in
    do (i, s1) <- choose_index (N.of_nat (length cands)) src;
    do k <- nth_res cands i;
    let (x, s2) := gen_i32 s1 in
    do (r, m) <- mutate_int c x (c_rate c) s2;
    let (x', s3) := r in
    let u := to_unsigned 32 x' in
    let a := match k with
             | BININT1 => AU (N.land u 255)
             | BININT2 => AU (N.land u 65535)
             | _ => AZ x'
             end in
    Ok (Some (k, a), s3, bool_n m)
  else
  match o with
  | FLOAT =>
      let (x, s1) := gen_f64 src in
      do (r, m) <- mutate_float c x (c_rate c) s1;
      let (x', s2) := r in Ok (Some (FLOAT, AB (fmt_f64 e x')), s2, bool_n m)
  | BINFLOAT =>
      let (x, s1) := gen_f64 src in
      do (r, m) <- mutate_float c x (c_rate c) s1;
      let (x', s2) := r in Ok (Some (BINFLOAT, AF x'), s2, bool_n m)
  | STRING | UNICODE | SHORT_BINUNICODE | BINUNICODE | BINUNICODE8 =>
      let (n, s1) := gen_u8 src in
      do (str, s2) <- repeat_res (N.to_nat (n mod 32)) gen_ascii_char s1;
      do (r, m) <- mutate_string c str (c_rate c) s2;
      let (str', s3) := r in
      let bytes := utf8_encode str' in
      let t := match o with
               | STRING => Some (STRING, AB bytes)
               | UNICODE => Some (UNICODE, AB (double_bs bytes))
               | SHORT_BINUNICODE =>
                   if N.of_nat (length bytes) <? 256 then Some (SHORT_BINUNICODE, AB bytes) else None
               | _ => Some (o, AB bytes)
               end in
      Ok (t, s3, bool_n m)
  | BINSTRING | SHORT_BINSTRING | SHORT_BINBYTES | BINBYTES | BINBYTES8 | BYTEARRAY8 =>
      let (n, s1) := gen_u8 src in
      do (bs, s2) <- repeat_res (N.to_nat (n mod 32)) (fun s => Ok (gen_u8 s)) s1;
      do (r, m) <- mutate_bytes c bs (c_rate c) s2;
      let (bs', s3) := r in
      let t := match o with
               | SHORT_BINSTRING | SHORT_BINBYTES =>
                   if N.of_nat (length bs') <? 256 then Some (o, AB bs') else None
               | _ => Some (o, AB bs')
               end in
      Ok (t, s3, bool_n m)
  | GLOBAL | INST =>
      do (r, s1) <- random_module e src;
      let (m, a) := r in Ok (Some (o, AP m a), s1, 0)
  | PUT => Ok (Some (PUT, AU (memo_len s)), src, 0)
  | BINPUT => Ok (Some (BINPUT, AU (memo_len s mod 256)), src, 0)
  | LONG_BINPUT => Ok (Some (LONG_BINPUT, AU (memo_len s mod M32)), src, 0)
  | GET | LONG_BINGET =>
      let keys := memo_keys ho s in
      match keys with
      | [] => Ok (None, src, 0)
      | _ =>
          do (i, s1) <- gen_range 0 (N.of_nat (length keys)) src;
          do idx <- nth_res keys i;
          do (r, m) <- mutate_memo_index c idx (c_rate c) s1;
          let (mi, s2) := r in
          let j := if c_unsafe c || memo_has s mi then mi else idx in
          Ok (Some (o, AU (match o with LONG_BINGET => j mod M32 | _ => j end)), s2, bool_n m)
      end
  | BINGET =>
      let keys := filter (fun k => k <? 256) (memo_keys ho s) in
      match keys with
      | [] => Ok (None, src, 0)
      | _ =>
          do (i, s1) <- gen_range 0 (N.of_nat (length keys)) src;
          do idx <- nth_res keys i;
          do (r, m) <- mutate_memo_index c idx (c_rate c) s1;
          let (mi0, s2) := r in
          let mi := N.min mi0 255 in
          let j := if c_unsafe c || ((mi <? 256) && memo_has s mi) then mi else idx in
          Ok (Some (BINGET, AU (j mod 256)), s2, bool_n m)
      end
  | EXT1 => let (x, s1) := gen_u8 src in Ok (Some (EXT1, AU (N.min (x + 1) 255)), s1, 0)
  | EXT2 => let (x, s1) := gen_u16 src in Ok (Some (EXT2, AU (N.min (x + 1) 65535)), s1, 0)
  | EXT4 => let (x, s1) := gen_u32 src in Ok (Some (EXT4, AZ (Z.of_N (x mod 2147483647 + 1))), s1, 0)
  | PERSID => let (x, s1) := gen_u32 src in Ok (Some (PERSID, AB (pid_prefix_bytes ++ print_N x)), s1, 0)
  | FRAME => Panic P_unreachable
  | _ => Ok (Some (o, A0), src, 0)
  end.

(* emit_and_process: emitter, process_stack_ops (sim_step), post_process_emission *)
Definition emit_and_process (e : env) (ho : list N -> list N) (c : config) (s : sim) (o : opcode)
           (src : source) : res (emitted * sim * source) :=
  do (r, muts) <- emit_token e ho c s o src;
  let (t, s1) := r in
  let orig := match t with Some tk => encode tk | None => [] end in
  let s' := match t with Some tk => sim_step (c_version c) s tk | None => s end in
  do (r2, rw) <- post_process c orig s1;
  let (fin, s2) := r2 in
  Ok ({| e_tok := t; e_orig := orig; e_final := fin; e_muts := muts; e_rewrites := rw |}, s', s2).

(* one iteration of `for _ in 0..target_opcodes` *)
Record loop_state : Type := {
  l_sim : sim;
  l_src : source;
  l_out : list (list N);          (* emitted chunks, newest first *)
  l_trace : list (list opcode * opcode * emitted);   (* newest first *)
  l_stopped : bool                (* the `break` on an empty candidate list *)
}.

Definition loop_body (e : env) (ho : list N -> list N) (c : config) (st : res loop_state) : res loop_state :=
  do l <- st;
  if l_stopped l then Ok l
  else
    let valid := get_valid_opcodes c (l_sim l) in
    match valid with
    | [] => Ok {| l_sim := l_sim l; l_src := l_src l; l_out := l_out l; l_trace := l_trace l; l_stopped := true |}
    | _ =>
        do (i, s1) <- choose_index (N.of_nat (length valid)) (l_src l);
        do o <- nth_res valid i;
        do (r, s2) <- emit_and_process e ho c (l_sim l) o s1;
        let (em, sim') := r in
        Ok {| l_sim := sim'; l_src := s2; l_out := e_final em :: l_out l;
              l_trace := (valid, o, em) :: l_trace l; l_stopped := false |}
    end.

Record gen_result : Type := {
  g_out : list N;
  g_framed : bool;
  g_target : N;
  g_trace : list (list opcode * opcode * emitted);    (* body steps, oldest first *)
  g_tail : list opcode;
  g_sim : sim;                    (* simulated state after STOP *)
  g_src : source                  (* entropy left *)
}.

(* generate_internal from the state reset() leaves *)
Definition generate_internal (e : env) (ho : list N -> list N) (c : config) (src : source) : res gen_result :=
  let v := c_version c in
  let (framed, s0) := if v_ge4 v then gen_bool src else (false, src) in
  let sim0 := {| stk := []; memo := []; proto_emitted := negb (v_lt2 v) |} in
  let range := c_max c - c_min c in
  do (target, s1) <- (if 0 <? range
                      then do (i, s') <- choose_index range s0;
                           if M64 <=? c_min c + i then Panic P_overflow else Ok (c_min c + i, s')
                      else Ok (c_min c, s0));
  do l <- N.iter target (loop_body e ho c)
            (Ok {| l_sim := sim0; l_src := s1; l_out := []; l_trace := []; l_stopped := false |});
  let (tail, sim1) := cleanup_for_stop v (l_sim l) in
  let sim2 := step0 v sim1 STOP in
  let rest := concat (rev (l_out l)) ++ map ref_code tail ++ [ref_code STOP] in
  let hdr := (if v_lt2 v then [] else [ref_code PROTO; vnum v])
             ++ (if framed then ref_code FRAME :: le_bytes 8 (N.of_nat (length rest)) else []) in
  Ok {| g_out := hdr ++ rest; g_framed := framed; g_target := target; g_trace := rev (l_trace l);
        g_tail := tail; g_sim := sim2; g_src := l_src l |}.

(* ---------- the Generator object and its public API (mod.rs) ---------- *)
Record generator : Type := {
  gn_cfg : config;
  gn_sim : sim;                   (* scratch: self.state *)
  gn_output : list N              (* scratch: self.output *)
}.

Definition gen_new (c : config) : generator :=
  {| gn_cfg := c; gn_sim := sim_init; gn_output := [] |}.

Definition gen_reset (g : generator) : generator :=
  {| gn_cfg := gn_cfg g; gn_sim := sim_init; gn_output := [] |}.

Inductive api_call : Type :=
| CGenerate (words : N -> N)          (* generate() with the word stream of the configured seed *)
| CFromBytes (data : list N)          (* generate_from_arbitrary(data) *)
| CReset.

Definition id_order (l : list N) : list N := l.

(* a generation call: generate_internal starts with self.reset(); the scratch fields keep the
   final state of the call *)
Definition gen_call (e : env) (g : generator) (src : source) : res (list N) * generator :=
  let g0 := gen_reset g in
  match generate_internal e id_order (gn_cfg g0) src with
  | Ok r => (Ok (g_out r), {| gn_cfg := gn_cfg g0; gn_sim := g_sim r; gn_output := g_out r |})
  | Panic w => (Panic w, g0)
  end.

Definition api_step (e : env) (g : generator) (call : api_call) : option (res (list N)) * generator :=
  match call with
  | CGenerate f => let (r, g') := gen_call e g (SrcWords f 0) in (Some r, g')
  | CFromBytes d => let (r, g') := gen_call e g (SrcBytes d) in (Some r, g')
  | CReset => (None, gen_reset g)
  end.

Fixpoint run_history (e : env) (g : generator) (h : list api_call) : list (option (res (list N))) * generator :=
  match h with
  | [] => ([], g)
  | call :: rest =>
      let (r, g') := api_step e g call in
      let (rs, g'') := run_history e g' rest in (r :: rs, g'')
  end.

Definition generate (e : env) (c : config) (src : source) : res (list N) :=
  match generate_internal e id_order c src with Ok r => Ok (g_out r) | Panic w => Panic w end.
