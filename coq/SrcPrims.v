(* Integer primitives of Rust that the translated mutators (gen/SrcMutFns.v) are written in:
   i32 / i64 as Z in two's-complement range (width w), usize as N below 2^64.  Definitions only. *)
From Coq Require Import List NArith ZArith Bool.
Import ListNotations.
From PF Require Import Opcodes Config Lex Entropy Mutators.
Local Open Scope N_scope.

(* iN::wrapping_add / wrapping_sub *)
Definition i_wrapping_add (w : N) (a b : Z) : Z := wrap w (a + b)%Z.
Definition i_wrapping_sub (w : N) (a b : Z) : Z := wrap w (a - b)%Z.
(* usize::saturating_add / saturating_sub *)
Definition u_saturating_add (a b : N) : N := if usize_max <? a + b then usize_max else a + b.
Definition u_saturating_sub (a b : N) : N := a - b.
(* a ^ b on iN *)
Definition i_xor (w : N) (a b : Z) : Z := to_signed w (N.lxor (to_unsigned w a) (to_unsigned w b)).
(* a << p on iN: panics when p >= w (builds with overflow checks; never reached: p is drawn below w) *)
Definition i_shl (w : N) (a : Z) (p : N) : res Z :=
  if w <=? p then Panic P_overflow else Ok (to_signed w (N.land (N.shiftl (to_unsigned w a) p) (2 ^ w - 1))).
