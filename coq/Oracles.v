(* Executable forms of the property statements on an output byte string.  The theorems in
   Properties/ are stated with these functions and the check runs the very same functions
   (extracted) over the implementation's outputs. *)
From Coq Require Import List NArith ZArith Bool.
Import ListNotations.
From PF Require Import Opcodes RefTable Config Sim Ref Lex Envelope.
Local Open Scope N_scope.

(* C04: decodes completely, exactly one STOP, last *)
Definition oracle_C04 (out : list N) : bool :=
  match lex_all out with Some _ => true | None => false end.

(* C01: accepted by the reference disassembler's stack check *)
Definition oracle_C01 (out : list N) : bool :=
  match lex_all out with Some ts => ref_accepts ts | None => false end.

(* C02: memo discipline at every step of the reference run *)
Fixpoint memo_run (r : rstate) (ts : list token) : bool :=
  match ts with
  | [] => true
  | t :: rest => memo_ok r t && match ref_step r t with
                               | Some r' => memo_run r' rest
                               | None => false
                               end
  end.
Definition oracle_C02 (out : list N) : bool :=
  match lex_all out with Some ts => memo_run rinit ts | None => false end.

(* C03: kind requirements at every step *)
Definition oracle_C03 (out : list N) : bool :=
  match lex_all out with
  | Some ts => match ref_run_req rinit ts with Some _ => true | None => false end
  | None => false
  end.

(* C05: only opcodes of protocol <= v; PROTO v first iff v >= 2, nowhere else; v = 0 => 7-bit *)
Definition is_proto (t : token) : bool := op_eqb (fst t) PROTO.
Definition header_ok (v : version) (ts : list token) : bool :=
  if v_lt2 v then negb (existsb is_proto ts)
  else match ts with
       | (PROTO, AU n) :: rest => (n =? vnum v) && negb (existsb is_proto rest)
       | _ => false
       end.
Definition oracle_C05 (v : version) (out : list N) : bool :=
  match lex_all out with
  | Some ts =>
      forallb (fun t => ref_proto (fst t) <=? vnum v) ts
      && header_ok v ts
      && match v with V0 => forallb (fun b => b <? 128) out | _ => true end
  | None => false
  end.

(* C06: at most one FRAME; directly after PROTO; its length is exactly the rest of the output *)
Definition is_frame (t : token) : bool := op_eqb (fst t) FRAME.
Definition oracle_C06 (v : version) (out : list N) : bool :=
  match lex_all out with
  | Some ts =>
      if v_ge4 v then
        match ts with
        | (PROTO, _) :: (FRAME, AU n) :: rest =>
            negb (existsb is_frame rest) && (n + 11 =? N.of_nat (length out))
        | _ => negb (existsb is_frame ts)
        end
      else negb (existsb is_frame ts)
  | None => false
  end.

(* C10: opt-in opcodes only when enabled *)
Definition is_ext (t : token) : bool := match fst t with EXT1 | EXT2 | EXT4 => true | _ => false end.
Definition is_buffer (t : token) : bool :=
  match fst t with NEXT_BUFFER | READONLY_BUFFER => true | _ => false end.
Definition oracle_C10 (c : config) (out : list N) : bool :=
  match lex_all out with
  | Some ts => (c_ext c || negb (existsb is_ext ts)) && (c_buf c || negb (existsb is_buffer ts))
  | None => false
  end.

(* C11: size bounds that follow from the knobs: min+1 <= #opcodes <= 3*max(min,max)+4 *)
Definition oracle_C11 (c : config) (out : list N) : bool :=
  match lex_all out with
  | Some ts =>
      let n := N.of_nat (length ts) in
      (c_min c + 1 <=? n) && (n <=? 3 * N.max (c_min c) (c_max c) + 4)
  | None => false
  end.
