(* Executable forms of the property statements on an output byte string.  The theorems in
   Properties/ are stated with these functions and the check runs the very same functions
   (extracted) over the implementation's outputs. *)
From Coq Require Import List NArith ZArith Bool.
Import ListNotations.
From PF Require Import Opcodes RefTable Config Sim Ref Lex Envelope Entropy Mutators.
Local Open Scope N_scope.

(* C04: decodes completely, exactly one STOP, last *)
Definition oracle_C04 (out : list N) : bool :=
  match lex_all out with Some _ => true | None => false end.

(* C01: accepted by the reference disassembler's stack check *)
Definition oracle_C01 (out : list N) : bool :=
  match lex_all out with Some ts => ref_accepts ts | None => false end.

(* C02: memo discipline at every step of the reference run *)
Fixpoint memo_run (r : rstate) (ts : list token) : bool :=
  match ts with
  | [] => true
  | t :: rest => memo_ok r t && match ref_step r t with
                               | Some r' => memo_run r' rest
                               | None => false
                               end
  end.
Definition oracle_C02 (out : list N) : bool :=
  match lex_all out with Some ts => memo_run rinit ts | None => false end.

(* C03: kind requirements at every step *)
Definition oracle_C03 (out : list N) : bool :=
  match lex_all out with
  | Some ts => match ref_run_req rinit ts with Some _ => true | None => false end
  | None => false
  end.

(* C05: only opcodes of protocol <= v; PROTO v first iff v >= 2, nowhere else; v = 0 => 7-bit *)
Definition is_proto (t : token) : bool := op_eqb (fst t) PROTO.
Definition header_ok (v : version) (ts : list token) : bool :=
  if v_lt2 v then negb (existsb is_proto ts)
  else match ts with
       | (PROTO, AU n) :: rest => (n =? vnum v) && negb (existsb is_proto rest)
       | _ => false
       end.
Definition oracle_C05 (v : version) (out : list N) : bool :=
  match lex_all out with
  | Some ts =>
      forallb (fun t => ref_proto (fst t) <=? vnum v) ts
      && header_ok v ts
      && match v with V0 => forallb (fun b => b <? 128) out | _ => true end
  | None => false
  end.

(* C06: at most one FRAME; directly after PROTO; its length is exactly the rest of the output *)
Definition is_frame (t : token) : bool := op_eqb (fst t) FRAME.
Definition oracle_C06 (v : version) (out : list N) : bool :=
  match lex_all out with
  | Some ts =>
      if v_ge4 v then
        match ts with
        | (PROTO, _) :: (FRAME, AU n) :: rest =>
            negb (existsb is_frame rest) && (n + 11 =? N.of_nat (length out))
        | _ => negb (existsb is_frame ts)
        end
      else negb (existsb is_frame ts)
  | None => false
  end.

(* C10: opt-in opcodes only when enabled *)
Definition is_ext (t : token) : bool := match fst t with EXT1 | EXT2 | EXT4 => true | _ => false end.
Definition is_buffer (t : token) : bool :=
  match fst t with NEXT_BUFFER | READONLY_BUFFER => true | _ => false end.
Definition oracle_C10 (c : config) (out : list N) : bool :=
  match lex_all out with
  | Some ts => (c_ext c || negb (existsb is_ext ts)) && (c_buf c || negb (existsb is_buffer ts))
  | None => false
  end.

(* C11: size bounds that follow from the knobs: min+1 <= #opcodes <= 3*max(min,max)+4 *)
Definition oracle_C11 (c : config) (out : list N) : bool :=
  match lex_all out with
  | Some ts =>
      let n := N.of_nat (length ts) in
      (c_min c + 1 <=? n) && (n <=? 3 * N.max (c_min c) (c_max c) + 4)
  | None => false
  end.

(* ---------- C18: what a correct adapter result looks like (run on the implementation's results) ---------- *)
Definition ok_choose_index (n v : N) : bool := if n =? 0 then v =? 0 else v <? n.
Definition ok_gen_range (a b v : N) : bool := if b <=? a then v =? a else (a <=? v) && (v <? b).
Definition ok_ascii (c : N) : bool := (32 <=? c) && (c <=? 126).
Definition ok_bytes (len : N) (bs : list N) : bool := N.of_nat (length bs) =? len.

(* ---------- C16: the documented contract of each mutator, as a check of (input, output) ---------- *)
Fixpoint n_range (n : nat) : list N :=      (* [0; 1; ...; n-1] *)
  match n with O => [] | S k => n_range k ++ [N.of_nat k] end.

Definition one_bit_apart (w : N) (v v' : Z) : bool :=
  existsb (fun k => N.lxor (to_unsigned w v) (to_unsigned w v') =? 2 ^ k) (n_range (N.to_nat w)).

Definition contract_int (w : N) (bounds : list Z) (m : mutator) (v v' : Z) : bool :=
  match m with
  | MBitflip => one_bit_apart w v v'
  | MBoundary => existsb (Z.eqb v') bounds
  | MOffByOne => Z.eqb v' (wrap w (v + 1)) || Z.eqb v' (wrap w (v - 1))
  | _ => false
  end.

Definition contract_float (m : mutator) (v' : N) : bool :=
  match m with MBoundary => existsb (N.eqb v') float_boundaries | _ => false end.

Fixpoint is_prefix (a b : list N) : bool :=      (* a is a prefix of b *)
  match a, b with
  | [], _ => true
  | x :: a', y :: b' => (x =? y) && is_prefix a' b'
  | _ :: _, [] => false
  end.

(* number of positions at which two lists of equal length differ, and a check of the new items *)
Fixpoint diff_ok (p : N -> bool) (a b : list N) : option nat :=
  match a, b with
  | [], [] => Some O
  | x :: a', y :: b' =>
      match diff_ok p a' b' with
      | Some n => if x =? y then Some n else if p y then Some (S n) else None
      | None => None
      end
  | _, _ => None
  end.

Definition contract_seq (is_str : bool) (m : mutator) (v v' : list N) : bool :=
  match m with
  | MStringLen =>
      is_prefix v' v
      || list_eqb v' (v ++ v)
      || (is_prefix v v'
          && let ext := skipn (length v) v' in
             Nat.leb 1 (length ext) && Nat.leb (length ext) 9
             && forallb (fun c => if is_str then (97 <=? c) && (c <=? 122) else c <? 256) ext)
  | MCharacter =>
      match diff_ok (fun c => if is_str then (33 <=? c) && (c <=? 126) else c <? 256) v v' with
      | Some n => Nat.leb n 1 && negb (Nat.eqb (length v) 0)
      | None => false
      end
  | _ => false
  end.

Definition contract_memo (m : mutator) (v v' : N) : bool :=
  match m with
  | MOffByOne => (v' =? sat_add1 v) || (v' =? sat_sub1 v)
  | MMemoIndex false => (v' =? sat_add1 v) || (v' =? sat_sub1 v) || (v' =? v)
  | MMemoIndex true => v' <? 1000
  | _ => false
  end.

(* TypeConfusion::post_process: delta = the bytes just emitted, res = what stands afterwards *)
Definition contract_post (m : mutator) (delta res : list N) (fired : bool) : bool :=
  match m with
  | MTypeConf true =>
      if fired then
        match delta with
        | b :: _ =>
            negb (byte_type b =? 0)
            && match lex_one res with
               | Some (t, []) => typeconf_repl t && negb (stack_type (fst t) =? byte_type b)
                                 && list_eqb (encode t) res
               | _ => false
               end
        | [] => false
        end
      else list_eqb res delta
  | _ => negb fired && list_eqb res delta
  end.

(* C15: which mutators implement which value method (the others return None without drawing) *)
Definition applies_int (m : mutator) : bool :=
  match m with MBitflip | MBoundary | MOffByOne => true | _ => false end.
Definition applies_float (m : mutator) : bool := match m with MBoundary => true | _ => false end.
Definition applies_seq (m : mutator) (v : list N) : bool :=
  match m with MStringLen => true | MCharacter => negb (Nat.eqb (length v) 0) | _ => false end.
Definition applies_memo (m : mutator) : bool :=
  match m with MOffByOne | MMemoIndex _ => true | _ => false end.
