(* C12 (i): for every opcode of a protocol's vocabulary an explicit opcode path from the empty
   stack that ends with it, each step passing the guard function.  Definitions only; the theorem
   (Properties/C12.v) evaluates them against the can_emit REGENERATED from validation.rs. *)
From Coq Require Import List NArith ZArith Bool.
Import ListNotations.
From PF Require Import Opcodes RefTable Config Sim.

Definition tk0 (o : opcode) : token :=
  (o, match o with
      | PUT | BINPUT | LONG_BINPUT | GET | BINGET | LONG_BINGET => AU 0
      | INT => AZ 5
      | _ => A0
      end).

Definition mk_list := [MARK; LIST].
Definition mk_tuple := [MARK; TUPLE].
Definition mk_dict := [MARK; NONE; NONE; DICT].

(* opcodes used to set the stage are of protocol <= that of the target *)
Definition witness_ops (o : opcode) : list opcode :=
  match o with
  | POP | DUP | TUPLE1 | BINPERSID | PUT | BINPUT | LONG_BINPUT | MEMOIZE => [NONE; o]
  | TUPLE2 => [NONE; NONE; o]
  | TUPLE3 => [NONE; NONE; NONE; o]
  | APPEND => mk_list ++ [NONE; o]
  | SETITEM => mk_dict ++ [NONE; NONE; o]
  | LIST | TUPLE | FROZENSET | POP_MARK => [MARK; o]
  | DICT => [MARK; NONE; NONE; o]
  | APPENDS => mk_list ++ [MARK; NONE; o]
  | SETITEMS => mk_dict ++ [MARK; NONE; NONE; o]
  | ADDITEMS => [EMPTY_SET; MARK; NONE; o]
  | GET | BINGET | LONG_BINGET => [NONE; PUT; o]
  | INST => [MARK; NONE; o]
  | OBJ => [MARK; GLOBAL; o]
  | REDUCE | NEWOBJ => [GLOBAL] ++ mk_tuple ++ [o]
  | NEWOBJ_EX => [GLOBAL] ++ mk_tuple ++ mk_dict ++ [o]
  | BUILD => [GLOBAL] ++ mk_tuple ++ [REDUCE] ++ mk_tuple ++ [o]
  | STACK_GLOBAL => [UNICODE; UNICODE; o]
  | READONLY_BUFFER => [BINBYTES; o]
  | _ => [o]
  end.

Definition witness (o : opcode) : list token := map tk0 (witness_ops o).

(* every step's opcode is in the protocol's row and passes the guard in the state reached *)
Fixpoint path_valid (ce : config -> sim -> opcode -> bool) (rw : list opcode) (c : config) (s : sim) (p : list token) : bool :=
  match p with
  | [] => true
  | t :: r => existsb (op_eqb (fst t)) rw && ce c s (fst t) && path_valid ce rw c (sim_step (c_version c) s t) r
  end.

Definition start_state (v : version) : sim := {| stk := []; memo := []; proto_emitted := negb (v_lt2 v) |}.

Definition driver_emitted (o : opcode) : bool := match o with PROTO | FRAME | STOP => true | _ => false end.
Definition flag_ok (c : config) (o : opcode) : bool :=
  match o with
  | EXT1 | EXT2 | EXT4 => c_ext c
  | NEXT_BUFFER | READONLY_BUFFER => c_buf c
  | _ => true
  end.

Definition default_cfg (v : version) (ext buf : bool) : config :=
  {| c_version := v; c_min := 60; c_max := 300; c_mutators := []; c_rate := 4591870180066957722;
     c_unsafe := false; c_ext := ext; c_buf := buf |}.

(* the whole table at once, for one protocol and one setting of the two opt-in flags *)
Definition witnesses_ok (ce : config -> sim -> opcode -> bool) (rw : version -> list opcode) (v : version) (ext buf : bool) : bool :=
  let c := default_cfg v ext buf in
  forallb (fun o =>
    negb (existsb (op_eqb o) (rw v)) || driver_emitted o || negb (flag_ok c o)
    || (path_valid ce (rw v) c (start_state v) (witness o)
        && match rev (witness_ops o) with x :: _ => op_eqb x o | [] => false end)) all_opcodes.
