(* Configuration, kinds, tokens: the vocabulary shared by the model (Sim/Emit/Driver) and
   the specification (Ref). Plain definitions only. *)
From Coq Require Import List NArith ZArith Bool.
Import ListNotations.
From PF Require Import Opcodes.

Inductive version : Set := V0 | V1 | V2 | V3 | V4 | V5.

Definition vnum (v : version) : N :=
  match v with V0 => 0 | V1 => 1 | V2 => 2 | V3 => 3 | V4 => 4 | V5 => 5 end%N.

Definition version_of_N (n : N) : option version :=
  match n with
  | 0 => Some V0 | 1 => Some V1 | 2 => Some V2 | 3 => Some V3 | 4 => Some V4 | 5 => Some V5
  | _ => None
  end%N.

Definition v_lt2 (v : version) : bool := match v with V0 | V1 => true | _ => false end.
Definition v_ge4 (v : version) : bool := match v with V4 | V5 => true | _ => false end.

(* src/mutators: the seven mutator implementations; MemoIndex and TypeConfusion carry the
   unsafe_mode flag they were created with *)
Inductive mutator : Set :=
| MBitflip | MBoundary | MOffByOne | MStringLen | MCharacter
| MMemoIndex (unsafe_mode : bool)
| MTypeConf (unsafe_mode : bool).

Definition mutator_unsafe_mode (m : mutator) : bool :=
  match m with MMemoIndex u | MTypeConf u => u | _ => false end.

(* Generator's configuration fields (everything except the scratch state and the seed,
   which only selects the entropy input) *)
Record config : Set := {
  c_version : version;
  c_min : N;
  c_max : N;
  c_mutators : list mutator;
  c_rate : N;            (* f64 bit pattern *)
  c_unsafe : bool;
  c_ext : bool;
  c_buf : bool
}.

(* "without unsafe mutations": the flag is off and no mutator instance was created in
   unsafe mode (what MutatorKind::create(false) and the CLI without --unsafe-mutations give) *)
Definition safeb (c : config) : bool :=
  negb (c_unsafe c) && forallb (fun m => negb (mutator_unsafe_mode m)) (c_mutators c).

(* src/stack.rs StackObject, top-level variant only *)
Inductive kind : Set :=
| KInt | KFloat | KBool | KNone | KBytes | KString | KByteArray
| KList | KTuple | KDict | KSet | KFrozenSet | KMark
| KGlobal | KInstance | KCallable | KExtension | KAny.

Definition kind_index (k : kind) : N :=
  match k with
  | KInt => 0 | KFloat => 1 | KBool => 2 | KNone => 3 | KBytes => 4 | KString => 5
  | KByteArray => 6 | KList => 7 | KTuple => 8 | KDict => 9 | KSet => 10 | KFrozenSet => 11
  | KMark => 12 | KGlobal => 13 | KInstance => 14 | KCallable => 15 | KExtension => 16
  | KAny => 17
  end%N.
Definition kind_eqb (a b : kind) : bool := N.eqb (kind_index a) (kind_index b).

Lemma kind_eqb_eq : forall a b, kind_eqb a b = true <-> a = b.
Proof.
  intros a b; unfold kind_eqb; rewrite N.eqb_eq; split.
  - destruct a; destruct b; simpl; intro H; try reflexivity; discriminate H.
  - intros ->; reflexivity.
Qed.

Definition is_mark (k : kind) : bool := match k with KMark => true | _ => false end.

(* opcode arguments, decoded *)
Inductive arg : Set :=
| A0                        (* no argument *)
| AU (n : N)                (* unsigned number: uint1/2/4/8, decimal memo index, EXT1/2 code *)
| AZ (z : Z)                (* signed number: INT, LONG*, BININT, EXT4 (int4) *)
| AB (b : list N)           (* payload bytes / text line *)
| AF (bits : N)             (* BINFLOAT: the 64 bits *)
| AP (m a : list N).        (* GLOBAL / INST: module line, attribute line *)

Definition token : Set := (opcode * arg)%type.

Definition tok_index (t : token) : N := match snd t with AU n => n | _ => 0 end%N.
