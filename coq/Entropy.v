(* Level F, part 1: the entropy sources and the EntropySource adapter (src/generator/source.rs)
   over arbitrary 1.4.2 (Unstructured: fill_buffer, int_in_range) and rand 0.9.2 on a block
   RNG (a stream of 32-bit words; ChaCha8 itself is not modelled - the harness feeds the word
   stream of a seed).  f64 values are their 64-bit patterns.  Definitions only. *)
From Coq Require Import List NArith ZArith Bool.
Import ListNotations.
From PF Require Import Opcodes Config Lex.
Local Open Scope N_scope.

(* result of an operation that may panic in Rust (index out of bounds, failed assertion,
   arithmetic overflow in a checked build, unreachable!) *)
Inductive res (A : Type) : Type :=
| Ok (a : A)
| Panic (why : N).
Arguments Ok {A} a.
Arguments Panic {A} why.

Definition bind {A B : Type} (r : res A) (f : A -> res B) : res B :=
  match r with Ok a => f a | Panic w => Panic w end.
Notation "'do' x <- r ; k" := (bind r (fun x => k)) (at level 200, x pattern, r at level 100, k at level 200).

(* panic codes *)
Definition P_index : N := 1.        (* slice / Vec index out of bounds *)
Definition P_assert : N := 2.       (* assert! in int_in_range / random_range *)
Definition P_overflow : N := 3.     (* arithmetic overflow with overflow checks on *)
Definition P_unreachable : N := 4.  (* unreachable!() / panic!() *)
Definition P_fuel : N := 5.         (* a model loop ran out of fuel (never an implementation event) *)

Definition nth_res {A : Type} (l : list A) (i : N) : res A :=
  match nth_error l (N.to_nat i) with Some a => Ok a | None => Panic P_index end.

(* ---------- the two sources ---------- *)
Inductive source : Type :=
| SrcBytes (l : list N)               (* GenerationSource::Arbitrary: the remaining fuzzer bytes *)
| SrcWords (f : N -> N) (pos : N).    (* GenerationSource::Rand: word stream and position *)

Definition M64 : N := 2 ^ 64.
Definition M32 : N := 2 ^ 32.
Definition byte (b : N) : N := N.land b 255.
Definition word (f : N -> N) (p : N) : N := N.land (f p) 4294967295.

(* Unstructured::fill_buffer: the next n bytes, zero padded when the input runs out *)
Fixpoint take_pad (n : nat) (l : list N) : list N * list N :=
  match n with
  | O => ([], l)
  | S k => match l with
           | [] => let (bs, r) := take_pad k [] in (0 :: bs, r)
           | b :: l' => let (bs, r) := take_pad k l' in (byte b :: bs, r)
           end
  end.

(* <uN as Arbitrary>::arbitrary: n bytes little endian *)
Definition arb_uint (n : nat) (l : list N) : N * list N :=
  let (bs, r) := take_pad n l in (le_val bs, r).

(* Unstructured::int_in_range_impl on usize, start <= end_ checked by the caller *)
Fixpoint iir_loop (fuel : nat) (consumed delta acc : N) (l : list N) : N * list N :=
  match fuel with
  | O => (acc, l)
  | S f =>
      if (consumed <? 8) && (0 <? N.shiftr delta (8 * consumed)) then
        match l with
        | [] => (acc, l)
        | b :: r => iir_loop f (consumed + 1) delta ((acc * 256 + byte b) mod M64) r
        end
      else (acc, l)
  end.

Definition int_in_range (start end_ : N) (l : list N) : res (N * list N) :=
  if end_ <? start then Panic P_assert
  else if start =? end_ then Ok (start, l)
  else
    let delta := end_ - start in
    let (acc, r) := iir_loop 8 0 delta 0 l in
    let off := if delta =? M64 - 1 then acc else acc mod (delta + 1) in
    Ok ((start + off) mod M64, r).

(* ---------- rand 0.9.2: StandardUniform and UniformInt::sample_single (Canon, biased) ---------- *)
Definition next_u32 (f : N -> N) (p : N) : N * N := (word f p, p + 1).
Definition next_u64 (f : N -> N) (p : N) : N * N := (word f p + M32 * word f (p + 1), p + 2).

(* one lane of sample_single_inclusive: w = 32 or 64, 0 < range < 2^w *)
Definition canon (w : N) (x y range : N) : N * bool :=
  let m := x * range in
  let hi := N.shiftr m w in
  let lo := N.land m (2 ^ w - 1) in
  if 2 ^ w - range <? lo then
    let new_hi := N.shiftr (y * range) w in
    (hi + (if 2 ^ w <=? lo + new_hi then 1 else 0), true)
  else (hi, false).

Definition random_range (lo hi : N) (f : N -> N) (p : N) : res (N * N) :=
  if hi <=? lo then Panic P_assert
  else if M32 - 1 <? hi then
    let (x, p1) := next_u64 f p in
    let (y, p2) := next_u64 f p1 in
    let (r, second) := canon 64 x y (hi - lo) in
    Ok ((lo + r) mod M64, if second then p2 else p1)
  else
    let (x, p1) := next_u32 f p in
    let (y, p2) := next_u32 f p1 in
    let (r, second) := canon 32 x y (hi - lo) in
    Ok ((lo + r) mod M32, if second then p2 else p1).

(* ---------- the EntropySource adapter ---------- *)
Definition choose_index (max : N) (s : source) : res (N * source) :=
  if max =? 0 then Ok (0, s)
  else match s with
       | SrcBytes l => do (v, r) <- int_in_range 0 (max - 1) l; Ok (v, SrcBytes r)
       | SrcWords f p => do (v, p') <- random_range 0 max f p; Ok (v, SrcWords f p')
       end.

Definition gen_range (a b : N) (s : source) : res (N * source) :=
  if b <=? a then Ok (a, s)
  else match s with
       | SrcBytes l => do (v, r) <- int_in_range a (b - 1) l; Ok (v, SrcBytes r)
       | SrcWords f p => do (v, p') <- random_range a b f p; Ok (v, SrcWords f p')
       end.

Definition gen_uint (nbytes : nat) (s : source) : N * source :=
  match s with
  | SrcBytes l => let (v, r) := arb_uint nbytes l in (v, SrcBytes r)
  | SrcWords f p =>
      if Nat.leb nbytes 4 then
        let (x, p') := next_u32 f p in (N.land x (2 ^ (8 * N.of_nat nbytes) - 1), SrcWords f p')
      else let (x, p') := next_u64 f p in (x, SrcWords f p')
  end.

Definition gen_u8 := gen_uint 1.
Definition gen_u16 := gen_uint 2.
Definition gen_u32 := gen_uint 4.
Definition gen_u64 := gen_uint 8.

Definition gen_bool (s : source) : bool * source :=
  match s with
  | SrcBytes l => let (v, r) := arb_uint 1 l in (N.odd v, SrcBytes r)
  | SrcWords f p => let (x, p') := next_u32 f p in (2147483648 <=? x, SrcWords f p')
  end.

(* i32 / i64: the same bits, read as two's complement *)
Definition gen_i32 (s : source) : Z * source := let (v, s') := gen_u32 s in (to_signed 32 v, s').
Definition gen_i64 (s : source) : Z * source := let (v, s') := gen_u64 s in (to_signed 64 v, s').

(* ---------- f64 as bit patterns ---------- *)
(* the f64 k * 2^-53 for k < 2^53 (exactly representable) *)
Definition f64_of_dyadic53 (k : N) : N :=
  if k =? 0 then 0
  else let e := N.log2 k in                       (* 2^e <= k < 2^(e+1), e <= 52 *)
       let mant := N.shiftl k (52 - e) - 2 ^ 52 in
       N.shiftl (1023 - 53 + e) 52 + mant.

Definition gen_f64 (s : source) : N * source :=
  match s with
  | SrcBytes l => let (v, r) := arb_uint 8 l in (v, SrcBytes r)      (* f64::from_bits *)
  | SrcWords f p => let (x, p') := next_u64 f p in (f64_of_dyadic53 (N.shiftr x 11), SrcWords f p')
  end.

(* IEEE comparison  k * 2^-53 < rate  for a rate given as bits; false for NaN *)
Definition dyadic_lt (k : N) (rate : N) : bool :=
  let sign := N.testbit rate 63 in
  let e := N.land (N.shiftr rate 52) 2047 in
  let m := N.land rate (2 ^ 52 - 1) in
  if sign then false
  else if e =? 2047 then m =? 0                                  (* +inf : true, NaN : false *)
  else if e =? 0 then k * 2 ^ 1022 <? m * 2                        (* subnormal: m * 2^-1074 *)
  else k * 2 ^ 1022 <? (2 ^ 52 + m) * 2 ^ e.                       (* (2^52+m) * 2^(e-1075) *)

(* should_mutate: a uniform draw from [0,1) (53 bits of 8 bytes / of next_u64) compared with rate *)
Definition should_mutate (rate : N) (s : source) : bool * source :=
  let (x, s') := gen_u64 s in (dyadic_lt (N.shiftr x 11) rate, s').

(* gen_bytes(len): Rand: fill_bytes (ceil(len/4) words, little endian);
   Arbitrary: the next len bytes if that many are left, else len zeros and nothing consumed *)
Fixpoint words_bytes (n : nat) (f : N -> N) (p : N) : list N :=
  match n with
  | O => []
  | S k => le_bytes 4 (word f p) ++ words_bytes k f (p + 1)
  end.

Definition gen_bytes (len : N) (s : source) : list N * source :=
  match s with
  | SrcBytes l =>
      if N.of_nat (length l) <? len then (repeat 0 (N.to_nat len), s)
      else (map byte (firstn (N.to_nat len) l), SrcBytes (skipn (N.to_nat len) l))
  | SrcWords f p =>
      let nw := (len + 3) / 4 in
      (firstn (N.to_nat len) (words_bytes (N.to_nat nw) f p), SrcWords f (p + nw))
  end.

(* source.rs ASCII_CHARS (the translator regenerates it into gen/SrcConsts.v) *)
Definition ascii_chars : list N :=
  [97; 98; 99; 100; 101; 102; 103; 104; 105; 106; 107; 108; 109; 110; 111; 112; 113; 114; 115; 116;
   117; 118; 119; 120; 121; 122;
   65; 66; 67; 68; 69; 70; 71; 72; 73; 74; 75; 76; 77; 78; 79; 80; 81; 82; 83; 84; 85; 86; 87; 88; 89; 90;
   48; 49; 50; 51; 52; 53; 54; 55; 56; 57;
   32; 33; 34; 35; 36; 37; 38; 39; 40; 41; 42; 43; 44; 45; 46; 47; 58; 59; 60; 61; 62; 63; 64;
   91; 92; 93; 94; 95; 96; 123; 124; 125; 126].

Definition gen_ascii_char (s : source) : res (N * source) :=
  do (i, s') <- choose_index (N.of_nat (length ascii_chars)) s;
  do c <- nth_res ascii_chars i;
  Ok (c, s').
