(* The helpers regenerated from utils.rs over the Vec view (gen/SrcUtils.v) are the helpers of Sim.v over the top-first list
   that the regenerated can_emit calls. *)
From Coq Require Import List Arith Bool Lia.
Import ListNotations.
From PF Require Import Opcodes Config Sim SrcUtilsPrims.
From PF.gen Require Import SrcUtils.

(* ---- lists ---- *)
Lemma nth_error_rev {A : Type} (l : list A) n : n < length l -> nth_error (rev l) n = nth_error l (length l - S n).
Proof.
  revert n; induction l as [|a l IH]; intros n Hn; cbn [length] in Hn; [lia|].
  cbn [rev length]. destruct (Nat.eq_dec n (length l)) as [->|Hne].
  - rewrite nth_error_app2 by (rewrite rev_length; lia). rewrite rev_length, Nat.sub_diag.
    replace (S (length l) - S (length l)) with 0 by lia. reflexivity.
  - rewrite nth_error_app1 by (rewrite rev_length; lia). rewrite IH by lia.
    replace (S (length l) - S n) with (S (length l - S n)) by lia. reflexivity.
Qed.

Lemma existsb_rev {A : Type} (p : A -> bool) (l : list A) : existsb p (rev l) = existsb p l.
Proof.
  induction l as [|a l IH]; [reflexivity|]. cbn [rev existsb]. rewrite existsb_app, IH. cbn [existsb].
  rewrite orb_false_r. apply orb_comm.
Qed.

(* ---- the position of the topmost MARK ---- *)
Lemma count_to_mark_spec st p : count_to_mark st = Some p -> p < length st /\ nth_error st p = Some KMark.
Proof.
  revert p; induction st as [|k st IH]; intros p H; [discriminate H|].
  cbn [count_to_mark] in H. destruct k; try (destruct (count_to_mark st) as [q|] eqn:E; [|discriminate H]; inversion H; subst;
    destruct (IH q eq_refl) as [Hq Hn]; split; [cbn [length]; lia | exact Hn]).
  inversion H; subst. split; [cbn [length]; lia | reflexivity].
Qed.

Lemma rfind_app v w n : n <= length v -> rfind_mark_from (v ++ w) n = rfind_mark_from v n.
Proof.
  induction n as [|m IH]; intros Hn; [reflexivity|]. cbn [rfind_mark_from].
  rewrite nth_error_app1 by lia. rewrite IH by lia. reflexivity.
Qed.

Lemma topmost_spec st :
  enumerate_rev_find_mark (rev st) = option_map (fun p => length st - S p) (count_to_mark st).
Proof.
  unfold enumerate_rev_find_mark. rewrite rev_length.
  induction st as [|k st IH]; [reflexivity|].
  cbn [rev length rfind_mark_from]. rewrite nth_error_app2 by (rewrite rev_length; lia).
  rewrite rev_length, Nat.sub_diag. cbn [nth_error].
  assert (Hrest : rfind_mark_from (rev st ++ [k]) (length st) = option_map (fun p => length st - S p) (count_to_mark st))
    by (rewrite rfind_app by (rewrite rev_length; lia); exact IH).
  destruct k; cbn [count_to_mark]; try (rewrite Hrest; destruct (count_to_mark st) as [q|]; cbn [option_map]; [f_equal; lia | reflexivity]).
  cbn [option_map]. f_equal. lia.
Qed.

Lemma below_mark_nth st :
  below_mark st = match count_to_mark st with Some p => nth_error st (S p) | None => None end.
Proof.
  induction st as [|k st IH]; [reflexivity|].
  destruct k; cbn [below_mark count_to_mark]; try (rewrite IH; destruct (count_to_mark st); reflexivity).
  destruct st; reflexivity.
Qed.

Lemma above_mark_nth st :
  above_mark st = match count_to_mark st with Some (S q) => nth_error st q | _ => None end.
Proof.
  induction st as [|k st IH]; [reflexivity|].
  destruct k; cbn [count_to_mark]; try reflexivity;
    (cbn [above_mark]; destruct st as [|k2 st2]; [reflexivity|];
     destruct k2; try (rewrite IH; cbn [count_to_mark]; destruct (count_to_mark st2) as [[|q]|]; reflexivity); reflexivity).
Qed.

Lemma find_mark_count_spec st c : find_mark_count st c = option_map (fun p => c + p) (count_to_mark st).
Proof.
  revert c; induction st as [|k st IH]; intros c; [reflexivity|].
  destruct k; cbn [find_mark_count count_to_mark]; try (rewrite IH; destruct (count_to_mark st); cbn [option_map]; [f_equal; lia | reflexivity]).
  cbn [option_map]. f_equal. lia.
Qed.

(* ---- the helpers ---- *)
Lemma src_peek_at_eq s d : src_peek_at s d = peek_at s d.
Proof.
  unfold src_peek_at, peek_at, vec_of. cbv zeta. rewrite rev_length.
  destruct (Nat.ltb_spec d (length (stk s))) as [Hlt|Hge].
  - rewrite nth_error_rev by lia. f_equal. lia.
  - symmetry. apply nth_error_None. exact Hge.
Qed.

Lemma src_has_mark_eq s : src_has_mark s = has_mark s.
Proof.
  unfold src_has_mark, has_mark, vec_of. rewrite existsb_rev.
  induction (stk s) as [|k st IH]; [reflexivity|]. cbn [existsb]. rewrite IH. destruct k; reflexivity.
Qed.

Ltac at_eq := intros; match goal with |- ?f ?s ?d = _ => unfold f end;
  rewrite src_peek_at_eq; unfold is_list_at, is_dict_at, is_tuple_at, is_string_at, is_instance_at, is_callable_at, is_kind_at;
  destruct (peek_at _ _) as [k|]; [destruct k; reflexivity | reflexivity].

Lemma src_is_list_at_eq s d : src_is_list_at s d = is_list_at s d.  Proof. at_eq. Qed.
Lemma src_is_dict_at_eq s d : src_is_dict_at s d = is_dict_at s d.  Proof. at_eq. Qed.
Lemma src_is_tuple_at_eq s d : src_is_tuple_at s d = is_tuple_at s d.  Proof. at_eq. Qed.
Lemma src_is_string_at_eq s d : src_is_string_at s d = is_string_at s d.  Proof. at_eq. Qed.
Lemma src_is_instance_at_eq s d : src_is_instance_at s d = is_instance_at s d.  Proof. at_eq. Qed.
Lemma src_is_callable_at_eq s d : src_is_callable_at s d = is_callable_at s d.  Proof. at_eq. Qed.

(* below the topmost MARK: Vec index idx - 1, i.e. list position S p *)
Lemma below_view (p : kind -> bool) s :
  (let v := vec_of s in
   match enumerate_rev_find_mark v with
   | Some idx => if 0 <? idx then match nth_error v (idx - 1) with Some k => p k | None => false end else false
   | None => false
   end) = is_kind_at_mark p s.
Proof.
  unfold is_kind_at_mark, vec_of. cbv zeta. rewrite topmost_spec, below_mark_nth.
  destruct (count_to_mark (stk s)) as [q|] eqn:E; cbn [option_map]; [|reflexivity].
  destruct (count_to_mark_spec _ _ E) as [Hq _].
  destruct (Nat.ltb_spec 0 (length (stk s) - S q)) as [Hpos|Hz].
  - rewrite nth_error_rev by lia. replace (length (stk s) - S (length (stk s) - S q - 1)) with (S q) by lia. reflexivity.
  - assert (Hn : nth_error (stk s) (S q) = None) by (apply nth_error_None; lia). rewrite Hn. reflexivity.
Qed.

Ltac mark_eq := intros; match goal with |- ?f ?s = _ => unfold f end;
  unfold is_list_at_mark, is_dict_at_mark, is_set_at_mark;
  match goal with |- _ = is_kind_at_mark ?p ?s => rewrite <- (below_view p s) end;
  cbv zeta; destruct (enumerate_rev_find_mark _) as [idx|]; [|reflexivity];
  destruct (0 <? idx); [|reflexivity]; destruct (nth_error _ _) as [k|]; [destruct k; reflexivity | reflexivity].

Lemma src_is_list_at_mark_eq s : src_is_list_at_mark s = is_list_at_mark s.  Proof. mark_eq. Qed.
Lemma src_is_dict_at_mark_eq s : src_is_dict_at_mark s = is_dict_at_mark s.  Proof. mark_eq. Qed.
Lemma src_is_set_at_mark_eq s : src_is_set_at_mark s = is_set_at_mark s.  Proof. mark_eq. Qed.

(* above the topmost MARK: Vec index idx + 1, i.e. list position p - 1 *)
Lemma src_is_callable_above_mark_eq s : src_is_callable_above_mark s = is_callable_above_mark s.
Proof.
  unfold src_is_callable_above_mark, is_callable_above_mark, vec_of. cbv zeta. rewrite topmost_spec, above_mark_nth, rev_length.
  destruct (count_to_mark (stk s)) as [q|] eqn:E; cbn [option_map]; [|reflexivity].
  destruct (count_to_mark_spec _ _ E) as [Hq _].
  destruct (Nat.ltb_spec (length (stk s) - S q + 1) (length (stk s))) as [Hlt|Hge].
  - destruct q as [|q']; [lia|]. rewrite nth_error_rev by lia.
    replace (length (stk s) - S (length (stk s) - S (S q') + 1)) with q' by lia.
    destruct (nth_error (stk s) q') as [k|]; [destruct k; reflexivity | reflexivity].
  - destruct q as [|q']; [reflexivity | lia].
Qed.

Lemma src_count_items_to_mark_eq s : src_count_items_to_mark s = count_items_to_mark s.
Proof.
  unfold src_count_items_to_mark, rev_enumerate_find_mark, count_items_to_mark, vec_of. rewrite rev_involutive, find_mark_count_spec.
  destruct (count_to_mark (stk s)); reflexivity.
Qed.
