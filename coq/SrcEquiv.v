(* The translator tie: the definitions regenerated from /repo's current source
   (gen/SrcOpcodes.v, gen/SrcCanEmit.v) equal the hand-written model the theorems are about,
   and the opcode bytes / protocol rows agree with CPython's table (RefTable). *)
From Coq Require Import List NArith ZArith Bool Arith Lia.
Import ListNotations.
From PF Require Import Opcodes RefTable Config Sim.
From PF.gen Require SrcOpcodes SrcCanEmit.

Lemma src_as_u8_ok : forall o, SrcOpcodes.Src.as_u8 o = ref_code o.
Proof. intro o; destruct o; reflexivity. Qed.

Lemma src_rows_eq : forall v, SrcOpcodes.Src.row v = row v.
Proof. intro v; destruct v; reflexivity. Qed.

Definition row_protos_ok (v : version) : bool :=
  forallb (fun o => N.leb (ref_proto o) (vnum v)) (SrcOpcodes.Src.row v).
Definition row_full (v : version) : bool :=
  forallb (fun o => negb (N.leb (ref_proto o) (vnum v)) || existsb (op_eqb o) (SrcOpcodes.Src.row v))
          all_opcodes.

Lemma src_rows_ok : forall v o, In o (SrcOpcodes.Src.row v) -> (ref_proto o <= vnum v)%N.
Proof.
  intros v o H. assert (E : row_protos_ok v = true) by (destruct v; vm_compute; reflexivity).
  unfold row_protos_ok in E. rewrite forallb_forall in E. apply N.leb_le. apply E; exact H.
Qed.

Lemma src_rows_full : forall v o, (ref_proto o <= vnum v)%N -> In o (SrcOpcodes.Src.row v).
Proof.
  intros v o H. assert (E : row_full v = true) by (destruct v; vm_compute; reflexivity).
  unfold row_full in E. rewrite forallb_forall in E. specialize (E o (all_opcodes_complete o)).
  apply N.leb_le in H. rewrite H in E. simpl in E. apply existsb_exists in E.
  destruct E as (x & Hin & Heq). apply op_eqb_eq in Heq. subst x. exact Hin.
Qed.

Lemma even_mod2 : forall n, Nat.eqb (Nat.modulo n 2) 0 = Nat.even n.
Proof.
  intro n. destruct (Nat.even n) eqn:E.
  - apply Nat.even_spec in E. destruct E as [k Hk]. apply Nat.eqb_eq. subst n.
    rewrite Nat.mul_comm. apply Nat.mod_mul. lia.
  - apply Nat.eqb_neq. intro H. assert (E' : Nat.even n = true); [|congruence].
    apply Nat.even_spec. exists (n / 2). pose proof (Nat.div_mod n 2). lia.
Qed.

Local Arguments Nat.modulo : simpl never.
Local Arguments Nat.even : simpl never.
Local Arguments N.ltb : simpl never.
Local Arguments N.eqb : simpl never.
Local Arguments N.of_nat : simpl never.

(* Boolean normalisation that does not depend on how the Rust expression is written:
   case-split every atomic condition (innermost first), then close by arithmetic. *)
Ltac find_atom b k :=
  lazymatch b with
  | andb ?x ?y => first [find_atom x k | find_atom y k]
  | orb ?x ?y => first [find_atom x k | find_atom y k]
  | negb ?x => find_atom x k
  | true => fail
  | false => fail
  | (if ?x then ?y else ?z) => first [find_atom x k | find_atom y k | find_atom z k]
  | (match ?x with _ => _ end) => k x
  | _ => k b
  end.

Ltac split_conds :=
  repeat (simpl; rewrite ?even_mod2;
    match goal with
    | |- ?x = ?x => reflexivity
    | |- ?l = ?r => first [ find_atom l ltac:(fun a => destruct a eqn:?)
                          | find_atom r ltac:(fun a => destruct a eqn:?) ]
    end).

Ltac arith_close :=
  try reflexivity; try discriminate;
  exfalso;
  repeat match goal with
  | H : Nat.leb _ _ = true |- _ => apply Nat.leb_le in H
  | H : Nat.leb _ _ = false |- _ => apply Nat.leb_gt in H
  | H : Nat.ltb _ _ = true |- _ => apply Nat.ltb_lt in H
  | H : Nat.ltb _ _ = false |- _ => apply Nat.ltb_ge in H
  | H : Nat.eqb _ _ = true |- _ => apply Nat.eqb_eq in H
  | H : Nat.eqb _ _ = false |- _ => apply Nat.eqb_neq in H
  | H : N.ltb _ _ = true |- _ => apply N.ltb_lt in H
  | H : N.ltb _ _ = false |- _ => apply N.ltb_ge in H
  | H : N.eqb _ _ = true |- _ => apply N.eqb_eq in H
  | H : N.eqb _ _ = false |- _ => apply N.eqb_neq in H
  | H : N.leb _ _ = true |- _ => apply N.leb_le in H
  | H : N.leb _ _ = false |- _ => apply N.leb_gt in H
  end; try lia; try congruence.

Ltac unfold_model :=
  unfold SrcCanEmit.Src.can_emit, can_emit, count_pos, count_pos_even, top_not_mark,
         is_list_at, is_dict_at, is_tuple_at, is_string_at, is_instance_at, is_callable_at,
         is_kind_at, peek_at, stack_len, memo_len, count_items_to_mark.

Lemma src_can_emit_eq : forall c s o, SrcCanEmit.Src.can_emit c s o = can_emit c s o.
Proof.
  intros c [st m pe] o.
  destruct o; unfold_model; cbn [stk memo proto_emitted];
    first
    [ reflexivity
    | (* conditions on the MARK structure / memo size / flags: keep the stack abstract *)
      (destruct (count_to_mark st) as [n|]; split_conds; arith_close; fail)
    | (* conditions on fixed depths: make the top three slots concrete *)
      (destruct st as [|k0 [|k1 [|k2 st']]]; cbn [length nth_error];
       split_conds; arith_close) ].
Qed.

(* ---------- constants (gen/SrcConsts.v): ASCII table, defaults, all_mutators / create, boundary
   arrays, TypeConfusion's byte -> type table ---------- *)
From PF Require Import Lex Entropy Mutators Front.
From PF.gen Require SrcConsts.

Lemma src_ascii_chars_eq : SrcConsts.Src.ascii_chars = ascii_chars.
Proof. reflexivity. Qed.

Lemma src_defaults_eq :
  SrcConsts.Src.gen_default_min = default_min /\ SrcConsts.Src.gen_default_max = default_max
  /\ SrcConsts.Src.gen_default_rate = default_rate /\ SrcConsts.Src.gen_default_flags = [false; false; false]
  /\ SrcConsts.Src.cli_default_min = default_min /\ SrcConsts.Src.cli_default_max = default_max
  /\ SrcConsts.Src.cli_default_rate = default_rate /\ SrcConsts.Src.cli_default_samples = default_samples.
Proof. repeat split. Qed.

Lemma src_all_mutators_eq : forall u, SrcConsts.Src.all_mutators u = all_mutators u.
Proof. destruct u; reflexivity. Qed.

Lemma src_create_eq : forall u k, SrcConsts.Src.create u k = create u k.
Proof. destruct k; reflexivity. Qed.

Lemma src_boundaries_eq :
  SrcConsts.Src.int_boundaries = int_boundaries /\ SrcConsts.Src.long_boundaries = long_boundaries
  /\ SrcConsts.Src.float_boundaries = float_boundaries.
Proof. repeat split. Qed.

(* opcode_to_type takes a u8: all 256 byte values *)
Lemma src_byte_type_eq : forall b, (b < 256)%N -> SrcConsts.Src.byte_type b = byte_type b.
Proof.
  intros b Hb.
  assert (E : forallb (fun x => N.eqb (SrcConsts.Src.byte_type x) (byte_type x)) (map N.of_nat (seq 0 256)) = true)
    by (vm_compute; reflexivity).
  rewrite forallb_forall in E. apply N.eqb_eq. apply E.
  apply in_map_iff. exists (N.to_nat b). split; [apply N2Nat.id | apply in_seq; lia].
Qed.
