(* The aliasing-level model: which Rc<RefCell<StackObject>> cells exist, which cell each stack slot
   and memo entry refers to, and who points to whom (src/stack.rs, process_stack_ops in
   src/generator/stack_ops.rs read at the level of Rc identities).  Used for C14 (reference
   cycles = the only way memory can outlive the generator) and for nesting depth (C09).
   Cells are never removed from the table; a cell that the real program has already freed is
   simply unreachable.  Definitions only. *)
From Coq Require Import List NArith ZArith Bool.
Import ListNotations.
From PF Require Import Opcodes Config Sim.

Inductive hobj : Set :=
| HLeaf (k : kind)                      (* scalars, strings, bytes, Mark, Global *)
| HSeq (k : kind) (items : list nat)    (* List / Tuple / Set / FrozenSet: the cells they hold *)
| HDict (pairs : list (nat * nat))      (* HashMap keyed by cell identity *)
| HInst (callable args : nat)           (* Instance { callable, args } *)
| HCall (inner : nat).                  (* Callable(inner) *)

Definition hkind (o : hobj) : kind :=
  match o with
  | HLeaf k => k
  | HSeq k _ => k
  | HDict _ => KDict
  | HInst _ _ => KInstance
  | HCall _ => KCallable
  end.

Definition kids (o : hobj) : list nat :=
  match o with
  | HLeaf _ => []
  | HSeq _ items => items
  | HDict pairs => flat_map (fun p => [fst p; snd p]) pairs
  | HInst c a => [c; a]
  | HCall i => [i]
  end.

Record heap : Set := {
  cells : list hobj;              (* cell id = position *)
  hstk : list nat;                (* head = top of stack *)
  hmemo : list (N * nat);
  hproto : bool
}.

Definition heap_init (v : version) : heap :=
  {| cells := []; hstk := []; hmemo := []; hproto := negb (v_lt2 v) |}.

Definition cell (h : heap) (i : nat) : hobj := nth i (cells h) (HLeaf KAny).
Definition kind_at (h : heap) (i : nat) : kind := hkind (cell h i).

Definition with_hstk (h : heap) (st : list nat) : heap :=
  {| cells := cells h; hstk := st; hmemo := hmemo h; hproto := hproto h |}.
Definition with_cells (h : heap) (cs : list hobj) : heap :=
  {| cells := cs; hstk := hstk h; hmemo := hmemo h; hproto := hproto h |}.
Definition with_hmemo (h : heap) (m : list (N * nat)) : heap :=
  {| cells := cells h; hstk := hstk h; hmemo := m; hproto := hproto h |}.

(* Rc::new *)
Definition alloc (h : heap) (o : hobj) : heap * nat := (with_cells h (cells h ++ [o]), length (cells h)).
Definition hpush (h : heap) (o : hobj) : heap := let (h', i) := alloc h o in with_hstk h' (i :: hstk h').

Fixpoint set_nth_obj (cs : list hobj) (i : nat) (o : hobj) : list hobj :=
  match cs, i with
  | [], _ => []
  | _ :: r, O => o :: r
  | c :: r, S k => c :: set_nth_obj r k o
  end.
(* *cell.borrow_mut() = o *)
Definition update (h : heap) (i : nat) (o : hobj) : heap := with_cells h (set_nth_obj (cells h) i o).

(* `while let Some(item) = pop() { if Mark break; acc.push(item) }`: (items in pop order, rest) *)
Fixpoint hpop_to_mark (h : heap) (st : list nat) : list nat * list nat :=
  match st with
  | [] => ([], [])
  | i :: r => if is_mark (kind_at h i) then ([], r)
              else let (acc, rest) := hpop_to_mark h r in (i :: acc, rest)
  end.

(* DICT / SETITEMS: loop { pop value; stop if none or Mark; pop key (if any) -> (key, value) } *)
Fixpoint hdict_pop (h : heap) (fuel : nat) (st : list nat) : list (nat * nat) * list nat :=
  match fuel with
  | O => ([], st)
  | S f =>
      match st with
      | [] => ([], [])
      | v :: r => if is_mark (kind_at h v) then ([], r)
                  else match r with
                       | [] => ([], [])
                       | k :: r' => let (acc, rest) := hdict_pop h f r' in ((k, v) :: acc, rest)
                       end
      end
  end.

(* HashMap::insert on identity keys: replace the value of an existing key, else add *)
Fixpoint dict_insert (pairs : list (nat * nat)) (k v : nat) : list (nat * nat) :=
  match pairs with
  | [] => [(k, v)]
  | (k0, v0) :: r => if Nat.eqb k0 k then (k0, v) :: r else (k0, v0) :: dict_insert r k v
  end.
Definition dict_insert_all (pairs : list (nat * nat)) (kvs : list (nat * nat)) : list (nat * nat) :=
  fold_left (fun acc kv => dict_insert acc (fst kv) (snd kv)) kvs pairs.

(* HashSet::insert on identities *)
Definition set_insert (items : list nat) (x : nat) : list nat :=
  if existsb (Nat.eqb x) items then items else items ++ [x].
Definition set_insert_all (items xs : list nat) : list nat := fold_left set_insert xs items.

Definition inner_of (h : heap) (c : nat) : nat := match cell h c with HCall i => i | _ => c end.

Definition hmemo_get (i : N) (m : list (N * nat)) : option nat := memo_get i m.

(* process_stack_ops on cells *)
Definition heap_step (v : version) (h : heap) (t : token) : heap :=
  let st := hstk h in
  match fst t with
  | POP => with_hstk h (tl st)
  | DUP => match st with
           | i :: _ => if is_mark (kind_at h i) then h else with_hstk h (i :: st)
           | [] => h
           end
  | MARK => hpush h (HLeaf KMark)
  | POP_MARK => with_hstk h (snd (hpop_to_mark h st))
  | EMPTY_LIST => hpush h (HSeq KList [])
  | EMPTY_TUPLE => hpush h (HSeq KTuple [])
  | EMPTY_DICT => hpush h (HDict [])
  | EMPTY_SET => hpush h (HSeq KSet [])
  | APPEND =>
      match st with
      | item :: (c :: _) as r =>
          match cell h c with
          | HSeq KList items => with_hstk (update h c (HSeq KList (items ++ [item]))) r
          | _ => with_hstk h r
          end
      | _ => h
      end
  | APPENDS =>
      let (acc, rest) := hpop_to_mark h st in
      match rest with
      | c :: _ =>
          match cell h c with
          | HSeq KList items => with_hstk (update h c (HSeq KList (items ++ rev acc))) rest
          | _ => with_hstk h rest
          end
      | [] => with_hstk h rest
      end
  | LIST => let (acc, rest) := hpop_to_mark h st in hpush (with_hstk h rest) (HSeq KList (rev acc))
  | TUPLE => let (acc, rest) := hpop_to_mark h st in hpush (with_hstk h rest) (HSeq KTuple (rev acc))
  | FROZENSET =>
      let (acc, rest) := hpop_to_mark h st in hpush (with_hstk h rest) (HSeq KFrozenSet (set_insert_all [] acc))
  | TUPLE1 => match st with a :: r => hpush (with_hstk h r) (HSeq KTuple [a]) | [] => h end
  | TUPLE2 => match st with b :: a :: r => hpush (with_hstk h r) (HSeq KTuple [a; b]) | _ => h end
  | TUPLE3 => match st with c :: b :: a :: r => hpush (with_hstk h r) (HSeq KTuple [a; b; c]) | _ => h end
  | DICT =>
      let (kvs, rest) := hdict_pop h (S (length st)) st in
      hpush (with_hstk h rest) (HDict (dict_insert_all [] kvs))
  | SETITEM =>
      match st with
      | value :: key :: (c :: _) as r =>
          match cell h c with
          | HDict pairs => with_hstk (update h c (HDict (dict_insert pairs key value))) r
          | _ => with_hstk h r
          end
      | _ => h
      end
  | SETITEMS =>
      let (kvs, rest) := hdict_pop h (S (length st)) st in
      match rest with
      | c :: _ =>
          match cell h c with
          | HDict pairs => with_hstk (update h c (HDict (dict_insert_all pairs kvs))) rest
          | _ => with_hstk h rest
          end
      | [] => with_hstk h rest
      end
  | ADDITEMS =>
      let (acc, rest) := hpop_to_mark h st in
      match rest with
      | c :: _ =>
          match cell h c with
          | HSeq KSet items => with_hstk (update h c (HSeq KSet (set_insert_all items (rev acc)))) rest
          | _ => with_hstk h rest
          end
      | [] => with_hstk h rest
      end
  | INT => hpush h (HLeaf (int_kind v (snd t)))
  | BININT | BININT1 | BININT2 | LONG | LONG1 | LONG4 => hpush h (HLeaf KInt)
  | STRING | UNICODE | SHORT_BINUNICODE | BINUNICODE | BINUNICODE8 | PERSID => hpush h (HLeaf KString)
  | BINSTRING | SHORT_BINSTRING | BINBYTES | SHORT_BINBYTES | BINBYTES8 | NEXT_BUFFER => hpush h (HLeaf KBytes)
  | BYTEARRAY8 => hpush h (HLeaf KByteArray)
  | NONE => hpush h (HLeaf KNone)
  | NEWTRUE | NEWFALSE => hpush h (HLeaf KBool)
  | FLOAT | BINFLOAT => hpush h (HLeaf KFloat)
  | GLOBAL | EXT1 | EXT2 | EXT4 =>
      let (h1, g) := alloc h (HLeaf KGlobal) in hpush h1 (HCall g)
  | STACK_GLOBAL =>
      match st with
      | [] => h
      | [_] => with_hstk h []
      | a :: m :: r =>
          if k_string (kind_at h m) && k_string (kind_at h a) then
            let (h1, g) := alloc (with_hstk h r) (HLeaf KGlobal) in hpush h1 (HCall g)
          else with_hstk h r
      end
  | REDUCE =>
      match st with
      | args :: c :: r => hpush (with_hstk h r) (HInst (inner_of h c) args)
      | _ => h
      end
  | NEWOBJ =>
      match st with
      | [] => h
      | [_] => with_hstk h []
      | args :: c :: r => hpush (with_hstk h r) (HInst (inner_of h c) args)
      end
  | NEWOBJ_EX =>
      match st with
      | _ :: args :: c :: r => hpush (with_hstk h r) (HInst (inner_of h c) args)
      | _ => with_hstk h []
      end
  | BUILD =>
      match st with
      | state :: i :: r =>
          let h1 := match cell h i with
                    | HInst c _ => update h i (HInst c state)
                    | _ => h
                    end in
          hpush (with_hstk h1 r) (cell h1 i)
      | _ => h
      end
  | INST =>
      let (h1, g) := alloc h (HLeaf KGlobal) in
      let (acc, rest) := hpop_to_mark h1 st in
      let (h2, tup) := alloc (with_hstk h1 rest) (HSeq KTuple (rev acc)) in
      hpush h2 (HInst g tup)
  | OBJ =>
      let (acc, rest) := hpop_to_mark h st in
      match rev acc with
      | [] => with_hstk h rest
      | cls :: args =>
          let (h1, tup) := alloc (with_hstk h rest) (HSeq KTuple args) in
          hpush h1 (HInst cls tup)
      end
  | BINPERSID => match st with _ :: r => hpush (with_hstk h r) (HLeaf KString) | [] => h end
  | GET | BINGET | LONG_BINGET =>
      match hmemo_get (tok_index t) (hmemo h) with
      | Some i => hpush h (cell h i)                    (* obj.borrow().clone(): a new cell, same children *)
      | None => h
      end
  | PUT | BINPUT | LONG_BINPUT =>
      match st with
      | i :: _ => if is_mark (kind_at h i) then h
                  else let (h1, c) := alloc h (cell h i) in with_hmemo h1 (memo_put (tok_index t) c (hmemo h1))
      | [] => h
      end
  | MEMOIZE =>
      match st with
      | i :: r =>
          let (h1, c) := alloc h (cell h i) in
          let h2 := with_hmemo h1 (memo_put (N.of_nat (length (hmemo h1))) c (hmemo h1)) in
          hpush (with_hstk h2 r) (cell h i)
      | [] => h
      end
  | STOP => with_hstk h (tl st)
  | PROTO | READONLY_BUFFER | FRAME => h
  end.

Fixpoint heap_run (v : version) (h : heap) (ts : list token) : heap :=
  match ts with
  | [] => h
  | t :: r => heap_run v (heap_step v h t) r
  end.

(* abstraction to the kind-level simulated state *)
Definition abs (h : heap) : sim :=
  {| stk := map (kind_at h) (hstk h);
     memo := map (fun e => (fst e, kind_at h (snd e))) (hmemo h);
     proto_emitted := hproto h |}.

(* ---------- what leaks: Rc frees a cell when its count drops to zero, so once the generator is
   reset / dropped (no roots) exactly the cells on, or reachable from, a reference cycle stay
   allocated.  Executable test for "some cycle exists": peel cells all of whose children are
   already peeled (leaves first); a cell survives every round iff it can reach a cycle. ---------- *)
Definition peel_round (cs : list hobj) (alive : list bool) : list bool :=
  map (fun p => let '(o, a) := p in a && existsb (fun k => nth k alive false) (kids o)) (combine cs alive).

Fixpoint peel (fuel : nat) (cs : list hobj) (alive : list bool) : list bool :=
  match fuel with
  | O => alive
  | S f => let alive' := peel_round cs alive in
           if forallb (fun p => Bool.eqb (fst p) (snd p)) (combine alive alive') then alive else peel f cs alive'
  end.

Definition has_cycle (cs : list hobj) : bool :=
  existsb (fun b => b) (peel (S (length cs)) cs (map (fun _ => true) cs)).

(* nesting depth of a cell (longest chain of children), with fuel; used for the C09 depth bound *)
Fixpoint depth (fuel : nat) (cs : list hobj) (i : nat) : nat :=
  match fuel with
  | O => O
  | S f => S (fold_right (fun k acc => Nat.max (depth f cs k) acc) O (kids (nth i cs (HLeaf KAny))))
  end.

(* ---------- State::mutated / State::release_cycles (src/state.rs): every in-place modification of an
   existing cell registers the cell; reset() and Drop empty the registered cells that are still alive.
   step_mut = the cells a step registers (stack_ops.rs: APPEND, SETITEM, SETITEMS, ADDITEMS register
   the container they changed, APPENDS the cell under the popped items, BUILD the popped instance). ---------- *)
Definition step_mut (h : heap) (t : token) : list nat :=
  let st := hstk h in
  match fst t with
  | APPEND =>
      match st with
      | _ :: c :: _ => match cell h c with HSeq KList _ => [c] | _ => [] end
      | _ => []
      end
  | APPENDS => match snd (hpop_to_mark h st) with c :: _ => [c] | [] => [] end
  | ADDITEMS =>
      match snd (hpop_to_mark h st) with
      | c :: _ => match cell h c with HSeq KSet _ => [c] | _ => [] end
      | [] => []
      end
  | SETITEM =>
      match st with
      | _ :: _ :: c :: _ => match cell h c with HDict _ => [c] | _ => [] end
      | _ => []
      end
  | SETITEMS =>
      match snd (hdict_pop h (S (length st)) st) with
      | c :: _ => match cell h c with HDict _ => [c] | _ => [] end
      | [] => []
      end
  | BUILD => match st with _ :: i :: _ => [i] | _ => [] end
  | _ => []
  end.

(* the registry after a history (in registration order) *)
Fixpoint run_mut (v : version) (h : heap) (ts : list token) : list nat :=
  match ts with
  | [] => []
  | t :: r => step_mut h t ++ run_mut v (heap_step v h t) r
  end.

(* StackObject::detach_children *)
Definition emptied (o : hobj) : hobj :=
  match o with
  | HLeaf k => HLeaf k
  | HSeq k _ => HSeq k []
  | HDict _ => HDict []
  | HInst _ _ => HLeaf KInstance        (* callable and args replaced by fresh leaves *)
  | HCall _ => HLeaf KCallable
  end.

Fixpoint release_at (i : nat) (cs : list hobj) (ms : list nat) : list hobj :=
  match cs with
  | [] => []
  | o :: r => (if existsb (Nat.eqb i) ms then emptied o else o) :: release_at (S i) r ms
  end.
(* State::release_cycles on the cell table *)
Definition release (cs : list hobj) (ms : list nat) : list hobj := release_at 0 cs ms.

(* what is left when a generation ends and the generator is reset or dropped *)
Definition final_cells (v : version) (ts : list token) : list hobj :=
  release (cells (heap_run v (heap_init v) ts)) (run_mut v (heap_init v) ts).
