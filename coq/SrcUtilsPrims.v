(* The Vec view of the simulated stack in which tools/gen_utils.py writes the helpers of utils.rs (gen/SrcUtils.v):
   `self.state.stack.inner` is a Vec that grows at the END (Stack::push / pop / peek are Vec::push / pop / last), so index 0 is
   the bottom; the model's `stk` is a list with the TOP first.  Definitions only. *)
From Coq Require Import List Arith Bool.
Import ListNotations.
From PF Require Import Opcodes Config Sim.

Definition vec_of (s : sim) : list kind := rev (stk s).

(* `for (idx, x) in v.iter().enumerate().rev() { if x is Mark { .. idx .. } }`: indices length-1 down to 0, the first hit *)
Fixpoint rfind_mark_from (v : list kind) (n : nat) : option nat :=
  match n with
  | O => None
  | S m => match nth_error v m with
           | Some KMark => Some m
           | _ => rfind_mark_from v m
           end
  end.
Definition enumerate_rev_find_mark (v : list kind) : option nat := rfind_mark_from v (length v).

(* `for (count, x) in v.iter().rev().enumerate() { if x is Mark { return Some(count) } }`: count 0 is the LAST element *)
Fixpoint find_mark_count (l : list kind) (c : nat) : option nat :=
  match l with
  | [] => None
  | KMark :: _ => Some c
  | _ :: r => find_mark_count r (S c)
  end.
Definition rev_enumerate_find_mark (v : list kind) : option nat := find_mark_count (rev v) 0.
