(* C13  CLI, batch mode, action wrapper and Python bindings equal the library. *)
From Coq Require Import List NArith ZArith Bool.
Import ListNotations.
From PF Require Import Opcodes Config Sim Lex Entropy Mutators Gen Front.
From PF.proofs Require Import FrontP.
Local Open Scope N_scope.

(* Front.v models the front ends as option -> configuration mappings; the bytes are then those of
   the library function `generate` for that configuration (that the binary / wrapper / extension
   module really produce those bytes is the correspondence suite S6, which IS the property run
   on the implementation).  What is proved about the mappings: *)

(* every file of a batch run is generated from the same configuration as single-file mode *)
Theorem C13_batch : forall a idx, cli_batch a idx = cli_single a.
Proof. exact batch_eq_single. Qed.
Print Assumptions C13_batch.

(* batch mode writes exactly 0.pkl .. N-1.pkl: N distinct names *)
Theorem C13_files : forall n,
  length (batch_files n) = N.to_nat n /\ NoDup (batch_files n)
  /\ (forall f, In f (batch_files n) <-> exists i, i < n /\ f = batch_file i).
Proof. exact batch_files_spec. Qed.
Print Assumptions C13_files.

(* a given protocol is used; without one, a seed selects protocol seed mod 6 *)
Theorem C13_protocol : forall a,
  (forall p v, a_protocol a = Some p -> version_of_N p = Some v -> cli_version a = Some v)
  /\ (forall s, a_protocol a = None -> a_seed a = Some s ->
        exists v, cli_version a = Some v /\ vnum v = s mod 6).
Proof. exact version_rule. Qed.
Print Assumptions C13_protocol.

(* the mapping is total whenever the protocol is determined (no panic in create: `all` is
   expanded first), and without --unsafe-mutations the configuration is a safe one *)
Theorem C13_total : forall a, cli_version a <> None -> exists c, cli_config a = Some c.
Proof. exact cli_config_total. Qed.
Print Assumptions C13_total.

Theorem C13_safe : forall a c, a_unsafe a = false -> cli_config a = Some c -> safeb c = true.
Proof. exact cli_safe. Qed.
Print Assumptions C13_safe.

(* changing one setting through the Python front end leaves the others, the seed included, in force *)
Theorem C13_py_setter : forall g mn mx,
  let g' := py_set_opcode_range g mn mx in
  py_seed g' = py_seed g /\ c_version (py_cfg g') = c_version (py_cfg g)
  /\ c_mutators (py_cfg g') = c_mutators (py_cfg g) /\ c_rate (py_cfg g') = c_rate (py_cfg g)
  /\ c_unsafe (py_cfg g') = c_unsafe (py_cfg g) /\ c_ext (py_cfg g') = c_ext (py_cfg g)
  /\ c_buf (py_cfg g') = c_buf (py_cfg g) /\ c_min (py_cfg g') = mn /\ c_max (py_cfg g') = mx.
Proof. exact py_setter_preserves. Qed.
Print Assumptions C13_py_setter.

Theorem C13_mutate : forall e g data max_size out,
  py_mutate e g data max_size = Ok out ->
  N.of_nat (length out) <= max_size
  /\ exists full, generate e (py_cfg g) (SrcBytes data) = Ok full /\ out = firstn (N.to_nat max_size) full.
Proof. exact py_mutate_bounded. Qed.
Print Assumptions C13_mutate.



Example C13_nonvacuous :
  cli_config {| a_protocol := None; a_seed := Some 11; a_min := 5; a_max := 9; a_mutators := [KBitflip; KAll];
                a_rate := 4611686018427387904; a_unsafe := true; a_ext := true; a_buf := false; a_samples := 3 |}
  = Some {| c_version := V5; c_min := 5; c_max := 9;
            c_mutators := [MBitflip; MBoundary; MOffByOne; MStringLen; MCharacter; MTypeConf true; MMemoIndex true];
            c_rate := 4607182418800017408; c_unsafe := true; c_ext := true; c_buf := false |}.
Proof. vm_compute. reflexivity. Qed.
