(* C18  Entropy adapters stay in range and never fail, even on exhausted input. *)
From Coq Require Import List NArith ZArith Bool.
Import ListNotations.
From PF Require Import Opcodes Config Lex Entropy Oracles.
From PF.proofs Require Import EntropyP.
Local Open Scope N_scope.

(* for EVERY source state s - any fuzzer byte string, exhausted ones included, and any stream
   of PRNG words at any position - and every n, a, b representable as usize: the draw does not
   panic (the result is Ok) and lies where the property says.  ok_* are the checks the harness
   also applies to the implementation's own results. *)
Theorem C18_choose_index : forall n s, n < M64 ->
  exists v s', choose_index n s = Ok (v, s') /\ ok_choose_index n v = true.
Proof. exact choose_index_ok. Qed.
Print Assumptions C18_choose_index.

Theorem C18_gen_range : forall a b s, b < M64 ->
  exists v s', gen_range a b s = Ok (v, s') /\ ok_gen_range a b v = true.
Proof. exact gen_range_ok. Qed.
Print Assumptions C18_gen_range.

Theorem C18_ascii : forall s, exists c s', gen_ascii_char s = Ok (c, s') /\ ok_ascii c = true.
Proof. exact gen_ascii_char_ok. Qed.
Print Assumptions C18_ascii.

Theorem C18_bytes : forall len s, ok_bytes len (fst (gen_bytes len s)) = true.
Proof. exact gen_bytes_ok. Qed.
Print Assumptions C18_bytes.

(* the fixed deterministic fall-backs once the fuzzer bytes have run out *)
Theorem C18_exhausted : forall n a b k rate,
  n < M64 -> b < M64 ->
  choose_index n (SrcBytes []) = Ok (0, SrcBytes [])
  /\ gen_range a b (SrcBytes []) = Ok (a, SrcBytes [])
  /\ gen_bool (SrcBytes []) = (false, SrcBytes [])
  /\ gen_uint k (SrcBytes []) = (0, SrcBytes [])
  /\ gen_f64 (SrcBytes []) = (0, SrcBytes [])
  /\ fst (gen_i32 (SrcBytes [])) = 0%Z
  /\ should_mutate rate (SrcBytes []) = (dyadic_lt 0 rate, SrcBytes []).
Proof. exact exhausted_fallback. Qed.
Print Assumptions C18_exhausted.

(* the arithmetic heart of the PRNG side: Canon's widening-multiply sample with its single bias
   correction never reaches the range bound, in both the 32-bit and the 64-bit lane *)
Theorem C18_canon : forall w x y r, x < 2 ^ w -> y < 2 ^ w -> 0 < r -> r <= 2 ^ w ->
  fst (canon w x y r) < r.
Proof. exact canon_lt. Qed.
Print Assumptions C18_canon.

Theorem C18_width : forall k s, In k [1; 2; 4; 8]%nat -> fst (gen_uint k s) < 2 ^ (8 * N.of_nat k).
Proof. exact gen_uint_bound. Qed.
Print Assumptions C18_width.

(* non-vacuity: concrete draws on a short byte string and on a word stream *)
Example C18_nonvacuous :
  choose_index 5 (SrcBytes [7; 200]) = Ok (2, SrcBytes [200])
  /\ gen_range 10 300 (SrcBytes [1; 2; 3]) = Ok (10 + 258 mod 290, SrcBytes [3])
  /\ fst (gen_bytes 5 (SrcWords (fun i => i + 1) 0)) = [1; 0; 0; 0; 2].
Proof. vm_compute. repeat split. Qed.

(* The f64 the seeded PRNG hands out (rand 0.9 `random::<f64>()` = (next_u64 >> 11) * 2^-53): the bit pattern
   the model builds for it (Entropy.f64_of_dyadic53, compared bit for bit with the implementation by S2 / S3)
   decodes in Flocq's IEEE-754 binary64 to a FINITE number whose value is exactly k * 2^-53, i.e. a number of
   [0, 1).  (Depends on the standard library's axioms of the reals through Flocq; listed below.) *)
From PF.proofs Require GateIEEE.
From Flocq Require Import Core Binary Bits.
Theorem C18_f64_ieee : forall k, (k < 2 ^ 53)%N ->
  is_finite 53 1024 (b64_of_bits (Z.of_N (f64_of_dyadic53 k))) = true
  /\ B2R 53 1024 (b64_of_bits (Z.of_N (f64_of_dyadic53 k))) = GateIEEE.draw_R k.
Proof. exact GateIEEE.dyadic53_value. Qed.
Print Assumptions C18_f64_ieee.
