(* C08  A generator can be reused: each call's result is independent of earlier calls. *)
From Coq Require Import List NArith ZArith Bool.
Import ListNotations.
From PF Require Import Opcodes Config Sim Lex Entropy Mutators Gen.
From PF.proofs Require Import GenP.

(* Gen.v models the Generator object with its persistent scratch fields (simulated state and
   output buffer, both surviving a call) and the API calls generate / generate_from_arbitrary /
   reset.  After ANY finite history h of such calls on a generator g, the next call returns
   exactly what a fresh generator with g's configuration returns for it. *)
Theorem C08_history : forall e g h call,
  fst (api_step e (snd (run_history e g h)) call) = fst (api_step e (gen_new (gn_cfg g)) call).
Proof. exact history_independent. Qed.
Print Assumptions C08_history.

(* in particular repeating a call (the Atheris mutator calls generate_from_arbitrary(x) again and
   again on one generator) gives the same complete pickle every time, whatever happened between *)
Theorem C08_repeat : forall e g h1 h2 call,
  fst (api_step e (snd (run_history e g h1)) call)
  = fst (api_step e (snd (run_history e g (h1 ++ call :: h2))) call).
Proof. exact repeated_call_same. Qed.
Print Assumptions C08_repeat.

(* and the result is the pure function `generate` of configuration and that call's entropy *)
Theorem C08_result : forall e g call, fst (api_step e g call) = call_result e (gn_cfg g) call.
Proof. exact api_step_result. Qed.
Print Assumptions C08_result.
