(* C10  EXT and out-of-band buffer opcodes appear only when explicitly enabled. *)
From Coq Require Import List NArith Bool.
From PF Require Import Opcodes RefTable Config Sim Ref Lex Envelope Oracles.
From PF Require Import Entropy Gen.
From PF Require Import SrcStdlibP.
From PF.proofs Require Import FinR Refine Run PropsR LexRT PropsB Examples.

(* no safety premise: holds for unsafe configurations too (TypeConfusion's replacement opcodes
   are ten fixed value pushers, none of them EXT or buffer opcodes) *)
Theorem C10_tokens : forall c framed steps, run_R c framed steps ->
  forall t, In t (run_tokens c framed steps) ->
    (is_ext t = true -> c_ext c = true) /\ (is_buffer t = true -> c_buf c = true).
Proof. exact C10_R. Qed.
Print Assumptions C10_tokens.

Theorem C10_bytes : forall c framed steps, run_R c framed steps -> fits c framed steps ->
  oracle_C10 c (serialize (run_tokens c framed steps)) = true.
Proof. exact C10_B. Qed.
Print Assumptions C10_bytes.

(* END TO END, on the bit-exact model of the generator (level F, Gen.generate_internal - the model
   suite S2 compares byte for byte with the implementation): whatever entropy source, protocol,
   ranges, flags and mutators, the bytes it returns satisfy the byte-level oracle.  Through
   FinR.F_in_R (every level-F run is a level-R run whose tokens serialise to the returned bytes).
   names_ok / fmt_ok: the GLOBAL name table and the float formatter produce newline-free,
   well-formed text (checked on the real table / formatter by suite S2 and SrcStdlibP);
   cfg_small: the opcode range bounds are below 2^32-2; out_fits: the output is shorter than 2^64 *)
Theorem C10_generated : forall e c src r,
  names_ok e -> fmt_ok e -> cfg_small c -> generate_internal e id_order c src = Ok r -> out_fits r ->
  oracle_C10 c (g_out r) = true.
Proof. intros e c src r Hn Hf Hc Hg Hfit. exact (gen_C10 e c src r Hn Hf Hc Hg Hfit). Qed.
Print Assumptions C10_generated.

(* ... and with the name table of the CURRENT source (gen/SrcStdlib.v is regenerated from the file
   emission.rs embeds; SrcStdlibP.src_names_ok decides names_ok over all of its entries) *)
Theorem C10_generated_src : forall fmt c src r,
  fmt_ok (src_env fmt) -> cfg_small c -> generate_internal (src_env fmt) id_order c src = Ok r -> out_fits r ->
  oracle_C10 c (g_out r) = true.
Proof. intros fmt c src r Hf Hc Hg Hfit. exact (C10_generated (src_env fmt) c src r (src_names_ok fmt) Hf Hc Hg Hfit). Qed.
Print Assumptions C10_generated_src.

Example C10_nonvacuous : run_R (ex_cfg V4 7) true ex_steps2 /\ c_ext (ex_cfg V4 7) = false.
Proof. exact (conj ex_run2 eq_refl). Qed.
