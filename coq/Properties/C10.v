(* C10  EXT and out-of-band buffer opcodes appear only when explicitly enabled. *)
From Coq Require Import List NArith Bool.
From PF Require Import Opcodes RefTable Config Sim Ref Lex Envelope Oracles.
From PF.proofs Require Import Refine Run PropsR LexRT PropsB Examples.

(* no safety premise: holds for unsafe configurations too (TypeConfusion's replacement opcodes
   are ten fixed value pushers, none of them EXT or buffer opcodes) *)
Theorem C10_tokens : forall c framed steps, run_R c framed steps ->
  forall t, In t (run_tokens c framed steps) ->
    (is_ext t = true -> c_ext c = true) /\ (is_buffer t = true -> c_buf c = true).
Proof. exact C10_R. Qed.
Print Assumptions C10_tokens.

Theorem C10_bytes : forall c framed steps, run_R c framed steps -> fits c framed steps ->
  oracle_C10 c (serialize (run_tokens c framed steps)) = true.
Proof. exact C10_B. Qed.
Print Assumptions C10_bytes.

Example C10_nonvacuous : run_R (ex_cfg V4 7) true ex_steps2 /\ c_ext (ex_cfg V4 7) = false.
Proof. exact (conj ex_run2 eq_refl). Qed.
