(* C04  Every output, even with unsafe mutations, is a well-formed opcode stream. *)
From Coq Require Import List NArith Bool.
Import ListNotations.
From PF Require Import Opcodes RefTable Config Sim Ref Lex Envelope Oracles.
From PF Require Import Entropy Gen.
From PF Require Import SrcStdlibP.
From PF.proofs Require Import FinR Refine Run PropsR LexRT PropsB Examples.

(* the lexer (Lex.v: written from pickletools' argument readers, with the domain checks the
   property lists) decodes the bytes of every run of the envelope completely, and gives back
   exactly the run's tokens - no `safe` premise: unsafe memo indices and TypeConfusion's
   replacement opcodes are inside the envelope *)
Theorem C04_bytes : forall c framed steps, run_R c framed steps -> fits c framed steps ->
  lex_all (serialize (run_tokens c framed steps)) = Some (run_tokens c framed steps).
Proof. exact run_bytes_lex. Qed.
Print Assumptions C04_bytes.

Theorem C04_oracle : forall c framed steps, run_R c framed steps -> fits c framed steps ->
  oracle_C04 (serialize (run_tokens c framed steps)) = true.
Proof. exact C04_B. Qed.
Print Assumptions C04_oracle.

(* what acceptance by the lexer means for STOP, for ANY byte string: exactly one, and last *)
Theorem C04_stop : forall out, oracle_C04 out = true ->
  exists ts pre a, lex_all out = Some ts /\ ts = pre ++ [(STOP, a)] /\ forallb not_stop pre = true.
Proof. exact oracle_C04_stop. Qed.
Print Assumptions C04_stop.

(* the core: one well-formed token, any continuation *)
Theorem C04_one : forall o a rest, arg_wf o a = true ->
  lex_one (encode (o, a) ++ rest) = Some ((o, a), rest).
Proof. exact lex_one_encode. Qed.
Print Assumptions C04_one.

(* END TO END, on the bit-exact model of the generator (level F, Gen.generate_internal - the model
   suite S2 compares byte for byte with the implementation): whatever entropy source, protocol,
   ranges, flags and mutators, the bytes it returns satisfy the byte-level oracle.  Through
   FinR.F_in_R (every level-F run is a level-R run whose tokens serialise to the returned bytes).
   names_ok / fmt_ok: the GLOBAL name table and the float formatter produce newline-free,
   well-formed text (checked on the real table / formatter by suite S2 and SrcStdlibP);
   cfg_small: the opcode range bounds are below 2^32-2; out_fits: the output is shorter than 2^64 *)
Theorem C04_generated : forall e c src r,
  names_ok e -> fmt_ok e -> cfg_small c -> generate_internal e id_order c src = Ok r -> out_fits r ->
  oracle_C04 (g_out r) = true.
Proof. intros e c src r Hn Hf Hc Hg Hfit. exact (gen_C04 e c src r Hn Hf Hc Hg Hfit). Qed.
Print Assumptions C04_generated.

(* ... and with the name table of the CURRENT source (gen/SrcStdlib.v is regenerated from the file
   emission.rs embeds; SrcStdlibP.src_names_ok decides names_ok over all of its entries) *)
Theorem C04_generated_src : forall fmt c src r,
  fmt_ok (src_env fmt) -> cfg_small c -> generate_internal (src_env fmt) id_order c src = Ok r -> out_fits r ->
  oracle_C04 (g_out r) = true.
Proof. intros fmt c src r Hf Hc Hg Hfit. exact (C04_generated (src_env fmt) c src r (src_names_ok fmt) Hf Hc Hg Hfit). Qed.
Print Assumptions C04_generated_src.

Example C04_nonvacuous : run_R (ex_cfg V4 7) true ex_steps2 /\ fits (ex_cfg V4 7) true ex_steps2
  /\ oracle_C04 (serialize (run_tokens (ex_cfg V4 7) true ex_steps2)) = true.
Proof. split; [exact ex_run2|]. split; [unfold fits; vm_compute; reflexivity | vm_compute; reflexivity]. Qed.
