(* C04  Every output, even with unsafe mutations, is a well-formed opcode stream. *)
From Coq Require Import List NArith Bool.
Import ListNotations.
From PF Require Import Opcodes RefTable Config Sim Ref Lex Envelope Oracles.
From PF.proofs Require Import Refine Run PropsR LexRT PropsB Examples.

(* the lexer (Lex.v: written from pickletools' argument readers, with the domain checks the
   property lists) decodes the bytes of every run of the envelope completely, and gives back
   exactly the run's tokens - no `safe` premise: unsafe memo indices and TypeConfusion's
   replacement opcodes are inside the envelope *)
Theorem C04_bytes : forall c framed steps, run_R c framed steps -> fits c framed steps ->
  lex_all (serialize (run_tokens c framed steps)) = Some (run_tokens c framed steps).
Proof. exact run_bytes_lex. Qed.
Print Assumptions C04_bytes.

Theorem C04_oracle : forall c framed steps, run_R c framed steps -> fits c framed steps ->
  oracle_C04 (serialize (run_tokens c framed steps)) = true.
Proof. exact C04_B. Qed.
Print Assumptions C04_oracle.

(* what acceptance by the lexer means for STOP, for ANY byte string: exactly one, and last *)
Theorem C04_stop : forall out, oracle_C04 out = true ->
  exists ts pre a, lex_all out = Some ts /\ ts = pre ++ [(STOP, a)] /\ forallb not_stop pre = true.
Proof. exact oracle_C04_stop. Qed.
Print Assumptions C04_stop.

(* the core: one well-formed token, any continuation *)
Theorem C04_one : forall o a rest, arg_wf o a = true ->
  lex_one (encode (o, a) ++ rest) = Some ((o, a), rest).
Proof. exact lex_one_encode. Qed.
Print Assumptions C04_one.

Example C04_nonvacuous : run_R (ex_cfg V4 7) true ex_steps2 /\ fits (ex_cfg V4 7) true ex_steps2
  /\ oracle_C04 (serialize (run_tokens (ex_cfg V4 7) true ex_steps2)) = true.
Proof. split; [exact ex_run2|]. split; [unfold fits; vm_compute; reflexivity | vm_compute; reflexivity]. Qed.
