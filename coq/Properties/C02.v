(* C02  Memo discipline: GETs resolve, PUTs are fresh, MARK is never memoised. *)
From Coq Require Import List NArith Bool.
From PF Require Import Config Sim Ref Lex Envelope Oracles.
From PF.proofs Require Import Refine Run PropsR LexRT PropsB Examples.

(* memo_run checks memo_ok before every step of the reference run: a GET-family index was
   defined by an earlier PUT-family/MEMOIZE, a PUT-family index is not yet defined, and the
   PUT executes on a non-empty stack whose top is not a MARK *)
Theorem C02_tokens : forall c framed steps,
  safeb c = true -> run_R c framed steps -> memo_run rinit (run_tokens c framed steps) = true.
Proof. exact C02_R. Qed.
Print Assumptions C02_tokens.

Theorem C02_bytes : forall c framed steps,
  safeb c = true -> run_R c framed steps -> fits c framed steps ->
  oracle_C02 (serialize (run_tokens c framed steps)) = true.
Proof. exact C02_B. Qed.
Print Assumptions C02_bytes.

Example C02_nonvacuous : safeb (ex_cfg V2 11) = true /\ run_R (ex_cfg V2 11) false ex_steps1.
Proof. exact (conj (proj1 ex_safe) ex_run1). Qed.
