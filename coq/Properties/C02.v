(* C02  Memo discipline: GETs resolve, PUTs are fresh, MARK is never memoised. *)
From Coq Require Import List NArith Bool.
From PF Require Import Config Sim Ref Lex Envelope Oracles.
From PF Require Import Entropy Gen.
From PF Require Import SrcStdlibP.
From PF.proofs Require Import FinR Refine Run PropsR LexRT PropsB Examples.

(* memo_run checks memo_ok before every step of the reference run: a GET-family index was
   defined by an earlier PUT-family/MEMOIZE, a PUT-family index is not yet defined, and the
   PUT executes on a non-empty stack whose top is not a MARK *)
Theorem C02_tokens : forall c framed steps,
  safeb c = true -> run_R c framed steps -> memo_run rinit (run_tokens c framed steps) = true.
Proof. exact C02_R. Qed.
Print Assumptions C02_tokens.

Theorem C02_bytes : forall c framed steps,
  safeb c = true -> run_R c framed steps -> fits c framed steps ->
  oracle_C02 (serialize (run_tokens c framed steps)) = true.
Proof. exact C02_B. Qed.
Print Assumptions C02_bytes.

(* END TO END, on the bit-exact model of the generator (level F, Gen.generate_internal - the model
   suite S2 compares byte for byte with the implementation): whatever entropy source, protocol,
   ranges, flags and mutators, the bytes it returns satisfy the byte-level oracle.  Through
   FinR.F_in_R (every level-F run is a level-R run whose tokens serialise to the returned bytes).
   names_ok / fmt_ok: the GLOBAL name table and the float formatter produce newline-free,
   well-formed text (checked on the real table / formatter by suite S2 and SrcStdlibP);
   cfg_small: the opcode range bounds are below 2^32-2; out_fits: the output is shorter than 2^64 *)
Theorem C02_generated : forall e c src r,
  names_ok e -> fmt_ok e -> cfg_small c -> safeb c = true ->
  generate_internal e id_order c src = Ok r -> out_fits r ->
  oracle_C02 (g_out r) = true.
Proof. intros e c src r Hn Hf Hc Hs Hg Hfit. exact (gen_C02 e c src r Hn Hf Hc Hg Hfit Hs). Qed.
Print Assumptions C02_generated.

(* ... and with the name table of the CURRENT source (gen/SrcStdlib.v is regenerated from the file
   emission.rs embeds; SrcStdlibP.src_names_ok decides names_ok over all of its entries) *)
Theorem C02_generated_src : forall fmt c src r,
  fmt_ok (src_env fmt) -> cfg_small c -> safeb c = true ->
  generate_internal (src_env fmt) id_order c src = Ok r -> out_fits r ->
  oracle_C02 (g_out r) = true.
Proof. intros fmt c src r Hf Hc Hs Hg Hfit. exact (C02_generated (src_env fmt) c src r (src_names_ok fmt) Hf Hc Hs Hg Hfit). Qed.
Print Assumptions C02_generated_src.

Example C02_nonvacuous : safeb (ex_cfg V2 11) = true /\ run_R (ex_cfg V2 11) false ex_steps1.
Proof. exact (conj (proj1 ex_safe) ex_run1). Qed.
