(* C17  The simulated stack and memo mirror the reference machine after every opcode. *)
From Coq Require Import List NArith Bool.
From PF Require Import Config Sim Ref Lex Envelope Oracles.
From PF.proofs Require Import Refine Run PropsR Examples.

(* for every prefix (n tokens) of every run: the reference machine accepts the prefix and its
   state is related to the simulated state after the same n tokens by Inv / invb *)
Theorem C17_prefixes : forall c framed steps,
  safeb c = true -> run_R c framed steps ->
  forall n, exists rn,
    ref_run rinit (firstn n (run_tokens c framed steps)) = Some rn
    /\ Inv (sim_after c (run_tokens c framed steps) n) rn
    /\ invb (sim_after c (run_tokens c framed steps) n) rn = true.
Proof. exact C17_R. Qed.
Print Assumptions C17_prefixes.

(* what the executable relation means: same depth, same MARK positions, slot-wise compatible
   kinds, same memo index set *)
Theorem C17_meaning : forall s r, invb s r = true ->
  length (stk s) = length (rstk r)
  /\ (forall i k rk, nth_error (stk s) i = Some k -> nth_error (rstk r) i = Some rk ->
        compatb k rk = true /\ (is_mark k = r_is_mark rk))
  /\ map fst (memo s) = map fst (rmemo r).
Proof. exact invb_spelled. Qed.
Print Assumptions C17_meaning.

Example C17_nonvacuous : safeb (ex_cfg V2 11) = true /\ run_R (ex_cfg V2 11) false ex_steps1.
Proof. exact (conj (proj1 ex_safe) ex_run1). Qed.
