(* C17  The simulated stack and memo mirror the reference machine after every opcode. *)
From Coq Require Import List NArith Bool.
From PF Require Import Config Sim Ref Lex Envelope Oracles.
From PF Require Import Entropy Gen SrcStdlibP.
From PF.proofs Require Import FinR Refine Run PropsR Examples.

(* for every prefix (n tokens) of every run: the reference machine accepts the prefix and its
   state is related to the simulated state after the same n tokens by Inv / invb *)
Theorem C17_prefixes : forall c framed steps,
  safeb c = true -> run_R c framed steps ->
  forall n, exists rn,
    ref_run rinit (firstn n (run_tokens c framed steps)) = Some rn
    /\ Inv (sim_after c (run_tokens c framed steps) n) rn
    /\ invb (sim_after c (run_tokens c framed steps) n) rn = true.
Proof. exact C17_R. Qed.
Print Assumptions C17_prefixes.

(* END TO END on the bit-exact model of the generator (the model suite S2 compares byte for byte with
   the implementation), with the name table of the current source: the returned bytes lex to tokens
   every prefix of which the reference machine accepts in a state related by invb to the simulated
   state after the same prefix.  Through FinR.F_in_R. *)
Theorem C17_generated_src : forall fmt c src r,
  fmt_ok (src_env fmt) -> cfg_small c -> safeb c = true ->
  generate_internal (src_env fmt) id_order c src = Ok r -> out_fits r ->
  exists ts, lex_all (g_out r) = Some ts /\ forall n, exists rn,
    ref_run rinit (firstn n ts) = Some rn /\ invb (sim_after c ts n) rn = true.
Proof. intros fmt c src r Hf Hc Hs Hg Hfit. exact (gen_C17 (src_env fmt) c src r (src_names_ok fmt) Hf Hc Hg Hfit Hs). Qed.
Print Assumptions C17_generated_src.

(* what the executable relation means: same depth, same MARK positions, slot-wise compatible
   kinds, same memo index set *)
Theorem C17_meaning : forall s r, invb s r = true ->
  length (stk s) = length (rstk r)
  /\ (forall i k rk, nth_error (stk s) i = Some k -> nth_error (rstk r) i = Some rk ->
        compatb k rk = true /\ (is_mark k = r_is_mark rk))
  /\ map fst (memo s) = map fst (rmemo r).
Proof. exact invb_spelled. Qed.
Print Assumptions C17_meaning.

Example C17_nonvacuous : safeb (ex_cfg V2 11) = true /\ run_R (ex_cfg V2 11) false ex_steps1.
Proof. exact (conj (proj1 ex_safe) ex_run1). Qed.
