(* C11 (and the header clause of C06 / the tail clause of C01) restated for the driver decisions REGENERATED FROM THE
   CURRENT SOURCE (gen/SrcDrv.v, translator tools/gen_drv.py): the target number of opcodes drawn by
   generate_internal in core.rs, its FRAME decision and reservation, and the opcode choices of cleanup_for_stop in
   stack_ops.rs.  The loop itself, emit_opcode and process_stack_ops stay hand-modelled and tied by S1 / S2 / S8. *)
From Coq Require Import List NArith Bool Lia.
Import ListNotations.
From PF Require Import Opcodes Config Entropy Sim Gen Envelope SrcPrims SrcDrvPrims.
From PF.gen Require Import SrcDrv.
From PF.proofs Require Import EntropyP Tail.
Require Import PF.SrcEqDrv.
Local Open Scope N_scope.

(* the source's target draw never panics on small configurations and lands within the knobs *)
Theorem C11_src_target : forall c s, c_min c + 2 < M32 -> c_max c + 2 < M32 ->
  exists t s', src_target (c_min c) (c_max c) s = Ok (t, s') /\ target_ok c t = true.
Proof.
  intros c s Hmin Hmax. rewrite src_target_eq. unfold model_target, target_ok.
  assert (HM : M32 < M64) by reflexivity.
  destruct (N.ltb_spec 0 (c_max c - c_min c)) as [Hr|Hr].
  - destruct (choose_index_lt (c_max c - c_min c) s Hr ltac:(lia)) as (i & s' & E & Hi).
    rewrite E. cbn [bind]. destruct (N.leb_spec M64 (c_min c + i)) as [Ho|Ho]; [lia|].
    exists (c_min c + i), s'. split; [reflexivity|].
    assert (E1 : c_min c <? c_max c = true) by (apply N.ltb_lt; lia). rewrite E1.
    apply andb_true_intro; split; [apply N.leb_le | apply N.ltb_lt]; lia.
  - exists (c_min c), s. split; [reflexivity|].
    assert (E1 : c_min c <? c_max c = false) by (apply N.ltb_ge; lia). rewrite E1. apply N.eqb_refl.
Qed.
Print Assumptions C11_src_target.

(* ... and it is the draw the model's generate_internal makes, after the FRAME decision the source makes *)
Theorem C11_src_decisions : forall e ho c src,
  generate_internal e ho c src =
  (do (framed, s0) <- src_use_frame (c_version c) src;
   do (target, s1) <- src_target (c_min c) (c_max c) s0;
   let v := c_version c in
   let sim0 := {| stk := []; memo := []; proto_emitted := negb (v_lt2 v) |} in
   do l <- N.iter target (loop_body e ho c)
             (Ok {| l_sim := sim0; l_src := s1; l_out := []; l_trace := []; l_stopped := false |});
   let (tail, sim1) := src_cleanup v (l_sim l) in
   let sim2 := step0 v sim1 STOP in
   let rest := concat (rev (l_out l)) ++ map RefTable.ref_code tail ++ [RefTable.ref_code STOP] in
   let hdr := (if v_lt2 v then [] else [RefTable.ref_code PROTO; vnum v])
              ++ (if framed then RefTable.ref_code FRAME :: Lex.le_bytes 8 (N.of_nat (length rest)) else []) in
   Ok {| g_out := hdr ++ rest; g_framed := framed; g_target := target; g_trace := rev (l_trace l);
         g_tail := tail; g_sim := sim2; g_src := l_src l |}).
Proof.
  intros e ho c src. rewrite generate_uses_model_target, src_use_frame_eq. cbn [bind].
  destruct (if v_ge4 (c_version c) then gen_bool src else (false, src)) as [framed s0].
  cbv zeta. rewrite src_target_eq. destruct (model_target c s0) as [[target s1]|p]; [|reflexivity]. cbn [bind].
  destruct (N.iter target (loop_body e ho c) _) as [l|p]; [|reflexivity]. cbn [bind].
  rewrite src_cleanup_eq. reflexivity.
Qed.
Print Assumptions C11_src_decisions.

(* the tail the source's cleanup emits has at most 2 * depth + 1 opcodes, all of them from its five choices *)
Theorem C11_src_cleanup : forall v s, src_cleanup v s = cleanup_for_stop v s.
Proof. exact src_cleanup_eq. Qed.
Print Assumptions C11_src_cleanup.

(* hence what was proved of the model's tail holds of the source's: at most 2 * depth + 1 opcodes, each one TUPLE, NONE, POP
   (protocols 0 and 1 only) or TUPLE2 / TUPLE3 (protocols 2 and later only) *)
Theorem C11_src_tail : forall v s,
  let ops := fst (src_cleanup v s) in
  (length ops <= 2 * length (stk s) + 1)%nat
  /\ (forall o, In o ops ->
        o = TUPLE \/ o = NONE \/ (v_lt2 v = true /\ o = POP)
        \/ (v_lt2 v = false /\ (o = TUPLE2 \/ o = TUPLE3))).
Proof. intros v s. cbv zeta. rewrite src_cleanup_eq. exact (cleanup_facts v s). Qed.
Print Assumptions C11_src_tail.

(* one iteration of the generation loop over the source's get_valid_opcodes (the protocol's row, in order, filtered by
   can_emit) and weighted_choice (the opcode at a uniformly drawn index; its fallback on an empty list is dead: the loop
   leaves first): exactly one opcode is chosen per iteration, from the candidates - what C11's count and C03's guard rest on *)
Theorem C11_src_loop : forall e ho c l, l_stopped l = false ->
  loop_body e ho c (Ok l) =
  (let valid := src_get_valid (can_emit c (l_sim l)) (row (c_version c)) in
   match valid with
   | [] => Ok {| l_sim := l_sim l; l_src := l_src l; l_out := l_out l; l_trace := l_trace l; l_stopped := true |}
   | _ => do (o, s1) <- src_weighted_choice valid (l_src l);
          do (r, s2) <- emit_and_process e ho c (l_sim l) o s1;
          let (em, sim') := r in
          Ok {| l_sim := sim'; l_src := s2; l_out := e_final em :: l_out l;
                l_trace := (valid, o, em) :: l_trace l; l_stopped := false |}
   end).
Proof. exact loop_body_src. Qed.
Print Assumptions C11_src_loop.

(* `>=` on Version in the source is derive(PartialOrd) = declaration order = the order of the protocol numbers *)
Theorem C11_src_version_order : map vnum src_version_order = [0; 1; 2; 3; 4; 5].
Proof. exact src_version_order_ok. Qed.
Print Assumptions C11_src_version_order.

(* FRAME: nine bytes reserved = the opcode and its 8-byte length, left out of the length that is written *)
Theorem C06_src_frame : src_frame_reserve = 9 /\ src_frame_skip = src_frame_reserve
  /\ src_frame_reserve = N.of_nat (length (RefTable.ref_code FRAME :: Lex.le_bytes 8 0)).
Proof. exact src_frame_bytes. Qed.
Print Assumptions C06_src_frame.

(* non-vacuity: a configuration within the hypothesis, and a collapse the source's if-chain actually drives *)
Example C11r_inhabited :
  (let c := {| c_version := V4; c_min := 60; c_max := 300; c_mutators := []; c_rate := 0; c_unsafe := false; c_ext := false; c_buf := false |} in c_min c + 2 < M32 /\ c_max c + 2 < M32)
  /\ fst (src_cleanup V2 {| stk := [KInt; KMark; KInt; KInt; KNone]; memo := []; proto_emitted := true |}) = [TUPLE; TUPLE3; TUPLE2]
  /\ fst (src_cleanup V0 {| stk := [KInt; KInt; KNone]; memo := []; proto_emitted := false |}) = [POP; POP]
  /\ fst (src_cleanup V3 {| stk := []; memo := []; proto_emitted := true |}) = [NONE].
Proof. vm_compute. repeat split; reflexivity. Qed.
