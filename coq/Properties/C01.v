(* C01  Safe-mode pickles obey the reference stack discipline (pickletools.dis semantics). *)
From Coq Require Import List NArith Bool.
From PF Require Import Config Sim Ref Lex Envelope Oracles.
From PF.proofs Require Import Refine Run PropsR LexRT PropsB Examples.

(* every run of the envelope (any protocol, any safe mutator list and rate, any opcode range,
   both opt-in flags, any choice of valid opcodes and any arguments the emitters can produce)
   is accepted by the reference machine: no step under-runs the stack, every MARK-consuming
   opcode finds its MARK, and after STOP the stack is empty *)
Theorem C01_tokens : forall c framed steps,
  safeb c = true -> run_R c framed steps -> ref_accepts (run_tokens c framed steps) = true.
Proof. exact C01_R. Qed.
Print Assumptions C01_tokens.

(* the same on the emitted BYTES (through the lexer round trip): the serialised run lexes back
   to its tokens and the reference machine accepts them.  `fits` = the output is shorter than
   2^64 bytes (it is a Vec<u8>); needed only for the 8-byte FRAME length *)
Theorem C01_bytes : forall c framed steps,
  safeb c = true -> run_R c framed steps -> fits c framed steps ->
  oracle_C01 (serialize (run_tokens c framed steps)) = true.
Proof. exact C01_B. Qed.
Print Assumptions C01_bytes.

(* non-vacuity: concrete runs with MARKs, memo traffic, REDUCE and an open MARK at the end *)
Example C01_nonvacuous :
  (safeb (ex_cfg V2 11) = true /\ run_R (ex_cfg V2 11) false ex_steps1)
  /\ (safeb (ex_cfg V4 7) = true /\ run_R (ex_cfg V4 7) true ex_steps2).
Proof. exact (conj (conj (proj1 ex_safe) ex_run1) (conj (proj2 ex_safe) ex_run2)). Qed.
