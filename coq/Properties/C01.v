(* C01  Safe-mode pickles obey the reference stack discipline (pickletools.dis semantics). *)
From Coq Require Import List NArith Bool.
From PF Require Import Config Sim Ref Lex Envelope Oracles.
From PF Require Import Entropy Gen.
From PF Require Import SrcStdlibP.
From PF.proofs Require Import FinR Refine Run PropsR LexRT PropsB Examples.

(* every run of the envelope (any protocol, any safe mutator list and rate, any opcode range,
   both opt-in flags, any choice of valid opcodes and any arguments the emitters can produce)
   is accepted by the reference machine: no step under-runs the stack, every MARK-consuming
   opcode finds its MARK, and after STOP the stack is empty *)
Theorem C01_tokens : forall c framed steps,
  safeb c = true -> run_R c framed steps -> ref_accepts (run_tokens c framed steps) = true.
Proof. exact C01_R. Qed.
Print Assumptions C01_tokens.

(* the same on the emitted BYTES (through the lexer round trip): the serialised run lexes back
   to its tokens and the reference machine accepts them.  `fits` = the output is shorter than
   2^64 bytes (it is a Vec<u8>); needed only for the 8-byte FRAME length *)
Theorem C01_bytes : forall c framed steps,
  safeb c = true -> run_R c framed steps -> fits c framed steps ->
  oracle_C01 (serialize (run_tokens c framed steps)) = true.
Proof. exact C01_B. Qed.
Print Assumptions C01_bytes.

(* END TO END, on the bit-exact model of the generator (level F, Gen.generate_internal - the model
   suite S2 compares byte for byte with the implementation): whatever entropy source, protocol,
   ranges, flags and mutators, the bytes it returns satisfy the byte-level oracle.  Through
   FinR.F_in_R (every level-F run is a level-R run whose tokens serialise to the returned bytes).
   names_ok / fmt_ok: the GLOBAL name table and the float formatter produce newline-free,
   well-formed text (checked on the real table / formatter by suite S2 and SrcStdlibP);
   cfg_small: the opcode range bounds are below 2^32-2; out_fits: the output is shorter than 2^64 *)
Theorem C01_generated : forall e c src r,
  names_ok e -> fmt_ok e -> cfg_small c -> safeb c = true ->
  generate_internal e id_order c src = Ok r -> out_fits r ->
  oracle_C01 (g_out r) = true.
Proof. intros e c src r Hn Hf Hc Hs Hg Hfit. exact (gen_C01 e c src r Hn Hf Hc Hg Hfit Hs). Qed.
Print Assumptions C01_generated.

(* ... and with the name table of the CURRENT source (gen/SrcStdlib.v is regenerated from the file
   emission.rs embeds; SrcStdlibP.src_names_ok decides names_ok over all of its entries) *)
Theorem C01_generated_src : forall fmt c src r,
  fmt_ok (src_env fmt) -> cfg_small c -> safeb c = true ->
  generate_internal (src_env fmt) id_order c src = Ok r -> out_fits r ->
  oracle_C01 (g_out r) = true.
Proof. intros fmt c src r Hf Hc Hs Hg Hfit. exact (C01_generated (src_env fmt) c src r (src_names_ok fmt) Hf Hc Hs Hg Hfit). Qed.
Print Assumptions C01_generated_src.

(* non-vacuity: concrete runs with MARKs, memo traffic, REDUCE and an open MARK at the end *)
Example C01_nonvacuous :
  (safeb (ex_cfg V2 11) = true /\ run_R (ex_cfg V2 11) false ex_steps1)
  /\ (safeb (ex_cfg V4 7) = true /\ run_R (ex_cfg V4 7) true ex_steps2).
Proof. exact (conj (conj (proj1 ex_safe) ex_run1) (conj (proj2 ex_safe) ex_run2)). Qed.
