(* C13 over the tables REGENERATED FROM THE CURRENT SOURCE (built whenever the translator can read
   mutators/mod.rs, generator/mod.rs and cli.rs; the statements over the hand-written model are in C13.v,
   and suite S6 is the property on the implementation). *)
From Coq Require Import List NArith ZArith Bool.
Import ListNotations.
From PF Require Import Opcodes Config Sim Lex Entropy Mutators Gen Front.
From PF.proofs Require Import FrontP.
From PF.gen Require SrcFront.
Require Import PF.SrcEqFront.

(* the model's tables are the source's: defaults of clap and of Generator::default, the `all`
   expansion and which constructors receive the unsafe flag - regenerated on every run *)
Theorem C13_tables :
  (forall u, SrcFront.Src.all_mutators u = all_mutators u)
  /\ (forall u k, SrcFront.Src.create u k = create u k)
  /\ SrcFront.Src.cli_default_min = default_min /\ SrcFront.Src.cli_default_max = default_max
  /\ SrcFront.Src.cli_default_rate = default_rate /\ SrcFront.Src.cli_default_samples = default_samples
  /\ SrcFront.Src.gen_default_min = default_min /\ SrcFront.Src.gen_default_max = default_max
  /\ SrcFront.Src.gen_default_rate = default_rate.
Proof.
  split; [exact src_all_mutators_eq|]. split; [exact src_create_eq|].
  destruct src_defaults_eq as (A & B & C & _ & D & E & F & G). auto 10.
Qed.
Print Assumptions C13_tables.
