(* C15 / C16 restated for the mutator functions REGENERATED FROM THE CURRENT SOURCE
   (gen/SrcMutFns.v, translator tools/gen_mut.py): bitflip.rs, boundary.rs, offbyone.rs and
   memoindex.rs - every mutate_int / mutate_long / mutate_float / mutate_memo_index.  The string and
   byte-string mutators (stringlen.rs, character.rs) and typeconfusion.rs stay hand-modelled and
   tied by suite S3. *)
From Coq Require Import List NArith ZArith Bool.
Import ListNotations.
From PF Require Import Opcodes Config Lex Entropy Mutators Oracles SrcPrims.
From PF.gen Require SrcMutFns.
From PF.proofs Require Import EntropyP MutatorsP.
Require Import PF.SrcEqMutFns.
Local Open Scope N_scope.
Import SrcMutFns.

(* which source function implements which mutator (u = the unsafe_mode the mutator was created with) *)
Definition src_int_fns (u : bool) := [(MBitflip, Src.bitflip_mutate_int u); (MBoundary, Src.boundary_mutate_int u);
                                      (MOffByOne, Src.offbyone_mutate_int u); (MMemoIndex u, Src.memoindex_mutate_int u)].
Definition src_long_fns (u : bool) := [(MBitflip, Src.bitflip_mutate_long u); (MBoundary, Src.boundary_mutate_long u);
                                       (MOffByOne, Src.offbyone_mutate_long u); (MMemoIndex u, Src.memoindex_mutate_long u)].
Definition src_float_fns (u : bool) := [(MBoundary, Src.boundary_mutate_float u)].
Definition src_memo_fns (u : bool) := [(MOffByOne, Src.offbyone_mutate_memo_index u); (MMemoIndex u, Src.memoindex_mutate_memo_index u)].

(* the regenerated functions ARE the model's (for every value, source and rate) *)
Theorem C16_src_eq : forall u v s rate,
  Forall (fun mf => snd mf v s rate = mutate_int_one (fst mf) v rate s) (src_int_fns u)
  /\ Forall (fun mf => snd mf v s rate = mutate_long_one (fst mf) v rate s) (src_long_fns u)
  /\ (forall x, Forall (fun mf => snd mf x s rate = mutate_float_one (fst mf) x rate s) (src_float_fns u))
  /\ (forall i, i < M64 -> Forall (fun mf => snd mf i s rate = mutate_memo_one (fst mf) i rate s) (src_memo_fns u)).
Proof.
  intros u v s rate. repeat split; intros; repeat constructor; cbn [fst snd];
    first [ apply src_bitflip_int | apply src_boundary_int | apply src_offbyone_int | apply src_memoindex_int
          | apply src_bitflip_long | apply src_boundary_long | apply src_offbyone_long | apply src_memoindex_long
          | apply src_boundary_float | apply src_offbyone_memo; assumption | apply src_memoindex_memo; assumption ].
Qed.
Print Assumptions C16_src_eq.

(* C16 on the source's own functions: never a panic; whatever they return is inside the contract *)
Theorem C16_src_int : forall u m f v rate s, In (m, f) (src_int_fns u) ->
  exists r s', f v s rate = Ok (r, s') /\ (forall v', r = Some v' -> contract_int 32 int_boundaries m v v' = true).
Proof.
  intros u m f v rate s Hin. destruct (C16_src_eq u v s rate) as (H & _). rewrite Forall_forall in H.
  specialize (H _ Hin). cbn [fst snd] in H. rewrite H.
  destruct (int_one_spec m v rate s I) as (r & s' & E & _ & _ & C). exists r, s'. auto.
Qed.
Print Assumptions C16_src_int.

Theorem C16_src_long : forall u m f v rate s, In (m, f) (src_long_fns u) ->
  exists r s', f v s rate = Ok (r, s') /\ (forall v', r = Some v' -> contract_int 64 long_boundaries m v v' = true).
Proof.
  intros u m f v rate s Hin. destruct (C16_src_eq u v s rate) as (_ & H & _). rewrite Forall_forall in H.
  specialize (H _ Hin). cbn [fst snd] in H. rewrite H.
  destruct (long_one_spec m v rate s I) as (r & s' & E & _ & _ & C). exists r, s'. auto.
Qed.
Print Assumptions C16_src_long.

Theorem C16_src_float : forall u m f v rate s, In (m, f) (src_float_fns u) ->
  exists r s', f v s rate = Ok (r, s') /\ (forall v', r = Some v' -> contract_float m v' = true).
Proof.
  intros u m f v rate s Hin. destruct (C16_src_eq u 0%Z s rate) as (_ & _ & H & _). specialize (H v). rewrite Forall_forall in H.
  specialize (H _ Hin). cbn [fst snd] in H. rewrite H.
  destruct (float_one_spec m v rate s I) as (r & s' & E & _ & _ & C). exists r, s'. auto.
Qed.
Print Assumptions C16_src_float.

Theorem C16_src_memo : forall u m f i rate s, i < M64 -> In (m, f) (src_memo_fns u) ->
  exists r s', f i s rate = Ok (r, s') /\ (forall i', r = Some i' -> contract_memo m i i' = true).
Proof.
  intros u m f i rate s Hi Hin. destruct (C16_src_eq u 0%Z s rate) as (_ & _ & _ & H). specialize (H i Hi). rewrite Forall_forall in H.
  specialize (H _ Hin). cbn [fst snd] in H. rewrite H.
  destruct (memo_one_spec m i rate s I) as (r & s' & E & _ & _ & C). exists r, s'. auto.
Qed.
Print Assumptions C16_src_memo.

(* C15 on the source's own functions: the gate is the first thing each of them does - at a rate
   that never fires they return None, at a rate that always fires they return Some *)
Theorem C15_src_gate : forall u m f v rate s, In (m, f) (src_int_fns u) -> applies_int m = true ->
  (never_fires rate -> exists s', f v s rate = Ok (None, s'))
  /\ (always_fires rate -> exists v' s', f v s rate = Ok (Some v', s')).
Proof.
  intros u m f v rate s Hin Ha. destruct (C16_src_eq u v s rate) as (H & _). rewrite Forall_forall in H.
  specialize (H _ Hin). cbn [fst snd] in H. rewrite H.
  destruct (int_one_spec m v rate s I) as (r & s' & E & _ & G & _). specialize (G Ha). rewrite E. split; intro Hr.
  - exists s'. destruct r as [x|]; [|reflexivity]. exfalso.
    assert (N0 : fst (should_mutate rate s) = false) by (apply gate_never; exact Hr).
    apply G in N0. discriminate N0.
  - destruct r as [x|]; [exists x, s'; reflexivity|]. exfalso.
    assert (N1 : fst (should_mutate rate s) = true) by (apply gate_always; exact Hr).
    destruct G as [G _]. rewrite (G eq_refl) in N1. discriminate N1.
Qed.
Print Assumptions C15_src_gate.
