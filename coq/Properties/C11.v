(* C11  The opcode-count knobs bound the size of the generated program. *)
From Coq Require Import List NArith Bool.
From PF Require Import Opcodes RefTable Config Sim Ref Lex Envelope Oracles.
From PF.proofs Require Import Refine Run PropsR LexRT PropsB Examples.

(* T = length steps freely chosen body opcodes, each exactly one token; header <= 2 tokens,
   collapse tail <= 2T+1 tokens, one STOP; T within the knobs (target_ok: min <= T < max when
   min < max, T = min otherwise) *)
Theorem C11_tokens : forall c framed steps, run_R c framed steps ->
  exists hdr tail,
    length (run_tokens c framed steps) = hdr + length steps + tail + 1
    /\ hdr <= 2 /\ tail <= 2 * length steps + 1
    /\ target_ok c (N.of_nat (length steps)) = true.
Proof. exact C11_R. Qed.
Print Assumptions C11_tokens.

(* on the bytes: the decoded output has between min+1 and 3*max(min,max)+4 opcodes *)
Theorem C11_bytes : forall c framed steps, run_R c framed steps -> fits c framed steps ->
  oracle_C11 c (serialize (run_tokens c framed steps)) = true.
Proof. exact C11_B. Qed.
Print Assumptions C11_bytes.

Example C11_nonvacuous : run_R (ex_cfg V2 11) false ex_steps1 /\ length ex_steps1 = 11.
Proof. exact (conj ex_run1 eq_refl). Qed.
