(* C11  The opcode-count knobs bound the size of the generated program. *)
From Coq Require Import List NArith Bool.
From PF Require Import Opcodes RefTable Config Sim Ref Lex Envelope Oracles.
From PF Require Import Entropy Gen.
From PF Require Import SrcStdlibP.
From PF.proofs Require Import FinR Refine Run PropsR LexRT PropsB Examples.

(* T = length steps freely chosen body opcodes, each exactly one token; header <= 2 tokens,
   collapse tail <= 2T+1 tokens, one STOP; T within the knobs (target_ok: min <= T < max when
   min < max, T = min otherwise) *)
Theorem C11_tokens : forall c framed steps, run_R c framed steps ->
  exists hdr tail,
    length (run_tokens c framed steps) = hdr + length steps + tail + 1
    /\ hdr <= 2 /\ tail <= 2 * length steps + 1
    /\ target_ok c (N.of_nat (length steps)) = true.
Proof. exact C11_R. Qed.
Print Assumptions C11_tokens.

(* on the bytes: the decoded output has between min+1 and 3*max(min,max)+4 opcodes *)
Theorem C11_bytes : forall c framed steps, run_R c framed steps -> fits c framed steps ->
  oracle_C11 c (serialize (run_tokens c framed steps)) = true.
Proof. exact C11_B. Qed.
Print Assumptions C11_bytes.

(* END TO END, on the bit-exact model of the generator (level F, Gen.generate_internal - the model
   suite S2 compares byte for byte with the implementation): whatever entropy source, protocol,
   ranges, flags and mutators, the bytes it returns satisfy the byte-level oracle.  Through
   FinR.F_in_R (every level-F run is a level-R run whose tokens serialise to the returned bytes).
   names_ok / fmt_ok: the GLOBAL name table and the float formatter produce newline-free,
   well-formed text (checked on the real table / formatter by suite S2 and SrcStdlibP);
   cfg_small: the opcode range bounds are below 2^32-2; out_fits: the output is shorter than 2^64 *)
Theorem C11_generated : forall e c src r,
  names_ok e -> fmt_ok e -> cfg_small c -> generate_internal e id_order c src = Ok r -> out_fits r ->
  oracle_C11 c (g_out r) = true.
Proof. intros e c src r Hn Hf Hc Hg Hfit. exact (gen_C11 e c src r Hn Hf Hc Hg Hfit). Qed.
Print Assumptions C11_generated.

(* ... and with the name table of the CURRENT source (gen/SrcStdlib.v is regenerated from the file
   emission.rs embeds; SrcStdlibP.src_names_ok decides names_ok over all of its entries) *)
Theorem C11_generated_src : forall fmt c src r,
  fmt_ok (src_env fmt) -> cfg_small c -> generate_internal (src_env fmt) id_order c src = Ok r -> out_fits r ->
  oracle_C11 c (g_out r) = true.
Proof. intros fmt c src r Hf Hc Hg Hfit. exact (C11_generated (src_env fmt) c src r (src_names_ok fmt) Hf Hc Hg Hfit). Qed.
Print Assumptions C11_generated_src.

Example C11_nonvacuous : run_R (ex_cfg V2 11) false ex_steps1 /\ length ex_steps1 = 11.
Proof. exact (conj ex_run1 eq_refl). Qed.
