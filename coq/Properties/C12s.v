(* C12, seeded entry point: "occurs in the output for SOME SEED with default settings". *)
From Coq Require Import List NArith ZArith Bool.
Import ListNotations.
From PF Require Import Opcodes RefTable Config Sim Lex Entropy Gen ChaCha Witness WitnessF SrcStdlibP.
From PF.gen Require SrcOpcodes.
From PF.proofs Require Import WitnessFP ChaChaP.
Require Import PF.SrcEqOpcodes PF.SeedWitP.

(* The whole path of Generator::new(v).with_seed(seed).generate() is inside the model: the seed is
   expanded by PCG32 into a ChaCha key, the ChaCha8 block function produces the word stream
   (ChaCha.v; compared with the rand_chacha crate by suite `words`), and Gen.generate_internal
   consumes it.  For every protocol v and EVERY opcode o of the row of v regenerated from the current
   source (PROTO, FRAME and STOP included) there is a seed whose pickle - default settings: range
   60..300, no mutators; the EXT / buffer opt-in flags on exactly for the opcodes that need them -
   contains o.  The witnesses are found by a census of the implementation on this very run and
   re-executed here on the model by the kernel (vm_compute). *)
Theorem C12_seed_witness : forall v o, In o (SrcOpcodes.Src.row v) ->
  let fl := negb (flag_ok (default_cfg v false false) o) in
  exists seed r,
    generate_internal (src_env fmt0) id_order (default_cfg v fl fl) (seeded_source seed) = Ok r
    /\ occurs o (g_out r) = true.
Proof. exact seed_witness. Qed.
Print Assumptions C12_seed_witness.

(* for protocols 4 and 5 both framed and unframed pickles occur *)
Theorem C12_frame_witness : forall v, v_ge4 v = true ->
  exists s1 s2 r1 r2,
    generate_internal (src_env fmt0) id_order (default_cfg v false false) (seeded_source s1) = Ok r1
    /\ g_framed r1 = true /\ occurs FRAME (g_out r1) = true
    /\ generate_internal (src_env fmt0) id_order (default_cfg v false false) (seeded_source s2) = Ok r2
    /\ g_framed r2 = false /\ occurs FRAME (g_out r2) = false.
Proof. exact frame_witness. Qed.
Print Assumptions C12_frame_witness.

(* the word stream of a seed is ChaCha8 under the PCG32-expanded key, block by block *)
Theorem C12_stream : forall seed i,
  chacha8_word seed i = getw (chacha8_block (key_of_seed seed) (N.shiftr i 4)) (N.to_nat (N.land i 15)).
Proof. exact chacha8_word_spec. Qed.
Print Assumptions C12_stream.
