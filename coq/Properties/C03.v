(* C03  Typed opcodes only ever receive operands of the kind they require. *)
From Coq Require Import List NArith Bool.
From PF Require Import Config Sim Ref Lex Envelope Oracles.
From PF.proofs Require Import Refine Run PropsR LexRT PropsB Examples.

(* ref_run_req checks req_ok (Ref.v: the requirement list of the property) before every step
   of the kind-tracking reference machine *)
Theorem C03_tokens : forall c framed steps,
  safeb c = true -> run_R c framed steps ->
  exists r, ref_run_req rinit (run_tokens c framed steps) = Some r.
Proof. exact C03_R. Qed.
Print Assumptions C03_tokens.

(* the per-step form: whatever passes can_emit in a state mirrored by the reference state
   meets its kind requirement there *)
Theorem C03_step : forall c s r t,
  c_unsafe c = false -> Inv s r -> can_emit c s (fst t) = true -> tok_env s t ->
  exists r', ref_step r t = Some r' /\ req_ok r t = true /\ memo_ok r t = true
          /\ Inv (sim_step (c_version c) s t) r'.
Proof. exact step_refines. Qed.
Print Assumptions C03_step.

Theorem C03_bytes : forall c framed steps,
  safeb c = true -> run_R c framed steps -> fits c framed steps ->
  oracle_C03 (serialize (run_tokens c framed steps)) = true.
Proof. exact C03_B. Qed.
Print Assumptions C03_bytes.

Example C03_nonvacuous : safeb (ex_cfg V4 7) = true /\ run_R (ex_cfg V4 7) true ex_steps2.
Proof. exact (conj (proj2 ex_safe) ex_run2). Qed.
