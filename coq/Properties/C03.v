(* C03  Typed opcodes only ever receive operands of the kind they require. *)
From Coq Require Import List NArith Bool.
From PF Require Import Config Sim Ref Lex Envelope Oracles.
From PF Require Import Entropy Gen.
From PF Require Import SrcStdlibP.
From PF.proofs Require Import FinR Refine Run PropsR LexRT PropsB Examples.

(* ref_run_req checks req_ok (Ref.v: the requirement list of the property) before every step
   of the kind-tracking reference machine *)
Theorem C03_tokens : forall c framed steps,
  safeb c = true -> run_R c framed steps ->
  exists r, ref_run_req rinit (run_tokens c framed steps) = Some r.
Proof. exact C03_R. Qed.
Print Assumptions C03_tokens.

(* the per-step form: whatever passes can_emit in a state mirrored by the reference state
   meets its kind requirement there *)
Theorem C03_step : forall c s r t,
  c_unsafe c = false -> Inv s r -> can_emit c s (fst t) = true -> tok_env s t ->
  exists r', ref_step r t = Some r' /\ req_ok r t = true /\ memo_ok r t = true
          /\ Inv (sim_step (c_version c) s t) r'.
Proof. exact step_refines. Qed.
Print Assumptions C03_step.

Theorem C03_bytes : forall c framed steps,
  safeb c = true -> run_R c framed steps -> fits c framed steps ->
  oracle_C03 (serialize (run_tokens c framed steps)) = true.
Proof. exact C03_B. Qed.
Print Assumptions C03_bytes.

(* END TO END, on the bit-exact model of the generator (level F, Gen.generate_internal - the model
   suite S2 compares byte for byte with the implementation): whatever entropy source, protocol,
   ranges, flags and mutators, the bytes it returns satisfy the byte-level oracle.  Through
   FinR.F_in_R (every level-F run is a level-R run whose tokens serialise to the returned bytes).
   names_ok / fmt_ok: the GLOBAL name table and the float formatter produce newline-free,
   well-formed text (checked on the real table / formatter by suite S2 and SrcStdlibP);
   cfg_small: the opcode range bounds are below 2^32-2; out_fits: the output is shorter than 2^64 *)
Theorem C03_generated : forall e c src r,
  names_ok e -> fmt_ok e -> cfg_small c -> safeb c = true ->
  generate_internal e id_order c src = Ok r -> out_fits r ->
  oracle_C03 (g_out r) = true.
Proof. intros e c src r Hn Hf Hc Hs Hg Hfit. exact (gen_C03 e c src r Hn Hf Hc Hg Hfit Hs). Qed.
Print Assumptions C03_generated.

(* ... and with the name table of the CURRENT source (gen/SrcStdlib.v is regenerated from the file
   emission.rs embeds; SrcStdlibP.src_names_ok decides names_ok over all of its entries) *)
Theorem C03_generated_src : forall fmt c src r,
  fmt_ok (src_env fmt) -> cfg_small c -> safeb c = true ->
  generate_internal (src_env fmt) id_order c src = Ok r -> out_fits r ->
  oracle_C03 (g_out r) = true.
Proof. intros fmt c src r Hf Hc Hs Hg Hfit. exact (C03_generated (src_env fmt) c src r (src_names_ok fmt) Hf Hc Hs Hg Hfit). Qed.
Print Assumptions C03_generated_src.

Example C03_nonvacuous : safeb (ex_cfg V4 7) = true /\ run_R (ex_cfg V4 7) true ex_steps2.
Proof. exact (conj (proj2 ex_safe) ex_run2). Qed.
