(* C05  Output uses only the opcodes of the requested protocol, with the right header. *)
From Coq Require Import List NArith Bool.
From PF Require Import Opcodes RefTable Config Sim Ref Lex Envelope Oracles.
From PF Require Import Entropy Gen.
From PF Require Import SrcStdlibP.
From PF.proofs Require Import FinR Refine Run PropsR LexRT PropsB Examples.

(* token part, for every run of the envelope: every token's opcode was introduced in protocol
   <= v according to CPython's table (ref_proto, RefTable.v), including the collapse tail; for
   v >= 2 the first token is PROTO v and no other PROTO occurs, for v < 2 none occurs *)
Theorem C05_tokens : forall c framed steps,
  safeb c = true -> run_R c framed steps ->
  let ts := run_tokens c framed steps in
  forallb (fun t => (ref_proto (fst t) <=? vnum (c_version c))%N) ts = true
  /\ header_ok (c_version c) ts = true.
Proof. exact C05_R. Qed.
Print Assumptions C05_tokens.

(* on the bytes: the output lexes, every opcode is of protocol <= v, the header is right, and a
   protocol-0 pickle consists of 7-bit bytes only (oracle_C05 checks all of that) *)
Theorem C05_bytes : forall c framed steps,
  safeb c = true -> run_R c framed steps -> fits c framed steps ->
  oracle_C05 (c_version c) (serialize (run_tokens c framed steps)) = true.
Proof. exact C05_B. Qed.
Print Assumptions C05_bytes.

(* END TO END, on the bit-exact model of the generator (level F, Gen.generate_internal - the model
   suite S2 compares byte for byte with the implementation): whatever entropy source, protocol,
   ranges, flags and mutators, the bytes it returns satisfy the byte-level oracle.  Through
   FinR.F_in_R (every level-F run is a level-R run whose tokens serialise to the returned bytes).
   names_ok / fmt_ok: the GLOBAL name table and the float formatter produce newline-free,
   well-formed text (checked on the real table / formatter by suite S2 and SrcStdlibP);
   cfg_small: the opcode range bounds are below 2^32-2; out_fits: the output is shorter than 2^64 *)
Theorem C05_generated : forall e c src r,
  names_ok e -> fmt_ok e -> cfg_small c -> safeb c = true ->
  generate_internal e id_order c src = Ok r -> out_fits r ->
  oracle_C05 (c_version c) (g_out r) = true.
Proof. intros e c src r Hn Hf Hc Hs Hg Hfit. exact (gen_C05 e c src r Hn Hf Hc Hg Hfit Hs). Qed.
Print Assumptions C05_generated.

(* ... and with the name table of the CURRENT source (gen/SrcStdlib.v is regenerated from the file
   emission.rs embeds; SrcStdlibP.src_names_ok decides names_ok over all of its entries) *)
Theorem C05_generated_src : forall fmt c src r,
  fmt_ok (src_env fmt) -> cfg_small c -> safeb c = true ->
  generate_internal (src_env fmt) id_order c src = Ok r -> out_fits r ->
  oracle_C05 (c_version c) (g_out r) = true.
Proof. intros fmt c src r Hf Hc Hs Hg Hfit. exact (C05_generated (src_env fmt) c src r (src_names_ok fmt) Hf Hc Hs Hg Hfit). Qed.
Print Assumptions C05_generated_src.

Example C05_nonvacuous : safeb (ex_cfg V2 11) = true /\ run_R (ex_cfg V2 11) false ex_steps1.
Proof. exact (conj (proj1 ex_safe) ex_run1). Qed.
