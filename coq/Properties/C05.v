(* C05  Output uses only the opcodes of the requested protocol, with the right header. *)
From Coq Require Import List NArith Bool.
From PF Require Import Opcodes RefTable Config Sim Ref Lex Envelope Oracles.
From PF.proofs Require Import Refine Run PropsR LexRT PropsB Examples.

(* token part, for every run of the envelope: every token's opcode was introduced in protocol
   <= v according to CPython's table (ref_proto, RefTable.v), including the collapse tail; for
   v >= 2 the first token is PROTO v and no other PROTO occurs, for v < 2 none occurs *)
Theorem C05_tokens : forall c framed steps,
  safeb c = true -> run_R c framed steps ->
  let ts := run_tokens c framed steps in
  forallb (fun t => (ref_proto (fst t) <=? vnum (c_version c))%N) ts = true
  /\ header_ok (c_version c) ts = true.
Proof. exact C05_R. Qed.
Print Assumptions C05_tokens.

(* on the bytes: the output lexes, every opcode is of protocol <= v, the header is right, and a
   protocol-0 pickle consists of 7-bit bytes only (oracle_C05 checks all of that) *)
Theorem C05_bytes : forall c framed steps,
  safeb c = true -> run_R c framed steps -> fits c framed steps ->
  oracle_C05 (c_version c) (serialize (run_tokens c framed steps)) = true.
Proof. exact C05_B. Qed.
Print Assumptions C05_bytes.

Example C05_nonvacuous : safeb (ex_cfg V2 11) = true /\ run_R (ex_cfg V2 11) false ex_steps1.
Proof. exact (conj (proj1 ex_safe) ex_run1). Qed.
