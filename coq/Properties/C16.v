(* C16  Each mutator performs exactly its documented transformation. *)
From Coq Require Import List NArith ZArith Bool.
Import ListNotations.
From PF Require Import Opcodes Config Lex Entropy Mutators Oracles.
From PF.proofs Require Import EntropyP MutatorsP.
Local Open Scope N_scope.

(* For every mutator m, every input value, every rate (any 64-bit pattern) and every state s of
   either entropy source (exhausted fuzzer bytes included): the call returns Ok - it never
   panics - and whenever it returns Some v' the pair (v, v') satisfies the mutator's contract
   (Oracles.v: contract_int = one bit flipped / a boundary constant / +-1 with wrap-around;
   contract_seq = prefix, 1-9 appended items or doubled / at most one position changed to a
   printable character; contract_memo = +-1 saturating / below 1000 in unsafe mode;
   contract_post = TypeConfusion replaces one value-pushing opcode by one complete opcode of
   another type, unsafe mode only).  A mutator that does not implement a method returns None. *)
Theorem C16_int : forall m v rate s,
  exists r s', mutate_int_one m v rate s = Ok (r, s')
    /\ (applies_int m = false -> r = None)
    /\ (forall v', r = Some v' -> contract_int 32 int_boundaries m v v' = true).
Proof.
  intros m v rate s. destruct (int_one_spec m v rate s I) as (r & s' & E & A & _ & C). exists r, s'. auto.
Qed.
Print Assumptions C16_int.

Theorem C16_long : forall m v rate s,
  exists r s', mutate_long_one m v rate s = Ok (r, s')
    /\ (applies_int m = false -> r = None)
    /\ (forall v', r = Some v' -> contract_int 64 long_boundaries m v v' = true).
Proof.
  intros m v rate s. destruct (long_one_spec m v rate s I) as (r & s' & E & A & _ & C). exists r, s'. auto.
Qed.
Print Assumptions C16_long.

Theorem C16_float : forall m v rate s,
  exists r s', mutate_float_one m v rate s = Ok (r, s')
    /\ (applies_float m = false -> r = None)
    /\ (forall v', r = Some v' -> contract_float m v' = true).
Proof.
  intros m v rate s. destruct (float_one_spec m v rate s I) as (r & s' & E & A & _ & C). exists r, s'. auto.
Qed.
Print Assumptions C16_float.

(* strings (is_str = true: code points, lengths in UTF-8 bytes) and byte strings; seq_fits says
   the value's length is representable as usize *)
Theorem C16_seq : forall is_str m v rate s, seq_fits v ->
  exists r s', mutate_seq_one is_str m v rate s = Ok (r, s')
    /\ (applies_seq m v = false -> r = None)
    /\ (forall v', r = Some v' -> contract_seq is_str m v v' = true).
Proof.
  intros is_str m v rate s H. destruct (seq_one_spec is_str m v rate s H) as (r & s' & E & A & _ & C). exists r, s'. auto.
Qed.
Print Assumptions C16_seq.

Theorem C16_memo : forall m v rate s,
  exists r s', mutate_memo_one m v rate s = Ok (r, s')
    /\ (applies_memo m = false -> r = None)
    /\ (forall v', r = Some v' -> contract_memo m v v' = true).
Proof.
  intros m v rate s. destruct (memo_one_spec m v rate s I) as (r & s' & E & A & _ & C). exists r, s'. auto.
Qed.
Print Assumptions C16_memo.

Theorem C16_post : forall m delta rate s,
  exists res s' fired, post_one m delta delta rate s = Ok (res, s', fired)
    /\ contract_post m delta res fired = true
    /\ (match m with MTypeConf true => True | _ => fired = false /\ s' = s end).
Proof.
  intros m delta rate s. destruct (post_one_spec m delta delta rate s) as (res & s' & fired & E & _ & _ & A & B).
  exists res, s', fired. auto.
Qed.
Print Assumptions C16_post.

(* non-vacuity: every contract is met by an actual firing *)
Example C16_nonvacuous :
  mutate_int_one MBitflip 5 rate_one (SrcBytes [0; 0; 0; 0; 0; 0; 0; 0; 3]) = Ok (Some 13%Z, SrcBytes [])
  /\ mutate_seq_one true MCharacter [104; 105] rate_one (SrcBytes [0; 0; 0; 0; 0; 0; 0; 0; 1; 200])
     = Ok (Some [104; 45], SrcBytes [])
  /\ fst (fst (match post_one (MTypeConf true) [78] [78] rate_one (SrcBytes [0; 0; 0; 0; 0; 0; 0; 0; 4]) with
               | Ok x => x | Panic _ => ([], SrcBytes [], false) end)) = [93].
Proof. vm_compute. repeat split. Qed.
