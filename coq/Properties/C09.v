(* C09  Generation is total: it always terminates with a pickle, never panics or errors. *)
From Coq Require Import List NArith ZArith Bool.
Import ListNotations.
From PF Require Import Opcodes RefTable Config Sim Lex Entropy Mutators Gen.
From PF Require Import SrcStdlibP.
From PF.proofs Require Import EntropyP MutatorsP Total.
Local Open Scope N_scope.

(* The level-F model makes every place where the Rust code could panic an explicit Panic result:
   Vec/slice indexing (candidate list, integer-opcode list, module table, memo keys, boundary
   arrays, ASCII table, replacement-type list, character position), value[..n] truncation, the
   assertions inside arbitrary::int_in_range and rand::random_range, `1 << bit_pos`, the checked
   addition min_opcodes + index, unreachable!() for FRAME.  Termination is structural (the loop
   is N.iter over the drawn target).  Theorem: for every environment with a non-empty module
   table, every configuration whose usize fields are below 2^64 - ANY mutator list, safe or
   unsafe, ANY rate bit pattern (NaN, negative, > 1), min > max, zero - and every entropy input
   (all fuzzer byte strings including the empty one, all PRNG word streams), the call returns
   Ok with a non-empty byte string whose last byte is STOP. *)
Theorem C09_total : forall e c src, env_ok e -> cfg_in_range c ->
  exists r, generate_internal e id_order c src = Ok r
    /\ g_out r <> [] /\ last (g_out r) 0 = ref_code STOP.
Proof. exact generate_internal_total. Qed.
Print Assumptions C09_total.

(* ... with the name table of the CURRENT source: env_ok (non-empty, shorter than 2^64) is decided over
   the regenerated table by SrcStdlibP.src_env_ok *)
Theorem C09_total_src : forall fmt c src, cfg_in_range c ->
  exists r, generate_internal (src_env fmt) id_order c src = Ok r
    /\ g_out r <> [] /\ last (g_out r) 0 = ref_code STOP.
Proof. intros fmt c src Hc. exact (C09_total (src_env fmt) c src (src_env_ok fmt) Hc). Qed.
Print Assumptions C09_total_src.

Theorem C09_step : forall e c s o src, env_ok e -> memo_len s < M64 -> o <> FRAME ->
  exists em s' src', emit_and_process e id_order c s o src = Ok (em, s', src')
    /\ (length (memo s') <= S (length (memo s)))%nat.
Proof. exact emit_and_process_total. Qed.
Print Assumptions C09_step.

(* non-vacuity: a concrete unsafe configuration with an inverted range and a NaN rate on empty input *)
Example C09_nonvacuous :
  let c := {| c_version := V5; c_min := 7; c_max := 2; c_mutators := [MTypeConf true; MMemoIndex true; MCharacter];
              c_rate := 9221120237041090560; c_unsafe := true; c_ext := true; c_buf := true |} in
  cfg_in_range c
  /\ match generate_internal {| stdlib := [[111; 115; 46; 120]]; fmt_f64 := fun _ => [48] |} id_order c (SrcBytes []) with
     | Ok r => g_out r = [128; 5; 73; 48; 10; 73; 48; 10; 73; 48; 10; 73; 48; 10; 73; 48; 10; 73; 48; 10; 73; 48; 10; 135; 135; 135; 46]
     | Panic _ => False
     end.
Proof. split; [split; reflexivity | vm_compute; reflexivity]. Qed.
