(* C15  The mutation rate is honoured at its extremes. *)
From Coq Require Import List NArith ZArith Bool.
Import ListNotations.
From PF Require Import Opcodes Config Lex Entropy Mutators Oracles.
From PF.proofs Require Import EntropyP MutatorsP.
Local Open Scope N_scope.

(* the gate: a uniform draw k * 2^-53 (k < 2^53, from 8 fuzzer bytes - zeros when exhausted - or
   from next_u64) compared with the rate.  At +0.0 and -0.0 it never fires, at 1.0 always. *)
Theorem C15_gate_zero : forall s, fst (should_mutate rate_zero s) = false /\ fst (should_mutate rate_negzero s) = false.
Proof. intro s. split; apply gate_never; [apply zero_never_fires | apply negzero_never_fires]. Qed.
Print Assumptions C15_gate_zero.

Theorem C15_gate_one : forall s, fst (should_mutate rate_one s) = true.
Proof. intro s. apply gate_always. apply one_always_fires. Qed.
Print Assumptions C15_gate_one.

(* rate 0.0: whatever mutators are registered (any list, any order, unsafe ones included) no
   value of any kind is mutated and the emitted bytes are not rewritten; for both sources *)
Theorem C15_rate0_values : forall c rate s, never_fires rate ->
  (forall v, exists s', mutate_int c v rate s = Ok (v, s', false))
  /\ (forall v, exists s', mutate_float c v rate s = Ok (v, s', false))
  /\ (forall v, seq_fits v -> exists s', mutate_string c v rate s = Ok (v, s', false))
  /\ (forall v, seq_fits v -> exists s', mutate_bytes c v rate s = Ok (v, s', false))
  /\ (forall v, exists s', mutate_memo_index c v rate s = Ok (v, s', false)).
Proof.
  intros c rate s Hr. repeat split; intros.
  - eapply (first_some_never Z mutate_int_one (fun m _ => applies_int m) _ (fun _ => True) int_one_spec); auto.
  - eapply (first_some_never N mutate_float_one (fun m _ => applies_float m) _ (fun _ => True) float_one_spec); auto.
  - eapply (first_some_never (list N) (mutate_seq_one true) applies_seq _ seq_fits (seq_one_spec true)); auto.
  - eapply (first_some_never (list N) (mutate_seq_one false) applies_seq _ seq_fits (seq_one_spec false)); auto.
  - eapply (first_some_never N mutate_memo_one (fun m _ => applies_memo m) _ (fun _ => True) memo_one_spec); auto.
Qed.
Print Assumptions C15_rate0_values.

Theorem C15_rate0_bytes : forall c delta s, never_fires (c_rate c) ->
  exists s', post_process c delta s = Ok (delta, s', 0).
Proof. exact post_process_never. Qed.
Print Assumptions C15_rate0_bytes.

(* rate 1.0: a value is mutated iff some registered mutator is applicable to it, and then by the
   FIRST applicable one (every earlier mutator is not applicable), within that mutator's contract *)
Theorem C15_rate1_int : forall c v rate s, always_fires rate ->
  exists v' s' fired, mutate_int c v rate s = Ok (v', s', fired)
    /\ fired = existsb applies_int (c_mutators c)
    /\ (fired = true -> exists pre m post, c_mutators c = pre ++ m :: post
          /\ forallb (fun m0 => negb (applies_int m0)) pre = true /\ applies_int m = true
          /\ contract_int 32 int_boundaries m v v' = true).
Proof.
  intros c v rate s Hr.
  exact (first_some_always Z mutate_int_one (fun m _ => applies_int m) _ (fun _ => True) int_one_spec (c_mutators c) v rate s I Hr).
Qed.
Print Assumptions C15_rate1_int.

Theorem C15_rate1_float : forall c v rate s, always_fires rate ->
  exists v' s' fired, mutate_float c v rate s = Ok (v', s', fired)
    /\ fired = existsb applies_float (c_mutators c)
    /\ (fired = true -> exists pre m post, c_mutators c = pre ++ m :: post
          /\ forallb (fun m0 => negb (applies_float m0)) pre = true /\ applies_float m = true
          /\ contract_float m v' = true).
Proof.
  intros c v rate s Hr.
  exact (first_some_always N mutate_float_one (fun m _ => applies_float m) (fun m _ v' => contract_float m v') (fun _ => True)
           float_one_spec (c_mutators c) v rate s I Hr).
Qed.
Print Assumptions C15_rate1_float.

Theorem C15_rate1_seq : forall is_str c v rate s, seq_fits v -> always_fires rate ->
  exists v' s' fired, first_some (mutate_seq_one is_str) (c_mutators c) v rate s = Ok (v', s', fired)
    /\ fired = existsb (fun m => applies_seq m v) (c_mutators c)
    /\ (fired = true -> exists pre m post, c_mutators c = pre ++ m :: post
          /\ forallb (fun m0 => negb (applies_seq m0 v)) pre = true /\ applies_seq m v = true
          /\ contract_seq is_str m v v' = true).
Proof.
  intros is_str c v rate s Hv Hr.
  exact (first_some_always (list N) (mutate_seq_one is_str) applies_seq _ seq_fits (seq_one_spec is_str) (c_mutators c) v rate s Hv Hr).
Qed.
Print Assumptions C15_rate1_seq.

Theorem C15_rate1_memo : forall c v rate s, always_fires rate ->
  exists v' s' fired, mutate_memo_index c v rate s = Ok (v', s', fired)
    /\ fired = existsb applies_memo (c_mutators c)
    /\ (fired = true -> exists pre m post, c_mutators c = pre ++ m :: post
          /\ forallb (fun m0 => negb (applies_memo m0)) pre = true /\ applies_memo m = true
          /\ contract_memo m v v' = true).
Proof.
  intros c v rate s Hr.
  exact (first_some_always N mutate_memo_one (fun m _ => applies_memo m) _ (fun _ => True) memo_one_spec (c_mutators c) v rate s I Hr).
Qed.
Print Assumptions C15_rate1_memo.

(* non-vacuity: the extreme rates are what the builder produces from 0.0 / 1.0, and exhausted
   fuzzer input (the historical failure) draws k = 0: no mutation at rate 0, mutation at rate 1 *)
Example C15_nonvacuous :
  never_fires rate_zero /\ always_fires rate_one
  /\ fst (should_mutate rate_zero (SrcBytes [])) = false
  /\ mutate_int_one MBoundary 7 rate_one (SrcBytes []) = Ok (Some 0%Z, SrcBytes []).
Proof. split; [apply zero_never_fires|]. split; [apply one_always_fires|]. vm_compute. split; reflexivity. Qed.

(* The gate's comparison IS the IEEE-754 binary64 `<` (Flocq 4.1: Bits.b64_of_bits decodes the rate's bit
   pattern, Binary.B2R gives its value): for every k and every 64-bit pattern of the rate, the model's
   integer decision on the pattern equals "k * 2^-53 < rate" in IEEE arithmetic - NaN compares false, +inf
   true, -inf / -0 / +0 / negative numbers false, subnormal and normal numbers by value.  C15_draw_exact:
   the draw itself - Rust's `(bits >> 11) as f64 / (1u64 << 53) as f64`, read as Flocq's round-to-nearest
   integer conversion and division - is a finite binary64 of value k * 2^-53 exactly, for every k < 2^53. *)
From PF.proofs Require GateIEEE.
Theorem C15_gate_ieee : forall k rate, (rate < 2 ^ 64)%N ->
  dyadic_lt k rate = GateIEEE.ieee_lt (GateIEEE.draw_R k) (GateIEEE.rate_f rate).
Proof. exact GateIEEE.dyadic_lt_ieee. Qed.
Print Assumptions C15_gate_ieee.

Theorem C15_draw_exact : forall k div_nan, (k < 2 ^ 53)%N ->
  let d := Flocq.IEEE754.Binary.Bdiv 53 1024 GateIEEE.Hprec GateIEEE.Hemax div_nan Flocq.IEEE754.BinarySingleNaN.mode_NE
             (GateIEEE.of_int (Z.of_N k)) (GateIEEE.of_int (2 ^ 53)) in
  Flocq.IEEE754.Binary.is_finite 53 1024 d = true /\ Flocq.IEEE754.Binary.B2R 53 1024 d = GateIEEE.draw_R k.
Proof. exact GateIEEE.draw_exact. Qed.
Print Assumptions C15_draw_exact.

(* the same for the seeded PRNG's draw: `(next_u64 >> 11) as f64 * 2^-53` (rand 0.9) *)
Theorem C15_draw_exact_prng : forall k mult_nan, (k < 2 ^ 53)%N ->
  let d := Flocq.IEEE754.Binary.Bmult 53 1024 GateIEEE.Hprec GateIEEE.Hemax mult_nan Flocq.IEEE754.BinarySingleNaN.mode_NE
             (GateIEEE.of_int (Z.of_N k)) GateIEEE.two_m53 in
  Flocq.IEEE754.Binary.is_finite 53 1024 d = true /\ Flocq.IEEE754.Binary.B2R 53 1024 d = GateIEEE.draw_R k.
Proof. exact GateIEEE.draw_exact_mul. Qed.
Print Assumptions C15_draw_exact_prng.
