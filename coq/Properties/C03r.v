(* C03's guard, source side: the stack helpers in which can_emit is written (utils.rs: peek_at, has_mark, is_<kind>_at,
   is_<kind>_at_mark, is_callable_above_mark, count_items_to_mark), REGENERATED FROM THE CURRENT SOURCE over the Vec view of
   the simulated stack (gen/SrcUtils.v, translator tools/gen_utils.py; index 0 = bottom, iteration orders and index offsets
   as the source writes them), are the helpers of the model (top-first list) that the regenerated can_emit calls.
   The `&&`-chains of can_emit itself are tied by SrcEqCanEmit.v (C03.v). *)
From Coq Require Import List Arith Bool.
Import ListNotations.
From PF Require Import Opcodes Config Sim SrcUtilsPrims.
From PF.gen Require Import SrcUtils.
Require Import PF.SrcEqUtils.

Theorem C03_src_helpers : forall s,
  (forall d, src_peek_at s d = peek_at s d)
  /\ src_has_mark s = has_mark s
  /\ (forall d, src_is_list_at s d = is_list_at s d /\ src_is_dict_at s d = is_dict_at s d
                /\ src_is_tuple_at s d = is_tuple_at s d /\ src_is_string_at s d = is_string_at s d
                /\ src_is_instance_at s d = is_instance_at s d /\ src_is_callable_at s d = is_callable_at s d)
  /\ src_is_list_at_mark s = is_list_at_mark s
  /\ src_is_dict_at_mark s = is_dict_at_mark s
  /\ src_is_set_at_mark s = is_set_at_mark s
  /\ src_is_callable_above_mark s = is_callable_above_mark s
  /\ src_count_items_to_mark s = count_items_to_mark s.
Proof.
  intros s. split; [intros d; apply src_peek_at_eq|]. split; [apply src_has_mark_eq|].
  split; [intros d; repeat split;
          [apply src_is_list_at_eq | apply src_is_dict_at_eq | apply src_is_tuple_at_eq | apply src_is_string_at_eq
          | apply src_is_instance_at_eq | apply src_is_callable_at_eq]|].
  split; [apply src_is_list_at_mark_eq|]. split; [apply src_is_dict_at_mark_eq|]. split; [apply src_is_set_at_mark_eq|].
  split; [apply src_is_callable_above_mark_eq | apply src_count_items_to_mark_eq].
Qed.
Print Assumptions C03_src_helpers.

(* what the index arithmetic of the source means on the model's list: the item "below the topmost MARK" is the one at
   position count + 1 from the top, the item "above" it the one at position count - 1 *)
Theorem C03_src_mark_positions : forall st,
  below_mark st = match count_to_mark st with Some p => nth_error st (S p) | None => None end
  /\ above_mark st = match count_to_mark st with Some (S q) => nth_error st q | _ => None end.
Proof. intros st. split; [apply below_mark_nth | apply above_mark_nth]. Qed.
Print Assumptions C03_src_mark_positions.

(* non-vacuity: a stack with two MARKs, a list below the topmost one and a callable above it *)
Example C03r_inhabited :
  let s := {| stk := [KInt; KGlobal; KMark; KList; KMark; KDict]; memo := []; proto_emitted := true |} in
  src_is_list_at_mark s = true /\ src_is_dict_at_mark s = false /\ src_is_callable_above_mark s = true
  /\ src_count_items_to_mark s = Some 2 /\ src_peek_at s 3 = Some KList /\ src_peek_at s 6 = None.
Proof. vm_compute. repeat split; reflexivity. Qed.
