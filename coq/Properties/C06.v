(* C06  FRAME, when present, is unique, leads the body and spans exactly the rest. *)
From Coq Require Import List NArith Bool.
Import ListNotations.
From PF Require Import Opcodes RefTable Config Sim Ref Lex Envelope Oracles.
From PF.proofs Require Import Refine Run PropsR LexRT PropsB Examples.

(* oracle_C06 v out: out lexes; for v >= 4 either PROTO, FRAME n, rest with no FRAME token in
   rest and n + 11 = |out| (2 bytes PROTO + 9 bytes FRAME + n), or no FRAME token at all; for
   v < 4 no FRAME token.  Holds for every run of the envelope, unsafe configurations included
   (a rewritten opcode is always one whole opcode and never FRAME) *)
Theorem C06_bytes : forall c framed steps, run_R c framed steps -> fits c framed steps ->
  oracle_C06 (c_version c) (serialize (run_tokens c framed steps)) = true.
Proof. exact C06_B. Qed.
Print Assumptions C06_bytes.

Example C06_nonvacuous : run_R (ex_cfg V4 7) true ex_steps2 /\ fits (ex_cfg V4 7) true ex_steps2
  /\ existsb is_frame (run_tokens (ex_cfg V4 7) true ex_steps2) = true.
Proof. split; [exact ex_run2|]. split; [unfold fits; vm_compute; reflexivity | vm_compute; reflexivity]. Qed.
