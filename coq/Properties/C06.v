(* C06  FRAME, when present, is unique, leads the body and spans exactly the rest. *)
From Coq Require Import List NArith Bool.
Import ListNotations.
From PF Require Import Opcodes RefTable Config Sim Ref Lex Envelope Oracles.
From PF Require Import Entropy Gen.
From PF Require Import SrcStdlibP.
From PF.proofs Require Import FinR Refine Run PropsR LexRT PropsB Examples.

(* oracle_C06 v out: out lexes; for v >= 4 either PROTO, FRAME n, rest with no FRAME token in
   rest and n + 11 = |out| (2 bytes PROTO + 9 bytes FRAME + n), or no FRAME token at all; for
   v < 4 no FRAME token.  Holds for every run of the envelope, unsafe configurations included
   (a rewritten opcode is always one whole opcode and never FRAME) *)
Theorem C06_bytes : forall c framed steps, run_R c framed steps -> fits c framed steps ->
  oracle_C06 (c_version c) (serialize (run_tokens c framed steps)) = true.
Proof. exact C06_B. Qed.
Print Assumptions C06_bytes.

(* END TO END, on the bit-exact model of the generator (level F, Gen.generate_internal - the model
   suite S2 compares byte for byte with the implementation): whatever entropy source, protocol,
   ranges, flags and mutators, the bytes it returns satisfy the byte-level oracle.  Through
   FinR.F_in_R (every level-F run is a level-R run whose tokens serialise to the returned bytes).
   names_ok / fmt_ok: the GLOBAL name table and the float formatter produce newline-free,
   well-formed text (checked on the real table / formatter by suite S2 and SrcStdlibP);
   cfg_small: the opcode range bounds are below 2^32-2; out_fits: the output is shorter than 2^64 *)
Theorem C06_generated : forall e c src r,
  names_ok e -> fmt_ok e -> cfg_small c -> generate_internal e id_order c src = Ok r -> out_fits r ->
  oracle_C06 (c_version c) (g_out r) = true.
Proof. intros e c src r Hn Hf Hc Hg Hfit. exact (gen_C06 e c src r Hn Hf Hc Hg Hfit). Qed.
Print Assumptions C06_generated.

(* ... and with the name table of the CURRENT source (gen/SrcStdlib.v is regenerated from the file
   emission.rs embeds; SrcStdlibP.src_names_ok decides names_ok over all of its entries) *)
Theorem C06_generated_src : forall fmt c src r,
  fmt_ok (src_env fmt) -> cfg_small c -> generate_internal (src_env fmt) id_order c src = Ok r -> out_fits r ->
  oracle_C06 (c_version c) (g_out r) = true.
Proof. intros fmt c src r Hf Hc Hg Hfit. exact (C06_generated (src_env fmt) c src r (src_names_ok fmt) Hf Hc Hg Hfit). Qed.
Print Assumptions C06_generated_src.

Example C06_nonvacuous : run_R (ex_cfg V4 7) true ex_steps2 /\ fits (ex_cfg V4 7) true ex_steps2
  /\ existsb is_frame (run_tokens (ex_cfg V4 7) true ex_steps2) = true.
Proof. split; [exact ex_run2|]. split; [unfold fits; vm_compute; reflexivity | vm_compute; reflexivity]. Qed.
