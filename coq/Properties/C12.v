(* C12  Every opcode of the protocol's vocabulary is actually reachable.
   This file states the property over the hand-written model (Sim.can_emit, Sim.row), which suites S1 / S8 tie
   to the implementation; C12r.v states the same over the guard function and rows regenerated from the
   source by the translator, and C12s.v over seeds (the statement's own quantifier). *)
From Coq Require Import List NArith ZArith Bool.
Import ListNotations.
From PF Require Import Opcodes RefTable Config Sim Witness.
From PF Require Import Lex Entropy Gen WitnessF SrcStdlibP.
From PF.proofs Require Import WitnessFP.

(* (i) No precondition is unsatisfiable: for every protocol v, both settings of the two opt-in flags and
   every opcode o of the row of v that the generation loop is responsible for (PROTO, FRAME and STOP are
   emitted by the driver itself) and that is not switched off, the explicit path `witness o` from the
   empty stack is accepted step by step (each opcode in the row, each guard true in the simulated state
   reached) and ends with o. *)
Theorem C12_guards : forall v ext buf o,
  In o (row v) -> driver_emitted o = false -> flag_ok (default_cfg v ext buf) o = true ->
  path_valid can_emit (row v) (default_cfg v ext buf) (start_state v) (witness o) = true
  /\ exists pre, witness_ops o = pre ++ [o].
Proof.
  intros v ext buf o Hin Hd Hf.
  assert (E : witnesses_ok can_emit row v ext buf = true)
    by (destruct v; destruct ext; destruct buf; vm_compute; reflexivity).
  unfold witnesses_ok in E. rewrite forallb_forall in E. specialize (E o (all_opcodes_complete o)).
  assert (Hex : existsb (op_eqb o) (row v) = true)
    by (apply existsb_exists; exists o; split; [exact Hin | apply op_eqb_refl]).
  rewrite Hex, Hd, Hf in E. cbn [negb orb] in E. apply andb_prop in E. destruct E as [E1 E2].
  split; [exact E1|].
  destruct (rev (witness_ops o)) as [|x r] eqn:Er; [discriminate E2|].
  apply op_eqb_eq in E2. subst x. exists (rev r).
  rewrite <- (rev_involutive (witness_ops o)), Er. reflexivity.
Qed.
Print Assumptions C12_guards.

(* (ii) in the bit-exact model of the whole generator (level F: Gen.generate_internal, the model suite
   S2 compares byte for byte with the implementation), with DEFAULT settings (range 60..300, no
   mutators) and the name table of the current source: for every protocol, both settings of the opt-in
   flags, both outcomes of the FRAME coin, and every loop-emitted opcode of the row that is not switched
   off, the fuzzer input `witness_bytes` (the witness path compiled into choice bytes) makes the generator
   return a pickle in which the opcode occurs, framed exactly when the coin says so and the protocol is
   >= 4.  The check replays exactly these inputs on the implementation (suite c12). *)
Theorem C12_model_witness : forall v ext buf framed o,
  In o (row v) -> driver_emitted o = false -> flag_ok (default_cfg v ext buf) o = true ->
  exists w r,
    witness_bytes (src_env fmt0) v ext buf framed o = Some w
    /\ generate_internal (src_env fmt0) id_order (default_cfg v ext buf) (SrcBytes w) = Ok r
    /\ occurs o (g_out r) = true
    /\ g_framed r = (framed && v_ge4 v).
Proof. exact witnessF_sound. Qed.
Print Assumptions C12_model_witness.

(* the vocabulary is the standard one: the row of v holds exactly the opcodes CPython lists for
   protocols <= v (both directions, against the table generated from pickletools) *)
Theorem C12_vocabulary : forall v o, In o (row v) <-> (ref_proto o <= vnum v)%N.
Proof.
  intros v o. split.
  - intro H. assert (E : forallb (fun x => N.leb (ref_proto x) (vnum v)) (row v) = true) by (destruct v; vm_compute; reflexivity).
    rewrite forallb_forall in E. apply N.leb_le. apply E. exact H.
  - intro H. assert (E : forallb (fun x => negb (N.leb (ref_proto x) (vnum v)) || existsb (op_eqb x) (row v)) all_opcodes = true)
      by (destruct v; vm_compute; reflexivity).
    rewrite forallb_forall in E. specialize (E o (all_opcodes_complete o)). apply N.leb_le in H. rewrite H in E. cbn [negb orb] in E.
    apply existsb_exists in E. destruct E as (x & Hx & Ex). apply op_eqb_eq in Ex. subst x. exact Hx.
Qed.
Print Assumptions C12_vocabulary.

(* non-vacuity: protocol 5 with both flags has 65 loop-emitted opcodes, all with witnesses *)
Example C12_nonvacuous :
  length (filter (fun o => negb (driver_emitted o)) (row V5)) = 65%nat
  /\ witness BUILD = map tk0 [GLOBAL; MARK; TUPLE; REDUCE; MARK; TUPLE; BUILD].
Proof. split; vm_compute; reflexivity. Qed.
