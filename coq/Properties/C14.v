(* C14  Generation does not leak memory. *)
From Coq Require Import List NArith ZArith Bool.
Import ListNotations.
From PF Require Import Opcodes Config Sim Heap.
From PF.proofs Require Import HeapP ReleaseP.

(* Heap.v models the simulated objects at the level of Rc<RefCell<..>> cells: which cells exist,
   which cell every stack slot and memo entry refers to, and the children of each cell.  With
   reference counting, memory survives reset()/drop exactly when some cell lies on a reference
   cycle (trusted statement about Rc, validated by the counting-allocator runs of suite S7).

   (1) The aliasing model is a refinement of the kind-level model every other theorem is about. *)
Theorem C14_refines : forall v h t, wf_heap h ->
  abs (heap_step v h t) = sim_step v (abs h) t /\ wf_heap (heap_step v h t).
Proof. exact heap_refines_sim. Qed.
Print Assumptions C14_refines.

(* (2) Only six opcodes mutate an existing cell (APPEND, APPENDS, SETITEM, SETITEMS, ADDITEMS,
   BUILD); everything else allocates fresh cells that point to existing ones.  If every such
   mutation inserts only cells from which the container is not reachable (step_guard: the
   inserted cell is not the container and has no path to it), the cell graph stays acyclic
   along the whole history - for every protocol, every token sequence, any length. *)
Theorem C14_acyclic : forall v ts, guards_hold v (heap_init v) ts ->
  acyclic (cells (heap_run v (heap_init v) ts)).
Proof. intros v ts H. apply run_acyclic; [apply wf_heap_init | apply GC_nil | exact H]. Qed.
Print Assumptions C14_acyclic.

Theorem C14_step : forall v h t, wf_heap h -> GC (cells h) -> step_guard h t -> GC (cells (heap_step v h t)).
Proof. exact step_GC. Qed.
Print Assumptions C14_step.

(* (3) The complement is inhabited - histories on which cycles do arise while generating (finding I, before
   the repair these cells were never freed): a container inserted into itself.
   EMPTY_LIST; DUP; APPEND makes cell 0 its own child. *)
Example C14_class_witness :
  let ts := [(EMPTY_LIST, A0); (DUP, A0); (APPEND, A0)] in
  ~ guards_hold V2 (heap_init V2) ts
  /\ has_cycle (cells (heap_run V2 (heap_init V2) ts)) = true
  /\ cells (heap_run V2 (heap_init V2) ts) = [HSeq KList [0%nat]].
Proof.
  split; [|split; vm_compute; reflexivity].
  cbn. intros (_ & _ & [G _] & _). apply G. reflexivity.
Qed.

(* a history with aliasing and mutation that is NOT in the class: guards hold, no cycle *)
Example C14_nonvacuous :
  let ts := [(EMPTY_LIST, A0); (DUP, A0); (NONE, A0); (APPEND, A0); (TUPLE2, A0)] in
  has_cycle (cells (heap_run V2 (heap_init V2) ts)) = false.
Proof. vm_compute. reflexivity. Qed.

(* (4) What reset() and Drop leave behind (src/state.rs: State::release_cycles empties every cell
   that State::mutated registered, i.e. every cell an opcode modified in place): for EVERY protocol
   and EVERY token sequence - no guard, no bound on length - the remaining cell graph has no cycle,
   so reference counting frees every cell once the roots are gone.  Invariant: a cell that was never
   modified in place only points to cells allocated before it (ReleaseP.Good, preserved by all 68
   opcodes). *)
Theorem C14_released : forall v ts, acyclic (final_cells v ts).
Proof. exact final_cells_acyclic. Qed.
Print Assumptions C14_released.

Theorem C14_invariant : forall v ts h ms, wf_heap h -> Good ms (cells h) ->
  Good (ms ++ run_mut v h ts) (cells (heap_run v h ts)).
Proof. exact run_Good. Qed.
Print Assumptions C14_invariant.

(* the cyclic witness of (3) is released: cycle while generating, none afterwards *)
Example C14_released_witness :
  let ts := [(EMPTY_LIST, A0); (DUP, A0); (APPEND, A0)] in
  has_cycle (cells (heap_run V2 (heap_init V2) ts)) = true /\ has_cycle (final_cells V2 ts) = false
  /\ run_mut V2 (heap_init V2) ts = [0%nat].
Proof. vm_compute. repeat split. Qed.

(* (5) Reference counting made explicit (ReleaseP.freed: a cell is freed as soon as every cell that points
   to it has been freed - there are no roots once the generator is reset or dropped; Weak handles do not
   count): on the cell graph that release_cycles leaves behind EVERY cell is freed, for every protocol and
   every token history; and a cell on a cycle would never be (why finding I leaked). *)
Theorem C14_all_freed : forall v ts i, i < length (final_cells v ts) -> freed (final_cells v ts) i.
Proof. exact final_cells_all_freed. Qed.
Print Assumptions C14_all_freed.

Theorem C14_cycle_leaks : forall cs a, path cs a a -> ~ freed cs a.
Proof. exact cycle_never_freed. Qed.
Print Assumptions C14_cycle_leaks.

(* (6) the bookkeeping that makes (4) possible is itself bounded: the registry holds at most one (weak) entry per
   opcode of the pickle being generated and is emptied by every reset - a long-running fuzzing process does not
   accumulate it *)
Theorem C14_registry_bound : forall v ts h, length (run_mut v h ts) <= length ts.
Proof. exact run_mut_bound. Qed.
Print Assumptions C14_registry_bound.
