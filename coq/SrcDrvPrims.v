(* The small state monad over the entropy source in which tools/gen_drv.py writes the driver's decisions
   (gen/SrcDrv.v), and the comparisons on `Version` it uses.  Definitions only. *)
From Coq Require Import List NArith Bool.
Import ListNotations.
From PF Require Import Opcodes Config Entropy.
Local Open Scope N_scope.

Definition M (A : Type) : Type := source -> res (A * source).
Definition ret {A : Type} (x : A) : M A := fun s => Ok (x, s).
Definition mbind {A B : Type} (m : M A) (f : A -> M B) : M B :=
  fun s => match m s with Ok (a, s1) => f a s1 | Panic p => Panic p end.
(* `a && b`: the right operand is evaluated (and draws) only when the left one is true *)
Definition m_and (a b : M bool) : M bool := mbind a (fun x => if x then b else ret false).
Definition m_gen_bool : M bool := fun s => Ok (gen_bool s).
Definition m_choose_index (n : N) : M N := fun s => choose_index n s.
(* usize `+`: a panic on overflow in builds with overflow checks *)
Definition m_add (a b : N) : M N := fun s => if M64 <=? a + b then Panic P_overflow else Ok (a + b, s).

(* `v[i]` on a Vec: a panic when out of bounds *)
Definition m_index {A : Type} (l : list A) (i : N) : M A :=
  fun s => match nth_res l i with Ok x => Ok (x, s) | Panic p => Panic p end.

(* derive(PartialOrd) on Version: the declaration order V0 < .. < V5, which is vnum's *)
Definition version_ge (a b : version) : bool := vnum b <=? vnum a.
Definition version_gt (a b : version) : bool := vnum b <? vnum a.
Definition version_eqb (a b : version) : bool := vnum a =? vnum b.
Definition version_in (v : version) (l : list version) : bool := existsb (version_eqb v) l.
