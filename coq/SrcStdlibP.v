(* The GLOBAL/INST name table of the CURRENT source (gen/SrcStdlib.v, regenerated from the file that
   emission.rs include_str!s) split by a model of str::lines, and the facts about it that the
   end-to-end theorems need: every entry is non-empty printable text with no blank on either side of
   its first '.', and the table is non-empty and shorter than 2^64.  Decided by evaluation over the
   whole table (19k entries) - a finite domain, so this is a proof, re-run whenever the file changes. *)
From Coq Require Import List NArith Bool Lia.
Import ListNotations.
From PF Require Import Config Entropy Envelope Gen.
From PF.gen Require Import SrcStdlib.
From PF.proofs Require Import Total FinR.
Local Open Scope N_scope.

(* str::lines(): split at '\n'; a line that ended in "\n" also loses one '\r' before it; the text
   after the last '\n' is a line only if it is not empty (and keeps a trailing '\r') *)
Definition strip_cr (l : list N) : list N :=
  match rev l with 13 :: r => rev r | _ => l end.
Fixpoint lines_aux (cur : list N) (l : list N) : list (list N) :=
  match l with
  | [] => match cur with [] => [] | _ => [rev cur] end
  | b :: r => if b =? 10 then strip_cr (rev cur) :: lines_aux [] r else lines_aux (b :: cur) r
  end.
Definition str_lines (l : list N) : list (list N) := lines_aux [] l.

Definition src_stdlib : list (list N) := str_lines Src.stdlib_raw.
Definition src_env (fmt : N -> list N) : env := {| stdlib := src_stdlib; fmt_f64 := fmt |}.

Definition line_okb (line : list N) : bool :=
  let (m, a) := split_name line in
  forallb graphic m && forallb graphic a && negb (N.of_nat (length m) =? 0) && negb (N.of_nat (length a) =? 0).

Lemma line_okb_spec : forall line, line_okb line = true ->
  forallb graphic (fst (split_name line)) = true /\ forallb graphic (snd (split_name line)) = true
  /\ fst (split_name line) <> [] /\ snd (split_name line) <> [].
Proof.
  intros line H. unfold line_okb in H. destruct (split_name line) as [m a]. cbn [fst snd].
  apply andb_prop in H. destruct H as [H Ha]. apply andb_prop in H. destruct H as [H Hm]. apply andb_prop in H. destruct H as [Gm Ga].
  refine (conj Gm (conj Ga (conj _ _))).
  - intro E. subst m. discriminate Hm.
  - intro E. subst a. discriminate Ha.
Qed.

Lemma src_raw_len : N.of_nat (length Src.stdlib_raw) = Src.stdlib_raw_len.
Proof. vm_compute. reflexivity. Qed.

Lemma src_lines_ok : forallb line_okb src_stdlib = true.
Proof. vm_compute. reflexivity. Qed.

Lemma src_count : negb (N.of_nat (length src_stdlib) =? 0) && (N.of_nat (length src_stdlib) <? 4294967296) = true.
Proof. vm_compute. reflexivity. Qed.

Lemma names_ok_of : forall l fmt, forallb line_okb l = true -> names_ok {| stdlib := l; fmt_f64 := fmt |}.
Proof.
  intros l fmt H line Hin. cbn [stdlib] in Hin. apply line_okb_spec. exact (proj1 (forallb_forall _ _) H line Hin).
Qed.

Lemma env_ok_of : forall l fmt, negb (N.of_nat (length l) =? 0) && (N.of_nat (length l) <? 4294967296) = true ->
  env_ok {| stdlib := l; fmt_f64 := fmt |}.
Proof.
  intros l fmt H. apply andb_prop in H. destruct H as [H0 H1]. unfold env_ok. cbn [stdlib].
  apply N.ltb_lt in H1. split.
  - intro E. subst l. discriminate H0.
  - unfold M64. lia.
Qed.

Theorem src_names_ok : forall fmt, names_ok (src_env fmt).
Proof. intro fmt. exact (names_ok_of src_stdlib fmt src_lines_ok). Qed.

Theorem src_env_ok : forall fmt, env_ok (src_env fmt).
Proof. intro fmt. exact (env_ok_of src_stdlib fmt src_count). Qed.
Print Assumptions src_names_ok.
Print Assumptions src_env_ok.
