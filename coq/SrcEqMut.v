(* The translator tie, part 3c: the mutators' boundary arrays and TypeConfusion's byte -> type table
   (gen/SrcAscii.v, gen/SrcFront.v, gen/SrcMut.v) are the model's. *)
From Coq Require Import List NArith ZArith Bool Arith Lia.
Import ListNotations.
From PF Require Import Opcodes RefTable Config Sim.
From PF Require Import Lex Entropy Mutators Front.
From PF.gen Require SrcMut.

Lemma src_boundaries_eq :
  SrcMut.Src.int_boundaries = int_boundaries /\ SrcMut.Src.long_boundaries = long_boundaries
  /\ SrcMut.Src.float_boundaries = float_boundaries.
Proof. repeat split. Qed.

(* opcode_to_type takes a u8: all 256 byte values *)
Lemma src_byte_type_eq : forall b, (b < 256)%N -> SrcMut.Src.byte_type b = byte_type b.
Proof.
  intros b Hb.
  assert (E : forallb (fun x => N.eqb (SrcMut.Src.byte_type x) (byte_type x)) (map N.of_nat (seq 0 256)) = true)
    by (vm_compute; reflexivity).
  rewrite forallb_forall in E. apply N.eqb_eq. apply E.
  apply in_map_iff. exists (N.to_nat b). split; [apply N2Nat.id | apply in_seq; lia].
Qed.
