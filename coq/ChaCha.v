(* The PRNG behind Generator::generate(): rand_chacha 0.9 ChaCha8Rng::seed_from_u64(seed)
   (src/generator/mod.rs re-seeds it for every call).  rand_core 0.9 SeedableRng::seed_from_u64
   expands the u64 with PCG32 into the 256-bit key; ChaCha with 8 rounds, 64-bit block counter in
   words 12-13, stream id 0 in words 14-15; BlockRng hands out the 16 words of block 0, then of
   block 1, ... (rand_chacha computes four blocks per refill, which is the same sequence).
   With this, "the word stream of a seed" is a definition of the model instead of an input supplied
   by the harness; suite `words` compares it with the real crate.  Definitions only. *)
From Coq Require Import List NArith Bool.
Import ListNotations.
From PF Require Import Entropy.
Local Open Scope N_scope.

Definition w32 (x : N) : N := N.land x 4294967295.
Definition add32 (a b : N) : N := w32 (a + b).
Definition rotl32 (x : N) (n : N) : N := w32 (N.lor (N.shiftl x n) (N.shiftr x (32 - n))).
Definition rotr32 (x : N) (n : N) : N := w32 (N.lor (N.shiftr x n) (N.shiftl x (32 - n))).

(* ---------- rand_core::SeedableRng::seed_from_u64: eight PCG32 outputs ---------- *)
Definition PCG_MUL : N := 6364136223846793005.
Definition PCG_INC : N := 11634580027462260723.
Definition w64 (x : N) : N := N.land x 18446744073709551615.

Definition pcg32_step (state : N) : N * N :=          (* (new state, output word) *)
  let s := w64 (state * PCG_MUL + PCG_INC) in
  let xorshifted := w32 (N.shiftr (N.lxor (N.shiftr s 18) s) 27) in
  let rot := N.shiftr s 59 in
  (s, rotr32 xorshifted rot).

Fixpoint pcg32_words (n : nat) (state : N) : list N :=
  match n with
  | O => []
  | S k => let (s, x) := pcg32_step state in x :: pcg32_words k s
  end.

Definition key_of_seed (seed : N) : list N := pcg32_words 8 (w64 seed).

(* ---------- the ChaCha block function on a 16-word state ---------- *)
Definition getw (st : list N) (i : nat) : N := nth i st 0.
Fixpoint setw (st : list N) (i : nat) (x : N) : list N :=
  match st, i with
  | [], _ => []
  | _ :: r, O => x :: r
  | y :: r, S k => y :: setw r k x
  end.

Definition quarter (st : list N) (a b c d : nat) : list N :=
  let xa := getw st a in let xb := getw st b in let xc := getw st c in let xd := getw st d in
  let xa := add32 xa xb in let xd := rotl32 (N.lxor xd xa) 16 in
  let xc := add32 xc xd in let xb := rotl32 (N.lxor xb xc) 12 in
  let xa := add32 xa xb in let xd := rotl32 (N.lxor xd xa) 8 in
  let xc := add32 xc xd in let xb := rotl32 (N.lxor xb xc) 7 in
  setw (setw (setw (setw st a xa) b xb) c xc) d xd.

Definition double_round (st : list N) : list N :=
  let st := quarter st 0 4 8 12 in
  let st := quarter st 1 5 9 13 in
  let st := quarter st 2 6 10 14 in
  let st := quarter st 3 7 11 15 in
  let st := quarter st 0 5 10 15 in
  let st := quarter st 1 6 11 12 in
  let st := quarter st 2 7 8 13 in
  quarter st 3 4 9 14.

Fixpoint rounds (n : nat) (st : list N) : list N :=
  match n with O => st | S k => rounds k (double_round st) end.

Fixpoint add_words (a b : list N) : list N :=
  match a, b with
  | x :: a', y :: b' => add32 x y :: add_words a' b'
  | _, _ => []
  end.

Definition chacha_init (key : list N) (counter : N) : list N :=
  [1634760805; 857760878; 2036477234; 1797285236] ++ key
  ++ [w32 counter; w32 (N.shiftr counter 32); 0; 0].

(* ChaCha8: four double rounds *)
Definition chacha8_block (key : list N) (counter : N) : list N :=
  let st := chacha_init key counter in add_words (rounds 4 st) st.

(* word i of ChaCha8Rng::seed_from_u64(seed) = word (i mod 16) of block (i / 16) (chacha8_word_spec in
   proofs/ChaChaP.v).  The partial application `chacha8_word seed` computes the key and the first
   TABLE_BLOCKS blocks once (evaluation is call by value), so that reading a pickle's worth of words
   does not recompute a block per word; positions beyond the table are computed directly. *)
Definition TABLE_BLOCKS : nat := 64.
Definition block_table (key : list N) (n : nat) : list (list N) :=
  map (fun c => chacha8_block key (N.of_nat c)) (seq 0 n).
Definition word_of_block (key : list N) (tbl : list (list N)) (i : N) : N :=
  let c := N.shiftr i 4 in
  getw (match nth_error tbl (N.to_nat c) with Some b => b | None => chacha8_block key c end) (N.to_nat (N.land i 15)).
Definition chacha8_word (seed : N) : N -> N :=
  let key := key_of_seed seed in
  let tbl := block_table key TABLE_BLOCKS in
  word_of_block key tbl.

(* GenerationSource::Rand(ChaCha8Rng::seed_from_u64(seed)) *)
Definition seeded_source (seed : N) : source := SrcWords (chacha8_word seed) 0.
