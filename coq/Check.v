(* Correspondence suite S1, model side: membership of one recorded implementation step in
   the envelope, and agreement of the simulated post-state.  Run extracted. *)
From Coq Require Import List NArith ZArith Bool.
Import ListNotations.
From PF Require Import Opcodes RefTable Config Sim Ref Lex Envelope.
Local Open Scope N_scope.

Definition ops_eqb (a b : list opcode) : bool :=
  Nat.eqb (length a) (length b) && forallb (fun p => op_eqb (fst p) (snd p)) (combine a b).

Definition kinds_eqb (a b : list kind) : bool :=
  Nat.eqb (length a) (length b) && forallb (fun p => kind_eqb (fst p) (snd p)) (combine a b).

Fixpoint insert_memo (e : N * kind) (l : list (N * kind)) : list (N * kind) :=
  match l with
  | [] => [e]
  | x :: r => if fst e <=? fst x then e :: l else x :: insert_memo e r
  end.
Definition sort_memo (l : list (N * kind)) : list (N * kind) := fold_right insert_memo [] l.

Definition memos_eqb (a b : list (N * kind)) : bool :=
  Nat.eqb (length a) (length b)
  && forallb (fun p => (fst (fst p) =? fst (snd p)) && kind_eqb (snd (fst p)) (snd (snd p)))
             (combine (sort_memo a) (sort_memo b)).

(* decode exactly one opcode from a byte string and check that encode gives the bytes back *)
Definition lex_exact (bs : list N) : option token :=
  match lex_one bs with
  | Some (t, []) => if list_eqb (encode t) bs then Some t else None
  | _ => None
  end.

Inductive s1_result : Set :=
| S1_ok (s' : sim) (t out : token)
| S1_valid_set          (* candidate set differs from get_valid_opcodes *)
| S1_lex                (* emitted bytes are not exactly one opcode / encode differs *)
| S1_envelope (t : token)   (* decoded token outside the envelope *)
| S1_rewrite (t out : token)    (* post-emission rewrite outside TypeConfusion's contract *)
| S1_state (s' : sim).   (* simulated post-state differs from sim_step *)

Definition s1_step (c : config) (s : sim) (valid : list opcode) (chosen : opcode)
           (orig fin : list N) (post_stk : list kind) (post_memo : list (N * kind)) : s1_result :=
  if negb (ops_eqb valid (get_valid_opcodes c s)) then S1_valid_set
  else match lex_exact orig, lex_exact fin with
       | Some t, Some out =>
           if negb (emitsb c s chosen t) then S1_envelope t
           else if negb (out_ok c t out) then S1_rewrite t out
           else let s' := sim_step (c_version c) s t in
                if kinds_eqb (stk s') post_stk && memos_eqb (memo s') post_memo
                then S1_ok s' t out else S1_state s'
       | _, _ => S1_lex
       end.

(* tail / STOP step: a single argument-less opcode *)
Definition s1_tail_step (c : config) (s : sim) (o : opcode) (bytes : list N)
           (post_stk : list kind) (post_memo : list (N * kind)) : s1_result :=
  match lex_exact bytes with
  | Some t =>
      if negb (tok_eqb t (o, A0)) then S1_lex
      else let s' := sim_step (c_version c) s t in
           if kinds_eqb (stk s') post_stk && memos_eqb (memo s') post_memo
           then S1_ok s' t t else S1_state s'
  | None => S1_lex
  end.
