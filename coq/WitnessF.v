(* C12 at level F: the witness paths of Witness.v compiled into fuzzer bytes that steer the bit-exact
   model of the generator (default settings: range 60..300, no mutators) along them; the opcode occurs
   in the bytes the model returns.  Definitions + the evaluation lemmas. *)
From Coq Require Import List NArith ZArith Bool.
Import ListNotations.
From PF Require Import Opcodes RefTable Config Sim Ref Lex Entropy Mutators Gen Witness.
Local Open Scope N_scope.

Fixpoint index_of (o : opcode) (l : list opcode) (i : nat) : option nat :=
  match l with
  | [] => None
  | x :: r => if op_eqb x o then Some i else index_of o r (S i)
  end.

Definition zeros (n : nat) : list N := repeat 0 n.

(* the integer emitters share emit_int, whose first draw selects the encoding *)
Definition var_draw (v : version) (o : opcode) : list N :=
  if int_like o then match index_of o (int_cands v) 0 with Some i => [N.of_nat i] | None => [] end else [].

Fixpoint compile (e : env) (c : config) (s : sim) (path : list opcode) : option (list N) :=
  match path with
  | [] => Some []
  | o :: rest =>
      let valid := get_valid_opcodes c s in
      match index_of o valid 0 with
      | None => None
      | Some i =>
          let choice := if Nat.ltb 1 (length valid) then [N.of_nat i] else [] in
          let padded := var_draw (c_version c) o ++ zeros 96 in
          match emit_and_process e id_order c s o (SrcBytes padded) with
          | Ok (_, s', SrcBytes rest') =>
              match compile e c s' rest with
              | Some tl => Some (choice ++ firstn (length padded - length rest') padded ++ tl)
              | None => None
              end
          | _ => None
          end
      end
  end.

(* frame coin (protocols >= 4), then the draw of the target count: 0 selects min_opcodes *)
Definition prefix (v : version) (framed : bool) : list N :=
  (if v_ge4 v then [if framed then 1 else 0] else []) ++ [0].

Definition witness_bytes (e : env) (v : version) (ext buf framed : bool) (o : opcode) : option (list N) :=
  match compile e (default_cfg v ext buf) (start_state v) (witness_ops o) with
  | Some w => Some (prefix v framed ++ w)
  | None => None
  end.

Definition occurs (o : opcode) (out : list N) : bool :=
  match lex_all out with
  | Some ts => existsb (fun t => op_eqb (fst t) o) ts
  | None => false
  end.

Definition witnessF_one (e : env) (v : version) (ext buf framed : bool) (o : opcode) : bool :=
  match witness_bytes e v ext buf framed o with
  | Some w =>
      match generate_internal e id_order (default_cfg v ext buf) (SrcBytes w) with
      | Ok r => occurs o (g_out r) && Bool.eqb (g_framed r) (framed && v_ge4 v)
      | Panic _ => false
      end
  | None => false
  end.

Definition witnessF_ok (e : env) (v : version) (ext buf framed : bool) : bool :=
  let c := default_cfg v ext buf in
  forallb (fun o =>
    negb (existsb (op_eqb o) (row v)) || driver_emitted o || negb (flag_ok c o) || witnessF_one e v ext buf framed o) all_opcodes.
