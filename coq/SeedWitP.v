(* C12 for the seeded entry point: instance of SeedWitDefs for the model's seeded run and the table that
   tools/gen_seedwit.py regenerated from this run's census of the implementation.  The table is split
   into four shards (gen/SeedShard0-3.v) that are evaluated in parallel. *)
From Coq Require Import List NArith ZArith Bool.
Import ListNotations.
From PF Require Import Opcodes RefTable Config Sim Lex Entropy Gen ChaCha Witness WitnessF SrcStdlibP SeedWitDefs.
From PF.gen Require SrcOpcodes SeedWit SeedShard0 SeedShard1 SeedShard2 SeedShard3.
From PF.proofs Require Import WitnessFP.
Local Open Scope N_scope.

Lemma table_ok_app : forall run a b, table_ok run (a ++ b) = table_ok run a && table_ok run b.
Proof. intros run a b. unfold table_ok. apply forallb_app. Qed.

Lemma table_checked : table_ok run_seed SeedWit.seed_table = true.
Proof.
  unfold SeedWit.seed_table. rewrite !table_ok_app.
  rewrite SeedShard0.shard_ok, SeedShard1.shard_ok, SeedShard2.shard_ok, SeedShard3.shard_ok. reflexivity.
Qed.
Lemma coverage_checked : coverage_ok SeedWit.seed_table = true.
Proof. vm_cast_no_check (eq_refl true). Qed.
Lemma frames_checked : frames_ok run_seed SeedWit.frame_seeds = true.
Proof. vm_cast_no_check (eq_refl true). Qed.

Theorem seed_witness : forall v o, In o (SrcOpcodes.Src.row v) ->
  exists seed r, run_seed v (negb (flag_ok (default_cfg v false false) o)) seed = Ok r /\ occurs o (g_out r) = true.
Proof. exact (seed_witness_gen run_seed SeedWit.seed_table table_checked coverage_checked). Qed.

Theorem frame_witness : forall v, v_ge4 v = true ->
  exists s1 s2 r1 r2, run_seed v false s1 = Ok r1 /\ g_framed r1 = true /\ occurs FRAME (g_out r1) = true
                   /\ run_seed v false s2 = Ok r2 /\ g_framed r2 = false /\ occurs FRAME (g_out r2) = false.
Proof. exact (frame_witness_gen run_seed SeedWit.frame_seeds frames_checked). Qed.
