(* The front ends as option -> configuration mappings: src/main.rs (single-file and batch mode),
   src/mutators/mod.rs (MutatorKind: `all` expansion, create), src/python.rs (Generator class),
   python/pickle_fuzzer/fuzzer.py (PickleMutator.mutate), scripts/action-run.sh (inputs -> argv).
   Definitions only. *)
From Coq Require Import List NArith ZArith Bool.
Import ListNotations.
From PF Require Import Opcodes Config Sim Lex Entropy Mutators Gen.
Local Open Scope N_scope.

Inductive mkind : Set :=
| KAll | KBitflip | KBoundary | KOffbyone | KStringlen | KCharacter | KMemoindex | KTypeconfusion.

Definition is_all (k : mkind) : bool := match k with KAll => true | _ => false end.

(* MutatorKind::all_mutators(unsafe_mutations) *)
Definition all_mutators (unsafe_mutations : bool) : list mkind :=
  [KBitflip; KBoundary; KOffbyone; KStringlen; KCharacter; KTypeconfusion]
  ++ (if unsafe_mutations then [KMemoindex] else []).

(* MutatorKind::create(unsafe_mode); None = panic!("... All should be expanded ...") *)
Definition create (unsafe_mode : bool) (k : mkind) : option mutator :=
  match k with
  | KAll => None
  | KBitflip => Some MBitflip
  | KBoundary => Some MBoundary
  | KOffbyone => Some MOffByOne
  | KStringlen => Some MStringLen
  | KCharacter => Some MCharacter
  | KMemoindex => Some (MMemoIndex unsafe_mode)
  | KTypeconfusion => Some (MTypeConf unsafe_mode)
  end.

(* clap's parsed command line (cli.rs); a_rate is the f64 bit pattern *)
Record cli_args : Set := {
  a_protocol : option N;
  a_seed : option N;
  a_min : N;
  a_max : N;
  a_mutators : list mkind;
  a_rate : N;
  a_unsafe : bool;
  a_ext : bool;
  a_buf : bool;
  a_samples : N
}.

Definition default_min : N := 60.
Definition default_max : N := 300.
Definition default_rate : N := 4591870180066957722.      (* 0.1 *)
Definition default_samples : N := 10000.
Definition f64_one : N := 4607182418800017408.

(* f64::clamp(0.0, 1.0) on the bit pattern: NaN stays NaN, -0.0 stays -0.0 *)
Definition clamp01 (r : N) : N :=
  let sign := N.testbit r 63 in
  let e := N.land (N.shiftr r 52) 2047 in
  let m := N.land r (2 ^ 52 - 1) in
  if (e =? 2047) && negb (m =? 0) then r                     (* NaN *)
  else if sign then (if (e =? 0) && (m =? 0) then r else 0)  (* -0.0 | negative -> 0.0 *)
  else if f64_one <? r then f64_one                          (* positive patterns order like integers *)
  else r.

Definition expand (a : cli_args) : list mkind :=
  if existsb is_all (a_mutators a) then all_mutators (a_unsafe a) else a_mutators a.

Fixpoint create_all (u : bool) (ks : list mkind) : option (list mutator) :=
  match ks with
  | [] => Some []
  | k :: r => match create u k, create_all u r with
              | Some m, Some ms => Some (m :: ms)
              | _, _ => None
              end
  end.

(* protocol given -> that protocol; else seed given -> seed mod 6; else random (None here) *)
Definition cli_version (a : cli_args) : option version :=
  match a_protocol a with
  | Some p => match version_of_N p with Some v => Some v | None => Some V3 end
  | None => match a_seed a with
            | Some s => version_of_N (s mod 6)
            | None => None
            end
  end.

(* the Generator the CLI builds (same code path for single-file mode and for each batch sample) *)
Definition cli_config (a : cli_args) : option config :=
  match cli_version a, create_all (a_unsafe a) (expand a) with
  | Some v, Some ms =>
      Some {| c_version := v; c_min := a_min a; c_max := a_max a; c_mutators := ms;
              c_rate := match ms with [] => default_rate | _ => clamp01 (a_rate a) end;
              c_unsafe := match ms with [] => false | _ => a_unsafe a end;
              c_ext := a_ext a; c_buf := a_buf a |}
  | _, _ => None
  end.

Definition cli_single (a : cli_args) : option config := cli_config a.
Definition cli_batch (a : cli_args) (idx : N) : option config := cli_config a.

(* the files batch mode writes: "<idx>.pkl" for idx in 0..samples *)
Definition batch_file (idx : N) : list N := print_N idx ++ [46; 112; 107; 108].
Definition batch_files (samples : N) : list (list N) :=
  map (fun i => batch_file (N.of_nat i)) (seq 0 (N.to_nat samples)).

(* ---------- Python bindings (python.rs) ---------- *)
Record py_generator : Set := { py_cfg : config; py_seed : option N }.

Definition py_new (protocol : N) (seed : option N) : option py_generator :=
  match version_of_N protocol with
  | Some v => Some {| py_cfg := {| c_version := v; c_min := default_min; c_max := default_max; c_mutators := [];
                                   c_rate := default_rate; c_unsafe := false; c_ext := false; c_buf := false |};
                      py_seed := seed |}
  | None => None                                           (* ValueError *)
  end.

Definition py_set_opcode_range (g : py_generator) (mn mx : N) : py_generator :=
  {| py_cfg := {| c_version := c_version (py_cfg g); c_min := mn; c_max := mx; c_mutators := c_mutators (py_cfg g);
                  c_rate := c_rate (py_cfg g); c_unsafe := c_unsafe (py_cfg g); c_ext := c_ext (py_cfg g);
                  c_buf := c_buf (py_cfg g) |};
     py_seed := py_seed g |}.

(* PickleMutator.mutate(data, max_size): the generated pickle, truncated to max_size *)
Definition py_mutate (e : env) (g : py_generator) (data : list N) (max_size : N) : res (list N) :=
  match generate e (py_cfg g) (SrcBytes data) with
  | Ok out => Ok (firstn (N.to_nat max_size) out)
  | Panic w => Panic w
  end.

(* ---------- scripts/action-run.sh: inputs -> the command line it runs ---------- *)
Record action_inputs : Set := {
  i_output_dir : option (list N);
  i_output_file : option (list N);
  i_samples : option N;
  i_protocol : option N;
  i_seed : option N;
  i_min : option N;
  i_max : option N;
  i_mutators : list mkind;
  i_rate : option N;
  i_unsafe : bool;
  i_ext : bool;
  i_buf : bool
}.

Inductive action_result : Set :=
| ARefuse                 (* both output_dir and output_file: exit 1 *)
| ASkip                   (* nothing to do: exit 0 without running the tool *)
| ARun (batch : bool) (a : cli_args).

Definition opt_default {A : Type} (o : option A) (d : A) : A := match o with Some x => x | None => d end.

Definition action_run (i : action_inputs) : action_result :=
  match i_output_dir i, i_output_file i with
  | Some _, Some _ => ARefuse
  | None, None =>
      (* no positional FILE and no --dir: the script still runs the tool if any other input is set
         (clap then rejects the command line); with no input at all it skips *)
      ASkip
  | d, _ =>
      ARun (match d with Some _ => true | None => false end)
           {| a_protocol := i_protocol i; a_seed := i_seed i;
              a_min := opt_default (i_min i) default_min; a_max := opt_default (i_max i) default_max;
              a_mutators := i_mutators i; a_rate := opt_default (i_rate i) default_rate;
              a_unsafe := i_unsafe i; a_ext := i_ext i; a_buf := i_buf i;
              a_samples := opt_default (i_samples i) default_samples |}
  end.
