(* Level F, part 2: the seven mutators (src/mutators/*.rs) and the first-applicable-wins
   dispatch of src/generator/mutation.rs.  i32 / i64 are Z in two's-complement range, usize
   is N below 2^64, f64 its bit pattern, a String a list of code points, Vec<u8> a list of
   bytes.  Definitions only. *)
From Coq Require Import List NArith ZArith Bool.
Import ListNotations.
From PF Require Import Opcodes Config Lex Entropy.
Local Open Scope N_scope.

Definition wrap (w : N) (z : Z) : Z := to_signed w (to_unsigned w z).
Definition usize_max : N := M64 - 1.
Definition sat_add1 (n : N) : N := if n =? usize_max then n else n + 1.
Definition sat_sub1 (n : N) : N := n - 1.        (* N subtraction truncates at 0 *)

(* UTF-8 *)
Definition utf8_len (cp : N) : N :=
  if cp <? 128 then 1 else if cp <? 2048 then 2 else if cp <? 65536 then 3 else 4.
Definition str_len (s : list N) : N := fold_right (fun cp acc => utf8_len cp + acc) 0 s.
Definition utf8_char (cp : N) : list N :=
  if cp <? 128 then [cp]
  else if cp <? 2048 then [192 + cp / 64; 128 + cp mod 64]
  else if cp <? 65536 then [224 + cp / 4096; 128 + (cp / 64) mod 64; 128 + cp mod 64]
  else [240 + cp / 262144; 128 + (cp / 4096) mod 64; 128 + (cp / 64) mod 64; 128 + cp mod 64].
Definition utf8_encode (s : list N) : list N := flat_map utf8_char s.

(* ---------- constants ---------- *)
Definition i32_max : Z := 2147483647.
Definition i32_min : Z := (-2147483648)%Z.
Definition i64_max : Z := 9223372036854775807.
Definition i64_min : Z := (-9223372036854775808)%Z.
Definition int_boundaries : list Z := [0; -1; 1; i32_max; i32_min]%Z.
Definition long_boundaries : list Z := [0; -1; 1; i64_max; i64_min]%Z.
(* 0.0, -1.0, 1.0, f64::MAX, f64::MIN, +inf, -inf, NaN *)
Definition float_boundaries : list N :=
  [0; 13830554455654793216; 4607182418800017408; 9218868437227405311; 18442240474082181119;
   9218868437227405312; 18442240474082181120; 9221120237041090560].

(* ---------- value mutators: None = not applicable / gate closed ---------- *)
Definition flip (w : N) (v : Z) (p : N) : Z := to_signed w (N.lxor (to_unsigned w v) (2 ^ p)).

Definition mut_int (w : N) (bounds : list Z) (m : mutator) (v : Z) (rate : N) (s : source)
  : res (option Z * source) :=
  match m with
  | MBitflip =>
      let (go, s1) := should_mutate rate s in
      if go then
        do (p, s2) <- gen_range 0 w s1;
        if w <=? p then Panic P_overflow else Ok (Some (flip w v p), s2)
      else Ok (None, s1)
  | MBoundary =>
      let (go, s1) := should_mutate rate s in
      if go then
        do (i, s2) <- gen_range 0 (N.of_nat (length bounds)) s1;
        do b <- nth_res bounds i;
        Ok (Some b, s2)
      else Ok (None, s1)
  | MOffByOne =>
      let (go, s1) := should_mutate rate s in
      if go then
        let (up, s2) := gen_bool s1 in
        Ok (Some (wrap w (if up then v + 1 else v - 1)%Z), s2)
      else Ok (None, s1)
  | _ => Ok (None, s)
  end.

Definition mutate_int_one := mut_int 32 int_boundaries.
Definition mutate_long_one := mut_int 64 long_boundaries.

Definition mutate_float_one (m : mutator) (v : N) (rate : N) (s : source) : res (option N * source) :=
  match m with
  | MBoundary =>
      let (go, s1) := should_mutate rate s in
      if go then
        do (i, s2) <- gen_range 0 (N.of_nat (length float_boundaries)) s1;
        do b <- nth_res float_boundaries i;
        Ok (Some b, s2)
      else Ok (None, s1)
  | _ => Ok (None, s)
  end.

(* n times: draw one item and append it *)
Fixpoint draw_items (n : nat) (f : N -> N) (acc : list N) (s : source) : list N * source :=
  match n with
  | O => (acc, s)
  | S k => let (b, s') := gen_u8 s in draw_items k f (acc ++ [f b]) s'
  end.

Fixpoint set_nth (l : list N) (i : nat) (x : N) : option (list N) :=
  match l, i with
  | [], _ => None
  | _ :: r, O => Some (x :: r)
  | a :: r, S k => match set_nth r k x with Some r' => Some (a :: r') | None => None end
  end.

(* is_str: String (lengths in UTF-8 bytes, items = chars) vs Vec<u8> *)
Definition mutate_seq_one (is_str : bool) (m : mutator) (v : list N) (rate : N) (s : source)
  : res (option (list N) * source) :=
  let blen := if is_str then str_len v else N.of_nat (length v) in
  match m with
  | MStringLen =>
      let (go, s1) := should_mutate rate s in
      if go then
        do (k, s2) <- gen_range 0 3 s1;
        if k =? 0 then
          match v with
          | [] => Ok (Some v, s2)
          | _ =>
              do (n, s3) <- gen_range 0 blen s2;
              (* chars().take(n) never fails; value[..n] needs n <= len *)
              if negb is_str && (N.of_nat (length v) <? n) then Panic P_index
              else Ok (Some (firstn (N.to_nat n) v), s3)
          end
        else if k =? 1 then
          do (extra, s3) <- gen_range 1 10 s2;
          let (r, s4) := draw_items (N.to_nat extra) (fun b => if is_str then b mod 26 + 97 else b) v s3 in
          Ok (Some r, s4)
        else Ok (Some (v ++ v), s2)
      else Ok (None, s1)
  | MCharacter =>
      let (go, s1) := should_mutate rate s in
      if go then
        match v with
        | [] => Ok (None, s1)
        | _ =>
            do (i, s2) <- gen_range 0 (N.of_nat (length v)) s1;
            let (b, s3) := gen_u8 s2 in
            match set_nth v (N.to_nat i) (if is_str then b mod 94 + 33 else b) with
            | Some r => Ok (Some r, s3)
            | None => Panic P_index
            end
        end
      else Ok (None, s1)
  | _ => Ok (None, s)
  end.

Definition mutate_memo_one (m : mutator) (v : N) (rate : N) (s : source) : res (option N * source) :=
  match m with
  | MOffByOne =>
      let (go, s1) := should_mutate rate s in
      if go then
        let (up, s2) := gen_bool s1 in Ok (Some (if up then sat_add1 v else sat_sub1 v), s2)
      else Ok (None, s1)
  | MMemoIndex unsafe_mode =>
      let (go, s1) := should_mutate rate s in
      if go then
        if unsafe_mode then do (r, s2) <- gen_range 0 1000 s1; Ok (Some r, s2)
        else
          do (k, s2) <- gen_range 0 3 s1;
          Ok (Some (if k =? 0 then sat_add1 v else if k =? 1 then sat_sub1 v else v), s2)
      else Ok (None, s1)
  | _ => Ok (None, s)
  end.

(* ---------- mutation.rs: the first mutator that returns Some wins ---------- *)
Fixpoint first_some {A : Type} (one : mutator -> A -> N -> source -> res (option A * source))
         (ms : list mutator) (v : A) (rate : N) (s : source) : res (A * source * bool) :=
  match ms with
  | [] => Ok (v, s, false)
  | m :: rest =>
      do (r, s') <- one m v rate s;
      match r with
      | Some v' => Ok (v', s', true)
      | None => first_some one rest v rate s'
      end
  end.

Definition mutate_int (c : config) := first_some mutate_int_one (c_mutators c).
Definition mutate_long (c : config) := first_some mutate_long_one (c_mutators c).
Definition mutate_float (c : config) := first_some mutate_float_one (c_mutators c).
Definition mutate_string (c : config) := first_some (mutate_seq_one true) (c_mutators c).
Definition mutate_bytes (c : config) := first_some (mutate_seq_one false) (c_mutators c).
Definition mutate_memo_index (c : config) := first_some mutate_memo_one (c_mutators c).

(* ---------- TypeConfusion::post_process ---------- *)
(* opcode_to_type on the first emitted byte: 1 Int 2 Float 3 String 4 Bytes 5 List 6 Dict
   7 Tuple 8 None 9 Bool, 0 = not a value-pushing opcode *)
Definition byte_type (b : N) : N :=
  if (b =? 73) || (b =? 74) || (b =? 75) || (b =? 77) || (b =? 76) || (b =? 138) || (b =? 139) then 1
  else if (b =? 70) || (b =? 71) then 2
  else if (b =? 83) || (b =? 86) || (b =? 140) || (b =? 88) || (b =? 141) then 3
  else if (b =? 66) || (b =? 67) || (b =? 142) || (b =? 84) || (b =? 85) then 4
  else if (b =? 93) || (b =? 108) then 5
  else if (b =? 41) || (b =? 116) || (b =? 133) || (b =? 134) || (b =? 135) then 7
  else if (b =? 125) || (b =? 100) then 6
  else if b =? 78 then 8
  else if (b =? 136) || (b =? 137) then 9
  else 0.

Definition all_types : list N := [1; 2; 3; 4; 5; 6; 7; 8; 9].
Definition confused_bytes : list N := [99; 111; 110; 102; 117; 115; 101; 100].

(* generate_opcode_for_type: the replacement token *)
Definition replacement (ty : N) (s : source) : token * source :=
  if ty =? 1 then let (z, s') := gen_i32 s in ((BININT, AZ z), s')
  else if ty =? 2 then let (b, s') := gen_f64 s in ((BINFLOAT, AF b), s')
  else if ty =? 3 then ((SHORT_BINUNICODE, AB confused_bytes), s)
  else if ty =? 4 then ((SHORT_BINBYTES, AB confused_bytes), s)
  else if ty =? 5 then ((EMPTY_LIST, A0), s)
  else if ty =? 6 then ((EMPTY_DICT, A0), s)
  else if ty =? 7 then ((EMPTY_TUPLE, A0), s)
  else if ty =? 8 then ((NONE, A0), s)
  else let (b, s') := gen_bool s in ((if b then NEWTRUE else NEWFALSE, A0), s').

(* one mutator's post_process on the bytes emitted for this opcode (delta is computed once,
   before any post_process ran); cur = the bytes currently standing after the snapshot *)
Definition post_one (m : mutator) (delta cur : list N) (rate : N) (s : source)
  : res (list N * source * bool) :=
  match m with
  | MTypeConf true =>
      let (go, s1) := should_mutate rate s in
      if go then
        match delta with
        | [] => Ok (cur, s1, false)
        | b :: _ =>
            let t := byte_type b in
            if t =? 0 then Ok (cur, s1, false)
            else
              let others := filter (fun x => negb (x =? t)) all_types in
              do (i, s2) <- choose_index (N.of_nat (length others)) s1;
              do ty <- nth_res others i;
              let (tok, s3) := replacement ty s2 in
              Ok (encode tok, s3, true)
        end
      else Ok (cur, s1, false)
  | _ => Ok (cur, s, false)
  end.

Fixpoint post_all (ms : list mutator) (delta cur : list N) (rate : N) (s : source) (n : N)
  : res (list N * source * N) :=
  match ms with
  | [] => Ok (cur, s, n)
  | m :: rest =>
      do (r, fired) <- post_one m delta cur rate s;
      let (cur', s') := r in
      post_all rest delta cur' rate s' (if fired then n + 1 else n)
  end.

(* post_process_emission: nothing at all (no draw) when no mutator is registered *)
Definition post_process (c : config) (delta : list N) (s : source) : res (list N * source * N) :=
  match c_mutators c with
  | [] => Ok (delta, s, 0)
  | ms => post_all ms delta delta (c_rate c) s 0
  end.
