(* Level R: the envelope of what one generation step may emit (emitsb), the executable form
   of the refinement invariant (invb), and the run-level relation run_R the theorems of
   C01-C06, C10, C11, C17 quantify over.  Definitions only. *)
From Coq Require Import List NArith ZArith Bool.
Import ListNotations.
From PF Require Import Opcodes RefTable Config Sim Ref Lex.
Local Open Scope N_scope.

Definition printable (b : N) : bool := (32 <=? b) && (b <=? 126).
(* visible ASCII other than the backslash (a backslash in a GLOBAL / INST name would be read as an escape by pickletools) *)
Definition graphic (b : N) : bool := (33 <=? b) && (b <=? 126) && negb (b =? 92).
Definition is_byte (b : N) : bool := b <? 256.
Definition len_le (l : list N) (n : nat) : bool := Nat.leb (length l) n.

Definition i32_range (z : Z) : bool := ((-2147483648 <=? z) && (z <=? 2147483647))%Z.

Definition pid_prefix : list N := [112; 105; 100; 95].   (* "pid_" *)

Definition has_typeconf (c : config) : bool :=
  existsb (fun m => match m with MTypeConf true => true | _ => false end) (c_mutators c).

(* what the emitters can produce as the argument of opcode o in state s *)
Definition arg_env (c : config) (s : sim) (o : opcode) (a : arg) : bool :=
  match o, a with
  | (INT | LONG | LONG1 | LONG4 | BININT), AZ z => i32_range z
  | BININT1, AU n => n <? 256
  | BININT2, AU n => n <? 65536
  | FLOAT, AB txt => float_text_ok txt && forallb graphic txt
  | BINFLOAT, AF bits => bits <? 2 ^ 64
  | STRING, AB p => forallb printable p && len_le p 62
  | UNICODE, AB p => forallb printable p && len_le p 124 && raw_unicode_ok (S (length p)) false p
  | (SHORT_BINUNICODE | BINUNICODE | BINUNICODE8), AB p => forallb printable p && len_le p 62
  | (BINSTRING | SHORT_BINSTRING | BINBYTES | SHORT_BINBYTES | BINBYTES8 | BYTEARRAY8), AB p =>
      forallb is_byte p && len_le p 62
  | (GLOBAL | INST), AP m at_ =>
      forallb graphic m && forallb graphic at_
      && negb (len_le m 0) && negb (len_le at_ 0)
  | PERSID, AB p =>
      match strip_prefix pid_prefix p with
      | Some d =>
          match parse_N d with
          | Some n => (n <? 2 ^ 32) && list_eqb d (print_N n)
          | None => false
          end
      | None => false
      end
  | PUT, AU n => n =? memo_len s
  | BINPUT, AU n => (n =? memo_len s) && (n <? 256)
  | LONG_BINPUT, AU n => (n =? memo_len s) && (n <? 2 ^ 32)
  | GET, AU n => if c_unsafe c then n <? 2 ^ 64 else memo_has s n
  | BINGET, AU n => (n <? 256) && (c_unsafe c || memo_has s n)
  | LONG_BINGET, AU n => (n <? 2 ^ 32) && (c_unsafe c || memo_has s n)
  | EXT1, AU n => (1 <=? n) && (n <? 256)
  | EXT2, AU n => (1 <=? n) && (n <? 65536)
  | EXT4, AZ z => ((1 <=? z) && (z <=? 2147483647))%Z
  | (PROTO | FRAME | STOP), _ => false
  | _, A0 => match ref_reader o with no_arg => true | _ => false end
  | _, _ => false
  end.

(* a body step: `chosen` is drawn from the valid set; the integer opcodes are all routed
   through emit_int, which emits any integer opcode of the protocol's row *)
Definition emitsb (c : config) (s : sim) (chosen : opcode) (t : token) : bool :=
  existsb (op_eqb chosen) (get_valid_opcodes c s)
  && (op_eqb (fst t) chosen
      || (int_like chosen && int_like (fst t) && existsb (op_eqb (fst t)) (row (c_version c))))
  && arg_env c s (fst t) (snd t).

(* TypeConfusion's replacement opcodes (unsafe mode only) *)
Definition confused : list N := [99; 111; 110; 102; 117; 115; 101; 100].
Definition typeconf_repl (t : token) : bool :=
  match t with
  | (BININT, AZ z) => i32_range z
  | (BINFLOAT, AF bits) => bits <? 2 ^ 64
  | (SHORT_BINUNICODE, AB p) | (SHORT_BINBYTES, AB p) => list_eqb p confused
  | (EMPTY_LIST, A0) | (EMPTY_DICT, A0) | (EMPTY_TUPLE, A0) | (NONE, A0)
  | (NEWTRUE, A0) | (NEWFALSE, A0) => true
  | _ => false
  end.

(* src/mutators/typeconfusion.rs opcode_to_type, as type classes 1..9 (0 = not value-pushing) *)
Definition stack_type (o : opcode) : N :=
  match o with
  | INT | BININT | BININT1 | BININT2 | LONG | LONG1 | LONG4 => 1
  | FLOAT | BINFLOAT => 2
  | STRING | UNICODE | SHORT_BINUNICODE | BINUNICODE | BINUNICODE8 => 3
  | BINBYTES | SHORT_BINBYTES | BINBYTES8 | BINSTRING | SHORT_BINSTRING => 4
  | EMPTY_LIST | LIST => 5
  | EMPTY_DICT | DICT => 6
  | EMPTY_TUPLE | TUPLE | TUPLE1 | TUPLE2 | TUPLE3 => 7
  | NONE => 8
  | NEWTRUE | NEWFALSE => 9
  | _ => 0
  end.

(* ---------- executable invariant (property C17's statement on a concrete pair) ---------- *)
Definition compatb (k : kind) (r : rkind) : bool :=
  match k, r with
  | KInt, (RInt | RIntOrBool) => true
  | KBool, (RBool | RIntOrBool) => true
  | KFloat, RFloat => true
  | KNone, RNone => true
  | KString, (RStr | RBytesOrStr | RAny) => true
  | KBytes, (RBytes | RBytesOrStr | RBuffer) => true
  | KByteArray, RByteArray => true
  | KList, RList => true
  | KTuple, RTuple => true
  | KDict, RDict => true
  | KSet, RSet => true
  | KFrozenSet, RFrozenSet => true
  | KMark, RMark => true
  | KCallable, (RGlobal | RAny) => true
  | KInstance, RObject => true
  | _, _ => false
  end.

Fixpoint forall2b {A B : Type} (f : A -> B -> bool) (a : list A) (b : list B) : bool :=
  match a, b with
  | [], [] => true
  | x :: a', y :: b' => f x y && forall2b f a' b'
  | _, _ => false
  end.

(* same depth, same MARK positions, slot-wise compatible kinds; same memo index set with
   compatible kinds *)
Definition invb (s : sim) (r : rstate) : bool :=
  forall2b compatb (stk s) (rstk r)
  && forall2b (fun a b => (fst a =? fst b) && compatb (snd a) (snd b)) (memo s) (rmemo r).

Definition arg_eqb (a b : arg) : bool :=
  match a, b with
  | A0, A0 => true
  | AU x, AU y => x =? y
  | AZ x, AZ y => Z.eqb x y
  | AB x, AB y => list_eqb x y
  | AF x, AF y => x =? y
  | AP m1 a1, AP m2 a2 => list_eqb m1 m2 && list_eqb a1 a2
  | _, _ => false
  end.
Definition tok_eqb (a b : token) : bool := op_eqb (fst a) (fst b) && arg_eqb (snd a) (snd b).

(* the bytes that reach the output are those of the simulated token, unless an unsafe-mode
   TypeConfusion mutator replaced a value-pushing opcode by one of another type *)
Definition out_ok (c : config) (t out : token) : bool :=
  tok_eqb t out
  || (has_typeconf c && negb (stack_type (fst t) =? 0) && typeconf_repl out
      && negb (stack_type (fst out) =? stack_type (fst t))).

(* ---------- the run-level envelope ---------- *)
Record rstep : Set := { rs_chosen : opcode; rs_tok : token; rs_out : token }.

(* body steps from a state *)
Fixpoint body_ok (c : config) (s : sim) (steps : list rstep) : bool :=
  match steps with
  | [] => true
  | st :: rest => emitsb c s (rs_chosen st) (rs_tok st)
                  && out_ok c (rs_tok st) (rs_out st)
                  && body_ok c (sim_step (c_version c) s (rs_tok st)) rest
  end.

Fixpoint run_steps (v : version) (s : sim) (ts : list token) : sim :=
  match ts with
  | [] => s
  | t :: rest => run_steps v (sim_step v s t) rest
  end.

Definition header (c : config) (framed : bool) (body_len : N) : list token :=
  (if v_lt2 (c_version c) then [] else [(PROTO, AU (vnum (c_version c)))])
  ++ (if framed then [(FRAME, AU body_len)] else []).

(* number of freely chosen body opcodes allowed by the two knobs *)
Definition target_ok (c : config) (T : N) : bool :=
  if c_min c <? c_max c then (c_min c <=? T) && (T <? c_max c) else T =? c_min c.

(* the token list of a whole run: header, body, collapse tail, STOP *)
Definition run_tokens (c : config) (framed : bool) (steps : list rstep) : list token :=
  let v := c_version c in
  let body := map rs_tok steps in
  let s0 := {| stk := []; memo := []; proto_emitted := negb (v_lt2 v) |} in
  let s1 := run_steps v s0 body in
  let tail := map (fun o => (o, A0)) (fst (cleanup_for_stop v s1)) in
  let rest := map rs_out steps ++ tail ++ [(STOP, A0)] in
  header c framed (N.of_nat (length (serialize rest))) ++ rest.

Definition run_R (c : config) (framed : bool) (steps : list rstep) : Prop :=
  (framed = true -> v_ge4 (c_version c) = true)
  /\ target_ok c (N.of_nat (length steps)) = true
  /\ body_ok c {| stk := []; memo := []; proto_emitted := negb (v_lt2 (c_version c)) |} steps = true.

(* ---------- well-formed tokens: everything that can occur in a run (body arguments in the
   envelope of some state, TypeConfusion replacements, header, tail, STOP); the lexer round
   trip (proofs/LexRT.v) is proved for these ---------- *)
Definition arg_wf (o : opcode) (a : arg) : bool :=
  match o, a with
  | (INT | LONG | LONG1 | LONG4 | BININT), AZ z => i32_range z
  | BININT1, AU n => n <? 256
  | BININT2, AU n => n <? 65536
  | FLOAT, AB txt => float_text_ok txt && forallb graphic txt
  | BINFLOAT, AF bits => bits <? 2 ^ 64
  | STRING, AB p => forallb printable p && len_le p 124
  | UNICODE, AB p => forallb printable p && len_le p 124 && raw_unicode_ok (S (length p)) false p
  | (SHORT_BINUNICODE | BINUNICODE | BINUNICODE8), AB p => forallb printable p && len_le p 124
  | (BINSTRING | SHORT_BINSTRING | BINBYTES | SHORT_BINBYTES | BINBYTES8 | BYTEARRAY8), AB p =>
      forallb is_byte p && len_le p 124
  | (GLOBAL | INST), AP m at_ => forallb graphic m && forallb graphic at_
  | PERSID, AB p => forallb graphic p
  | (PUT | GET), AU n => true
  | (BINPUT | BINGET), AU n => n <? 256
  | (LONG_BINPUT | LONG_BINGET), AU n => n <? 2 ^ 32
  | EXT1, AU n => (1 <=? n) && (n <? 256)
  | EXT2, AU n => (1 <=? n) && (n <? 65536)
  | EXT4, AZ z => ((1 <=? z) && (z <=? 2147483647))%Z
  | PROTO, AU n => n <? 256
  | FRAME, AU n => n <? 2 ^ 64
  | _, A0 => match ref_reader o with no_arg => true | _ => false end
  | _, _ => false
  end.
Definition tok_wf (t : token) : bool := arg_wf (fst t) (snd t).
