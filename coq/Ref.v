(* The specification side: a reference pickle machine with CPython pickletools.dis
   semantics (symbolic stack, markstack, memo), driven by the table generated from
   pickletools.opcodes (RefTable.v), refined with kind tracking; plus the kind
   requirements of property C03.  Written from pickletools.py, not from /repo/src. *)
From Coq Require Import List NArith ZArith Bool.
Import ListNotations.
From PF Require Import Opcodes RefTable Config.

Record rstate : Set := {
  rstk : list rkind;           (* head = top; RMark is an ordinary element, as in dis *)
  rmarks : nat;                (* depth of dis's markstack *)
  rmemo : list (N * rkind)     (* insertion order *)
}.

Definition rinit : rstate := {| rstk := []; rmarks := 0; rmemo := [] |}.

Definition r_is_mark (k : rkind) : bool := match k with RMark => true | _ => false end.

Fixpoint rmemo_get (i : N) (m : list (N * rkind)) : option rkind :=
  match m with
  | [] => None
  | (j, k) :: r => if N.eqb i j then Some k else rmemo_get i r
  end.

(* index of markobject in stack_before, if any *)
Fixpoint mark_index (l : list rkind) : option nat :=
  match l with
  | [] => None
  | RMark :: _ => Some 0
  | _ :: r => match mark_index r with Some n => Some (S n) | None => None end
  end.

(* `while stack[-1] is not markobject: stack.pop()` then `stack.pop()`;
   None = IndexError (no markobject on the stack) *)
Fixpoint drop_through_mark (st : list rkind) : option (list rkind) :=
  match st with
  | [] => None
  | RMark :: r => Some r
  | _ :: r => drop_through_mark r
  end.

Definition is_put (o : opcode) : bool :=
  match o with PUT | BINPUT | LONG_BINPUT | MEMOIZE => true | _ => false end.
Definition is_get (o : opcode) : bool :=
  match o with GET | BINGET | LONG_BINGET => true | _ => false end.

(* what gets pushed (head = new top).  pickletools' stack_after, refined:
   GET pushes the memoised kind (dis does that too); DUP/MEMOIZE/READONLY_BUFFER keep
   the kind they found; GLOBAL/STACK_GLOBAL push a global, the object builders an object. *)
Definition ref_pushes (o : opcode) (st : list rkind) (got : option rkind) : list rkind :=
  match o with
  | GET | BINGET | LONG_BINGET => match got with Some k => [k] | None => [RAny] end
  | DUP => match st with
           | k :: _ => if r_is_mark k then [RAny; RAny] else [k; k]
           | [] => [RAny; RAny]
           end
  | MEMOIZE | READONLY_BUFFER =>
      match st with
      | k :: _ => if r_is_mark k then rev (ref_after o) else [k]
      | [] => rev (ref_after o)
      end
  | GLOBAL | STACK_GLOBAL => [RGlobal]
  | REDUCE | BUILD | INST | OBJ | NEWOBJ | NEWOBJ_EX => [RObject]
  | _ => rev (ref_after o)
  end.

Definition ref_step (r : rstate) (t : token) : option rstate :=
  let o := fst t in
  let before := ref_before o in
  let top_mark := match rstk r with k :: _ => r_is_mark k | [] => false end in
  let pops_mark := match mark_index before with Some _ => true | None => false end
                   || (op_eqb o POP && top_mark) in
  (* 1. pop a MARK if the opcode consumes one *)
  match (if pops_mark then
           match rmarks r with
           | O => None                                       (* "no MARK exists on stack" *)
           | S m =>
               match drop_through_mark (rstk r) with
               | None => None                                (* IndexError in dis *)
               | Some rest =>
                   Some (rest, m, match mark_index before with Some i => i | None => O end)
               end
           end
         else Some (rstk r, rmarks r, length before)) with
  | None => None
  | Some (st1, marks1, numtopop) =>
      (* 2. memo usage *)
      match (if is_put o then
               let idx := match o with MEMOIZE => N.of_nat (length (rmemo r)) | _ => tok_index t end in
               match rmemo_get idx (rmemo r), st1 with
               | Some _, _ => None                           (* "memo key already defined" *)
               | None, [] => None                            (* "stack is empty" *)
               | None, k :: _ =>
                   if r_is_mark k then None                  (* "can't store markobject" *)
                   else Some (rmemo r ++ [(idx, k)], None)
               end
             else if is_get o then
               match rmemo_get (tok_index t) (rmemo r) with
               | Some k => Some (rmemo r, Some k)
               | None => None                                (* "has never been stored into" *)
               end
             else Some (rmemo r, None)) with
      | None => None
      | Some (memo1, got) =>
          (* 3. stack effect *)
          if Nat.ltb (length st1) numtopop then None
          else
            let pushes := ref_pushes o st1 got in
            Some {| rstk := pushes ++ skipn numtopop st1;
                    rmarks := if existsb r_is_mark (ref_after o) then S marks1 else marks1;
                    rmemo := memo1 |}
      end
  end.

Fixpoint ref_run (r : rstate) (ts : list token) : option rstate :=
  match ts with
  | [] => Some r
  | t :: rest => match ref_step r t with
                 | Some r' => ref_run r' rest
                 | None => None
                 end
  end.

(* dis accepts: every step accepted, and the stack is empty after STOP
   ("stack not empty after STOP" otherwise).  STOP must be the last token. *)
Definition ref_accepts (ts : list token) : bool :=
  match ref_run rinit ts with
  | Some r => match rstk r with [] => true | _ => false end
  | None => false
  end.

(* ---- kind requirements (property C03) ---- *)
Definition acc (want : rkind -> bool) (o : option rkind) : bool :=
  match o with Some k => want k || match k with RAny => true | _ => false end | None => false end.

Definition w_list k := match k with RList => true | _ => false end.
Definition w_dict k := match k with RDict => true | _ => false end.
Definition w_set k := match k with RSet => true | _ => false end.
Definition w_tuple k := match k with RTuple => true | _ => false end.
Definition w_str k := match k with RStr | RBytesOrStr => true | _ => false end.
Definition w_tuple_or_dict k := match k with RTuple | RDict => true | _ => false end.
Definition w_nondata k := match k with RGlobal | RObject => true | _ => false end.
Definition w_object k := match k with RObject => true | _ => false end.

(* items above the topmost markobject (top first) and what lies below it *)
Fixpoint split_mark (st : list rkind) : option (list rkind * list rkind) :=
  match st with
  | [] => None
  | RMark :: r => Some ([], r)
  | k :: r => match split_mark r with
              | Some (a, b) => Some (k :: a, b)
              | None => None
              end
  end.

Definition req_ok (r : rstate) (t : token) : bool :=
  let st := rstk r in
  let at_ n := nth_error st n in
  match fst t with
  | APPEND => acc w_list (at_ 1)
  | SETITEM => acc w_dict (at_ 2)
  | APPENDS => match split_mark st with
               | Some (_, b) => acc w_list (hd_error b)
               | None => false
               end
  | ADDITEMS => match split_mark st with
                | Some (_, b) => acc w_set (hd_error b)
                | None => false
                end
  | SETITEMS => match split_mark st with
                | Some (a, b) => acc w_dict (hd_error b) && Nat.even (length a)
                | None => false
                end
  | DICT => match split_mark st with
            | Some (a, _) => Nat.even (length a)
            | None => false
            end
  | STACK_GLOBAL => acc w_str (at_ 0) && acc w_str (at_ 1)
  | REDUCE | NEWOBJ => acc w_tuple (at_ 0) && acc w_nondata (at_ 1)
  | NEWOBJ_EX => acc w_dict (at_ 0) && acc w_tuple (at_ 1) && acc w_nondata (at_ 2)
  | BUILD => acc w_tuple_or_dict (at_ 0) && acc w_object (at_ 1)
  | OBJ => match split_mark st with
           | Some (a, _) => acc w_nondata (hd_error (rev a))
           | None => false
           end
  | DUP => match st with k :: _ => negb (r_is_mark k) | [] => false end
  | _ => true
  end.

(* run with the kind requirements checked at every step *)
Fixpoint ref_run_req (r : rstate) (ts : list token) : option rstate :=
  match ts with
  | [] => Some r
  | t :: rest => if req_ok r t then
                   match ref_step r t with
                   | Some r' => ref_run_req r' rest
                   | None => None
                   end
                 else None
  end.

(* memo discipline (C02), directly on the run: each GET-family index defined earlier,
   no PUT-family redefinition, no PUT on an empty stack or a MARK.  These are exactly the
   memo clauses of ref_step, isolated so that C02 can be read on its own. *)
Definition memo_ok (r : rstate) (t : token) : bool :=
  let o := fst t in
  if is_get o then match rmemo_get (tok_index t) (rmemo r) with Some _ => true | None => false end
  else if is_put o then
    let idx := match o with MEMOIZE => N.of_nat (length (rmemo r)) | _ => tok_index t end in
    match rmemo_get idx (rmemo r), rstk r with
    | Some _, _ => false
    | None, [] => false
    | None, k :: _ => negb (r_is_mark k)
    end
  else true.
