(* The translator tie, part 1: the opcode bytes and protocol rows regenerated from /repo's current
   src/opcodes.rs (gen/SrcOpcodes.v) agree with CPython's table (RefTable) and the model's rows. *)
From Coq Require Import List NArith ZArith Bool Arith Lia.
Import ListNotations.
From PF Require Import Opcodes RefTable Config Sim.
From PF.gen Require SrcOpcodes.

Lemma src_as_u8_ok : forall o, SrcOpcodes.Src.as_u8 o = ref_code o.
Proof. intro o; destruct o; reflexivity. Qed.

Lemma src_rows_eq : forall v, SrcOpcodes.Src.row v = row v.
Proof. intro v; destruct v; reflexivity. Qed.

Definition row_protos_ok (v : version) : bool :=
  forallb (fun o => N.leb (ref_proto o) (vnum v)) (SrcOpcodes.Src.row v).
Definition row_full (v : version) : bool :=
  forallb (fun o => negb (N.leb (ref_proto o) (vnum v)) || existsb (op_eqb o) (SrcOpcodes.Src.row v))
          all_opcodes.

Lemma src_rows_ok : forall v o, In o (SrcOpcodes.Src.row v) -> (ref_proto o <= vnum v)%N.
Proof.
  intros v o H. assert (E : row_protos_ok v = true) by (destruct v; vm_compute; reflexivity).
  unfold row_protos_ok in E. rewrite forallb_forall in E. apply N.leb_le. apply E; exact H.
Qed.

Lemma src_rows_full : forall v o, (ref_proto o <= vnum v)%N -> In o (SrcOpcodes.Src.row v).
Proof.
  intros v o H. assert (E : row_full v = true) by (destruct v; vm_compute; reflexivity).
  unfold row_full in E. rewrite forallb_forall in E. specialize (E o (all_opcodes_complete o)).
  apply N.leb_le in H. rewrite H in E. simpl in E. apply existsb_exists in E.
  destruct E as (x & Hin & Heq). apply op_eqb_eq in Heq. subst x. exact Hin.
Qed.
