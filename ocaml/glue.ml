(* Unverified glue used by the driver: ChaCha8 word stream of a seed (the model takes the PRNG
   as a stream of 32-bit words; this reproduces rand_chacha's ChaCha8Rng::seed_from_u64 and is
   validated against the real crate on every run), and Rust's Display for f64. *)
let mask32 = 0xFFFFFFFF
let rotl x n = ((x lsl n) lor (x lsr (32 - n))) land mask32

let chacha_block (key : int array) (counter : int) (rounds : int) : int array =
  let st = Array.make 16 0 in
  st.(0) <- 0x61707865; st.(1) <- 0x3320646e; st.(2) <- 0x79622d32; st.(3) <- 0x6b206574;
  Array.blit key 0 st 4 8;
  st.(12) <- counter land mask32; st.(13) <- (counter lsr 32) land mask32; st.(14) <- 0; st.(15) <- 0;
  let x = Array.copy st in
  let qr a b c d =
    x.(a) <- (x.(a) + x.(b)) land mask32; x.(d) <- rotl (x.(d) lxor x.(a)) 16;
    x.(c) <- (x.(c) + x.(d)) land mask32; x.(b) <- rotl (x.(b) lxor x.(c)) 12;
    x.(a) <- (x.(a) + x.(b)) land mask32; x.(d) <- rotl (x.(d) lxor x.(a)) 8;
    x.(c) <- (x.(c) + x.(d)) land mask32; x.(b) <- rotl (x.(b) lxor x.(c)) 7 in
  for _ = 1 to rounds / 2 do
    qr 0 4 8 12; qr 1 5 9 13; qr 2 6 10 14; qr 3 7 11 15;
    qr 0 5 10 15; qr 1 6 11 12; qr 2 7 8 13; qr 3 4 9 14
  done;
  Array.mapi (fun i v -> (v + st.(i)) land mask32) x

(* rand_core 0.9 SeedableRng::seed_from_u64: PCG32 expands the u64 into the 32-byte key *)
let key_of_seed (seed : int64) : int array =
  let state = ref seed in
  Array.init 8 (fun _ ->
    state := Int64.add (Int64.mul !state 6364136223846793005L) (Int64.of_string "0u11634580027462260723");
    let s = !state in
    let xorshifted = Int64.to_int (Int64.logand (Int64.shift_right_logical (Int64.logxor (Int64.shift_right_logical s 18) s) 27) 0xFFFFFFFFL) in
    let rot = Int64.to_int (Int64.shift_right_logical s 59) in
    ((xorshifted lsr rot) lor (xorshifted lsl ((32 - rot) land 31))) land mask32)

(* word i of ChaCha8Rng::seed_from_u64(seed), blocks computed on demand *)
let word_stream (seed : int64) : int -> int =
  let key = key_of_seed seed in
  let cache : (int, int array) Hashtbl.t = Hashtbl.create 16 in
  fun i ->
    let b = i / 16 in
    let blk = match Hashtbl.find_opt cache b with
      | Some x -> x
      | None -> let x = chacha_block key b 8 in Hashtbl.replace cache b x; x in
    blk.(i mod 16)

(* ---------- Rust's `impl Display for f64` (shortest digits that round-trip, positional) ---------- *)
let fmt_f64_bits (bits : int64) : string =
  let x = Int64.float_of_bits bits in
  if Float.is_nan x then "NaN"
  else if x = Float.infinity then "inf"
  else if x = Float.neg_infinity then "-inf"
  else begin
    let neg = Int64.compare bits 0L < 0 in
    let a = Float.abs x in
    if a = 0.0 then (if neg then "-0" else "0")
    else begin
      (* shortest p such that %.{p-1}e round-trips *)
      let rec find p =
        let s = Printf.sprintf "%.*e" (p - 1) a in
        if p >= 17 || float_of_string s = a then s else find (p + 1) in
      let s = find 1 in
      (* s = d[.ddd]e[+-]XX *)
      let epos = String.index s 'e' in
      let mant = String.sub s 0 epos and ex = int_of_string (String.sub s (epos + 1) (String.length s - epos - 1)) in
      let digits = String.concat "" (String.split_on_char '.' mant) in
      (* strip trailing zeros of the digit string (keep at least one) *)
      let n = ref (String.length digits) in
      while !n > 1 && digits.[!n - 1] = '0' do decr n done;
      let digits = String.sub digits 0 !n in
      let nd = String.length digits in
      let pointpos = ex + 1 in      (* number of digits before the decimal point *)
      let body =
        if pointpos <= 0 then "0." ^ String.make (- pointpos) '0' ^ digits
        else if pointpos >= nd then digits ^ String.make (pointpos - nd) '0'
        else String.sub digits 0 pointpos ^ "." ^ String.sub digits pointpos (nd - pointpos) in
      (if neg then "-" else "") ^ body
    end
  end
