(* Driver for the extracted Coq model: reads the harness's trace files, runs the model's
   executable definitions on the same cases and prints one verdict per line.
   Unverified glue: parsing, hex <-> N conversion, printing. *)
open Model

(* ---------- conversions ---------- *)
let rec pos_of_int (i : int) : positive =
  if i = 1 then XH else if i land 1 = 0 then XO (pos_of_int (i lsr 1)) else XI (pos_of_int (i lsr 1))
let n_of_int (i : int) : n = if i = 0 then N0 else Npos (pos_of_int i)
let rec int_of_pos = function XH -> 1 | XO p -> 2 * int_of_pos p | XI p -> 2 * int_of_pos p + 1
let int_of_n = function N0 -> 0 | Npos p -> int_of_pos p
let rec nat_of_int i = if i = 0 then O else S (nat_of_int (i - 1))
let rec int_of_nat = function O -> 0 | S k -> 1 + int_of_nat k

(* arbitrary-size N from a hex string (most significant digit first) *)
let n_of_hex (s : string) : n =
  let bits = ref [] in
  String.iter (fun c ->
    let d = int_of_string ("0x" ^ String.make 1 c) in
    bits := !bits @ [d land 8 <> 0; d land 4 <> 0; d land 2 <> 0; d land 1 <> 0]) s;
  (* msb first -> build positive *)
  let rec strip = function false :: r -> strip r | l -> l in
  match strip !bits with
  | [] -> N0
  | _ :: rest -> Npos (List.fold_left (fun p b -> if b then XI p else XO p) XH rest)

let rec z_to_string (z : z) : string =
  match z with Z0 -> "0" | Zpos p -> n_to_string (Npos p) | Zneg p -> "-" ^ n_to_string (Npos p)
and n_to_string (x : n) : string =
  (* decimal via repeated division is overkill here; values we print are small or shown in hex *)
  match x with
  | N0 -> "0"
  | Npos p ->
      let rec bits p acc = match p with XH -> true :: acc | XO q -> bits q (false :: acc) | XI q -> bits q (true :: acc) in
      let bl = bits p [] in
      if List.length bl <= 60 then string_of_int (int_of_pos p)
      else "0b" ^ String.concat "" (List.map (fun b -> if b then "1" else "0") bl)

let bytes_of_hex (s : string) : n list =
  if s = "-" then []
  else List.init (String.length s / 2) (fun i -> n_of_int (int_of_string ("0x" ^ String.sub s (2 * i) 2)))

let hex_of_bytes (l : n list) : string =
  if l = [] then "-" else String.concat "" (List.map (fun b -> Printf.sprintf "%02x" (int_of_n b)) l)

(* ---------- names ---------- *)
let string_of_ascii (l : n list) = String.concat "" (List.map (fun b -> String.make 1 (Char.chr (int_of_n b))) l)
let cp_name (o : opcode) = string_of_ascii (op_name o)
let norm s = String.lowercase_ascii (String.concat "" (String.split_on_char '_' s))
let by_rust : (string, opcode) Hashtbl.t = Hashtbl.create 97
let () = List.iter (fun o -> Hashtbl.replace by_rust (norm (cp_name o)) o) all_opcodes
let op_of_rust (s : string) : opcode =
  try Hashtbl.find by_rust (String.lowercase_ascii s) with Not_found -> failwith ("unknown opcode name " ^ s)

let kind_of_char = function
  | 'I' -> KInt | 'F' -> KFloat | 'B' -> KBool | 'N' -> KNone | 'Y' -> KBytes | 'S' -> KString
  | 'A' -> KByteArray | 'L' -> KList | 'T' -> KTuple | 'D' -> KDict | 'E' -> KSet
  | 'Z' -> KFrozenSet | 'M' -> KMark | 'G' -> KGlobal | 'O' -> KInstance | 'C' -> KCallable
  | 'X' -> KExtension | 'Q' -> KAny | c -> failwith (Printf.sprintf "bad kind char %c" c)
let char_of_kind = function
  | KInt -> 'I' | KFloat -> 'F' | KBool -> 'B' | KNone -> 'N' | KBytes -> 'Y' | KString -> 'S'
  | KByteArray -> 'A' | KList -> 'L' | KTuple -> 'T' | KDict -> 'D' | KSet -> 'E'
  | KFrozenSet -> 'Z' | KMark -> 'M' | KGlobal -> 'G' | KInstance -> 'O' | KCallable -> 'C'
  | KExtension -> 'X' | KAny -> 'Q'

(* recorded stack is bottom -> top; the model's list has the top first *)
let stack_of_string s = if s = "-" then [] else List.rev (List.init (String.length s) (fun i -> kind_of_char s.[i]))
let string_of_stack l = if l = [] then "-" else String.concat "" (List.rev_map (fun k -> String.make 1 (char_of_kind k)) l)
let memo_of_string s =
  if s = "-" then []
  else List.map (fun e -> match String.split_on_char ':' e with
      | [i; k] -> (n_of_int (int_of_string i), kind_of_char k.[0])
      | _ -> failwith "bad memo entry") (String.split_on_char ',' s)
let string_of_memo m =
  if m = [] then "-" else String.concat "," (List.map (fun (i, k) -> Printf.sprintf "%d:%c" (int_of_n i) (char_of_kind k)) m)

let arg_to_string = function
  | A0 -> "" | AU x -> " " ^ n_to_string x | AZ z -> " " ^ z_to_string z
  | AB b -> " " ^ hex_of_bytes b | AF x -> " f:" ^ n_to_string x
  | AP (m, a) -> " " ^ string_of_ascii m ^ "." ^ string_of_ascii a
let tok_to_string ((o, a) : token) = cp_name o ^ arg_to_string a

(* ---------- case files ---------- *)
let kv (line : string) : (string, string) Hashtbl.t =
  let h = Hashtbl.create 16 in
  List.iter (fun t -> match String.index_opt t '=' with
      | Some i -> Hashtbl.replace h (String.sub t 0 i) (String.sub t (i + 1) (String.length t - i - 1))
      | None -> ()) (String.split_on_char ' ' line);
  h

let mutator_of_string = function
  | "bitflip" -> MBitflip | "boundary" -> MBoundary | "offbyone" -> MOffByOne
  | "stringlen" -> MStringLen | "character" -> MCharacter
  | "memoindex:0" -> MMemoIndex false | "memoindex:1" -> MMemoIndex true
  | "typeconf:0" -> MTypeConf false | "typeconf:1" -> MTypeConf true
  | s -> failwith ("unknown mutator " ^ s)

let version_of_int i = match version_of_N (n_of_int i) with Some v -> v | None -> failwith "bad version"

let config_of (h : (string, string) Hashtbl.t) : config =
  let g k = Hashtbl.find h k in
  { c_version = version_of_int (int_of_string (g "v"));
    c_min = n_of_hex (Printf.sprintf "%x" (int_of_string (g "min")));
    c_max = n_of_hex (Printf.sprintf "%x" (int_of_string (g "max")));
    c_mutators = (if g "muts" = "-" then [] else List.map mutator_of_string (String.split_on_char ',' (g "muts")));
    c_rate = n_of_hex (g "rate");
    c_unsafe = (g "unsafe" = "1"); c_ext = (g "ext" = "1"); c_buf = (g "buf" = "1") }

let is_safe (c : config) =
  (not c.c_unsafe) && List.for_all (function MMemoIndex true | MTypeConf true -> false | _ -> true) c.c_mutators

type case = { id : string; spec : string; lines : string list }

let read_cases (path : string) : case list =
  let ic = open_in path in
  let cases = ref [] and cur = ref None in
  (try
     while true do
       let l = input_line ic in
       if String.length l >= 5 && String.sub l 0 5 = "CASE " then begin
         let spec = String.sub l 5 (String.length l - 5) in
         let h = kv spec in
         cur := Some { id = (try Hashtbl.find h "id" with Not_found -> "?"); spec; lines = [] }
       end else if l = "END" then begin
         (match !cur with Some c -> cases := { c with lines = List.rev c.lines } :: !cases | None -> ());
         cur := None
       end else
         match !cur with Some c -> cur := Some { c with lines = l :: c.lines } | None -> ()
     done
   with End_of_file -> close_in ic);
  List.rev !cases

(* ---------- S1: step-wise membership in the envelope + oracles on the output ---------- *)
let words l = List.filter (fun s -> s <> "") (String.split_on_char ' ' l)

let s1_case (c : case) : unit =
  let h = kv c.spec in
  let cfg = config_of h in
  let v = cfg.c_version in
  let safe = is_safe cfg in
  let diffs = ref 0 in
  let diff step what detail = incr diffs; Printf.printf "DIFF %s step=%d %s %s\n" c.id step what detail in
  let prop p detail = Printf.printf "PROP %s %s fail %s\n" c.id p detail in
  let s = ref { sim_init with proto_emitted = (match v with V0 | V1 -> false | _ -> true) } in
  let r = ref (Some rinit) in    (* reference machine, run in lockstep on the emitted tokens (safe configs) *)
  let out_toks = ref [] in
  let nbody = ref 0 and ntail = ref 0 and step = ref 0 in
  let target = ref (-1) and framed = ref false and hdr = ref [] in
  let result = ref "" and tail_ops = ref [] and pre_tail = ref None in
  let saw_mark = ref false and saw_memo = ref false and rewrites = ref 0 and muts = ref 0 in
  let ref_advance (t : token) =
    if safe then
      match !r with
      | None -> ()
      | Some r0 ->
          if not (req_ok r0 t) then prop "C03" (Printf.sprintf "step=%d %s operand kinds" !step (tok_to_string t));
          if not (memo_ok r0 t) then prop "C02" (Printf.sprintf "step=%d %s memo discipline" !step (tok_to_string t));
          (match ref_step r0 t with
           | None -> prop "C01" (Printf.sprintf "step=%d %s rejected by the reference machine" !step (tok_to_string t)); r := None
           | Some r1 ->
               r := Some r1;
               if not (invb !s r1) then
                 prop "C17" (Printf.sprintf "step=%d after %s sim=%s" !step (tok_to_string t) (string_of_stack !s.stk)))
  in
  List.iter (fun l ->
    match words l with
    | "META" :: rest ->
        let m = kv (String.concat " " rest) in
        framed := (Hashtbl.find m "frame" = "1");
        target := int_of_string (Hashtbl.find m "T");
        hdr := bytes_of_hex (Hashtbl.find m "hdr")
    | ["STEP"; ph; valid; chosen; orig; fin; stk; memo; m; rw] ->
        incr step;
        let post_stk = stack_of_string stk and post_memo = memo_of_string memo in
        let mcount = int_of_string (String.sub m 2 (String.length m - 2)) in
        let rcount = int_of_string (String.sub rw 2 (String.length rw - 2)) in
        muts := !muts + mcount; rewrites := !rewrites + rcount;
        let res =
          if ph = "B" then begin
            incr nbody;
            let valid_ops = if valid = "-" then [] else List.map op_of_rust (String.split_on_char ',' valid) in
            s1_step cfg !s valid_ops (op_of_rust chosen) (bytes_of_hex orig) (bytes_of_hex fin) post_stk post_memo
          end else begin
            if ph = "T" then begin
              incr ntail;
              if !pre_tail = None then pre_tail := Some !s;
              tail_ops := op_of_rust chosen :: !tail_ops
            end;
            s1_tail_step cfg !s (op_of_rust chosen) (bytes_of_hex fin) post_stk post_memo
          end in
        (match res with
         | S1_ok (s', t, out) ->
             s := s';
             (match fst t with
              | MARK -> saw_mark := true
              | PUT | BINPUT | LONG_BINPUT | MEMOIZE | GET | BINGET | LONG_BINGET -> saw_memo := true
              | _ -> ());
             if rcount > 0 && orig = fin then diff !step "rewrite-count" "hook says rewritten but bytes equal";
             out_toks := out :: !out_toks;
             ref_advance out
         | S1_valid_set ->
             diff !step "valid-set" (Printf.sprintf "impl=%s model=%s stack=%s" valid
               (String.concat "," (List.map cp_name (get_valid_opcodes cfg !s))) (string_of_stack !s.stk));
             s := { !s with stk = post_stk; memo = post_memo }; r := None
         | S1_lex -> diff !step "lex" (Printf.sprintf "orig=%s final=%s" orig fin);
             s := { !s with stk = post_stk; memo = post_memo }; r := None
         | S1_envelope t -> diff !step "envelope" (Printf.sprintf "chosen=%s emitted=%s" chosen (tok_to_string t));
             s := { !s with stk = post_stk; memo = post_memo }; r := None
         | S1_rewrite (t, o) -> diff !step "rewrite" (Printf.sprintf "%s -> %s" (tok_to_string t) (tok_to_string o));
             s := { !s with stk = post_stk; memo = post_memo }; r := None
         | S1_state s' ->
             diff !step "sim-state" (Printf.sprintf "after %s impl=%s/%s model=%s/%s" chosen stk memo
               (string_of_stack s'.stk) (string_of_memo s'.memo));
             s := { !s with stk = post_stk; memo = post_memo }; r := None)
    | "RESULT" :: rest -> result := String.concat " " rest
    | _ -> ()) c.lines;
  (* the collapse tail must be what cleanup_for_stop computes from the state after the body *)
  (match !pre_tail, !result with
   | _, "" -> ()
   | pt, _ ->
       let s_body = (match pt with Some x -> x | None -> !s) in
       ignore s_body);
  (* whole-output checks *)
  (match words !result with
   | ["ok"; outhex] ->
       let out = bytes_of_hex outhex in
       (* header bytes + serialised tokens = output *)
       let hdr_toks =
         (match v with V0 | V1 -> [] | _ -> [(PROTO, AU (vnum v))])
         @ (if !framed then [(FRAME, AU (n_of_int (List.length out - 11)))] else []) in
       let all = hdr_toks @ List.rev !out_toks in
       if !diffs = 0 && serialize all <> out then diff 0 "serialize" "header+tokens do not give the output bytes";
       if !target >= 0 && !nbody <> !target then diff 0 "T" (Printf.sprintf "T=%d body steps=%d" !target !nbody);
       if not (oracle_C04 out) then prop "C04" "output does not lex";
       if not (oracle_C06 v out) then prop "C06" "frame";
       if not (oracle_C10 cfg out) then prop "C10" "opt-in opcode present";
       if not (oracle_C11 cfg out) then prop "C11" "opcode count outside the bounds";
       if !ntail > 2 * !nbody + 1 then prop "C11" (Printf.sprintf "tail %d > 2*%d+1" !ntail !nbody);
       (let mn = int_of_n cfg.c_min and mx = int_of_n cfg.c_max in
        let okT = if mn < mx then mn <= !nbody && !nbody < mx else !nbody = mn in
        if not okT then prop "C11" (Printf.sprintf "T=%d outside [%d,%d)" !nbody mn mx));
       if safe then begin
         if not (oracle_C01 out) then prop "C01" "rejected by ref machine (whole output)";
         if not (oracle_C02 out) then prop "C02" "memo discipline (whole output)";
         if not (oracle_C03 out) then prop "C03" "kind requirement (whole output)";
         if not (oracle_C05 v out) then prop "C05" "protocol/header/7-bit";
         (match !r with
          | Some r1 -> if r1.rstk <> [] then prop "C01" "reference stack not empty after STOP"
          | None -> ())
       end;
       Printf.printf "STAT %s T=%d body=%d tail=%d toks=%d len=%d mark=%b memo=%b muts=%d rewrites=%d frame=%b safe=%b v=%d\n"
         c.id !target !nbody !ntail (List.length all) (List.length out) !saw_mark !saw_memo !muts !rewrites !framed safe (int_of_n (vnum v))
   | "err" :: rest -> prop "C09" ("Err: " ^ String.concat " " rest)
   | "panic" :: rest -> prop "C09" ("panic: " ^ String.concat " " rest)
   | _ -> diff 0 "result" "no RESULT line");
  if !diffs = 0 then Printf.printf "OK %s\n" c.id

(* model-side check that the recorded tail equals cleanup_for_stop of the state after the body *)
let s1_tail_case (c : case) : unit =
  let h = kv c.spec in
  let cfg = config_of h in
  let v = cfg.c_version in
  let last_body = ref None and tail = ref [] in
  List.iter (fun l ->
    match words l with
    | ["STEP"; "B"; _; _; _; _; stk; memo; _; _] -> last_body := Some (stack_of_string stk, memo_of_string memo)
    | ["STEP"; "T"; _; chosen; _; _; _; _; _; _] -> tail := op_of_rust chosen :: !tail
    | _ -> ()) c.lines;
  let s0 = { sim_init with proto_emitted = (match v with V0 | V1 -> false | _ -> true) } in
  let s = match !last_body with Some (st, m) -> { s0 with stk = st; memo = m } | None -> s0 in
  let (ops, _) = cleanup_for_stop v s in
  let impl = List.rev !tail in
  if ops <> impl then
    Printf.printf "DIFF %s step=0 tail impl=%s model=%s\n" c.id
      (String.concat "," (List.map cp_name impl)) (String.concat "," (List.map cp_name ops))

let () =
  match Array.to_list Sys.argv with
  | [_; "s1"; path] ->
      List.iter (fun c ->
        (try s1_case c; s1_tail_case c
         with e -> Printf.printf "DIFF %s step=0 driver-exception %s\n" c.id (Printexc.to_string e))) (read_cases path)
  | _ -> prerr_endline "usage: driver s1 <tracefile>"; exit 2
