(* Driver for the extracted Coq model: reads the harness's trace files, runs the model's
   executable definitions on the same cases and prints one verdict per line.
   Unverified glue: parsing, hex <-> N conversion, printing. *)
open Model

(* ---------- conversions ---------- *)
let rec pos_of_int (i : int) : positive =
  if i = 1 then XH else if i land 1 = 0 then XO (pos_of_int (i lsr 1)) else XI (pos_of_int (i lsr 1))
let n_of_int (i : int) : n = if i = 0 then N0 else Npos (pos_of_int i)
let rec int_of_pos = function XH -> 1 | XO p -> 2 * int_of_pos p | XI p -> 2 * int_of_pos p + 1
let int_of_n = function N0 -> 0 | Npos p -> int_of_pos p
let rec nat_of_int i = if i = 0 then O else S (nat_of_int (i - 1))
let rec int_of_nat = function O -> 0 | S k -> 1 + int_of_nat k

(* arbitrary-size N from a hex string (most significant digit first) *)
let n_of_hex (s : string) : n =
  let bits = ref [] in
  String.iter (fun c ->
    let d = int_of_string ("0x" ^ String.make 1 c) in
    bits := !bits @ [d land 8 <> 0; d land 4 <> 0; d land 2 <> 0; d land 1 <> 0]) s;
  (* msb first -> build positive *)
  let rec strip = function false :: r -> strip r | l -> l in
  match strip !bits with
  | [] -> N0
  | _ :: rest -> Npos (List.fold_left (fun p b -> if b then XI p else XO p) XH rest)

let rec z_to_string (z : z) : string =
  match z with Z0 -> "0" | Zpos p -> n_to_string (Npos p) | Zneg p -> "-" ^ n_to_string (Npos p)
and n_to_string (x : n) : string =
  (* decimal via repeated division is overkill here; values we print are small or shown in hex *)
  match x with
  | N0 -> "0"
  | Npos p ->
      let rec bits p acc = match p with XH -> true :: acc | XO q -> bits q (false :: acc) | XI q -> bits q (true :: acc) in
      let bl = bits p [] in
      if List.length bl <= 60 then string_of_int (int_of_pos p)
      else "0b" ^ String.concat "" (List.map (fun b -> if b then "1" else "0") bl)

let bytes_of_hex (s : string) : n list =
  if s = "-" then []
  else List.init (String.length s / 2) (fun i -> n_of_int (int_of_string ("0x" ^ String.sub s (2 * i) 2)))

let hex_of_bytes (l : n list) : string =
  if l = [] then "-" else String.concat "" (List.map (fun b -> Printf.sprintf "%02x" (int_of_n b)) l)

(* ---------- names ---------- *)
let string_of_ascii (l : n list) = String.concat "" (List.map (fun b -> String.make 1 (Char.chr (int_of_n b))) l)
let cp_name (o : opcode) = string_of_ascii (op_name o)
let norm s = String.lowercase_ascii (String.concat "" (String.split_on_char '_' s))
let by_rust : (string, opcode) Hashtbl.t = Hashtbl.create 97
let () = List.iter (fun o -> Hashtbl.replace by_rust (norm (cp_name o)) o) all_opcodes
let op_of_rust (s : string) : opcode =
  try Hashtbl.find by_rust (norm s) with Not_found -> failwith ("unknown opcode name " ^ s)

let kind_of_char = function
  | 'I' -> KInt | 'F' -> KFloat | 'B' -> KBool | 'N' -> KNone | 'Y' -> KBytes | 'S' -> KString
  | 'A' -> KByteArray | 'L' -> KList | 'T' -> KTuple | 'D' -> KDict | 'E' -> KSet
  | 'Z' -> KFrozenSet | 'M' -> KMark | 'G' -> KGlobal | 'O' -> KInstance | 'C' -> KCallable
  | 'X' -> KExtension | 'Q' -> KAny | c -> failwith (Printf.sprintf "bad kind char %c" c)
let char_of_kind = function
  | KInt -> 'I' | KFloat -> 'F' | KBool -> 'B' | KNone -> 'N' | KBytes -> 'Y' | KString -> 'S'
  | KByteArray -> 'A' | KList -> 'L' | KTuple -> 'T' | KDict -> 'D' | KSet -> 'E'
  | KFrozenSet -> 'Z' | KMark -> 'M' | KGlobal -> 'G' | KInstance -> 'O' | KCallable -> 'C'
  | KExtension -> 'X' | KAny -> 'Q'

(* recorded stack is bottom -> top; the model's list has the top first *)
let stack_of_string s = if s = "-" then [] else List.rev (List.init (String.length s) (fun i -> kind_of_char s.[i]))
let string_of_stack l = if l = [] then "-" else String.concat "" (List.rev_map (fun k -> String.make 1 (char_of_kind k)) l)
let memo_of_string s =
  if s = "-" then []
  else List.map (fun e -> match String.split_on_char ':' e with
      | [i; k] -> (n_of_int (int_of_string i), kind_of_char k.[0])
      | _ -> failwith "bad memo entry") (String.split_on_char ',' s)
let string_of_memo m =
  if m = [] then "-" else String.concat "," (List.map (fun (i, k) -> Printf.sprintf "%d:%c" (int_of_n i) (char_of_kind k)) m)

let arg_to_string = function
  | A0 -> "" | AU x -> " " ^ n_to_string x | AZ z -> " " ^ z_to_string z
  | AB b -> " " ^ hex_of_bytes b | AF x -> " f:" ^ n_to_string x
  | AP (m, a) -> " " ^ string_of_ascii m ^ "." ^ string_of_ascii a
let tok_to_string ((o, a) : token) = cp_name o ^ arg_to_string a

(* ---------- case files ---------- *)
let kv (line : string) : (string, string) Hashtbl.t =
  let h = Hashtbl.create 16 in
  List.iter (fun t -> match String.index_opt t '=' with
      | Some i -> Hashtbl.replace h (String.sub t 0 i) (String.sub t (i + 1) (String.length t - i - 1))
      | None -> ()) (String.split_on_char ' ' line);
  h

let mutator_of_string = function
  | "bitflip" -> MBitflip | "boundary" -> MBoundary | "offbyone" -> MOffByOne
  | "stringlen" -> MStringLen | "character" -> MCharacter
  | "memoindex:0" -> MMemoIndex false | "memoindex:1" -> MMemoIndex true
  | "typeconf:0" -> MTypeConf false | "typeconf:1" -> MTypeConf true
  | s -> failwith ("unknown mutator " ^ s)

let version_of_int i = match version_of_N (n_of_int i) with Some v -> v | None -> failwith "bad version"

let config_of (h : (string, string) Hashtbl.t) : config =
  let g k = Hashtbl.find h k in
  { c_version = version_of_int (int_of_string (g "v"));
    c_min = n_of_hex (Printf.sprintf "%x" (int_of_string (g "min")));
    c_max = n_of_hex (Printf.sprintf "%x" (int_of_string (g "max")));
    (* `sleep:<ms>` is the harness's no-op mutator of the slow-motion runs: it draws nothing and changes nothing *)
    c_mutators = (if g "muts" = "-" then []
                  else List.map mutator_of_string
                         (List.filter (fun n -> not (String.length n > 6 && String.sub n 0 6 = "sleep:")) (String.split_on_char ',' (g "muts"))));
    c_rate = n_of_hex (g "rate");
    c_unsafe = (g "unsafe" = "1"); c_ext = (g "ext" = "1"); c_buf = (g "buf" = "1") }

let is_safe (c : config) =
  (not c.c_unsafe) && List.for_all (function MMemoIndex true | MTypeConf true -> false | _ -> true) c.c_mutators

type case = { id : string; spec : string; lines : string list }

let read_cases (path : string) : case list =
  let ic = open_in path in
  let cases = ref [] and cur = ref None in
  (try
     while true do
       let l = input_line ic in
       if String.length l >= 5 && String.sub l 0 5 = "CASE " then begin
         let spec = String.sub l 5 (String.length l - 5) in
         let h = kv spec in
         cur := Some { id = (try Hashtbl.find h "id" with Not_found -> "?"); spec; lines = [] }
       end else if l = "END" then begin
         (match !cur with Some c -> cases := { c with lines = List.rev c.lines } :: !cases | None -> ());
         cur := None
       end else
         match !cur with Some c -> cur := Some { c with lines = l :: c.lines } | None -> ()
     done
   with End_of_file -> close_in ic);
  List.rev !cases

(* the property statements that speak about one output alone (extracted oracles), on an implementation output *)
let output_props (id : string) (cfg : config) (safe : bool) (out : n list) (tag : string) : unit =
  let v = cfg.c_version in
  let prop p detail = Printf.printf "PROP %s %s fail %s%s\n" id p detail tag in
  if not (oracle_C04 out) then prop "C04" "output does not lex";
  if not (oracle_C06 v out) then prop "C06" "frame";
  if not (oracle_C10 cfg out) then prop "C10" "opt-in opcode present";
  if not (oracle_C11 cfg out) then prop "C11" "opcode count outside the bounds";
  (* C11: "the only additional opcodes are the PROTO/FRAME header, the collapse tail and the final STOP" - a PROTO or FRAME
     anywhere behind the header is an additional opcode of neither kind (no guard admits them, no tail contains them:
     C05_tokens / C06_tokens for the model) *)
  (match lex_all out with
   | Some ts ->
       let rec behind_header i = function
         | [] -> ()
         | (o, _) :: rest ->
             if (o = PROTO && i > 0) || (o = FRAME && i > 1) then
               prop "C11" (Printf.sprintf "a %s opcode at token %d, behind the header: an additional opcode that is neither a chosen body opcode, nor the collapse tail, nor STOP" (if o = PROTO then "PROTO" else "FRAME") i)
             else behind_header (i + 1) rest in
       behind_header 0 ts
   | None -> ());
  if safe then begin
    if not (oracle_C01 out) then prop "C01" "rejected by ref machine (whole output)";
    if not (oracle_C02 out) then prop "C02" "memo discipline (whole output)";
    if not (oracle_C03 out) then prop "C03" "kind requirement (whole output)";
    if not (oracle_C05 v out) then prop "C05" "protocol/header/7-bit"
  end

(* ---------- S1: step-wise membership in the envelope + oracles on the output ---------- *)
let words l = List.filter (fun s -> s <> "") (String.split_on_char ' ' l)

let s1_case (c : case) : unit =
  let h = kv c.spec in
  let cfg = config_of h in
  let v = cfg.c_version in
  let safe = is_safe cfg in
  let diffs = ref 0 in
  let diff step what detail = incr diffs; Printf.printf "DIFF %s step=%d %s %s\n" c.id step what detail in
  let prop p detail = Printf.printf "PROP %s %s fail %s\n" c.id p detail in
  let s = ref { sim_init with proto_emitted = (match v with V0 | V1 -> false | _ -> true) } in
  let r = ref (Some rinit) in    (* reference machine, run in lockstep on the emitted tokens (safe configs) *)
  let out_toks = ref [] in
  let nbody = ref 0 and ntail = ref 0 and step = ref 0 in
  let target = ref (-1) and framed = ref false and hdr = ref [] in
  let result = ref "" and tail_ops = ref [] and pre_tail = ref None in
  let saw_mark = ref false and saw_memo = ref false and rewrites = ref 0 and muts = ref 0 in
  (* the reference machine runs on the tokens decoded from the emitted bytes, independently of
     the model; C17 compares it with the IMPLEMENTATION's recorded simulated state *)
  let ref_advance (t : token) (impl_stk : kind list) (impl_memo : (n * kind) list) =
    if safe then
      match !r with
      | None -> ()
      | Some r0 ->
          if not (req_ok r0 t) then prop "C03" (Printf.sprintf "step=%d %s operand kinds" !step (tok_to_string t));
          if not (memo_ok r0 t) then prop "C02" (Printf.sprintf "step=%d %s memo discipline" !step (tok_to_string t));
          (match ref_step r0 t with
           | None ->
               prop "C01" (Printf.sprintf "step=%d %s rejected by the reference machine" !step (tok_to_string t));
               prop "C17" (Printf.sprintf "step=%d the reference machine cannot execute the emitted %s: the simulated state %s mirrors no reference state"
                             !step (tok_to_string t) (string_of_stack impl_stk));
               r := None
           | Some r1 ->
               r := Some r1;
               let sorted_rm = List.sort (fun (a, _) (b, _) -> compare (int_of_n a) (int_of_n b)) r1.rmemo in
               let impl = { !s with stk = impl_stk; memo = impl_memo } in
               if not (invb impl { r1 with rmemo = sorted_rm }) then
                 prop "C17" (Printf.sprintf "step=%d after %s sim=%s/%s" !step (tok_to_string t)
                               (string_of_stack impl_stk) (string_of_memo impl_memo)))
  in
  let resync fin post_stk post_memo =
    s := { !s with stk = post_stk; memo = post_memo };
    (match lex_exact (bytes_of_hex fin) with
     | Some out -> out_toks := out :: !out_toks; ref_advance out post_stk post_memo
     | None -> r := None) in
  List.iter (fun l ->
    match words l with
    | "META" :: rest ->
        let m = kv (String.concat " " rest) in
        framed := (Hashtbl.find m "frame" = "1");
        target := int_of_string (Hashtbl.find m "T");
        hdr := bytes_of_hex (Hashtbl.find m "hdr")
    | ["STEP"; ph; valid; chosen; orig; fin; stk; memo; m; rw] ->
        incr step;
        let post_stk = stack_of_string stk and post_memo = memo_of_string memo in
        let mcount = int_of_string (String.sub m 2 (String.length m - 2)) in
        let rcount = int_of_string (String.sub rw 2 (String.length rw - 2)) in
        muts := !muts + mcount; rewrites := !rewrites + rcount;
        let res =
          if ph = "B" then begin
            incr nbody;
            if fin = "-" then prop "C11" (Printf.sprintf "body step %d (chosen %s) contributed no opcode to the output" !nbody chosen);
            let valid_ops = if valid = "-" then [] else List.map op_of_rust (String.split_on_char ',' valid) in
            s1_step cfg !s valid_ops (op_of_rust chosen) (bytes_of_hex orig) (bytes_of_hex fin) post_stk post_memo
          end else begin
            if ph = "T" then begin
              incr ntail;
              if !pre_tail = None then pre_tail := Some !s;
              tail_ops := op_of_rust chosen :: !tail_ops
            end;
            s1_tail_step cfg !s (op_of_rust chosen) (bytes_of_hex fin) post_stk post_memo
          end in
        (match res with
         | S1_ok (s', t, out) ->
             s := s';
             (match fst t with
              | MARK -> saw_mark := true
              | PUT | BINPUT | LONG_BINPUT | MEMOIZE | GET | BINGET | LONG_BINGET -> saw_memo := true
              | _ -> ());
             if rcount > 0 && orig = fin then diff !step "rewrite-count" "hook says rewritten but bytes equal";
             out_toks := out :: !out_toks;
             ref_advance out post_stk post_memo
         | S1_valid_set ->
             diff !step "valid-set" (Printf.sprintf "impl=%s model=%s stack=%s" valid
               (String.concat "," (List.map cp_name (get_valid_opcodes cfg !s))) (string_of_stack !s.stk));
             resync fin post_stk post_memo
         | S1_lex -> diff !step "lex" (Printf.sprintf "orig=%s final=%s" orig fin);
             s := { !s with stk = post_stk; memo = post_memo };
             (* not the model's encoding of any token - but when the bytes still ARE one well-formed opcode the reference
                machine goes on judging what they mean (C01 C02 C03 C17 are about the bytes, whatever encoder wrote them) *)
             (match lex_one (bytes_of_hex fin) with
              | Some (t, []) -> out_toks := t :: !out_toks; ref_advance t post_stk post_memo
              | _ when fin = "-" ->
                  (* nothing stands in the output for this step: the reference machine does not move, so the simulated
                     state must still mirror the SAME reference state (C17) *)
                  (match !r with
                   | Some r0 when safe ->
                       let sorted_rm = List.sort (fun (a, _) (b, _) -> compare (int_of_n a) (int_of_n b)) r0.rmemo in
                       if not (invb { !s with stk = post_stk; memo = post_memo } { r0 with rmemo = sorted_rm }) then
                         prop "C17" (Printf.sprintf "step=%d (chosen %s) left no bytes in the output but the simulated state became %s/%s"
                                       !step chosen (string_of_stack post_stk) (string_of_memo post_memo))
                   | _ -> ())
              | _ -> r := None)
         | S1_envelope t -> diff !step "envelope" (Printf.sprintf "chosen=%s emitted=%s" chosen (tok_to_string t));
             resync fin post_stk post_memo
         | S1_rewrite (t, o) -> diff !step "rewrite" (Printf.sprintf "%s -> %s" (tok_to_string t) (tok_to_string o));
             resync fin post_stk post_memo
         | S1_state s' ->
             diff !step "sim-state" (Printf.sprintf "after %s impl=%s/%s model=%s/%s" chosen stk memo
               (string_of_stack s'.stk) (string_of_memo s'.memo));
             resync fin post_stk post_memo)
    | "RESULT" :: rest -> result := String.concat " " rest
    | _ -> ()) c.lines;
  (* the collapse tail must be what cleanup_for_stop computes from the state after the body *)
  (match !pre_tail, !result with
   | _, "" -> ()
   | pt, _ ->
       let s_body = (match pt with Some x -> x | None -> !s) in
       ignore s_body);
  (* whole-output checks *)
  (match words !result with
   | ["ok"; outhex] ->
       let out = bytes_of_hex outhex in
       (* header bytes + serialised tokens = output *)
       let hdr_toks =
         (match v with V0 | V1 -> [] | _ -> [(PROTO, AU (vnum v))])
         @ (if !framed then [(FRAME, AU (n_of_int (List.length out - 11)))] else []) in
       let all = hdr_toks @ List.rev !out_toks in
       if !diffs = 0 && serialize all <> out then diff 0 "serialize" "header+tokens do not give the output bytes";
       if !target >= 0 && !nbody <> !target then diff 0 "T" (Printf.sprintf "T=%d body steps=%d" !target !nbody);
       output_props c.id cfg safe out "";
       if !ntail > 2 * !nbody + 1 then prop "C11" (Printf.sprintf "tail %d > 2*%d+1" !ntail !nbody);
       (let mn = int_of_n cfg.c_min and mx = int_of_n cfg.c_max in
        let okT = if mn < mx then mn <= !nbody && !nbody < mx else !nbody = mn in
        if not okT then prop "C11" (Printf.sprintf "T=%d outside [%d,%d)" !nbody mn mx));
       if safe then begin
         (match !r with
          | Some r1 -> if r1.rstk <> [] then prop "C01" "reference stack not empty after STOP"
          | None -> ())
       end;
       Printf.printf "STAT %s T=%d body=%d tail=%d toks=%d len=%d mark=%b memo=%b muts=%d rewrites=%d frame=%b safe=%b v=%d\n"
         c.id !target !nbody !ntail (List.length all) (List.length out) !saw_mark !saw_memo !muts !rewrites !framed safe (int_of_n (vnum v))
   | "err" :: rest -> prop "C09" ("Err: " ^ String.concat " " rest)
   | "panic" :: rest -> prop "C09" ("panic: " ^ String.concat " " rest)
   | "hang" :: rest -> prop "C09" ("the generation call does not terminate: " ^ String.concat " " rest)
   | "skipped" :: _ -> ()
   | _ -> diff 0 "result" "no RESULT line");
  if !diffs = 0 then Printf.printf "OK %s\n" c.id

(* model-side check that the recorded tail equals cleanup_for_stop of the state after the body *)
let s1_tail_case (c : case) : unit =
  let h = kv c.spec in
  let cfg = config_of h in
  let v = cfg.c_version in
  let last_body = ref None and tail = ref [] in
  List.iter (fun l ->
    match words l with
    | ["STEP"; "B"; _; _; _; _; stk; memo; _; _] -> last_body := Some (stack_of_string stk, memo_of_string memo)
    | ["STEP"; "T"; _; chosen; _; _; _; _; _; _] -> tail := op_of_rust chosen :: !tail
    | _ -> ()) c.lines;
  let s0 = { sim_init with proto_emitted = (match v with V0 | V1 -> false | _ -> true) } in
  let s = match !last_body with Some (st, m) -> { s0 with stk = st; memo = m } | None -> s0 in
  let (ops, _) = cleanup_for_stop v s in
  let impl = List.rev !tail in
  if ops <> impl then
    Printf.printf "DIFF %s step=0 tail impl=%s model=%s\n" c.id
      (String.concat "," (List.map cp_name impl)) (String.concat "," (List.map cp_name ops))


(* ---------- S2: bit-exact comparison with the level-F model ---------- *)
let rec pos_to_int64 (p : positive) : int64 =
  match p with XH -> 1L | XO q -> Int64.shift_left (pos_to_int64 q) 1 | XI q -> Int64.logor (Int64.shift_left (pos_to_int64 q) 1) 1L
let n_to_int64 (x : n) : int64 = match x with N0 -> 0L | Npos p -> pos_to_int64 p
let n_of_int64 (x : int64) : n = n_of_hex (Printf.sprintf "%Lx" x)
let bytes_of_string (s : string) : n list = List.init (String.length s) (fun i -> n_of_int (Char.code s.[i]))

let fmt_override : (int64, string) Hashtbl.t = Hashtbl.create 16
let fmt_model (bits : n) : n list =
  let b = n_to_int64 bits in
  bytes_of_string (match Hashtbl.find_opt fmt_override b with Some s -> s | None -> Glue.fmt_f64_bits b)

let stdlib_table : n list list Lazy.t = lazy (
  let repo = try Sys.getenv "VERIF_REPO" with Not_found -> "/repo" in
  let ic = open_in_bin (Filename.concat repo "data/stdlib_complete.txt") in
  let n = in_channel_length ic in
  let content = really_input_string ic n in
  close_in ic;
  (* str::lines(): split on \n, a trailing \r is stripped, no final empty line *)
  let ls = String.split_on_char '\n' content in
  let ls = match List.rev ls with "" :: r -> List.rev r | _ -> ls in
  List.map (fun l ->
    let l = if String.length l > 0 && l.[String.length l - 1] = '\r' then String.sub l 0 (String.length l - 1) else l in
    bytes_of_string l) ls)

let the_env () : env = { stdlib = Lazy.force stdlib_table; fmt_f64 = fmt_model }

let source_of (src : string) : source =
  if String.length src > 5 && String.sub src 0 5 = "seed:" then begin
    let seed = Int64.of_string ("0u" ^ String.sub src 5 (String.length src - 5)) in
    (* the model's own ChaCha8 (ChaCha.seeded_source: PCG32 key expansion + block function, extracted); the partial
       application computes the first blocks once *)
    seeded_source (n_of_int64 seed)
  end else SrcBytes (bytes_of_hex (String.sub src 6 (String.length src - 6)))

let rust_name (o : opcode) = cp_name o

type impl_step = { ph : string; valid : string; chosen : string; orig : string; fin : string; m : int; rw : int }

let parse_impl (c : case) =
  let meta = ref None and steps = ref [] and result = ref "" in
  List.iter (fun l ->
    match words l with
    | "META" :: rest -> let m = kv (String.concat " " rest) in
        meta := Some (Hashtbl.find m "frame" = "1", int_of_string (Hashtbl.find m "T"))
    | ["STEP"; ph; valid; chosen; orig; fin; _; _; m; rw] ->
        steps := { ph; valid; chosen; orig; fin;
                   m = int_of_string (String.sub m 2 (String.length m - 2));
                   rw = int_of_string (String.sub rw 2 (String.length rw - 2)) } :: !steps
    | "RESULT" :: rest -> result := String.concat " " rest
    | _ -> ()) c.lines;
  (!meta, List.rev !steps, !result)

let s2_compare (c : case) (report : bool) : bool =
  let h = kv c.spec in
  let cfg = config_of h in
  let (meta, steps, result) = parse_impl c in
  let diff what detail = if report then Printf.printf "DIFF %s step=0 s2-%s %s\n" c.id what detail in
  let model = generate_internal (the_env ()) (fun l -> l) cfg (source_of (Hashtbl.find h "src")) in
  match model, words result with
  | Panic w, ("panic" :: _) -> ignore w; true
  | _, ("hang" :: _ | "skipped" :: _) -> true      (* reported by S1 as a C09 violation; nothing to compare *)
  | Panic w, _ -> diff "panic" (Printf.sprintf "model panics (code %d), implementation: %s" (int_of_n w) result); false
  | Ok _, ("panic" :: _ | "err" :: _) -> diff "panic" ("implementation fails, model returns a pickle: " ^ result); false
  | Ok g, ["ok"; outhex] ->
      let ok = ref true in
      let d what detail = if !ok then diff what detail; ok := false in
      (match meta with
       | Some (fr, t) ->
           if fr <> g.g_framed then d "frame" (Printf.sprintf "impl=%b model=%b" fr g.g_framed);
           if t <> int_of_n g.g_target then d "T" (Printf.sprintf "impl=%d model=%d" t (int_of_n g.g_target))
       | None -> d "meta" "no META line");
      let body = List.filter (fun s -> s.ph = "B") steps and tail = List.filter (fun s -> s.ph = "T") steps in
      let rec cmp i (ms : ((opcode list * opcode) * emitted) list) (is : impl_step list) =
        match ms, is with
        | [], [] -> ()
        | ((valid, o), em) :: mr, st :: ir ->
            let v = String.concat "," (List.map rust_name valid) in
            let iv = String.concat "," (List.map (fun x -> cp_name (op_of_rust x)) (if st.valid = "-" then [] else String.split_on_char ',' st.valid)) in
            if v <> iv then d "valid-set" (Printf.sprintf "step=%d impl=%s model=%s" i iv v)
            else if cp_name (op_of_rust st.chosen) <> rust_name o then
              d "chosen" (Printf.sprintf "step=%d impl=%s model=%s" i st.chosen (rust_name o))
            else if hex_of_bytes em.e_orig <> st.orig then
              d "emitted" (Printf.sprintf "step=%d %s impl=%s model=%s" i st.chosen st.orig (hex_of_bytes em.e_orig))
            else if hex_of_bytes em.e_final <> st.fin then
              d "rewritten" (Printf.sprintf "step=%d %s impl=%s model=%s" i st.chosen st.fin (hex_of_bytes em.e_final))
            else if int_of_n em.e_muts <> st.m then
              d "mutations" (Printf.sprintf "step=%d %s impl=%d model=%d" i st.chosen st.m (int_of_n em.e_muts))
            else if (int_of_n em.e_rewrites > 0) <> (st.rw > 0) then
              d "rewrites" (Printf.sprintf "step=%d %s impl=%d model=%d" i st.chosen st.rw (int_of_n em.e_rewrites))
            else cmp (i + 1) mr ir
        | _, _ -> d "steps" (Printf.sprintf "impl has %d body steps, model %d" (List.length body) (List.length g.g_trace)) in
      cmp 1 g.g_trace body;
      let mt = String.concat "," (List.map rust_name g.g_tail) in
      let it = String.concat "," (List.map (fun s -> cp_name (op_of_rust s.chosen)) tail) in
      if mt <> it then d "tail" (Printf.sprintf "impl=%s model=%s" it mt);
      if hex_of_bytes g.g_out <> outhex then d "output" (Printf.sprintf "impl=%s model=%s" (String.sub outhex 0 (min 200 (String.length outhex))) (let m = hex_of_bytes g.g_out in String.sub m 0 (min 200 (String.length m))));
      !ok
  | _, _ -> diff "result" ("unparsable RESULT: " ^ result); false

(* Rust's float text is taken from the implementation when our OCaml formatter disagrees, provided
   it denotes the same f64 (glue issue, not a model issue): FLOAT steps give text, the bits are recovered *)
let learn_floats (c : case) =
  let (_, steps, _) = parse_impl c in
  List.iter (fun st ->
    if st.ph = "B" && String.length st.orig > 2 && String.sub st.orig 0 2 = "46" then begin
      let bs = bytes_of_hex st.orig in
      let txt = string_of_ascii (List.filteri (fun i _ -> i > 0 && i < List.length bs - 1) bs) in
      match float_of_string_opt txt with
      | Some f when not (Float.is_nan f) -> Hashtbl.replace fmt_override (Int64.bits_of_float f) txt
      | _ -> ()
    end) steps

let s2_case (c : case) : unit =
  Hashtbl.reset fmt_override;
  if s2_compare c false then Printf.printf "OK2 %s\n" c.id
  else begin
    learn_floats c;
    if s2_compare c true then Printf.printf "OK2 %s\nNOTE %s float-format-fallback\n" c.id c.id
  end


(* ---------- S3/S4: direct calls of the entropy adapters and the mutators ---------- *)
let hex_of_n (x : n) : string =
  match x with
  | N0 -> "0"
  | Npos p ->
      let rec bits p acc = match p with XH -> 1 :: acc | XO q -> bits q (0 :: acc) | XI q -> bits q (1 :: acc) in
      let bl = bits p [] in                                  (* msb first *)
      let pad = (4 - List.length bl mod 4) mod 4 in
      let bl = List.init pad (fun _ -> 0) @ bl in
      let buf = Buffer.create 16 in
      let rec go = function
        | a :: b :: c :: d :: r -> Buffer.add_string buf (Printf.sprintf "%x" (8 * a + 4 * b + 2 * c + d)); go r
        | _ -> () in
      go bl; Buffer.contents buf
let z_of_hex (w : int) (s : string) : z = to_signed (n_of_int w) (n_of_hex s)
let hex_of_z (w : int) (v : z) : string = hex_of_n (to_unsigned (n_of_int w) v)

let utf8_decode (bs : n list) : n list =
  let b = Array.of_list (List.map int_of_n bs) in
  let n = Array.length b in
  let out = ref [] and i = ref 0 in
  while !i < n do
    let c = b.(!i) in
    if c < 0x80 then (out := c :: !out; i := !i + 1)
    else if c < 0xE0 then (out := ((c land 0x1F) lsl 6) lor (b.(!i + 1) land 0x3F) :: !out; i := !i + 2)
    else if c < 0xF0 then (out := ((c land 0x0F) lsl 12) lor ((b.(!i + 1) land 0x3F) lsl 6) lor (b.(!i + 2) land 0x3F) :: !out; i := !i + 3)
    else (out := ((c land 0x07) lsl 18) lor ((b.(!i + 1) land 0x3F) lsl 12) lor ((b.(!i + 2) land 0x3F) lsl 6) lor (b.(!i + 3) land 0x3F) :: !out; i := !i + 4)
  done;
  List.rev_map n_of_int !out

let src_pos_string = function
  | SrcBytes l -> string_of_int (List.length l)
  | SrcWords (_, p) -> n_to_string p

let opt_str f = function Some x -> "some:" ^ f x | None -> "none"

(* returns (result string, new source) or raises Exit on a model panic *)
exception Model_panic of int
let unres = function Ok x -> x | Panic w -> raise (Model_panic (int_of_n w))

let s3_op (op : string) (rate : n) (src : source) : string * source =
  let a = Array.of_list (String.split_on_char ':' op) in
  let mut i = mutator_of_string (String.concat ":" (String.split_on_char '.' a.(i))) in
  match a.(0) with
  | "ci" -> let (v, s) = unres (choose_index (n_of_hex a.(1)) src) in (hex_of_n v, s)
  | "gr" -> let (v, s) = unres (gen_range (n_of_hex a.(1)) (n_of_hex a.(2)) src) in (hex_of_n v, s)
  | "u8" -> let (v, s) = gen_uint (nat_of_int 1) src in (hex_of_n v, s)
  | "u16" -> let (v, s) = gen_uint (nat_of_int 2) src in (hex_of_n v, s)
  | "u32" -> let (v, s) = gen_uint (nat_of_int 4) src in (hex_of_n v, s)
  | "i32" -> let (v, s) = gen_i32 src in (hex_of_z 32 v, s)
  | "i64" -> let (v, s) = gen_i64 src in (hex_of_z 64 v, s)
  | "f64" -> let (v, s) = gen_f64 src in (hex_of_n v, s)
  | "bool" -> let (v, s) = gen_bool src in ((if v then "1" else "0"), s)
  | "sm" -> let (v, s) = should_mutate rate src in ((if v then "1" else "0"), s)
  | "by" -> let (v, s) = gen_bytes (n_of_hex a.(1)) src in (hex_of_bytes v, s)
  | "ac" -> let (v, s) = unres (gen_ascii_char src) in (hex_of_n v, s)
  | "mi" -> let (v, s) = unres (mutate_int_one (mut 1) (z_of_hex 32 a.(2)) rate src) in (opt_str (hex_of_z 32) v, s)
  | "ml" -> let (v, s) = unres (mutate_long_one (mut 1) (z_of_hex 64 a.(2)) rate src) in (opt_str (hex_of_z 64) v, s)
  | "mf" -> let (v, s) = unres (mutate_float_one (mut 1) (n_of_hex a.(2)) rate src) in (opt_str hex_of_n v, s)
  | "ms" -> let (v, s) = unres (mutate_seq_one true (mut 1) (utf8_decode (bytes_of_hex a.(2))) rate src) in
      (opt_str (fun cps -> hex_of_bytes (utf8_encode cps)) v, s)
  | "mb" -> let (v, s) = unres (mutate_seq_one false (mut 1) (bytes_of_hex a.(2)) rate src) in (opt_str hex_of_bytes v, s)
  | "mm" -> let (v, s) = unres (mutate_memo_one (mut 1) (n_of_hex a.(2)) rate src) in (opt_str hex_of_n v, s)
  | "di" | "df" | "ds" | "db" | "dm" ->
      let muts = List.map (fun n -> mutator_of_string (String.concat ":" (String.split_on_char '.' n))) (String.split_on_char '+' a.(1)) in
      let c = { c_version = V2; c_min = N0; c_max = N0; c_mutators = muts; c_rate = rate; c_unsafe = false; c_ext = false; c_buf = false } in
      (match a.(0) with
       | "di" -> let ((v, s), _) = unres (mutate_int c (z_of_hex 32 a.(2)) rate src) in (hex_of_z 32 v, s)
       | "df" -> let ((v, s), _) = unres (mutate_float c (n_of_hex a.(2)) rate src) in (hex_of_n v, s)
       | "ds" -> let ((v, s), _) = unres (mutate_string c (utf8_decode (bytes_of_hex a.(2))) rate src) in ("v" ^ hex_of_bytes (utf8_encode v), s)
       | "db" -> let ((v, s), _) = unres (mutate_bytes c (bytes_of_hex a.(2)) rate src) in ("v" ^ hex_of_bytes v, s)
       | _ -> let ((v, s), _) = unres (mutate_memo_index c (n_of_hex a.(2)) rate src) in (hex_of_n v, s))
  | "pp" ->
      let delta = bytes_of_hex a.(2) and prefix = bytes_of_hex a.(3) in
      let ((cur, s), fired) = unres (post_one (mut 1) delta delta rate src) in
      ((if fired then "1:" else "0:") ^ hex_of_bytes (prefix @ cur), s)
  | _ -> failwith ("unknown op " ^ op)

(* the property statements themselves, evaluated on the IMPLEMENTATION's result of one direct call
   (extracted oracles ok_x, contract_x, applies_x): returns a list of (property, message) *)
let s3_oracle (op : string) (rate_hex : string) (impl : string) : (string * string) list =
  let a = Array.of_list (String.split_on_char ':' op) in
  let mut i = mutator_of_string (String.concat ":" (String.split_on_char '.' a.(i))) in
  let fails = ref [] in
  let fail p msg = fails := (p, msg) :: !fails in
  let rate_is_zero = (n_of_hex rate_hex = N0) || rate_hex = "8000000000000000" in
  let rate_is_one = rate_hex = "3ff0000000000000" in
  let some_of s = if String.length s > 5 && String.sub s 0 5 = "some:" then Some (String.sub s 5 (String.length s - 5)) else None in
  let is_panic = String.length impl >= 6 && String.sub impl 0 6 = "panic:" in
  let is_mut = String.length a.(0) = 2 && (a.(0).[0] = 'm' || a.(0).[0] = 'd' || a.(0) = "pp") in
  if is_panic then (fail (if is_mut then "C16" else "C18") ("panic: " ^ impl); !fails)
  else begin
    (match a.(0) with
     | "ci" -> if not (ok_choose_index (n_of_hex a.(1)) (n_of_hex impl)) then fail "C18" "choose_index result out of range"
     | "gr" -> if not (ok_gen_range (n_of_hex a.(1)) (n_of_hex a.(2)) (n_of_hex impl)) then fail "C18" "gen_range result out of range"
     | "ac" -> if not (ok_ascii (n_of_hex impl)) then fail "C18" "gen_ascii_char not printable ASCII"
     | "by" -> if not (ok_bytes (n_of_hex a.(1)) (bytes_of_hex impl)) then fail "C18" "gen_bytes has the wrong length"
     | "mi" | "ml" | "mf" | "ms" | "mb" | "mm" ->
         let m = mut 1 in
         let applicable = (match a.(0) with
           | "mi" | "ml" -> applies_int m | "mf" -> applies_float m
           | "ms" -> applies_seq m (utf8_decode (bytes_of_hex a.(2))) | "mb" -> applies_seq m (bytes_of_hex a.(2))
           | _ -> applies_memo m) in
         (match some_of impl with
          | Some r ->
              let ok = (match a.(0) with
                | "mi" -> contract_int (n_of_int 32) int_boundaries m (z_of_hex 32 a.(2)) (z_of_hex 32 r)
                | "ml" -> contract_int (n_of_int 64) long_boundaries m (z_of_hex 64 a.(2)) (z_of_hex 64 r)
                | "mf" -> contract_float m (n_of_hex r)
                | "ms" -> contract_seq true m (utf8_decode (bytes_of_hex a.(2))) (utf8_decode (bytes_of_hex r))
                | "mb" -> contract_seq false m (bytes_of_hex a.(2)) (bytes_of_hex r)
                | _ -> contract_memo m (n_of_hex a.(2)) (n_of_hex r)) in
              if not ok then fail "C16" (Printf.sprintf "%s(%s) = %s is outside the mutator's contract" a.(1) a.(2) r);
              if rate_is_zero then fail "C15" (Printf.sprintf "%s mutated %s to %s at rate 0" a.(1) a.(2) r)
          | None ->
              if rate_is_one && applicable then fail "C15" (Printf.sprintf "%s did not mutate %s at rate 1.0" a.(1) a.(2)))
     | "di" | "df" | "ds" | "db" | "dm" ->
         (* C15 on the generator's dispatch: at rate 0 the value is returned unchanged; at rate 1 it is the result of the FIRST
            registered mutator that is applicable to it, i.e. it lies within that mutator's contract *)
         let muts = List.map (fun n -> mutator_of_string (String.concat ":" (String.split_on_char '.' n))) (String.split_on_char '+' a.(1)) in
         let strip s = if String.length s > 0 && s.[0] = 'v' then String.sub s 1 (String.length s - 1) else s in
         let input = a.(2) and r = strip impl in
         let applicable m = (match a.(0) with
           | "di" -> applies_int m | "df" -> applies_float m
           | "ds" -> applies_seq m (utf8_decode (bytes_of_hex input)) | "db" -> applies_seq m (bytes_of_hex input)
           | _ -> applies_memo m) in
         let within m = (match a.(0) with
           | "di" -> contract_int (n_of_int 32) int_boundaries m (z_of_hex 32 input) (z_of_hex 32 r)
           | "df" -> contract_float m (n_of_hex r)
           | "ds" -> contract_seq true m (utf8_decode (bytes_of_hex input)) (utf8_decode (bytes_of_hex r))
           | "db" -> contract_seq false m (bytes_of_hex input) (bytes_of_hex r)
           | _ -> contract_memo m (n_of_hex input) (n_of_hex r)) in
         let same = (match a.(0) with
           | "di" -> z_of_hex 32 input = z_of_hex 32 r | "df" | "dm" -> n_of_hex input = n_of_hex r
           | _ -> bytes_of_hex input = bytes_of_hex r) in
         if rate_is_zero && not same then fail "C15" (Printf.sprintf "dispatch over [%s] changed %s to %s at rate 0" a.(1) input r);
         if rate_is_one then
           (match List.filter applicable muts with
            | m1 :: _ -> if not (within m1) then
                fail "C15" (Printf.sprintf "dispatch over [%s] at rate 1.0 returned %s for %s: not a result of the first applicable mutator" a.(1) r input)
            | [] -> if not same then fail "C15" (Printf.sprintf "dispatch over [%s] changed %s although no registered mutator applies" a.(1) input))
     | "pp" ->
         let m = mut 1 in
         let delta = bytes_of_hex a.(2) and prefix = bytes_of_hex a.(3) in
         let fired = impl.[0] = '1' in
         let out = bytes_of_hex (String.sub impl 2 (String.length impl - 2)) in
         let np = List.length prefix in
         let pre = List.filteri (fun i _ -> i < np) out and res = List.filteri (fun i _ -> i >= np) out in
         if pre <> prefix then fail "C16" "post_process changed bytes before the snapshot"
         else if not (contract_post m delta res fired) then
           fail "C16" (Printf.sprintf "post_process %s on %s gave %s (fired=%b): outside the contract" a.(1) a.(2) (hex_of_bytes res) fired);
         if rate_is_zero && (fired || res <> delta) then fail "C15" "post_process rewrote bytes at rate 0"
     | _ -> ());
    !fails
  end

let s3_case (c : case) : unit =
  let h = kv c.spec in
  let rate_hex = Hashtbl.find h "rate" in
  let rate = n_of_hex rate_hex in
  let src = ref (source_of (Hashtbl.find h "src")) in
  let ok = ref true and nops = ref 0 and stop = ref false in
  List.iter (fun l ->
    match words l with
    | ["R"; i; op; impl; pos] ->
        List.iter (fun (p, msg) -> Printf.printf "PROP %s %s fail op#%s %s: %s\n" c.id p i op msg) (s3_oracle op rate_hex impl);
        if not !stop then begin
        incr nops;
        let impl_panic = String.length impl >= 6 && String.sub impl 0 6 = "panic:" in
        (try
           let (v, s') = s3_op op rate !src in
           src := s';
           if impl_panic then begin
             ok := false; stop := true;
             Printf.printf "DIFF %s step=%s s3-panic op=%s impl=%s model=%s\n" c.id i op impl v
           end else if v <> impl then begin
             ok := false; stop := true;
             Printf.printf "DIFF %s step=%s s3-result op=%s impl=%s model=%s\n" c.id i op impl v
           end else if "pos=" ^ src_pos_string s' <> pos then begin
             ok := false; stop := true;
             Printf.printf "DIFF %s step=%s s3-consumption op=%s impl=%s model=pos=%s\n" c.id i op pos (src_pos_string s')
           end
         with Model_panic w ->
           stop := true;
           if not impl_panic then begin
             ok := false;
             Printf.printf "DIFF %s step=%s s3-panic op=%s impl=%s model panics (code %d)\n" c.id i op impl w
           end) end
    | _ -> ()) c.lines;
  if !ok then Printf.printf "OK3 %s ops=%d\n" c.id !nops

(* ---------- S5: call histories on one generator ---------- *)
let s5_case (c : case) : unit =
  let h = kv c.spec in
  let cfg = config_of h in
  let calls = String.split_on_char ';' (Hashtbl.find h "hist") in
  let to_call s =
    if s = "r" then CReset
    else if String.sub s 0 2 = "s:" then
      (match source_of ("seed:" ^ String.sub s 2 (String.length s - 2)) with SrcWords (f, _) -> CGenerate f | _ -> assert false)
    else CFromBytes (bytes_of_hex (String.sub s 2 (String.length s - 2))) in
  (* `c:<field>=<value>` changes a public setting between two calls: the model's generator object carries its configuration
     (gn_cfg) and nothing of a call survives it except that, so the history is run segment by segment *)
  let set_field (c : config) (kvs : string) : config =
    match String.split_on_char '=' kvs with
    | ["unsafe"; v] -> { c with c_unsafe = (v = "1") }
    | ["ext"; v] -> { c with c_ext = (v = "1") }
    | ["buf"; v] -> { c with c_buf = (v = "1") }
    | ["min"; v] -> { c with c_min = n_of_hex (Printf.sprintf "%x" (int_of_string v)) }
    | ["max"; v] -> { c with c_max = n_of_hex (Printf.sprintf "%x" (int_of_string v)) }
    | ["rate"; v] -> { c with c_rate = n_of_hex v }
    | _ -> failwith ("bad setting " ^ kvs) in
  let model =
    let g = ref (gen_new cfg) and acc = ref [] in
    List.iter (fun s ->
      if String.length s > 2 && String.sub s 0 2 = "c:" then begin
        g := { !g with gn_cfg = set_field !g.gn_cfg (String.sub s 2 (String.length s - 2)) };
        acc := None :: !acc
      end else begin
        let (rs, g') = run_history (the_env ()) !g [to_call s] in
        g := g'; acc := List.rev_append rs !acc
      end) calls;
    List.rev !acc in
  let impl = ref [] and fresh = ref None in
  List.iter (fun l ->
    match words l with
    | "H" :: _ :: rest -> impl := String.concat " " rest :: !impl
    | "FRESH" :: rest -> fresh := Some (String.concat " " rest)
    | _ -> ()) c.lines;
  let impl = List.rev !impl in
  let show = function
    | None -> "reset"
    | Some (Ok out) -> "RESULT ok " ^ hex_of_bytes out
    | Some (Panic w) -> Printf.sprintf "RESULT panic(model code %d)" (int_of_n w) in
  let ok = ref true in
  if List.length impl <> List.length model then begin ok := false; Printf.printf "DIFF %s step=0 s5-length impl=%d model=%d\n" c.id (List.length impl) (List.length model) end
  else List.iteri (fun i (a, b) ->
    let bs = show b in
    let same = a = bs || (String.length a > 12 && String.sub a 0 12 = "RESULT panic" && String.length bs > 12 && String.sub bs 0 12 = "RESULT panic") in
    if !ok && not same then begin
      ok := false;
      Printf.printf "DIFF %s step=%d s5-result call=%s impl=%s model=%s\n" c.id i (List.nth calls i)
        (String.sub a 0 (min 160 (String.length a))) (String.sub bs 0 (min 160 (String.length bs)))
    end) (List.combine impl model);
  (* the property itself, on the implementation: last call of the history = the same call on a fresh generator *)
  (match !fresh, List.rev impl with
   | Some f, last :: _ ->
       if f <> last then
         Printf.printf "PROP %s C08 fail call %d (%s) after %d earlier calls returns %s... but a fresh generator returns %s...\n"
           c.id (List.length impl - 1) (List.nth calls (List.length calls - 1)) (List.length impl - 1)
           (String.sub last 0 (min 80 (String.length last))) (String.sub f 0 (min 80 (String.length f)))
   | _ -> ());
  (* every returned pickle is judged under the settings in force at ITS call *)
  let cfg_at =
    let cur = ref cfg in
    List.map (fun s -> (if String.length s > 2 && String.sub s 0 2 = "c:" then cur := set_field !cur (String.sub s 2 (String.length s - 2))); !cur) calls in
  List.iteri (fun i a ->
    match words a with
    | ["RESULT"; "ok"; hx] ->
        let ci = (try List.nth cfg_at i with _ -> cfg) in
        output_props c.id ci (is_safe ci) (bytes_of_hex hx) (Printf.sprintf " (call %d of the history)" i)
    | _ -> ()) impl;
  List.iter (fun a -> if String.length a > 12 && String.sub a 0 12 = "RESULT panic" || (String.length a > 10 && String.sub a 0 10 = "RESULT err") then
                Printf.printf "PROP %s C09 fail %s\n" c.id a) impl;
  List.iter (fun l -> if String.length l > 11 && String.sub l 0 11 = "RESULT hang" then Printf.printf "PROP %s C09 fail %s\n" c.id l) c.lines;
  if !ok then Printf.printf "OK5 %s calls=%d\n" c.id (List.length calls)


(* ---------- path compiler: fuzzer bytes that steer the generator along a given opcode path ----------
   line:  <config fields> frame=<0|1> path=OP[:drawbytes][*count];...   ->  a case line with src=bytes:...
   In fuzzer mode a choice among n <= 256 candidates consumes one byte b and selects b mod n (nothing when
   n = 1); the emitter's own draws are taken from `drawbytes` (zero padded). *)
let compile_path (idx : int) (line : string) : string =
  let h = kv line in
  let g k d = try Hashtbl.find h k with Not_found -> d in
  let items = List.concat_map (fun it ->
      let (it, count) = match String.index_opt it '*' with
        | Some i -> (String.sub it 0 i, int_of_string (String.sub it (i + 1) (String.length it - i - 1)))
        | None -> (it, 1) in
      let (name, draws) = match String.index_opt it ':' with
        | Some i -> (String.sub it 0 i, String.sub it (i + 1) (String.length it - i - 1))
        | None -> (it, "-") in
      List.init count (fun _ -> (name, draws))) (String.split_on_char ';' (Hashtbl.find h "path")) in
  let n = List.length items in
  Hashtbl.replace h "min" (string_of_int n); Hashtbl.replace h "max" (string_of_int n);
  List.iter (fun (k, d) -> if not (Hashtbl.mem h k) then Hashtbl.replace h k d)
    [("rate", "3fb999999999999a"); ("unsafe", "0"); ("ext", "0"); ("buf", "0"); ("muts", "-")];
  let cfg = config_of h in
  let v = cfg.c_version in
  let buf = Buffer.create 64 in
  (match v with V4 | V5 -> Buffer.add_string buf (if g "frame" "0" = "1" then "01" else "00") | _ -> ());
  let s = ref { sim_init with proto_emitted = (match v with V0 | V1 -> false | _ -> true) } in
  List.iter (fun (name, draws) ->
    let o = op_of_rust name in
    let valid = get_valid_opcodes cfg !s in
    let rec index i = function [] -> failwith (Printf.sprintf "path %d: %s is not a candidate in state %s" idx name (string_of_stack !s.stk))
                             | x :: r -> if x = o then i else index (i + 1) r in
    let i = index 0 valid in
    if List.length valid > 1 then Buffer.add_string buf (Printf.sprintf "%02x" i);
    let given = bytes_of_hex draws in
    let padded = given @ List.init 96 (fun _ -> N0) in
    (match emit_and_process (the_env ()) (fun l -> l) cfg !s o (SrcBytes padded) with
     | Ok ((_, s'), SrcBytes rest) ->
         let consumed = List.length padded - List.length rest in
         Buffer.add_string buf (let hx = hex_of_bytes (List.filteri (fun j _ -> j < consumed) padded) in if hx = "-" then "" else hx);
         s := s'
     | _ -> failwith (Printf.sprintf "path %d: the model cannot emit %s" idx name))) items;
  let src = Buffer.contents buf ^ g "tail" "" in
  Printf.sprintf "id=p%d v=%d min=%d max=%d rate=%s unsafe=%s ext=%s buf=%s muts=%s src=bytes:%s"
    idx (int_of_n (vnum v)) n n (Hashtbl.find h "rate") (Hashtbl.find h "unsafe") (Hashtbl.find h "ext") (Hashtbl.find h "buf")
    (Hashtbl.find h "muts") (if src = "" then "-" else src)


(* ---------- S7: the aliasing-level model against Rc identities and the counting allocator ---------- *)
let canon_roots (roots : int list) : int list =
  let tbl = Hashtbl.create 16 in
  List.map (fun r -> match Hashtbl.find_opt tbl r with Some i -> i | None -> let i = Hashtbl.length tbl in Hashtbl.add tbl r i; i) roots

let s7_case (c : case) : unit =
  let h = kv c.spec in
  let cfg = config_of h in
  let v = cfg.c_version in
  let hp = ref (heap_init v) in
  let muts = ref [] in     (* State::mutated according to the model (Heap.step_mut), newest first *)
  let ok = ref true and step = ref 0 and live = ref None in
  let diff what detail = if !ok then Printf.printf "DIFF %s step=%d s7-%s %s\n" c.id !step what detail; ok := false in
  let cells_arr () = Array.of_list !hp.cells in
  let kids_of = function
    | HLeaf _ -> [] | HSeq (_, items) -> List.map int_of_nat items
    | HDict pairs -> List.concat_map (fun (k, x) -> [int_of_nat k; int_of_nat x]) pairs
    | HInst (a, b) -> [int_of_nat a; int_of_nat b] | HCall i -> [int_of_nat i] in
  List.iter (fun l ->
    match words l with
    | ["STEP"; ph; _; chosen; orig; _; _; _; _; _] ->
        incr step;
        let tok = if ph = "B" then lex_exact (bytes_of_hex orig) else Some (op_of_rust chosen, A0) in
        (match tok with
         | Some t -> muts := List.rev_append (List.map int_of_nat (step_mut !hp t)) !muts; hp := heap_step v !hp t
         | None -> if orig <> "-" then diff "lex" ("cannot decode " ^ orig))
    | "ALIAS" :: stk :: memo :: edges :: rest ->
        (* implementation: Rc identities of the roots numbered by first appearance (stack bottom to top, memo by key) *)
        let ints s = if s = "-" then [] else List.map int_of_string (String.split_on_char ',' s) in
        let impl_roots = ints stk @ (if memo = "-" then [] else List.map (fun e -> int_of_string (List.nth (String.split_on_char ':' e) 1)) (String.split_on_char ',' memo)) in
        let m_memo = List.sort (fun (a, _) (b, _) -> compare (int_of_n a) (int_of_n b)) !hp.hmemo in
        let model_roots = canon_roots (List.rev_map int_of_nat !hp.hstk @ List.map (fun (_, i) -> int_of_nat i) m_memo) in
        if impl_roots <> model_roots then
          diff "aliasing" (Printf.sprintf "roots impl=%s model=%s" (String.concat "," (List.map string_of_int impl_roots)) (String.concat "," (List.map string_of_int model_roots)))
        else begin
          (* reachable cells and distinct edges are invariant under renaming *)
          let arr = cells_arr () in
          let seen = Hashtbl.create 64 and edges_m = Hashtbl.create 64 in
          let rec visit i = if not (Hashtbl.mem seen i) then begin
              Hashtbl.add seen i ();
              List.iter (fun k -> Hashtbl.replace edges_m (i, k) (); visit k) (kids_of arr.(i)) end in
          List.iter visit (List.rev_map int_of_nat !hp.hstk @ List.map (fun (_, i) -> int_of_nat i) m_memo);
          let impl_edges = if edges = "-" then [] else String.split_on_char ',' edges in
          let impl_nodes = Hashtbl.create 64 in
          List.iter (fun r -> Hashtbl.replace impl_nodes r ()) impl_roots;
          List.iter (fun e -> match String.split_on_char '>' e with
            | [a; b] -> Hashtbl.replace impl_nodes (int_of_string a) (); Hashtbl.replace impl_nodes (int_of_string b) ()
            | _ -> ()) impl_edges;
          if Hashtbl.length impl_nodes <> Hashtbl.length seen || List.length impl_edges <> Hashtbl.length edges_m then
            diff "graph" (Printf.sprintf "reachable cells/edges impl=%d/%d model=%d/%d" (Hashtbl.length impl_nodes) (List.length impl_edges)
                            (Hashtbl.length seen) (Hashtbl.length edges_m));
          (* the registry of cells modified in place: entries in total, entries whose cell is reachable from the roots *)
          (match rest with
           | [m] when String.length m > 2 && String.sub m 0 2 = "m=" ->
               let model_m = Printf.sprintf "m=%d:%d" (List.length !muts) (List.length (List.filter (Hashtbl.mem seen) !muts)) in
               if m <> model_m then diff "registry" (Printf.sprintf "cells registered as modified in place (total:reachable) impl=%s model=%s" m model_m)
           | _ -> diff "registry" "the ALIAS record carries no registry field (State::mutated is not reported)")
        end
    | ["LIVE"; b; a] -> live := Some (int_of_string b, int_of_string a)
    | _ -> ()) c.lines;
  (* what reset()/Drop leave behind according to the model: the cell table with every registered cell emptied;
     proofs/ReleaseP.final_cells_acyclic says it never has a cycle, so nothing may stay allocated *)
  let cyc_during = has_cycle !hp.cells in
  let cyc_after = has_cycle (release !hp.cells (List.rev_map nat_of_int !muts)) in
  if cyc_after then diff "release" "the model's released cell graph still has a cycle (contradicts ReleaseP.final_cells_acyclic)";
  (match !live with
   | Some (b, a) ->
       let leaked = a - b in
       if leaked <> 0 then
         Printf.printf "PROP %s C14 fail leak of %d bytes after reset and drop (%s)\n" c.id leaked
           (if cyc_during then "the objects of this pickle form a reference cycle; the model's release breaks it" else "no reference cycle among the objects of this pickle in the aliasing model")
   | None -> diff "live" "no LIVE line");
  if !ok then Printf.printf "OK7 %s cells=%d cycle=%b\n" c.id (List.length !hp.cells) cyc_during


(* ---------- S8: one step from every small state (states built by hand in the implementation) ---------- *)
let s8_case (c : case) : unit =
  let h = kv c.spec in
  let cfg = config_of h in
  let v = cfg.c_version in
  let s0 = { stk = stack_of_string (Hashtbl.find h "stack"); memo = memo_of_string (Hashtbl.find h "memo");
             proto_emitted = (match v with V0 | V1 -> false | _ -> true) } in
  let srcs = Hashtbl.find h "src" in
  let data = bytes_of_hex (String.sub srcs 6 (String.length srcs - 6)) in
  let ndiff = ref 0 and nemit = ref 0 in
  let diff what detail = incr ndiff; Printf.printf "DIFF %s step=%d s8-%s %s\n" c.id !nemit what detail in
  let sort_memo m = List.sort (fun (a, _) (b, _) -> compare (int_of_n a) (int_of_n b)) m in
  let state_str (s : sim) = string_of_stack s.stk ^ " " ^ string_of_memo (sort_memo s.memo) in
  let model_valid = get_valid_opcodes cfg s0 in
  let impl_valid = ref [] in
  let run_model o = emit_and_process (the_env ()) (fun l -> l) cfg s0 o (SrcBytes data) in
  List.iter (fun l ->
    match words l with
    | ["VALID"; names] ->
        impl_valid := (if names = "-" then [] else List.map op_of_rust (String.split_on_char ',' names));
        if !impl_valid <> model_valid then
          diff "valid-set" (Printf.sprintf "impl=%s model=%s stack=%s" names (String.concat "," (List.map cp_name model_valid)) (string_of_stack s0.stk))
    | "NONDET" :: rest ->
        Printf.printf "PROP %s C07 fail the candidate set of one and the same hand-built state differs between two constructions of that state (hash-container iteration order or addresses decide): %s\n"
          c.id (String.concat " " rest)
    | "EMIT" :: op :: verdict :: rest ->
        let o = op_of_rust op in
        (* only steps one of the two sides would really take: an opcode neither guard admits is never emitted in this state *)
        if List.mem o model_valid || List.mem o !impl_valid then begin
          incr nemit;
          let cmp bytes st left =
            match run_model o with
            | Ok ((em, s'), SrcBytes rest_src) ->
                let mb = hex_of_bytes em.e_final in
                if mb <> bytes then Some (Printf.sprintf "op=%s bytes impl=%s model=%s" op bytes mb)
                else if state_str s' <> st then Some (Printf.sprintf "op=%s state-after impl=%s model=%s" op st (state_str s'))
                else if Printf.sprintf "left=%d" (List.length rest_src) <> left then
                  Some (Printf.sprintf "op=%s entropy %s model left=%d" op left (List.length rest_src))
                else None
            | Ok _ -> Some "model changed the source kind"
            | Panic w -> Some (Printf.sprintf "op=%s the model panics (code %d), the implementation returns %s" op (int_of_n w) bytes) in
          match verdict, rest with
          | "ok", [bytes; stk; memo; left] ->
              Hashtbl.reset fmt_override;
              (* C04 on what the implementation wrote: one whole opcode of the standard table, argument in its domain *)
              (match lex_one (bytes_of_hex bytes) with
               | Some (_, []) -> ()
               | _ -> Printf.printf "PROP %s C04 fail the bytes %s emitted for %s do not decode as one well-formed opcode\n" c.id bytes op);
              (match cmp bytes (stk ^ " " ^ memo) left with
               | None -> ()
               | Some d when o = FLOAT ->
                   (* Rust's float text for the drawn value: accept it when it denotes the same f64 *)
                   let bs = bytes_of_hex bytes in
                   let txt = string_of_ascii (List.filteri (fun i _ -> i > 0 && i < List.length bs - 1) bs) in
                   (match float_of_string_opt txt with
                    | Some f when not (Float.is_nan f) -> Hashtbl.replace fmt_override (Int64.bits_of_float f) txt
                    | _ -> ());
                   (match cmp bytes (stk ^ " " ^ memo) left with
                    | None -> Printf.printf "NOTE %s float-format-fallback %s\n" c.id txt
                    | Some _ -> diff "emit" d);
                   Hashtbl.reset fmt_override
               | Some d -> diff "emit" d)
          | ("panic" | "err"), msg ->
              (match run_model o with
               | Panic _ -> ()
               | Ok _ -> diff "panic" (Printf.sprintf "op=%s the implementation %s (%s), the model returns normally" op verdict (String.concat " " msg)))
          | _ -> diff "format" l
        end
    | ["FINISH"; "ok"; bytes; stk; memo] ->
        let (tail, s1) = cleanup_for_stop v s0 in
        let s2 = sim_step v s1 (STOP, A0) in
        let mb = hex_of_bytes (List.map ref_code tail @ [ref_code STOP]) in
        if mb <> bytes then diff "tail" (Printf.sprintf "impl=%s model=%s" bytes mb)
        else if state_str s2 <> stk ^ " " ^ memo then diff "tail-state" (Printf.sprintf "impl=%s %s model=%s" stk memo (state_str s2))
    | "FINISH" :: "panic" :: msg -> diff "tail" ("the implementation panics in cleanup_for_stop: " ^ String.concat " " msg)
    | _ -> ()) c.lines;
  if !ndiff = 0 then Printf.printf "OK8 %s ops=%d\n" c.id !nemit

let () =
  match Array.to_list Sys.argv with
  | [_; "s1"; path] ->
      List.iter (fun c ->
        (try s1_case c; s1_tail_case c
         with e -> Printf.printf "DIFF %s step=0 driver-exception %s\n" c.id (Printexc.to_string e))) (read_cases path)
  | [_; "s2"; path] ->
      List.iter (fun c ->
        (try s2_case c
         with e -> Printf.printf "DIFF %s step=0 s2-driver-exception %s\n" c.id (Printexc.to_string e))) (read_cases path)
  | [_; "oracles"; path] ->
      List.iter (fun c ->
        (try
           let h = kv c.spec in
           let cfg = config_of h in
           List.iter (fun l -> match words l with
             | ["RESULT"; "ok"; hx] ->
                 let out = bytes_of_hex hx in
                 output_props c.id cfg (is_safe cfg) out "";
                 (* a C12 witness input: the opcode named in the id must occur, framed exactly when asked *)
                 (match String.split_on_char '.' c.id with
                  | ["w"; _; flags; name] ->
                      let o = List.find (fun x -> cp_name x = name) all_opcodes in
                      if not (occurs o out) then
                        Printf.printf "PROP %s C12 fail the witness input of %s does not make the implementation emit it (the model does: Properties/C12.v)\n" c.id name;
                      let framed = flags.[2] = '1' in
                      let has_frame = occurs FRAME out in
                      if framed <> has_frame then
                        Printf.printf "PROP %s C12 fail FRAME coin %b but the output is %sframed\n" c.id framed (if has_frame then "" else "un")
                  | _ -> ())
             | "RESULT" :: ("panic" | "err" | "hang") :: rest -> Printf.printf "PROP %s C09 fail %s\n" c.id (String.concat " " rest)
             | _ -> ()) c.lines
         with e -> Printf.printf "DIFF %s step=0 driver-exception %s\n" c.id (Printexc.to_string e))) (read_cases path)
  | [_; "front"; path] ->
      (* option vectors -> the configuration the Coq model of the CLI computes, as a harness case line *)
      let ic = open_in path in
      (try while true do
           let l = input_line ic in
           if String.length l > 0 && l.[0] <> '#' then begin
             let h = kv l in
             let g k = Hashtbl.find h k in
             let optn s = if s = "-" then None else Some (n_of_hex (Printf.sprintf "%Lx" (Int64.of_string ("0u" ^ s)))) in
             let kind = function
               | "all" -> KAll | "bitflip" -> KBitflip | "boundary" -> KBoundary | "offbyone" -> KOffbyone
               | "stringlen" -> KStringlen | "character" -> KCharacter | "memoindex" -> KMemoindex
               | "typeconfusion" -> KTypeconfusion | x -> failwith ("mutator kind " ^ x) in
             let a = { a_protocol = optn (g "protocol"); a_seed = optn (g "seed");
                       a_min = (match optn (g "min") with Some x -> x | None -> default_min);
                       a_max = (match optn (g "max") with Some x -> x | None -> default_max);
                       a_mutators = (if g "mutators" = "-" then [] else List.map kind (String.split_on_char ',' (g "mutators")));
                       a_rate = (if g "rate" = "-" then default_rate else n_of_hex (g "rate"));
                       a_unsafe = (g "unsafe" = "1"); a_ext = (g "ext" = "1"); a_buf = (g "buf" = "1");
                       a_samples = default_samples } in
             match cli_config a with
             | None -> Printf.printf "NOCONFIG %s\n" (g "id")
             | Some c ->
                 let mname = function
                   | MBitflip -> "bitflip" | MBoundary -> "boundary" | MOffByOne -> "offbyone" | MStringLen -> "stringlen"
                   | MCharacter -> "character" | MMemoIndex u -> if u then "memoindex:1" else "memoindex:0"
                   | MTypeConf u -> if u then "typeconf:1" else "typeconf:0" in
                 Printf.printf "id=%s v=%d min=%s max=%s rate=%s unsafe=%d ext=%d buf=%d muts=%s src=seed:%s\n" (g "id")
                   (int_of_n (vnum c.c_version)) (Int64.to_string (n_to_int64 c.c_min) |> fun s -> if s.[0] = '-' then Printf.sprintf "%Lu" (n_to_int64 c.c_min) else s)
                   (Printf.sprintf "%Lu" (n_to_int64 c.c_max)) (let hx = hex_of_n c.c_rate in String.make (16 - String.length hx) '0' ^ hx)
                   (if c.c_unsafe then 1 else 0) (if c.c_ext then 1 else 0) (if c.c_buf then 1 else 0)
                   (if c.c_mutators = [] then "-" else String.concat "," (List.map mname c.c_mutators)) (g "seed")
           end
         done with End_of_file -> close_in ic)
  | [_; "vocab"] ->
      (* per protocol: the opcode bytes of the model's row (= the regenerated row, by SrcEquiv), with the protocol that introduced each *)
      List.iter (fun vi ->
        let v = version_of_int vi in
        Printf.printf "VOCAB v=%d %s\n" vi
          (String.concat "," (List.map (fun o -> Printf.sprintf "%02x:%s:%d" (int_of_n (ref_code o)) (cp_name o) (int_of_n (ref_proto o)))
             (List.filter (fun o -> int_of_n (ref_proto o) <= vi) all_opcodes)))) [0; 1; 2; 3; 4; 5]
  | [_; "witness"] ->
      (* C12: the level-F witness inputs (WitnessF.witness_bytes; Properties/C12.v proves that the model's output on
         them contains the opcode) as harness case lines with DEFAULT settings *)
      List.iter (fun vi ->
        let v = version_of_int vi in
        List.iter (fun (ext, buf) ->
          List.iter (fun framed ->
            if framed = false || vi >= 4 then
              List.iter (fun o ->
                let c = default_cfg v ext buf in
                if List.exists (fun x -> op_eqb x o) (row v) && not (driver_emitted o) && flag_ok c o then
                  match witness_bytes (the_env ()) v ext buf framed o with
                  | Some w ->
                      Printf.printf "id=w.%d.%d%d%d.%s v=%d min=60 max=300 rate=3fb999999999999a unsafe=0 ext=%d buf=%d muts=- src=bytes:%s\n"
                        vi (if ext then 1 else 0) (if buf then 1 else 0) (if framed then 1 else 0) (cp_name o) vi
                        (if ext then 1 else 0) (if buf then 1 else 0) (hex_of_bytes w)
                  | None -> Printf.printf "NOWITNESS v=%d ext=%b buf=%b %s\n" vi ext buf (cp_name o)) all_opcodes)
            [false; true]) [(false, false); (true, true)]) [0; 1; 2; 3; 4; 5]
  | [_; "paths"; path] ->
      let ic = open_in path in
      let i = ref 0 in
      (try while true do
           let l = input_line ic in
           if String.length l > 0 && l.[0] <> '#' then begin
             incr i;
             (try print_endline (compile_path !i l) with Failure m -> prerr_endline ("PATH-ERROR " ^ m))
           end
         done with End_of_file -> close_in ic)
  | [_; "s3"; path] ->
      List.iter (fun c ->
        (try s3_case c
         with e -> Printf.printf "DIFF %s step=0 s3-driver-exception %s\n" c.id (Printexc.to_string e))) (read_cases path)
  | [_; "refcheck"; path] ->
      (* the specification side against CPython: one hex string per line -> lexer verdict and reference-machine verdict *)
      let ic = open_in path in
      (try while true do
          let l = input_line ic in
          match words l with
          | [id; hx] ->
              let bs = bytes_of_hex hx in
              let lexed = lex_all bs in
              Printf.printf "R %s lex=%d ref=%d memo=%d\n" id (if lexed = None then 0 else 1)
                (if oracle_C01 bs then 1 else 0) (if oracle_C02 bs then 1 else 0)
          | _ -> ()
        done with End_of_file -> close_in ic)
  | [_; "s8"; path] ->
      List.iter (fun c ->
        (try s8_case c
         with e -> Printf.printf "DIFF %s step=0 s8-driver-exception %s\n" c.id (Printexc.to_string e))) (read_cases path)
  | [_; "s7"; path] ->
      List.iter (fun c ->
        (try s7_case c
         with e -> Printf.printf "DIFF %s step=0 s7-driver-exception %s\n" c.id (Printexc.to_string e))) (read_cases path)
  | [_; "s5"; path] ->
      List.iter (fun c ->
        (try s5_case c
         with e -> Printf.printf "DIFF %s step=0 s5-driver-exception %s\n" c.id (Printexc.to_string e))) (read_cases path)
  | [_; "words"; seed; n] ->
      (* the model's ChaCha8 word stream (extracted from ChaCha.v), in the format of `pf-harness words`; `wordsat` prints
         single positions (far into the stream, beyond the cached blocks) *)
      let f = chacha8_word (n_of_int64 (Int64.of_string ("0u" ^ seed))) in
      print_string ("WORDS " ^ seed);
      for i = 0 to int_of_string n - 1 do Printf.printf " %08x" (int_of_n (f (n_of_int i))) done; print_newline ()
  | _ -> prerr_endline "usage: driver s1|s2 <tracefile> | words <seed> <n>"; exit 2
