#!/usr/bin/env python3
"""Translator for the stack helpers the guards are written in: src/generator/utils.rs (peek_at, has_mark, is_<kind>_at,
is_<kind>_at_mark, is_callable_above_mark, count_items_to_mark) -> coq/gen/SrcUtils.v, over the Vec view of the simulated
stack (SrcUtilsPrims.v: `self.state.stack.inner` bottom first, index arithmetic and iteration orders as the source writes
them).  SrcEqUtils.v proves each equal to the hand-written helper of Sim.v that the regenerated can_emit (gen_src.py) calls.

Each helper is recognised as a whole, statement by statement, against the shape it has in the repository (the kind pattern of
its `matches!` and the index offset are read, everything else must be literally the modelled text); anything else raises
TranslateError (exit 3): that helper's tie then rests on the correspondence suites S1 / S8 (candidate sets on every recorded
step and on every small hand-built state), which is reported, not hidden."""
import os, re, sys

sys.path.insert(0, os.path.dirname(os.path.abspath(__file__)))
from gen_src import TranslateError, fn_body, KIND, write_if_changed
from gen_drv import statements, strip_cfg

PAT = r'((?:StackObject::\w+(?:\(_\)| \{ \.\. \})?(?: \| )?)+)'
INNER = r'self\.state\.stack\.inner'
T_AT = [r'if let Some\(obj_ref\) = self\.peek_at\(depth\) \{ matches!\( ?\*obj_ref\.borrow\(\), ' + PAT + r' ?\) \} else \{ false \}']
T_MARKLOOP = (r'for \(idx, obj_ref\) in ' + INNER + r'\.iter\(\)\.enumerate\(\)\.rev\(\) \{ if matches!\(\*obj_ref\.borrow\(\), StackObject::Mark\) \{ %s return false; \} \}')
T_BELOW = [T_MARKLOOP % (r'if idx > 0 \{ if let Some\(below_mark\) = ' + INNER + r'\.get\(idx - 1\) \{ return matches!\( ?\*below_mark\.borrow\(\), ' + PAT + r' ?\); \} \}'), r'false']
T_ABOVE = [T_MARKLOOP % (r'let above_idx = idx \+ 1; if above_idx < ' + INNER + r'\.len\(\) \{ if let Some\(above_mark\) = ' + INNER + r'\.get\(above_idx\) \{ return matches!\( ?\*above_mark\.borrow\(\), ' + PAT + r' ?\); \} \}'), r'false']
T_COUNT = [r'for \(count, obj_ref\) in ' + INNER + r'\.iter\(\)\.rev\(\)\.enumerate\(\) \{ if matches!\(\*obj_ref\.borrow\(\), StackObject::Mark\) \{ return Some\(count\); \} \}', r'None']
T_HAS = [r'self\.state \.stack \.inner \.iter\(\) \.any\(\|obj\| matches!\(\*obj\.borrow\(\), StackObject::Mark\)\)']
T_PEEK = [r'let len = self\.state\.stack\.len\(\);', r'if depth < len \{ ' + INNER + r'\.get\(len - 1 - depth\) \} else \{ None \}']

AT = ['is_list_at', 'is_dict_at', 'is_callable_at', 'is_tuple_at', 'is_instance_at', 'is_string_at']
BELOW = ['is_list_at_mark', 'is_dict_at_mark', 'is_set_at_mark']


def kinds(pattern):
    out = []
    for alt in pattern.split(' | '):
        m = re.fullmatch(r'StackObject::(\w+)(?:\(_\)| \{ \.\. \})?', alt.strip())
        if not m or m.group(1) not in KIND:
            raise TranslateError('kind pattern %r not understood' % alt)
        out.append(KIND[m.group(1)])
    return out


def recognise(src, name, template):
    st = statements(strip_cfg(fn_body(src, name)))
    if len(st) != len(template):
        raise TranslateError('%s has %d top-level statements, the modelled shape has %d' % (name, len(st), len(template)))
    caps = []
    for s_, t in zip(st, template):
        m = re.fullmatch(t, s_)
        if not m:
            raise TranslateError('%s: statement outside the modelled shape: %s' % (name, s_[:90]))
        caps += list(m.groups())
    return caps


def pat_fn(ks):
    return '(fun k => match k with %s => true | _ => false end)' % ' | '.join(ks)


def main():
    repo, outdir = sys.argv[1], sys.argv[2]
    try:
        src = open(os.path.join(repo, 'src', 'generator', 'utils.rs')).read()
        stack = open(os.path.join(repo, 'src', 'stack.rs')).read()
        # Stack::len / push / pop / peek are the Vec's (push and pop at the END: index len-1 is the top)
        for name, body in (('len', r'self\.inner\.len\(\)'), ('push', r'self\.inner\.push\(StackObjectRef::new\(value\)\);'),
                           ('pop', r'self\.inner\.pop\(\)'), ('peek', r'self\.inner\.last\(\)')):
            st = statements(fn_body(stack[stack.index('impl Stack'):], name))
            if len(st) != 1 or not re.fullmatch(body, st[0]):
                raise TranslateError('Stack::%s is not the Vec operation the Vec view assumes: %s' % (name, ' '.join(st)[:80]))
        out = []
        recognise(src, 'peek_at', T_PEEK)
        out.append('Definition src_peek_at (s : sim) (depth : nat) : option kind :=\n  let v := vec_of s in let len := length v in\n'
                   '  if depth <? len then nth_error v (len - 1 - depth) else None.\n')
        recognise(src, 'has_mark', T_HAS)
        out.append('Definition src_has_mark (s : sim) : bool := existsb %s (vec_of s).\n' % pat_fn(['KMark']))
        for n in AT:
            (p,) = recognise(src, n, T_AT)
            out.append('Definition src_%s (s : sim) (depth : nat) : bool :=\n  match src_peek_at s depth with Some k => %s k | None => false end.\n' % (n, pat_fn(kinds(p))))
        for n in BELOW:
            (p,) = recognise(src, n, T_BELOW)
            out.append('Definition src_%s (s : sim) : bool :=\n  let v := vec_of s in\n  match enumerate_rev_find_mark v with\n'
                       '  | Some idx => if 0 <? idx then match nth_error v (idx - 1) with Some k => %s k | None => false end else false\n'
                       '  | None => false\n  end.\n' % (n, pat_fn(kinds(p))))
        (p,) = recognise(src, 'is_callable_above_mark', T_ABOVE)
        out.append('Definition src_is_callable_above_mark (s : sim) : bool :=\n  let v := vec_of s in\n  match enumerate_rev_find_mark v with\n'
                   '  | Some idx => let above_idx := idx + 1 in\n                if above_idx <? length v then match nth_error v above_idx with Some k => %s k | None => false end else false\n'
                   '  | None => false\n  end.\n' % pat_fn(kinds(p)))
        recognise(src, 'count_items_to_mark', T_COUNT)
        out.append('Definition src_count_items_to_mark (s : sim) : option nat := rev_enumerate_find_mark (vec_of s).\n')
    except (TranslateError, ValueError, IndexError, KeyError) as e:
        print('TRANSLATE-ERROR SrcUtils.v: %s: %s' % (type(e).__name__, e))
        sys.exit(3)
    header = ('(* GENERATED by tools/gen_utils.py from src/generator/utils.rs (and the Vec operations of src/stack.rs) - do not edit.\n'
              '   SrcEqUtils.v proves these equal to the helpers of Sim.v. *)\nFrom Coq Require Import List Arith Bool.\nImport ListNotations.\n'
              'From PF Require Import Opcodes Config Sim SrcUtilsPrims.\n\n')
    write_if_changed(os.path.join(outdir, 'SrcUtils.v'), header + '\n'.join(out))
    print('gen_utils: ok')


if __name__ == '__main__':
    main()
