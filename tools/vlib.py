"""Shared machinery of the /verif checks: build steps, case generation, suites, evidence."""
import fcntl, hashlib, json, os, re, shutil, struct, subprocess, sys, time

VERIF = os.path.dirname(os.path.dirname(os.path.abspath(__file__)))
REPO = os.environ.get('VERIF_REPO', '/repo')
COQ = os.path.join(VERIF, 'coq')
OCAML = os.path.join(VERIF, 'ocaml')
HARNESS = os.path.join(VERIF, 'harness')
BUILD = os.path.join(VERIF, '.build')
CACHE = os.path.join(VERIF, '.cache')
TARGET = os.path.join(BUILD, 'target')
HBIN = os.path.join(TARGET, 'release', 'pf-harness')
DRIVER = os.path.join(OCAML, 'driver')
ENV = dict(os.environ, CARGO_NET_OFFLINE='true', CARGO_TARGET_DIR=TARGET)

FORBIDDEN = re.compile(r'\b(Admitted|admit|Axiom|Axioms|Parameter|Parameters|Conjecture|Conjectures|'
                       r'Hypothesis|Variable|Unset\s+Guard|bypass_check|Admit\s+Obligations|'
                       r'type-in-type|impredicative-set|Unset\s+Universe|Unset\s+Positivity)\b')
ALLOWED_AXIOMS = set()   # every property theorem is expected to be closed under the global context


class Broken(Exception):
    """a proof obligation / translator / correspondence no longer checks"""
    def __init__(self, what, detail=''):
        super().__init__(what)
        self.what, self.detail = what, detail


class Infra(Exception):
    """tooling failure unrelated to the property (exit 2, no VIOLATION line)"""


def sh(cmd, cwd=None, timeout=1800, env=None, check=False):
    p = subprocess.run(cmd, cwd=cwd, env=env or ENV, stdout=subprocess.PIPE, stderr=subprocess.STDOUT,
                       timeout=timeout, text=True, shell=isinstance(cmd, str))
    if check and p.returncode != 0:
        raise Infra('command failed: %s\n%s' % (cmd, p.stdout[-3000:]))
    return p.returncode, p.stdout


class Lock:
    def __enter__(self):
        os.makedirs(BUILD, exist_ok=True)
        self.f = open(os.path.join(BUILD, 'lock'), 'w')
        fcntl.flock(self.f, fcntl.LOCK_EX)
        return self

    def __exit__(self, *a):
        fcntl.flock(self.f, fcntl.LOCK_UN)
        self.f.close()


def file_hash(paths):
    h = hashlib.sha256()
    for p in sorted(paths):
        h.update(p.encode())
        try:
            with open(p, 'rb') as f:
                h.update(f.read())
        except OSError:
            h.update(b'<missing>')
    return h.hexdigest()


def tree_files(root, subs, exts=None):
    out = []
    for s in subs:
        p = os.path.join(root, s)
        if os.path.isfile(p):
            out.append(p)
        for d, dirs, files in os.walk(p):
            dirs[:] = [x for x in dirs if x not in ('target', '.git', '__pycache__', '_build')]
            for f in files:
                if exts is None or os.path.splitext(f)[1] in exts:
                    out.append(os.path.join(d, f))
    return out


def repo_hash():
    return file_hash(tree_files(REPO, ['src', 'data', 'scripts', 'python', 'Cargo.toml', 'Cargo.lock']))


def model_hash():
    fs = tree_files(COQ, ['.'], {'.v'}) + tree_files(OCAML, ['driver.ml']) + tree_files(HARNESS, ['src', 'Cargo.toml']) \
        + tree_files(os.path.join(VERIF, 'tools'), ['.'], {'.py'})
    return file_hash([f for f in fs if '/gen/' not in f])


# ----------------------------------------------------------------------------- Coq
def coq_scan():
    """forbidden-word scan over the whole development (comments stripped)"""
    bad = []
    for f in tree_files(COQ, ['.'], {'.v'}):
        src = open(f).read()
        src = re.sub(r'\(\*.*?\*\)', ' ', src, flags=re.S)
        for m in FORBIDDEN.finditer(src):
            w = m.group(1)
            # `Variable(s)`/`Hypothesis` are allowed inside Sections only
            if w in ('Variable', 'Hypothesis'):
                before = src[:m.start()]
                if before.count('\nSection ') + before.count('Section ') > before.count('\nEnd '):
                    continue
            bad.append('%s: %s' % (os.path.relpath(f, COQ), w))
    return bad


def regenerate():
    rc, out = sh([sys.executable, os.path.join(VERIF, 'tools', 'gen_src.py'), REPO, os.path.join(COQ, 'gen')])
    if rc not in (0, 3):
        raise Infra('translator crashed:\n' + out)
    if rc == 3:
        return out.strip()
    return None


def coq_make(target=None, timeout=1500):
    if not os.path.exists(os.path.join(COQ, 'Makefile')):
        sh('coq_makefile -f _CoqProject -o Makefile', cwd=COQ, check=True)
    cmd = 'timeout %d make -j16 %s' % (timeout, target or '')
    rc, out = sh(cmd, cwd=COQ, timeout=timeout + 60)
    return rc, out


def coq_errors(out):
    """(file, message) of the first Coq error in make output"""
    m = re.search(r'File "([^"]+)", line (\d+).*?\n(Error:.*?)(?:\n\n|\nmake|\Z)', out, re.S)
    if m:
        return os.path.basename(m.group(1)), 'line %s: %s' % (m.group(2), ' '.join(m.group(3).split())[:400])
    return '?', out[-600:]


def print_assumptions(prop):
    """re-run coqc on the property file; return (ok, text, theorems, axioms)"""
    pf = os.path.join(COQ, 'Properties', prop + '.v')
    if not os.path.exists(pf):
        return False, 'no property file', [], []
    rc, out = sh('timeout 600 coqc -Q . PF -w -notation-overridden Properties/%s.v' % prop, cwd=COQ, timeout=700)
    src = open(pf).read()
    thms = re.findall(r'^(?:Theorem|Lemma|Corollary|Example)\s+(\w+)', src, re.M)
    axioms = []
    for blk in re.findall(r'Axioms:\n((?:.+\n?)+?)(?:\n|\Z)', out):
        for ln in blk.splitlines():
            m = re.match(r'(\S+)\s*:', ln)
            if m:
                axioms.append(m.group(1))
    closed = out.count('Closed under the global context')
    return rc == 0, out, thms, axioms, closed


# ----------------------------------------------------------------------------- builds
def build_model_tools():
    """extraction + OCaml driver (rebuilt when the model changed)"""
    stamp = os.path.join(BUILD, 'driver.stamp')
    key = model_hash()
    if os.path.exists(stamp) and open(stamp).read() == key and os.path.exists(DRIVER):
        return
    rc, out = sh('timeout 600 coqc -Q ../coq PF -w -notation-overridden ../coq/Extract.v', cwd=OCAML, timeout=700)
    if rc != 0:
        raise Broken('extraction', out[-800:])
    rc, out = sh('ocamlfind ocamlopt -O2 -w -a model.mli model.ml driver.ml -o driver', cwd=OCAML, timeout=600)
    if rc != 0:
        raise Infra('ocaml build failed:\n' + out[-2000:])
    with open(stamp, 'w') as f:
        f.write(key)


def build_harness():
    lock_src = os.path.join(REPO, 'Cargo.lock')
    lock_dst = os.path.join(HARNESS, 'Cargo.lock')
    if not os.path.exists(lock_dst) or open(lock_src).read() != open(lock_dst).read():
        shutil.copy(lock_src, lock_dst)
    rc, out = sh('cargo build --offline --release', cwd=HARNESS, timeout=1500)
    if rc != 0:
        # /repo does not compile with the hooks on: nothing can be checked
        raise Infra('harness build failed (does /repo compile?):\n' + out[-3000:])


# ----------------------------------------------------------------------------- PRNG for case generation
class SplitMix64:
    def __init__(self, seed):
        self.s = seed & 0xFFFFFFFFFFFFFFFF

    def next(self):
        self.s = (self.s + 0x9E3779B97F4A7C15) & 0xFFFFFFFFFFFFFFFF
        z = self.s
        z = ((z ^ (z >> 30)) * 0xBF58476D1CE4E5B9) & 0xFFFFFFFFFFFFFFFF
        z = ((z ^ (z >> 27)) * 0x94D049BB133111EB) & 0xFFFFFFFFFFFFFFFF
        return z ^ (z >> 31)

    def below(self, n):
        return self.next() % n

    def choice(self, l):
        return l[self.below(len(l))]

    def bytes(self, n):
        out = bytearray()
        while len(out) < n:
            out += struct.pack('<Q', self.next())
        return bytes(out[:n])


def f64bits(x):
    return '%016x' % struct.unpack('<Q', struct.pack('<d', x))[0]


RATES = {'0': f64bits(0.0), '0.1': f64bits(0.1), '0.5': f64bits(0.5), '1': f64bits(1.0),
         'nan': '7ff8000000000000', '-1': f64bits(-1.0), '2': f64bits(2.0), '-0': '8000000000000000'}
SAFE_MUTS = ['bitflip', 'boundary', 'offbyone', 'stringlen', 'character', 'memoindex:0', 'typeconf:0']
UNSAFE_MUTS = ['memoindex:1', 'typeconf:1']


def spec(id_, v, mn, mx, rate, unsafe, ext, buf, muts, src, extra=''):
    return 'id=%s v=%d min=%d max=%d rate=%s unsafe=%d ext=%d buf=%d muts=%s src=%s%s' % (
        id_, v, mn, mx, rate, unsafe, ext, buf, ','.join(muts) if muts else '-', src, extra)


def rand_bytes(rng, maxlen):
    style = rng.below(6)
    n = rng.below(maxlen + 1)
    if style == 0:
        return bytes(n)
    if style == 1:
        return b'\xff' * n
    if style == 2:       # long runs
        out = bytearray()
        while len(out) < n:
            out += bytes([rng.below(256)]) * (1 + rng.below(40))
        return bytes(out[:n])
    if style == 3:       # small values: keeps choice indices low -> value opcodes, marks
        return bytes(rng.below(32) for _ in range(n))
    return rng.bytes(n)


def gen_cases(seed, tier, unsafe_share=True):
    """structured, mostly default-like configurations + a separate odd stream"""
    rng = SplitMix64(seed)
    cases = []
    n_main = 1400 if tier == 'quick' else 12000
    ranges = [(60, 300), (20, 40), (5, 9), (1, 1), (0, 0), (5, 3), (3, 5), (100, 101), (200, 400)]
    big = [(1000, 1001), (3000, 3001)] if tier == 'quick' else [(1000, 1001), (6000, 6001), (30000, 30001)]
    k = 0
    for i in range(n_main):
        v = i % 6
        mn, mx = rng.choice(ranges)
        if rng.below(50) == 0:
            mn, mx = rng.choice(big)
        r = rng.below(10)
        if r < 3:
            muts = []
        elif r < 6:
            muts = [rng.choice(SAFE_MUTS)]
        elif r < 8:
            muts = [m for m in SAFE_MUTS if rng.below(2)]
        else:
            muts = list(SAFE_MUTS)
            # order matters (first applicable wins): shuffle
            for j in range(len(muts) - 1, 0, -1):
                t = rng.below(j + 1)
                muts[j], muts[t] = muts[t], muts[j]
        unsafe = 0
        if unsafe_share and rng.below(5) == 0:
            unsafe = 1 if rng.below(2) else 0
            muts = muts + [rng.choice(UNSAFE_MUTS)] + ([rng.choice(UNSAFE_MUTS)] if rng.below(2) else [])
        rate = RATES[rng.choice(['0.1', '0.5', '1', '1', '0', 'nan', '-1', '2', '-0'])] if muts else RATES['0.1']
        ext, buf = int(rng.below(3) == 0), int(rng.below(3) == 0)
        if rng.below(2):
            src = 'seed:%d' % rng.below(1 << 32)
        else:
            src = 'bytes:' + (rand_bytes(rng, 4096 if mx >= 60 else 600).hex() or '-')
        cases.append(spec('g%d' % k, v, mn, mx, rate, unsafe, ext, buf, muts, src))
        k += 1
    # exhaustive short fuzzer inputs, every protocol
    lens = [0, 1] if tier == 'quick' else [0, 1, 2]
    for v in range(6):
        for L in lens:
            for x in range(256 ** L):
                data = x.to_bytes(L, 'big') if L else b''
                if L == 2 and tier == 'quick':
                    continue
                cases.append(spec('x%d' % k, v, 3, 6, RATES['1'], 0, 1, 1, ['boundary', 'stringlen', 'offbyone'],
                                  'bytes:' + (data.hex() or '-')))
                k += 1
    # memo-heavy: long runs at protocol 1/2/4 so that the memo exceeds 255 entries
    for i in range(12 if tier == 'quick' else 60):
        v = [1, 2, 4, 0, 5, 3][i % 6]
        cases.append(spec('m%d' % k, v, 2500, 2501, RATES['1'], 0, 0, 0, ['offbyone', 'memoindex:0'],
                          'seed:%d' % rng.below(1 << 32)))
        k += 1
    return cases


# ----------------------------------------------------------------------------- suite S1
def run_s1(seed, tier, log):
    """returns dict(ok, diffs, props, stats, ncases); cached per (repo tree, model, seed, tier)"""
    key = hashlib.sha256(('%s|%s|%d|%s|s1' % (repo_hash(), model_hash(), seed, tier)).encode()).hexdigest()[:24]
    d = os.path.join(CACHE, key)
    res_path = os.path.join(d, 's1.json')
    if os.path.exists(res_path):
        log('S1: cached result %s' % key)
        return json.load(open(res_path))
    os.makedirs(d, exist_ok=True)
    corpus = []
    cdir = os.path.join(VERIF, 'corpus')
    for f in sorted(os.listdir(cdir)) if os.path.isdir(cdir) else []:
        if f.endswith('.cases'):
            corpus += [l.strip() for l in open(os.path.join(cdir, f)) if l.strip() and not l.startswith('#')]
    cases = corpus + gen_cases(seed, tier)
    cpath = os.path.join(d, 'cases.txt')
    with open(cpath, 'w') as f:
        f.write('\n'.join(cases) + '\n')
    t0 = time.time()
    tpath = os.path.join(d, 'trace.txt')
    with open(tpath, 'w') as f:
        p = subprocess.run([HBIN, 'trace', cpath, '16'], stdout=f, stderr=subprocess.PIPE, env=ENV, timeout=3000)
    if p.returncode != 0:
        raise Infra('harness trace failed: %s' % p.stderr.decode()[-2000:])
    log('S1: harness ran %d cases in %.1fs' % (len(cases), time.time() - t0))
    t0 = time.time()
    # shard the trace over 16 driver processes
    shards = shard_trace(tpath, 16)
    procs = [subprocess.Popen([DRIVER, 's1', s], stdout=subprocess.PIPE, stderr=subprocess.STDOUT, text=True) for s in shards]
    outs = [p.communicate(timeout=3000)[0] for p in procs]
    for p, o in zip(procs, outs):
        if p.returncode != 0:
            raise Infra('driver failed: %s' % o[-2000:])
    log('S1: model checked the traces in %.1fs' % (time.time() - t0))
    res = parse_verdicts('\n'.join(outs))
    res['ncases'] = len(cases)
    res['cases_path'] = cpath
    res['key'] = key
    res['specs'] = {c.split()[0][3:]: c for c in cases}
    for s in shards:
        os.remove(s)
    os.remove(tpath)
    json.dump(res, open(res_path, 'w'))
    prune_cache()
    return res


def shard_trace(tpath, n):
    outs = [open('%s.%d' % (tpath, i), 'w') for i in range(n)]
    i = 0
    with open(tpath) as f:
        for line in f:
            outs[i % n].write(line)
            if line.startswith('END'):
                i += 1
    for o in outs:
        o.close()
    return ['%s.%d' % (tpath, i) for i in range(n)]


def parse_verdicts(text):
    ok, diffs, props, stats = [], [], [], {}
    for l in text.splitlines():
        w = l.split(' ', 3)
        if w[0] == 'OK':
            ok.append(w[1])
        elif w[0] == 'DIFF':
            diffs.append({'id': w[1], 'step': w[2], 'what': w[3] if len(w) > 3 else ''})
        elif w[0] == 'PROP':
            rest = l.split(' ', 4)
            props.append({'id': rest[1], 'prop': rest[2], 'detail': rest[4] if len(rest) > 4 else ''})
        elif w[0] == 'STAT':
            stats[w[1]] = dict(x.split('=') for x in l.split()[2:])
    return {'ok': ok, 'diffs': diffs, 'props': props, 'stats': stats}


def prune_cache(keep=6):
    if not os.path.isdir(CACHE):
        return
    ds = sorted((os.path.getmtime(os.path.join(CACHE, x)), x) for x in os.listdir(CACHE))
    for _, x in ds[:-keep]:
        shutil.rmtree(os.path.join(CACHE, x), ignore_errors=True)
