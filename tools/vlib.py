"""Shared machinery of the /verif checks: build steps, case generation, suites, evidence."""
from concurrent.futures import ThreadPoolExecutor
import fcntl, hashlib, json, os, re, shutil, struct, subprocess, sys, time

VERIF = os.path.dirname(os.path.dirname(os.path.abspath(__file__)))
REPO = os.environ.get('VERIF_REPO', '/repo')
COQ = os.path.join(VERIF, 'coq')
OCAML = os.path.join(VERIF, 'ocaml')
HARNESS = os.path.join(VERIF, 'harness')
BUILD = os.path.join(VERIF, '.build')
CACHE = os.path.join(VERIF, '.cache')
TARGET = os.path.join(BUILD, 'target')
HBIN = os.path.join(TARGET, 'release', 'pf-harness')
DRIVER = os.path.join(OCAML, 'driver')
ENV = dict(os.environ, CARGO_NET_OFFLINE='true', CARGO_TARGET_DIR=TARGET)

FORBIDDEN = re.compile(r'\b(Admitted|admit|Axiom|Axioms|Parameter|Parameters|Conjecture|Conjectures|'
                       r'Hypothesis|Variable|Unset\s+Guard|bypass_check|Admit\s+Obligations|'
                       r'type-in-type|impredicative-set|Unset\s+Universe|Unset\s+Positivity)\b')
# every property theorem is closed under the global context, except C15_gate_ieee and C18_f64_ieee (the gate's comparison and
# the PRNG's f64 against Flocq's IEEE-754 formalisation), which rest on the standard library's axioms of the real numbers and classical logic:
ALLOWED_AXIOMS = {'ClassicalDedekindReals.sig_not_dec', 'ClassicalDedekindReals.sig_forall_dec',
                  'FunctionalExtensionality.functional_extensionality_dep', 'Classical_Prop.classic'}
AXIOM_USERS = {'C15': {'C15_gate_ieee', 'C15_draw_exact', 'C15_draw_exact_prng'}, 'C18': {'C18_f64_ieee'}}     # which property files may show them at all


class Broken(Exception):
    """a proof obligation / translator / correspondence no longer checks"""
    def __init__(self, what, detail=''):
        super().__init__(what)
        self.what, self.detail = what, detail


class Infra(Exception):
    """tooling failure unrelated to the property (exit 2, no VIOLATION line)"""


def sh(cmd, cwd=None, timeout=1800, env=None, check=False):
    p = subprocess.run(cmd, cwd=cwd, env=env or ENV, stdout=subprocess.PIPE, stderr=subprocess.STDOUT,
                       timeout=timeout, text=True, shell=isinstance(cmd, str))
    if check and p.returncode != 0:
        raise Infra('command failed: %s\n%s' % (cmd, p.stdout[-3000:]))
    return p.returncode, p.stdout


class Lock:
    def __enter__(self):
        os.makedirs(BUILD, exist_ok=True)
        self.f = open(os.path.join(BUILD, 'lock'), 'w')
        fcntl.flock(self.f, fcntl.LOCK_EX)
        return self

    def __exit__(self, *a):
        fcntl.flock(self.f, fcntl.LOCK_UN)
        self.f.close()


def file_hash(paths):
    h = hashlib.sha256()
    for p in sorted(paths):
        h.update(p.encode())
        try:
            with open(p, 'rb') as f:
                h.update(f.read())
        except OSError:
            h.update(b'<missing>')
    return h.hexdigest()


def tree_files(root, subs, exts=None):
    out = []
    for s in subs:
        p = os.path.join(root, s)
        if os.path.isfile(p):
            out.append(p)
        for d, dirs, files in os.walk(p):
            dirs[:] = [x for x in dirs if x not in ('target', '.git', '__pycache__', '_build')]
            for f in files:
                if exts is None or os.path.splitext(f)[1] in exts:
                    out.append(os.path.join(d, f))
    return out


def repo_hash():
    return file_hash(tree_files(REPO, ['src', 'data', 'scripts', 'python', 'Cargo.toml', 'Cargo.lock']))


def model_hash():
    fs = tree_files(COQ, ['.'], {'.v'}) + tree_files(OCAML, ['driver.ml', 'glue.ml']) + tree_files(HARNESS, ['src', 'Cargo.toml']) \
        + tree_files(os.path.join(VERIF, 'tools'), ['.'], {'.py'})
    return file_hash([f for f in fs if '/gen/' not in f])


# ----------------------------------------------------------------------------- Coq
def coq_scan():
    """forbidden-word scan over the whole development (comments stripped)"""
    bad = []
    for f in tree_files(COQ, ['.'], {'.v'}):
        src = open(f).read()
        src = re.sub(r'"(?:[^"]|"")*"', '""', src)      # string literals (the embedded name table) are data, not vernacular
        src = re.sub(r'\(\*.*?\*\)', ' ', src, flags=re.S)
        for m in FORBIDDEN.finditer(src):
            w = m.group(1)
            # `Variable(s)`/`Hypothesis` are allowed inside Sections only
            if w in ('Variable', 'Hypothesis'):
                before = src[:m.start()]
                if before.count('\nSection ') + before.count('Section ') > before.count('\nEnd '):
                    continue
            bad.append('%s: %s' % (os.path.relpath(f, COQ), w))
    return bad


def regenerate():
    rc, out = sh([sys.executable, os.path.join(VERIF, 'tools', 'gen_src.py'), REPO, os.path.join(COQ, 'gen')])
    if rc not in (0, 3):
        raise Infra('translator crashed:\n' + out)
    if rc == 3:
        return out.strip()
    return None


def regenerate_mut():
    """tools/gen_mut.py: the numeric mutators -> coq/gen/SrcMutFns.v; returns None, or what could not be translated"""
    rc, out = sh([sys.executable, os.path.join(VERIF, 'tools', 'gen_mut.py'), REPO, os.path.join(COQ, 'gen')])
    if rc not in (0, 3):
        raise Infra('gen_mut crashed:\n' + out)
    return out.strip() if rc == 3 else None


def regenerate_drv():
    """tools/gen_drv.py: the driver's decisions (generate_internal, cleanup_for_stop) -> coq/gen/SrcDrv.v; None, or what could not be translated"""
    rc, out = sh([sys.executable, os.path.join(VERIF, 'tools', 'gen_drv.py'), REPO, os.path.join(COQ, 'gen')])
    if rc not in (0, 3):
        raise Infra('gen_drv crashed:\n' + out)
    return out.strip() if rc == 3 else None


def regenerate_utils():
    """tools/gen_utils.py: the stack helpers of utils.rs -> coq/gen/SrcUtils.v; None, or what could not be translated"""
    rc, out = sh([sys.executable, os.path.join(VERIF, 'tools', 'gen_utils.py'), REPO, os.path.join(COQ, 'gen')])
    if rc not in (0, 3):
        raise Infra('gen_utils crashed:\n' + out)
    return out.strip() if rc == 3 else None


def coq_make(target=None, timeout=1500):
    if not os.path.exists(os.path.join(COQ, 'Makefile')):
        sh('coq_makefile -f _CoqProject -o Makefile', cwd=COQ, check=True)
    cmd = 'timeout %d make -j16 %s' % (timeout, target or '')
    rc, out = sh(cmd, cwd=COQ, timeout=timeout + 60)
    return rc, out


def coq_errors(out):
    """(file, message) of the first Coq error in make output"""
    m = re.search(r'File "([^"]+)", line (\d+).*?\n(Error:.*?)(?:\n\n|\nmake|\Z)', out, re.S)
    if m:
        return os.path.basename(m.group(1)), 'line %s: %s' % (m.group(2), ' '.join(m.group(3).split())[:400])
    return '?', out[-600:]


def print_assumptions(prop):
    """re-run coqc on the property file; return (ok, text, theorems, axioms)"""
    pf = os.path.join(COQ, 'Properties', prop + '.v')
    if not os.path.exists(pf):
        return False, 'no property file', [], []
    rc, out = sh('timeout 600 coqc -Q . PF -w -notation-overridden Properties/%s.v' % prop, cwd=COQ, timeout=700)
    src = open(pf).read()
    thms = re.findall(r'^(?:Theorem|Lemma|Corollary|Example)\s+(\w+)', src, re.M)
    axioms = []
    for blk in re.findall(r'Axioms:\n((?:.+\n?)+?)(?:\n|\Z)', out):
        for ln in blk.splitlines():
            # an axiom's name starts its line; its (possibly multi-line) type is indented
            m = re.match(r"([A-Za-z_][\w.']*)", ln)
            if m and m.group(1) not in ('Axioms', 'Closed'):
                axioms.append(m.group(1))
    axioms = sorted(set(axioms))
    if axioms and prop not in AXIOM_USERS:
        axioms = ['(unexpected in %s) %s' % (prop, a) for a in axioms]
    closed = out.count('Closed under the global context')
    return rc == 0, out, thms, axioms, closed


# ----------------------------------------------------------------------------- builds
def build_model_tools():
    """extraction + OCaml driver (rebuilt when the model changed)"""
    stamp = os.path.join(BUILD, 'driver.stamp')
    key = model_hash()
    if os.path.exists(stamp) and open(stamp).read() == key and os.path.exists(DRIVER):
        return
    rc, out = sh('timeout 600 coqc -Q ../coq PF -w -notation-overridden ../coq/Extract.v', cwd=OCAML, timeout=700)
    if rc != 0:
        raise Broken('extraction', out[-800:])
    rc, out = sh('ocamlfind ocamlopt -O2 -w -a model.mli model.ml glue.ml driver.ml -o driver', cwd=OCAML, timeout=600)
    if rc != 0:
        raise Infra('ocaml build failed:\n' + out[-2000:])
    with open(stamp, 'w') as f:
        f.write(key)


def build_harness():
    lock_src = os.path.join(REPO, 'Cargo.lock')
    lock_dst = os.path.join(HARNESS, 'Cargo.lock')
    if not os.path.exists(lock_dst) or open(lock_src).read() != open(lock_dst).read():
        shutil.copy(lock_src, lock_dst)
    rc, out = sh('cargo build --offline --release', cwd=HARNESS, timeout=1500)
    if rc != 0:
        # the hooks that call crate-internal functions no longer compile (one of those functions was renamed or changed its
        # signature): build with the trace recorder only - S1 / S2 / S5 / S6 / S7 / c07 still tie the model to this source;
        # S8, the dispatch part of S3, steering and deeppath cannot run and are reported as degraded
        rc2, out2 = sh('cargo build --offline --release --no-default-features', cwd=HARNESS, timeout=1500)
        if rc2 != 0:
            # /repo does not compile with the hooks on: nothing can be checked
            raise Infra('harness build failed (does /repo compile?):\n' + out[-3000:])


def hooks_ext():
    """were the extension hooks (dispatch, hand-built states, single emissions) compiled into the harness?"""
    p = subprocess.run([HBIN, 'hooks'], stdout=subprocess.PIPE, stderr=subprocess.PIPE, text=True, env=ENV)
    return p.stdout.strip() == 'ext'


def degraded_result(name, why):
    return dict(ok=[], diffs=[], props=[], stats={}, ncases=0, okn=0, nops=0, specs={}, samples=[], degraded=why)


# ----------------------------------------------------------------------------- PRNG for case generation
class SplitMix64:
    def __init__(self, seed):
        self.s = seed & 0xFFFFFFFFFFFFFFFF

    def next(self):
        self.s = (self.s + 0x9E3779B97F4A7C15) & 0xFFFFFFFFFFFFFFFF
        z = self.s
        z = ((z ^ (z >> 30)) * 0xBF58476D1CE4E5B9) & 0xFFFFFFFFFFFFFFFF
        z = ((z ^ (z >> 27)) * 0x94D049BB133111EB) & 0xFFFFFFFFFFFFFFFF
        return z ^ (z >> 31)

    def below(self, n):
        return self.next() % n

    def choice(self, l):
        return l[self.below(len(l))]

    def bytes(self, n):
        out = bytearray()
        while len(out) < n:
            out += struct.pack('<Q', self.next())
        return bytes(out[:n])


def f64bits(x):
    return '%016x' % struct.unpack('<Q', struct.pack('<d', x))[0]


RATES = {'0': f64bits(0.0), '0.1': f64bits(0.1), '0.5': f64bits(0.5), '1': f64bits(1.0),
         'nan': '7ff8000000000000', '-1': f64bits(-1.0), '2': f64bits(2.0), '-0': '8000000000000000'}
SAFE_MUTS = ['bitflip', 'boundary', 'offbyone', 'stringlen', 'character', 'memoindex:0', 'typeconf:0']
UNSAFE_MUTS = ['memoindex:1', 'typeconf:1']


def spec(id_, v, mn, mx, rate, unsafe, ext, buf, muts, src, extra=''):
    return 'id=%s v=%d min=%d max=%d rate=%s unsafe=%d ext=%d buf=%d muts=%s src=%s%s' % (
        id_, v, mn, mx, rate, unsafe, ext, buf, ','.join(muts) if muts else '-', src, extra)


def rand_bytes(rng, maxlen):
    style = rng.below(6)
    n = rng.below(maxlen + 1)
    if style == 0:
        return bytes(n)
    if style == 1:
        return b'\xff' * n
    if style == 2:       # long runs
        out = bytearray()
        while len(out) < n:
            out += bytes([rng.below(256)]) * (1 + rng.below(40))
        return bytes(out[:n])
    if style == 3:       # small values: keeps choice indices low -> value opcodes, marks
        return bytes(rng.below(32) for _ in range(n))
    return rng.bytes(n)


def gen_cases(seed, tier, unsafe_share=True):
    """structured, mostly default-like configurations + a separate odd stream"""
    rng = SplitMix64(seed)
    cases = []
    n_main = 1400 if tier == 'quick' else 12000
    ranges = [(60, 300), (20, 40), (5, 9), (1, 1), (0, 0), (5, 3), (3, 5), (100, 101), (200, 400)]
    # the trace of a long run grows quadratically (every step lists the simulated stack and memo): a 30 000-opcode seeded run
    # writes gigabytes, so the thorough tier stops at 6 000 (about 1 in 100 cases); the deep-stack witnesses of the corpus
    # (30 000 integers on exhausted bytes: no memo) and suite s9 cover the very long ones
    big = [(1000, 1001), (3000, 3001)] if tier == 'quick' else [(1000, 1001), (3000, 3001), (6000, 6001)]
    k = 0
    for i in range(n_main):
        v = i % 6
        mn, mx = rng.choice(ranges)
        if rng.below(50 if tier == 'quick' else 100) == 0:
            mn, mx = rng.choice(big)
        r = rng.below(10)
        if r < 3:
            muts = []
        elif r < 6:
            muts = [rng.choice(SAFE_MUTS)]
        elif r < 8:
            muts = [m for m in SAFE_MUTS if rng.below(2)]
        else:
            muts = list(SAFE_MUTS)
            # order matters (first applicable wins): shuffle
            for j in range(len(muts) - 1, 0, -1):
                t = rng.below(j + 1)
                muts[j], muts[t] = muts[t], muts[j]
        unsafe = 0
        if unsafe_share and rng.below(5) == 0:
            unsafe = 1 if rng.below(2) else 0
            muts = muts + [rng.choice(UNSAFE_MUTS)] + ([rng.choice(UNSAFE_MUTS)] if rng.below(2) else [])
        rate = RATES[rng.choice(['0.1', '0.5', '1', '1', '0', 'nan', '-1', '2', '-0'])] if muts else RATES['0.1']
        ext, buf = int(rng.below(3) == 0), int(rng.below(3) == 0)
        if rng.below(2):
            # seeds over the whole u64 range (a seed is not an index: nothing may truncate it)
            src = 'seed:%d' % (rng.below(1 << 32) if rng.below(3) else rng.choice([rng.below(1 << 64), (1 << 64) - 1 - rng.below(1000), (1 << 32) + rng.below(1000), 1 << 63]))
        else:
            src = 'bytes:' + (rand_bytes(rng, 4096 if mx >= 60 else 600).hex() or '-')
        # knobs the output must not depend on: with_buffer_size (read by nothing), the other spelling of the builder calls
        extra = ''
        if rng.below(3) == 0:
            extra += ' bufsz=%d' % rng.choice([0, 1, 16, 48, 64, 512, 4096, 1 << 20])
        api_draw = rng.below(4)
        if api_draw == 0:
            extra += ' api=1'
        elif api_draw == 1 and k % 2:
            # every builder called twice, first with other values: the LAST call must win (no appended `rng` draw: api_draw is
            # the draw that was there before)
            extra += ' api=2'
        cases.append(spec('g%d' % k, v, mn, mx, rate, unsafe, ext, buf, muts, src, extra))
        k += 1
    # a used generator: the same kind of case after earlier (unrecorded) calls on the same object - every suite that reads the
    # trace (candidate sets, simulated state against the reference machine, oracles) must see what a fresh generator shows
    nwarm = 150 if tier == 'quick' else 1200
    for i in range(nwarm):
        v = i % 6
        mn, mx = rng.choice([(60, 300), (20, 40), (5, 9), (100, 101)])
        muts = [] if rng.below(2) else [m for m in SAFE_MUTS if rng.below(3) == 0]
        src = 'seed:%d' % rng.below(1 << 32) if rng.below(2) else 'bytes:' + (rand_bytes(rng, 600).hex() or '-')
        pre = rng.choice([['seed:%d' % rng.below(1 << 32)], ['bytes:' + (rand_bytes(rng, 300).hex() or '-')],
                          ['seed:%d' % rng.below(1 << 32), 'r'], ['seed:%d' % rng.below(1 << 32), 'bytes:' + (rand_bytes(rng, 200).hex() or '-')], [src]])
        cases.append(spec('u%d' % k, v, mn, mx, RATES['0.5'], 0, int(rng.below(4) == 0), int(rng.below(4) == 0), muts, src) + ' pre=' + '+'.join(pre))
        k += 1
    # exhaustive short fuzzer inputs, every protocol
    lens = [0, 1] if tier == 'quick' else [0, 1, 2]
    for v in range(6):
        for L in lens:
            for x in range(256 ** L):
                data = x.to_bytes(L, 'big') if L else b''
                if L == 2 and tier == 'quick':
                    continue
                cases.append(spec('x%d' % k, v, 3, 6, RATES['1'], 0, 1, 1, ['boundary', 'stringlen', 'offbyone'],
                                  'bytes:' + (data.hex() or '-')))
                k += 1
    # directed: with range (1,1) the first choice byte selects the opcode (one byte per choice among
    # <= 256 candidates; protocols >= 4 draw the FRAME coin first), the following bytes are the
    # emitter's draws: boundary patterns for every argument encoder, with and without mutators
    pats = ['', 'ff' * 40, '00' * 40, 'ffffff7f' + '00' * 12, '00000080' + 'ff' * 12, 'feffffff' * 4, 'ffffffff' + '7f' * 12,
            '1f' + '5c' * 40, '1f' + '0a' * 40, '1f' + '27' * 40, '1f' + '41' * 40, '9f' + 'e5' * 60]
    for v in range(6):
        for ch in range(72):
            for pi, pat in enumerate(pats):
                if tier == 'quick' and (ch + pi + v) % 3 != 0:
                    continue
                for fb in (['00', '01'] if v >= 4 else ['']):
                    muts = [] if pi % 2 == 0 else ['character', 'stringlen', 'boundary']
                    cases.append(spec('d%d' % k, v, 1, 1, RATES['1'], 0, 1, 1, muts, 'bytes:' + fb + '%02x' % ch + pat))
                    k += 1
    # memo-heavy: long runs at protocol 1/2/4 so that the memo exceeds 255 entries
    for i in range(12 if tier == 'quick' else 60):
        v = [1, 2, 4, 0, 5, 3][i % 6]
        cases.append(spec('m%d' % k, v, 2500, 2501, RATES['1'], 0, 0, 0, ['offbyone', 'memoindex:0'],
                          'seed:%d' % rng.below(1 << 32)))
        k += 1
    # rates just inside the ends of [0, 1] (C09 / C15 speak of every rate): a percentage, a byte or a ratio computed from the
    # rate truncates to 0 or to the whole range only here; both entropy modes, every protocol
    edge_rates = [0.001, 1 / 255, 2 / 255, 0.0099999, 0.01, 5e-324, 1e-300, 0.99, 0.999999999, 1 - 2 ** -53]
    for i, r in enumerate(edge_rates if tier == 'quick' else edge_rates + [1e-9, 0.005, 0.0039, 0.996, 1e-17, 2 ** -53]):
        for v in range(6):
            for mode in (0, 1):
                src = 'seed:%d' % rng.below(1 << 32) if mode else 'bytes:' + (rand_bytes(rng, 200).hex() or '-')
                muts = SAFE_MUTS if (i + v) % 3 else SAFE_MUTS[:5] + UNSAFE_MUTS
                cases.append(spec('t%d' % k, v, 20, 40, f64bits(r), int((i + v) % 3 == 0), 0, 0, list(muts), src))
                k += 1
    return cases


def run_big(seed, tier, log):
    """LARGE outputs (protocols 2 .. 5, with and without FRAME): beyond 64 KiB - where CPython's own pickler starts a new frame
    and lengths stop fitting two bytes - the one FRAME must still cover everything up to STOP and the opcode count must stay
    within the knobs.  Run without tracing (a trace of 9 000 steps is quadratic in the stack depth) and judged by all
    single-output oracles of the extracted model, one driver process per case."""
    key = hashlib.sha256(('%s|%s|%d|%s|big' % (repo_hash(), model_hash(), seed, tier)).encode()).hexdigest()[:24]
    d = os.path.join(CACHE, key)
    res_path = os.path.join(d, 'big.json')
    if os.path.exists(res_path):
        log('big: cached result %s' % key)
        return json.load(open(res_path))
    t0 = time.time()
    os.makedirs(d, exist_ok=True)
    cases = []
    for i in range(6 if tier == 'quick' else 24):
        v = (4, 5, 4, 5, 2, 3)[i % 6]
        n_ = 9000 if i % 6 < 4 else 8000
        muts = [] if i % 3 else list(SAFE_MUTS[:5])
        cases.append(spec('w.big%d' % i, v, n_, n_, RATES['0.1'], 0, 0, 0, muts, 'seed:%d' % (seed - 1 + i // 2)))
    out = library_bytes(cases)
    props, framed, sizes = [], 0, []
    blocks = out.split('CASE ')[1:]
    procs = []
    tmp = os.path.join(BUILD, 'bigtmp')
    shutil.rmtree(tmp, ignore_errors=True)
    os.makedirs(tmp)
    for bi, b in enumerate(blocks):
        tp = os.path.join(tmp, 'b%d.txt' % bi)
        open(tp, 'w').write('CASE ' + b)
        m = re.search(r'RESULT ok (\S+)', b)
        if m and m.group(1) != '-':
            raw = bytes.fromhex(m.group(1))
            sizes.append(len(raw))
            framed += int(len(raw) > 2 and raw[2] == 0x95)
        procs.append(subprocess.Popen([DRIVER, 'oracles', tp], stdout=subprocess.PIPE, stderr=subprocess.STDOUT, text=True, env=ENV))
    for p in procs:
        o, _ = p.communicate(timeout=3000)
        props += parse_verdicts(o)['props']
        if p.returncode != 0:
            raise Infra('driver oracles failed on a large output: ' + o[-500:])
    for l in [l for l in out.splitlines() if l.startswith('RESULT hang') or l.startswith('RESULT panic')]:
        props.append({'id': 'w.big', 'prop': 'C09', 'detail': 'large output: ' + l[:200]})
    shutil.rmtree(tmp, ignore_errors=True)
    res = dict(ok=[], diffs=[], props=props, stats={}, ncases=len(cases), okn=len(cases) - len(set(p['id'] for p in props)), nops=len(cases),
               specs={re.search(r'\bid=(\S+)', c).group(1): c for c in cases}, samples=[cases[0]], sizes=sizes, framed=framed)
    json.dump(res, open(res_path, 'w'))
    log('big: %d large outputs (%d .. %d bytes, %d framed), %d oracle failures, %.1fs' % (len(cases), min(sizes or [0]), max(sizes or [0]), framed, len(props), time.time() - t0))
    return res


# ----------------------------------------------------------------------------- suites S1 + S2
def corpus_cases():
    corpus = []
    cdir = os.path.join(VERIF, 'corpus')
    for f in sorted(os.listdir(cdir)) if os.path.isdir(cdir) else []:
        if f.endswith('.cases'):
            corpus += [l.strip() for l in open(os.path.join(cdir, f)) if l.strip() and not l.startswith('#')]
    return corpus


def generated_paths():
    """systematic directed paths written at check time: every integer encoder (the variant index is the first draw byte of an
    integer emission) on a structured value set: 0, +-2^k, +-2^k - 1, +-2^k + 1 for k < 32 as 32-bit two's complement - the sign and
    length boundaries of INT / BININT1 / BININT2 / BININT / LONG / LONG1 / LONG4; then floats and EXT codes at their edges"""
    vals = {0}
    for k in range(32):
        for d in (-1, 0, 1):
            for sg in (1, -1):
                x = sg * (1 << k) + d
                if -2**31 <= x < 2**31:
                    vals.add(x)
    vals = sorted(vals)
    lines = []
    for v in range(6):
        nvar = 2 if v == 0 else 5 if v == 1 else 7
        items = ['INT:%02x%s' % (i, (x & 0xFFFFFFFF).to_bytes(4, 'little').hex()) for i in range(nvar) for x in vals]
        for c in range(0, len(items), 120):
            chunk = items[c:c + 120]
            # POP keeps the stack shallow so that the tail stays short; MARK ... makes an under-run visible
            lines.append('v=%d path=%s' % (v, ';'.join(chunk)))
    fl = ['0000000000000000', '000000000000f03f', '000000000000f07f', '000000000000f0ff', '000000000000f87f', '0100000000000000',
          'ffffffffffffef7f', '0000000000000080', '182d4454fb210940', '9a9999999999b93f', '000000000000e0c3', '0000000000004043']
    for v in range(6):
        lines.append('v=%d path=%s' % (v, ';'.join(['FLOAT:' + x for x in fl] + (['BINFLOAT:' + x for x in fl] if v >= 1 else []))))
    # aliasing: every way of getting a second handle on a container (DUP, each PUT/GET pair, MEMOIZE), then every in-place
    # mutation through one handle while the other is alive (S7 compares Rc identities step by step with Heap.v)
    pairs = {0: [('PUT', 'GET')], 1: [('PUT', 'GET'), ('BINPUT', 'BINGET'), ('LONG_BINPUT', 'LONG_BINGET'), ('BINPUT', 'LONG_BINGET'), ('LONG_BINPUT', 'GET')]}
    for v in (2, 3):
        pairs[v] = pairs[1]
    for v in (4, 5):
        pairs[v] = pairs[1] + [('MEMOIZE', 'BINGET'), ('MEMOIZE', 'LONG_BINGET'), ('MEMOIZE', 'GET')]
    for v in range(6):
        al = []
        for (pu, ge) in pairs[v]:
            al += ['EMPTY_LIST;%s;%s;%s;APPEND' % (pu, ge, ge), 'EMPTY_LIST;DUP;%s;APPEND' % pu, 'EMPTY_LIST;%s;DUP;APPEND;%s;APPEND' % (pu, ge),
                   'EMPTY_LIST;%s;%s;APPEND;%s;APPEND' % (pu, ge, ge), 'EMPTY_DICT;%s;NONE;%s;SETITEM' % (pu, ge),
                   'EMPTY_DICT;%s;%s;NONE;SETITEM;%s;NONE;SETITEM' % (pu, ge, ge), 'EMPTY_LIST;%s;MARK;%s;%s;APPENDS' % (pu, ge, ge),
                   'EMPTY_LIST;%s;EMPTY_TUPLE;%s;TUPLE2;APPEND' % (pu, ge), 'EMPTY_LIST;%s;MARK;%s;TUPLE;APPEND' % (pu, ge)]
            if v >= 4:
                al += ['EMPTY_SET;%s;MARK;%s;ADDITEMS' % (pu, ge), 'EMPTY_SET;DUP;%s;MARK;NONE;ADDITEMS' % pu]
        # self-insertion into containers that are ALREADY non-empty (built from items above a MARK, or filled earlier), directly
        # and wrapped in a tuple: the cycle must be freed whatever the container held before
        al += ['MARK;NONE;LIST;DUP;APPEND', 'MARK;NONE;NONE;DICT;DUP;NONE;SETITEM', 'MARK;NONE;LIST;DUP;DUP;APPEND;APPEND']
        if v >= 1:
            al += ['EMPTY_LIST;NONE;APPEND;DUP;APPEND', 'EMPTY_DICT;NONE;NONE;SETITEM;DUP;NONE;SETITEM', 'EMPTY_LIST;MARK;NONE;NONE;APPENDS;DUP;APPEND',
                   'MARK;NONE;LIST;BINPUT;DUP;APPEND;BINGET;DUP;APPEND']
        if v >= 2:
            al += ['EMPTY_LIST;NONE;APPEND;DUP;TUPLE1;APPEND', 'MARK;NONE;LIST;DUP;TUPLE1;TUPLE1;APPEND', 'EMPTY_DICT;NONE;NONE;SETITEM;DUP;TUPLE1;NONE;SETITEM',
                   'GLOBAL;EMPTY_TUPLE;REDUCE;NONE;TUPLE1;BUILD;DUP;TUPLE1;BUILD']
        # BUILD with a state that holds a COPY of the instance (a memo copy shares the instance's state cell): whatever BUILD does
        # to the old state - replace it, merge into it, keep it - a cycle through the shared cell must still be released
        for (pu, ge) in pairs[v]:
            al += ['GLOBAL;EMPTY_TUPLE;REDUCE;EMPTY_DICT;BUILD;%s;EMPTY_DICT;NONE;%s;SETITEM;BUILD' % (pu, ge),
                   'GLOBAL;EMPTY_TUPLE;REDUCE;EMPTY_DICT;NONE;NONE;SETITEM;BUILD;%s;EMPTY_DICT;NONE;%s;SETITEM;BUILD;EMPTY_DICT;BUILD;NONE' % (pu, ge),
                   'GLOBAL;EMPTY_TUPLE;REDUCE;EMPTY_DICT;BUILD;%s;POP;EMPTY_DICT;NONE;%s;SETITEM;%s;POP;NONE' % (pu, ge, ge)]
            if v >= 2:
                al += ['GLOBAL;EMPTY_TUPLE;REDUCE;EMPTY_DICT;BUILD;%s;%s;TUPLE1;BUILD' % (pu, ge),
                       'GLOBAL;EMPTY_TUPLE;REDUCE;EMPTY_DICT;BUILD;%s;EMPTY_DICT;%s;TUPLE1;NONE;SETITEM;BUILD' % (pu, ge)]
        # more than 1 024 memo definitions in ONE pickle (the powers of two where a table, an index width or a cap may change)
        if v in (0, 2, 4):
            putop = 'PUT' if v == 0 else 'LONG_BINPUT' if v == 2 else 'MEMOIZE'
            al += ['NONE;%s*1030;%s;%s;POP;NONE' % (putop, 'PUT', 'GET')]
        # GARBAGE cycles amid volume: a cycle whose only owners are its own cells (popped off the stack at once), before, between
        # and after many more in-place modifications of other containers - whatever book-keeping the release of cycles rests on
        # (a registry that is pruned, compacted, capped or re-hashed as it grows) meets it here; S7 requires 0 bytes live after drop
        mod = 'EMPTY_LIST;NONE;APPEND;POP'
        for nmod in (15, 33, 130):
            for cyc in ['EMPTY_LIST;DUP;APPEND;POP', 'EMPTY_DICT;DUP;NONE;SETITEM;POP'] + (['EMPTY_LIST;DUP;TUPLE1;APPEND;POP'] if v >= 2 else []):
                al += [';'.join([cyc] + [mod] * nmod + ['NONE']), ';'.join([mod] * nmod + [cyc] + [mod] * nmod + ['NONE']),
                       ';'.join([mod] * (nmod // 2) + [cyc] * 3 + [mod] * (nmod // 2) + [cyc, 'NONE'])]
        if v < 2:
            al = [a for a in al if 'TUPLE2' not in a]       # TUPLE2 is a protocol-2 opcode
        if v < 1:
            al = [a.replace('EMPTY_LIST', 'MARK;LIST').replace('EMPTY_DICT', 'MARK;NONE;NONE;DICT').replace('EMPTY_TUPLE', 'MARK;TUPLE') for a in al if 'TUPLE2' not in a and 'APPENDS' not in a]
        for a in al:
            lines.append('v=%d path=%s' % (v, a))
    # strings at the ends of their length range through the sequence mutators at rate 1 (gate draw 0, every strategy),
    # followed by spare entropy of several shapes (`tail=`): an emitter or mutator that draws once more than the model
    # reads it from there
    strs = {0: ['STRING', 'UNICODE'], 1: ['STRING', 'UNICODE', 'BINSTRING', 'SHORT_BINSTRING', 'BINUNICODE'],
            3: ['BINBYTES', 'SHORT_BINBYTES', 'BINUNICODE'], 4: ['SHORT_BINUNICODE', 'BINUNICODE8', 'BINBYTES8', 'SHORT_BINBYTES'], 5: ['BYTEARRAY8', 'SHORT_BINUNICODE']}
    for v, ops in strs.items():
        for m in ('stringlen', 'character', 'stringlen,character'):
            for tail in ('07' * 24, 'ff' * 24, '08' * 24, '0a' * 24):
                items = []
                for o in ops:
                    for ln in ('1d', '1e', '1f', '00', '01'):
                        for strat in ('00', '01', '02'):
                            items.append('%s:%s%s%s%s' % (o, ln, '00' * (int(ln, 16) % 32), '00' * 8, strat))
                for o in ops:
                    # the same as the LAST step, so that the spare entropy directly follows it
                    for strat in ('00', '01', '02'):
                        lines.append('v=%d muts=%s rate=3ff0000000000000 tail=%s path=NONE;%s:1f%s%s%s' % (v, m, tail, o, '00' * 31, '00' * 8, strat))
                        lines.append('v=%d muts=%s rate=3ff0000000000000 tail=%s path=NONE;%s:1e%s%s%s' % (v, m, tail, o, '00' * 30, '00' * 8, strat))
                if tail == '07' * 24:
                    lines.append('v=%d muts=%s rate=3ff0000000000000 path=%s' % (v, m, ';'.join(items)))
    for v in (2, 5):
        ext = ['EXT1:00', 'EXT1:01', 'EXT1:fe', 'EXT1:ff', 'EXT2:0000', 'EXT2:0100', 'EXT2:feff', 'EXT2:ffff', 'EXT4:00000000', 'EXT4:01000000',
               'EXT4:fdffff7f', 'EXT4:feffff7f', 'EXT4:ffffff7f', 'EXT4:00000080', 'EXT4:feffffff', 'EXT4:ffffffff']
        lines.append('v=%d ext=1 path=%s' % (v, ';'.join(ext)))
    return lines


def compiled_paths(log):
    """corpus/*.paths: opcode paths compiled by the model into fuzzer inputs (directed cases)"""
    out = []
    cdir = os.path.join(VERIF, 'corpus')
    os.makedirs(BUILD, exist_ok=True)
    gp = os.path.join(BUILD, 'generated.paths')
    open(gp, 'w').write('\n'.join(generated_paths()) + '\n')
    for f in [os.path.join(cdir, x) for x in (sorted(os.listdir(cdir)) if os.path.isdir(cdir) else [])] + [gp]:
        if f.endswith('.paths'):
            p = subprocess.run([DRIVER, 'paths', f], stdout=subprocess.PIPE, stderr=subprocess.PIPE, text=True, env=ENV, timeout=600)
            for l in p.stderr.splitlines():
                log('paths: ' + l)
            tag = os.path.splitext(os.path.basename(f))[0][:3]
            out += [l.replace('id=p', 'id=p%s' % tag, 1) for l in p.stdout.splitlines() if l.startswith('id=')]
    return out


def run_harness(mode, cpath, out_path, extra=(), log=None, timeout=3000):
    """pf-harness <mode> <case file> [extra]; stdout -> out_path.  A case that does not return within its deadline is recorded
    by the harness itself as `RESULT hang` (worker pool with a watchdog) and the other cases go on; returns those case lines."""
    with open(out_path, 'w') as f:
        p = subprocess.run([HBIN, mode, cpath] + list(extra), stdout=f, stderr=subprocess.PIPE, env=ENV, timeout=timeout)
    if p.returncode != 0:
        raise Infra('harness %s failed: %s' % (mode, p.stderr.decode(errors='replace')[-2000:]))
    hung, cur = [], None
    with open(out_path) as f:
        for line in f:
            if line.startswith('CASE '):
                cur = line[5:].strip()
            elif line.startswith('RESULT hang') and cur:
                hung.append(cur)
    if hung and log:
        log('harness %s: %d case(s) did not return within the deadline' % (mode, len(hung)))
    return hung


def hang_props(hung):
    return [{'id': re.search(r'\bid=(\S+)', l).group(1) if re.search(r'\bid=(\S+)', l) else 'hang', 'prop': 'C09',
             'detail': 'the call did not return within the deadline (%s s): generation does not terminate' % os.environ.get('VERIF_CASE_DEADLINE', '60')}
            for l in hung]


def run_s1(seed, tier, log):
    """Runs the implementation (hooks on) over the case set and, on the recorded traces, the model:
    S1 = step-wise membership in the envelope + property oracles, S2 = bit-exact level-F model.
    returns dict(ok, diffs, props, stats, ncases, s2_ok, s2_diffs, notes); cached per (repo tree, model, seed, tier)"""
    key = hashlib.sha256(('%s|%s|%d|%s|s1s2' % (repo_hash(), model_hash(), seed, tier)).encode()).hexdigest()[:24]
    d = os.path.join(CACHE, key)
    res_path = os.path.join(d, 's1.json')
    if os.path.exists(res_path):
        log('S1/S2: cached result %s' % key)
        os.utime(d)
        return json.load(open(res_path))
    os.makedirs(d, exist_ok=True)
    cases = corpus_cases() + compiled_paths(log) + gen_cases(seed, tier)
    cpath = os.path.join(d, 'cases.txt')
    with open(cpath, 'w') as f:
        f.write('\n'.join(cases) + '\n')
    t0 = time.time()
    tpath = os.path.join(d, 'trace.txt')
    hung = run_harness('trace', cpath, tpath, ['16'], log)
    log('S1/S2: harness ran %d cases in %.1fs' % (len(cases), time.time() - t0))
    t0 = time.time()
    shards = shard_trace(tpath, 16)
    procs = [subprocess.Popen([DRIVER, mode, s], stdout=subprocess.PIPE, stderr=subprocess.STDOUT, text=True, env=ENV)
             for mode in ('s1', 's2') for s in shards]
    outs = [p.communicate(timeout=3000)[0] for p in procs]
    for p, o in zip(procs, outs):
        if p.returncode != 0:
            raise Infra('driver failed: %s' % o[-2000:])
    log('S1/S2: model checked the traces in %.1fs' % (time.time() - t0))
    res = parse_verdicts('\n'.join(outs))
    res['hung'] = [p_['id'] for p_ in hang_props(hung)]
    res['ncases'] = len(cases)
    res['cases_path'] = cpath
    res['key'] = key
    res['specs'] = {c.split()[0][3:]: c for c in cases}
    res['result_hash'] = result_hashes(tpath)
    for s in shards:
        os.remove(s)
    os.remove(tpath)
    json.dump(res, open(res_path, 'w'))
    prune_cache()
    return res

# ----------------------------------------------------------------------------- search for a failing input when S1 disagrees
def _recipe(kind, v):
    """opcode path that pushes exactly one object of the simulated kind (letter of the trace) in protocol v"""
    r = {'I': 'INT', 'B': 'NEWTRUE' if v >= 2 else 'INT', 'F': 'BINFLOAT' if v >= 1 else 'FLOAT', 'N': 'NONE',
         'S': 'BINUNICODE' if v >= 1 else 'UNICODE', 'Y': 'BINSTRING' if v >= 1 else None, 'A': 'BYTEARRAY8' if v >= 5 else None,
         'L': 'EMPTY_LIST' if v >= 1 else 'MARK;LIST', 'T': 'EMPTY_TUPLE' if v >= 1 else 'MARK;TUPLE',
         'D': 'EMPTY_DICT' if v >= 1 else 'MARK;NONE;NONE;DICT', 'E': 'EMPTY_SET' if v >= 4 else None,
         'Z': 'MARK;FROZENSET' if v >= 4 else None, 'M': 'MARK', 'C': 'GLOBAL',
         'O': 'GLOBAL;EMPTY_TUPLE;REDUCE' if v >= 1 else 'GLOBAL;MARK;TUPLE;REDUCE'}
    return r.get(kind)


def _trace_one(case_line, tmp):
    cp = os.path.join(tmp, 'steer_case.txt')
    open(cp, 'w').write(case_line + '\n')
    p = subprocess.run([HBIN, 'trace', cp, '1'], stdout=subprocess.PIPE, stderr=subprocess.PIPE, text=True, env=ENV, timeout=600)
    return p.stdout


def steer_search(res, log, limit=16, s8res=None):
    """S1 / S8 found states where the implementation offers an opcode the model's guard forbids (valid-set disagreement) but no
    run happened to pick it.  For each such (state, opcode) - the small hand-built states of S8 first, they give the shortest
    inputs - rebuild the simulated state from scratch with a minimal opcode path (compiled by the model into fuzzer bytes),
    make the implementation pick exactly that opcode next, let it finish, and judge the output with all oracles.
    Returns parse_verdicts-style props (concrete failing inputs) and the specs of the new cases."""
    if not hooks_ext():
        return [], {}
    norm = lambda n: n.replace('_', '').lower()
    tmp = os.path.join(BUILD, 'steer')
    os.makedirs(tmp, exist_ok=True)
    todo = []          # (origin, v, stack, memo, extra opcodes, case line with the flags)
    for d in (s8res or {}).get('diffs', []):
        m = re.match(r's8-valid-set impl=(\S*) model=(\S*)', d['what'])
        if not m or d['id'] not in s8res['specs']:
            continue
        impl, model = [x for x in m.group(1).split(',') if x], [x for x in m.group(2).split(',') if x]
        extra = [x for x in impl if norm(x) not in set(norm(y) for y in model)]
        line = s8res['specs'][d['id']]
        if extra:
            kvs = dict(w.split('=', 1) for w in line.split() if '=' in w)
            todo.append(('S8 state %s' % d['id'], int(kvs['v']), kvs['stack'], kvs['memo'], extra, line, None))
    todo.sort(key=lambda t: (len(t[2]), len(t[3])))
    n_s8 = len(todo)
    for d in res['diffs']:
        m = re.match(r'valid-set impl=(\S*) model=(\S*)', d['what'])
        if not m or d['id'] not in res['specs']:
            continue
        impl, model = [x for x in m.group(1).split(',') if x], [x for x in m.group(2).split(',') if x]
        extra = [x for x in impl if norm(x) not in set(norm(y) for y in model)]
        if not extra or len(todo) > 400:
            continue
        line = res['specs'][d['id']]
        step = int(d['step'].split('=')[1])
        steps = [l.split() for l in _trace_one(line, tmp).splitlines() if l.startswith('STEP ')]
        if step < 1 or step > len(steps):
            continue
        stack, memo = ('-', '-') if step == 1 else (steps[step - 2][6], steps[step - 2][7])
        # the opcodes emitted before the disagreeing step, as the bytes say (body steps only)
        hist_ops = [st_[3] for st_ in steps[:step - 1] if st_[1] == 'B']
        todo.append(('S1 case %s step %d' % (d['id'], step), int(re.search(r'\bv=(\d)', line).group(1)), stack, memo, extra, line,
                     hist_ops if len(hist_ops) <= 400 else None))
    props, specs, tried, seen = [], {}, 0, set()
    # shortest histories first among the S1 disagreements
    todo = todo[:n_s8] + sorted(todo[n_s8:], key=lambda t: len(t[6]) if t[6] is not None else 10 ** 6)
    for (origin, v, stack, memo, extra, line, hist_ops) in todo:
        if tried >= limit:
            break
        for x in extra:
            if tried >= limit:
                break
            sig = (v, stack, memo, norm(x), ' '.join(w for w in line.split() if re.match(r'(unsafe|ext|buf)=', w)))
            if sig in seen:
                continue
            seen.add(sig)
            path, okp = [], True
            for e in ([] if memo == '-' else memo.split(',')):
                r = _recipe(e.split(':')[1], v)
                if r is None or e.split(':')[1] == 'M':
                    okp = False
                    break
                path += [r, 'PUT', 'POP']
            for k in ('' if stack == '-' else stack):
                r = _recipe(k, v)
                if r is None:
                    okp = False
                    break
                path.append(r)
            if not okp:
                continue
            n = sum(len(x_.split(';')) for x_ in path)
            flags = ' '.join(w for w in line.split() if re.match(r'(rate|unsafe|ext|buf|muts)=', w))
            def compiled(tail):
                if not path:
                    pre = '00' if v >= 4 else ''
                    return 'id=steer v=%d min=1 max=1 %s src=bytes:%s' % (v, flags, pre + tail)
                pf = os.path.join(tmp, 'steer.paths')
                open(pf, 'w').write('v=%d %s tail=%s path=%s\n' % (v, flags, tail, ';'.join(path)))
                q = subprocess.run([DRIVER, 'paths', pf], stdout=subprocess.PIPE, stderr=subprocess.PIPE, text=True, env=ENV, timeout=600)
                ls = [l for l in q.stdout.splitlines() if l.startswith('id=')]
                if not ls:
                    return None
                return re.sub(r'\bmax=\d+', 'max=%d' % (n + 1), re.sub(r'\bmin=\d+', 'min=%d' % (n + 1), ls[0]))
            probe = compiled('00' * 80)
            if probe is None:
                continue
            psteps = [l.split() for l in _trace_one(probe, tmp).splitlines() if l.startswith('STEP B ')]
            if len(psteps) != n + 1:
                continue
            cands = psteps[-1][2].split(',')
            if x not in cands:
                # the state rebuilt from kinds alone does not reproduce the disagreement (it may rest on aliasing between
                # cells): replay the ORIGINAL opcode history through the hooks instead (same opcodes, same aliasing)
                if origin.startswith('S1 case') and hist_ops is not None:
                    tried += 1
                    fid = 'steer%d' % tried
                    sline = 'id=%s %s min=%d max=%d path=%s final=%s' % (fid, ' '.join(w for w in line.split() if re.match(r'(v|rate|unsafe|ext|buf|muts)=', w)),
                                                                       len(hist_ops) + 1, len(hist_ops) + 1, ';'.join(hist_ops) or '-', x)
                    cp = os.path.join(tmp, 'steer_hist.txt')
                    open(cp, 'w').write(sline + '\n')
                    q = subprocess.run([HBIN, 'steer', cp], stdout=subprocess.PIPE, stderr=subprocess.PIPE, text=True, env=ENV, timeout=600)
                    if 'RESULT ok' in q.stdout:
                        tp = os.path.join(tmp, 'steer_trace.txt')
                        open(tp, 'w').write(q.stdout)
                        out = subprocess.run([DRIVER, 'oracles', tp], stdout=subprocess.PIPE, stderr=subprocess.STDOUT, text=True, env=ENV, timeout=600).stdout
                        specs[fid] = sline
                        for pr in parse_verdicts(out)['props']:
                            pr['detail'] += ' (found by replaying the opcode history of %s through the hooks and then emitting %s, which only the implementation offers there)' % (origin, x)
                            props.append(pr)
                continue
            tried += 1
            final = compiled('%02x' % cands.index(x) + '00' * 80)
            fid = 'steer%d' % tried
            final = re.sub(r'\bid=\S+', 'id=' + fid, final, 1)
            tp = os.path.join(tmp, 'steer_trace.txt')
            open(tp, 'w').write(_trace_one(final, tmp))
            out = subprocess.run([DRIVER, 's1', tp], stdout=subprocess.PIPE, stderr=subprocess.STDOUT, text=True, env=ENV, timeout=600).stdout
            pv = parse_verdicts(out)
            specs[fid] = final
            for pr in pv['props']:
                pr['detail'] += ' (found by steering the implementation into %s in simulated state stack=%s memo=%s, where the model forbids it; disagreement first seen in %s)' % (x, stack, memo, origin)
                props.append(pr)
    # the simulated state drifted from what the model computes (sim-state disagreement): the guards then judge a state that
    # is not the real one.  Replay the opcode history up to and including the drifting step through the hooks and emit, one at
    # a time, each typed opcode the implementation now offers: its operands are what the bytes say, not what the simulation thinks
    TYPED = ['STACK_GLOBAL', 'APPEND', 'APPENDS', 'SETITEM', 'SETITEMS', 'ADDITEMS', 'REDUCE', 'NEWOBJ', 'NEWOBJ_EX', 'BUILD', 'OBJ', 'DICT', 'DUP',
             'TUPLE', 'POP_MARK', 'BINPUT', 'MEMOIZE']
    drift = []
    for d in res['diffs']:
        if not d['what'].startswith('sim-state') or d['id'] not in res['specs'] or len(drift) > 200:
            continue
        drift.append((int(d['step'].split('=')[1]), d['id']))
    ndrift = 0
    # short histories first, newest protocols first (they have the most typed opcodes), one drift point per (protocol, case)
    vof = lambda cid: int(re.search(r'\bv=(\d)', res['specs'][cid]).group(1))
    picked, seen_d = [], set()
    for step, cid in sorted(drift, key=lambda t: (-vof(t[1]), t[0])):
        if (vof(cid), cid) in seen_d:
            continue
        seen_d.add((vof(cid), cid))
        picked.append((step, cid))
    for step, cid in picked[:8]:
        line = res['specs'][cid]
        steps = [l.split() for l in _trace_one(line, tmp).splitlines() if l.startswith('STEP ')]
        if step > len(steps) or step > 400:
            continue
        hist_ops = [st_[3] for st_ in steps[:step] if st_[1] == 'B']
        ndrift += 1
        # directly after the drifting step, and after ONE more push of each common kind (a typed opcode with two operands needs
        # a second one of the right - simulated - kind next to the drifted slot)
        vv = vof(cid)
        pres = [None, 'NONE', 'EMPTY_TUPLE' if vv >= 1 else None, 'EMPTY_DICT' if vv >= 1 else None, 'MARK',
                'SHORT_BINUNICODE' if vv >= 4 else 'BINUNICODE' if vv >= 1 else 'UNICODE', 'BININT1' if vv >= 1 else 'INT']
        for x, pre in [(x_, p_) for p_ in dict.fromkeys(pres) for x_ in TYPED]:
            hops = hist_ops + ([pre] if pre else [])
            fid = 'drift%d_%s%s' % (ndrift, x, ('_after_' + pre) if pre else '')
            sline = 'id=%s %s min=%d max=%d path=%s final=%s' % (fid, ' '.join(w for w in line.split() if re.match(r'(v|rate|unsafe|ext|buf|muts)=', w)),
                                                               len(hops) + 1, len(hops) + 1, ';'.join(hops) or '-', x)
            if len(props) >= 12:
                break
            cp = os.path.join(tmp, 'steer_hist.txt')
            open(cp, 'w').write(sline + '\n')
            q = subprocess.run([HBIN, 'steer', cp], stdout=subprocess.PIPE, stderr=subprocess.PIPE, text=True, env=ENV, timeout=600)
            if 'RESULT ok' not in q.stdout:
                continue
            tp = os.path.join(tmp, 'steer_trace.txt')
            open(tp, 'w').write(q.stdout)
            out = subprocess.run([DRIVER, 'oracles', tp], stdout=subprocess.PIPE, stderr=subprocess.STDOUT, text=True, env=ENV, timeout=600).stdout
            got = parse_verdicts(out)['props']
            if got:
                specs[fid] = sline
            for pr in got:
                pr['detail'] += ' (found by replaying the opcode history of case %s up to step %d, where the simulated state drifts from the model, and then emitting %s)' % (cid, step, x)
                props.append(pr)
    if todo or drift:
        log('steer: %d state(s) where only the implementation offers some opcode (%d rebuilt and steered), %d drift point(s) replayed, %d oracle failure(s)' % (
            len(todo), tried, ndrift, len(props)))
    return props, specs


def result_hashes(tpath):
    """case id -> short hash of its RESULT line in a trace file"""
    out, cur = {}, None
    with open(tpath) as f:
        for line in f:
            if line.startswith('CASE '):
                m = re.search(r'\bid=(\S+)', line)
                cur = m.group(1) if m else None
            elif line.startswith('RESULT ') and cur:
                out[cur] = hashlib.sha1(line.strip().encode()).hexdigest()[:16]
    return out


def run_c07(seed, tier, log):
    """C07 on the implementation: the SAME cases run again in separately spawned processes (fresh SipHash keys and
    address space), in a different order (so every process and thread has another call history), on 1, 3 and 16
    threads: every output must be identical to the traced run - which S2 has shown bit-exact with the model"""
    main = run_s1(seed, tier, log)
    key = hashlib.sha256(('%s|%s|%d|%s|c07' % (repo_hash(), model_hash(), seed, tier)).encode()).hexdigest()[:24]
    d = os.path.join(CACHE, key)
    res_path = os.path.join(d, 'c07.json')
    if os.path.exists(res_path):
        log('c07: cached result %s' % key)
        return json.load(open(res_path))
    os.makedirs(d, exist_ok=True)
    cases = [c for i_, c in main['specs'].items() if i_ not in set(main.get('hung', []))]
    cases = [c for c in cases if 'src=seed:' in c or 'src=bytes:' in c]
    rng = SplitMix64(seed ^ 0xC07)
    orders = {'reversed/1-thread': (list(reversed(cases)), 1),
              'shuffled/3-threads': (sorted(cases, key=lambda c: hashlib.md5((c + str(seed)).encode()).hexdigest()), 3),
              'by-protocol-descending/16-threads': (sorted(cases, key=lambda c: -int(re.search(r' v=(\d)', c).group(1))), 16)}
    # process-wide state (a cache filled by whichever generator comes first) shows only against a run with another
    # history: oldest protocol first on one thread, and every case in a PROCESS OF ITS OWN (no history at all)
    orders['by-protocol-ascending/1-thread'] = (sorted(cases, key=lambda c: int(re.search(r' v=(\d)', c).group(1))), 1)
    orders['isolated: one process per case'] = (cases, 16)
    if tier == 'quick':
        # keep the quick tier short: every 2nd / 3rd case for the single-threaded runs, every 3rd for the isolated one
        orders['reversed/1-thread'] = (orders['reversed/1-thread'][0][::2], 1)
        orders['by-protocol-ascending/1-thread'] = (orders['by-protocol-ascending/1-thread'][0][1::3], 1)
        orders['isolated: one process per case'] = (cases[::3], 16)
    props, nruns, t0 = [], 0, time.time()
    for name, (cs, th) in orders.items():
        cpath = os.path.join(d, 'cases.txt')
        with open(cpath, 'w') as f:
            f.write('\n'.join(cs) + '\n')
        rpath = os.path.join(d, 'results.txt')
        with open(rpath, 'w') as f:
            p = subprocess.run([HBIN, 'isolated' if name.startswith('isolated') else 'results', cpath, str(th)], stdout=f, stderr=subprocess.PIPE, env=ENV, timeout=3000, text=True)
        if p.returncode != 0:
            raise Infra('harness results failed: %s' % p.stderr[-2000:])
        hs = result_hashes(rpath)
        for cid, h in hs.items():
            nruns += 1
            if main['result_hash'].get(cid) != h:
                props.append({'id': cid, 'prop': 'C07', 'detail': 'output differs between the traced run and run "%s"' % name})
        # the single-output property oracles over the outputs of this run as well (another call history per process)
        shards = shard_trace(rpath, 16)
        procs = [subprocess.Popen([DRIVER, 'oracles', s_], stdout=subprocess.PIPE, stderr=subprocess.STDOUT, text=True, env=ENV) for s_ in shards]
        outs = [q.communicate(timeout=3000)[0] for q in procs]
        for pr in parse_verdicts('\n'.join(outs))['props']:
            pr['detail'] += ' (in run "%s")' % name
            props.append(pr)
        for s_ in shards:
            os.remove(s_)
        os.remove(rpath)
    # slow motion: the same configuration with and without a mutator that mutates nothing, draws nothing and sleeps 2 ms per
    # opcode (1 500 opcodes = 3 s of wall clock instead of milliseconds): the bytes must be the same - nothing may depend on
    # elapsed time or deadlines
    slow, specs2 = [], dict(main['specs'])
    for v, src in ((3, 'seed:7'), (5, 'bytes:' + bytes(range(1, 200)).hex()), (0, 'seed:11'), (4, 'seed:123456')):
        for tag, muts in (('fast', ['boundary']), ('slow', ['boundary', 'sleep:2'])):
            slow.append(spec('slow%d%s' % (v, tag), v, 1500, 1500, RATES['0.1'], 0, 0, 0, muts, src))
    cpath = os.path.join(d, 'slow.txt')
    open(cpath, 'w').write('\n'.join(slow) + '\n')
    rpath = os.path.join(d, 'slow_results.txt')
    with open(rpath, 'w') as f:
        p = subprocess.run([HBIN, 'results', cpath, '8'], stdout=f, stderr=subprocess.PIPE, env=ENV, timeout=3000, text=True)
    if p.returncode != 0:
        raise Infra('harness results (slow motion) failed: %s' % p.stderr[-2000:])
    hs = result_hashes(rpath)
    for c in slow:
        specs2[re.search(r'\bid=(\S+)', c).group(1)] = c
    for v in (3, 5, 0, 4):
        nruns += 1
        if hs.get('slow%dfast' % v) != hs.get('slow%dslow' % v) or hs.get('slow%dfast' % v) is None:
            props.append({'id': 'slow%dslow' % v, 'prop': 'C07', 'detail': 'output differs when every opcode takes 2 ms longer (a no-op mutator that sleeps): the result depends on elapsed time'})
    os.remove(rpath)
    res = dict(ok=[], diffs=[], props=props, stats={}, ncases=nruns, okn=nruns - len([p for p in props if p['prop'] == 'C07']), nops=nruns,
               specs=specs2, samples=cases[:2], runs=list(orders) + ['slow motion (sleeping no-op mutator)'])
    json.dump(res, open(res_path, 'w'))
    log('c07: %d re-executions in %d processes + 4 slow-motion pairs, %d differ, %.1fs' % (nruns, len(orders), len(props), time.time() - t0))
    return res


def run_c12(seed, tier, log):
    """C12 (ii) on the implementation: a census of the opcodes occurring in the outputs of seeds 0..N with default
    settings, per protocol; every opcode of the vocabulary needs a seed, protocols >= 4 a framed and an unframed one"""
    key = hashlib.sha256(('%s|%s|%s|c12' % (repo_hash(), model_hash(), tier)).encode()).hexdigest()[:24]
    d = os.path.join(CACHE, key)
    res_path = os.path.join(d, 'c12.json')
    if os.path.exists(res_path):
        log('c12: cached result %s' % key)
        return json.load(open(res_path))
    os.makedirs(d, exist_ok=True)
    n = 6000 if tier == "quick" else 60000
    t0 = time.time()
    voc = {}
    p = subprocess.run([DRIVER, 'vocab'], stdout=subprocess.PIPE, text=True, env=ENV, timeout=600)
    for l in p.stdout.splitlines():
        m = re.match(r'VOCAB v=(\d) (.*)', l)
        if m:
            voc[int(m.group(1))] = {int(x.split(':')[0], 16): x.split(':')[1] for x in m.group(2).split(',')}
    OPTIN = {0x82, 0x83, 0x84, 0x97, 0x98}
    props, samples, total = [], [], 0
    for (ext, buf, nn) in ((0, 0, n), (1, 1, max(300, n // 5))):
        p = subprocess.run([HBIN, 'census', str(nn), str(ext), str(buf)], stdout=subprocess.PIPE, stderr=subprocess.PIPE, text=True, env=ENV, timeout=3000)
        if p.returncode != 0:
            raise Infra('census failed: ' + p.stderr[-1000:])
        for l in p.stdout.splitlines():
            m = re.match(r'CENSUS v=(\d) seeds=(\d+) framed=(\S+) unframed=(\S+) ops=(.*)', l)
            if not m:
                continue
            v = int(m.group(1))
            total += int(m.group(2))
            seen = {int(x.split(':')[0], 16): (int(x.split(':')[1]), int(x.split(':')[2])) for x in m.group(5).split(',') if x}
            want = {b: nm for b, nm in voc[v].items() if (b in OPTIN) == bool(ext)} if ext else {b: nm for b, nm in voc[v].items() if b not in OPTIN}
            for b, nm in sorted(want.items()):
                if b not in seen:
                    props.append({'id': 'census-v%d-%s' % (v, nm), 'prop': 'C12',
                                  'detail': 'opcode %s (0x%02x) never occurs in a protocol-%d pickle for seeds 0..%d with default settings%s' % (
                                      nm, b, v, nn - 1, ' and both opt-in flags on' if ext else '')})
            for b in seen:
                if b not in voc[v] or (b in OPTIN and not ext):
                    props.append({'id': 'census-v%d-extra-%02x' % (v, b), 'prop': 'C12', 'detail': 'opcode byte 0x%02x outside the vocabulary of protocol %d occurs (seed %d)' % (b, v, seen[b][0])})
            if v >= 4 and not ext:
                if m.group(3) == '-':
                    props.append({'id': 'census-v%d-framed' % v, 'prop': 'C12', 'detail': 'no framed pickle for seeds 0..%d' % (nn - 1)})
                if m.group(4) == '-':
                    props.append({'id': 'census-v%d-unframed' % v, 'prop': 'C12', 'detail': 'no unframed pickle for seeds 0..%d' % (nn - 1)})
            rare = sorted(((c, voc[v].get(b, '?'), f) for b, (f, c) in seen.items()))[:3]
            samples.append(dict(protocol=v, flags=(ext, buf), seeds=nn, distinct_opcodes=len(seen),
                                rarest=[dict(opcode=nm, seeds_containing=c, first_seed=f) for c, nm, f in rare]))
    # directed: the level-F witness inputs (Properties/C12.v: the model's output on them contains the opcode), default settings,
    # through generate_from_arbitrary on the implementation - deterministic, one input per (protocol, flags, FRAME coin, opcode)
    p = subprocess.run([DRIVER, 'witness'], stdout=subprocess.PIPE, stderr=subprocess.PIPE, text=True, env=ENV, timeout=600)
    if p.returncode != 0:
        raise Infra('driver witness failed: ' + p.stderr[-1000:])
    wcases = [l for l in p.stdout.splitlines() if l.startswith('id=w.')]
    wspecs = dict((re.search(r'\bid=(\S+)', c).group(1), c) for c in wcases)
    for l in p.stdout.splitlines():
        if l.startswith('NOWITNESS'):
            props.append({'id': 'nowitness-' + '-'.join(l.split()[1:]), 'prop': 'C12', 'detail': 'the model cannot compile its witness path: ' + l})
    os.makedirs(os.path.join(BUILD, 's6tmp'), exist_ok=True)
    wp = os.path.join(d, 'witness_results.txt')
    open(wp, 'w').write(library_bytes(wcases))
    q = subprocess.run([DRIVER, 'oracles', wp], stdout=subprocess.PIPE, stderr=subprocess.STDOUT, text=True, env=ENV, timeout=3000)
    wver = parse_verdicts(q.stdout)
    for pr in wver['props']:
        if pr['prop'] == 'C12':
            props.append(pr)
    for dd in wver['diffs']:
        props.append({'id': dd['id'], 'prop': 'C12', 'detail': 'witness input could not be judged: ' + dd['what'][:200]})
    os.remove(wp)
    total += len(wcases)
    samples.append(dict(witness_inputs=len(wcases), example=wcases[-1][:200] if wcases else ''))
    res = dict(ok=[], diffs=[], props=props, stats={}, ncases=total, okn=total - len(props), nops=total, specs={}, samples=samples, witness_inputs=len(wcases))
    for pr in props:
        res['specs'][pr['id']] = wspecs.get(pr['id'], pr['id'] + ' (pf-harness census)')
    json.dump(res, open(res_path, 'w'))
    log('c12: census + %d witness inputs, %d generations, %d (protocol, opcode) pairs missing, %.1fs' % (len(wcases), total, len(props), time.time() - t0))
    return res



# ----------------------------------------------------------------------------- suite S6: the front ends (C13)
TARGET_FRONT = os.path.join(BUILD, 'target-front')     # own target dir: the repo is built as the root package here
ENV_FRONT = dict(ENV, CARGO_TARGET_DIR=TARGET_FRONT)
PFBIN = os.path.join(TARGET_FRONT, 'release', 'pickle-fuzzer')
PYPKG = os.path.join(BUILD, 'pypkg')


def build_front_ends():
    rc, out = sh('cargo build --offline --release --manifest-path %s --bin pickle-fuzzer' % os.path.join(REPO, 'Cargo.toml'), timeout=1800, env=ENV_FRONT)
    if rc != 0:
        raise Infra('building the pickle-fuzzer binary failed:\n' + out[-2000:])
    rc, out = sh('cargo build --offline --release --features python-bindings --lib --manifest-path %s' % os.path.join(REPO, 'Cargo.toml'), timeout=1800, env=ENV_FRONT)
    if rc != 0:
        raise Infra('building the python extension failed:\n' + out[-2000:])
    pk = os.path.join(PYPKG, 'pickle_fuzzer')
    shutil.rmtree(PYPKG, ignore_errors=True)
    os.makedirs(pk)
    for f in os.listdir(os.path.join(REPO, 'python', 'pickle_fuzzer')):
        if f.endswith('.py'):
            shutil.copy(os.path.join(REPO, 'python', 'pickle_fuzzer', f), pk)
    shutil.copy(os.path.join(TARGET_FRONT, 'release', 'libpickle_fuzzer.so'), os.path.join(pk, '_native.so'))
    # atheris is only imported by fuzzer.py; a stub serves when the interpreter lacks it
    stub = os.path.join(PYPKG, 'stub')
    os.makedirs(stub)
    open(os.path.join(stub, 'atheris.py'), 'w').write('def instrument_func(f):\n    return f\ndef Setup(*a, **k):\n    pass\ndef Fuzz():\n    pass\n')


def f64hex(x):
    return '%016x' % struct.unpack('<Q', struct.pack('<d', x))[0]


def gen_s6_vectors(seed, tier):
    rng = SplitMix64(seed ^ 0x5606)
    n = 70 if tier == 'quick' else 500
    kinds = ['bitflip', 'boundary', 'offbyone', 'stringlen', 'character', 'memoindex', 'typeconfusion', 'all']
    vecs = []
    for i in range(n):
        proto = rng.choice(['-', '-', '0', '1', '2', '3', '4', '5'])
        sd = rng.choice([0, 1, 5, 6, 7, 11, 2**32 + 3, 2**64 - 1, rng.below(1 << 40)])
        mn, mx = rng.choice([(None, None), (5, 9), (1, 1), (0, 0), (9, 4), (20, None), (None, 80), (100, 101)])
        r = rng.below(8)
        if r < 2:
            muts = []
        elif r < 4:
            muts = [rng.choice(kinds)]
        elif r < 5:
            muts = ['all']
        else:
            muts = [k for k in kinds[:7] if rng.below(3) == 0] or ['bitflip']
            # the order on the command line is the order in the library (first applicable mutator wins): any order, and now
            # and then one kind named twice
            for j in range(len(muts) - 1, 0, -1):
                t_ = rng.below(j + 1)
                muts[j], muts[t_] = muts[t_], muts[j]
            if rng.below(5) == 0:
                muts.append(rng.choice(muts))
            if rng.below(6) == 0:
                muts.insert(rng.below(len(muts) + 1), 'all')
        rate = rng.choice([None, 0.1, 0.0, 1.0, 0.5, 2.5, -1.0, 0.25])
        vecs.append(dict(id='f%d' % i, protocol=proto, seed=sd, min=mn, max=mx, mutators=muts, rate=rate,
                         unsafe=int(rng.below(3) == 0), ext=int(rng.below(3) == 0), buf=int(rng.below(3) == 0)))
    # other spellings of the same options (leading zeros, the top of the u64 range): clap reads them as decimal
    k = n
    for (sd, txt) in ((10, '010'), (42, '0042'), (777, '0777'), (8, '08'), (2**63, None), (2**63 - 1, None), (2**64 - 1, None), (2**32, '04294967296')):
        vecs.append(dict(id='f%d' % k, protocol='-', seed=sd, seed_text=txt, min=None, max=None, mutators=[], rate=None, unsafe=0, ext=0, buf=0))
        k += 1
    # orders that differ from the enum's, on mutators that compete for the same values, at rate 1
    for proto, muts in (('2', ['boundary', 'bitflip']), ('3', ['offbyone', 'boundary', 'bitflip']), ('4', ['character', 'stringlen']),
                        ('1', ['memoindex', 'offbyone']), ('5', ['stringlen', 'bitflip', 'character', 'boundary']), ('2', ['bitflip', 'boundary', 'bitflip'])):
        vecs.append(dict(id='f%d' % k, protocol=proto, seed=900 + k, min=None, max=None, mutators=muts, rate=1.0, unsafe=0, ext=0, buf=0))
        k += 1
    # every single flag on its own (a swapped or dropped flag must show)
    for proto in ('5', '2'):
        for (u, e, b) in ((1, 0, 0), (0, 1, 0), (0, 0, 1), (1, 1, 0), (0, 1, 1)):
            for muts in ([], ['all'], ['memoindex', 'typeconfusion']):
                vecs.append(dict(id='f%d' % k, protocol=proto, seed=100 + k, min=None, max=None, mutators=muts, rate=1.0 if muts else None,
                                 unsafe=u, ext=e, buf=b))
                k += 1
    return vecs


def vec_argv(v):
    a = []
    if v['protocol'] != '-':
        a += ['--protocol', v['protocol']]
    a += ['--seed', v.get('seed_text') or str(v['seed'])]
    if v['min'] is not None:
        a += ['--min-opcodes', str(v['min'])]
    if v['max'] is not None:
        a += ['--max-opcodes', str(v['max'])]
    if v['mutators']:
        a += ['--mutators'] + v['mutators']
    if v['rate'] is not None:
        a += ['--mutation-rate=%r' % v['rate']]
    if v['unsafe']:
        a.append('--unsafe-mutations')
    if v['ext']:
        a.append('--allow-ext')
    if v['buf']:
        a.append('--allow-buffer')
    return a


def vec_line(v):
    return 'id=%s protocol=%s seed=%d min=%s max=%s mutators=%s rate=%s unsafe=%d ext=%d buf=%d' % (
        v['id'], v['protocol'], v['seed'], '-' if v['min'] is None else v['min'], '-' if v['max'] is None else v['max'],
        ','.join(v['mutators']) or '-', '-' if v['rate'] is None else f64hex(v['rate']), v['unsafe'], v['ext'], v['buf'])


def vec_env(v, out_file=None, out_dir=None, samples=None):
    e = {}
    if v['protocol'] != '-':
        e['INPUT_PROTOCOL'] = v['protocol']
    e['INPUT_SEED'] = v.get('seed_text') or str(v['seed'])
    if v['min'] is not None:
        e['INPUT_MIN_OPCODES'] = str(v['min'])
    if v['max'] is not None:
        e['INPUT_MAX_OPCODES'] = str(v['max'])
    if v['mutators']:
        e['INPUT_MUTATORS'] = ', '.join(v['mutators'])
    if v['rate'] is not None:
        e['INPUT_MUTATION_RATE'] = repr(v['rate'])
    e['INPUT_UNSAFE_MUTATIONS'] = 'true' if v['unsafe'] else 'false'
    e['INPUT_ALLOW_EXT'] = 'yes' if v['ext'] else ''
    e['INPUT_ALLOW_BUFFER'] = '1' if v['buf'] else '0'
    if out_file:
        e['INPUT_OUTPUT_FILE'] = out_file
    if out_dir:
        e['INPUT_OUTPUT_DIR'] = out_dir
    if samples is not None:
        e['INPUT_SAMPLES'] = str(samples)
    return e


def library_bytes(case_lines, mode='results'):
    """id -> RESULT line of the library for harness case lines"""
    d = os.path.join(BUILD, 's6tmp')
    os.makedirs(d, exist_ok=True)
    cp = os.path.join(d, 'lib_cases.txt')
    open(cp, 'w').write('\n'.join(case_lines) + '\n')
    p = subprocess.run([HBIN, mode, cp] + (['4'] if mode == 'results' else []), stdout=subprocess.PIPE, stderr=subprocess.PIPE, text=True, env=ENV, timeout=3000)
    if p.returncode != 0:
        raise Infra('harness %s failed: %s' % (mode, p.stderr[-1000:]))
    return p.stdout


def run_s6(seed, tier, log):
    key = hashlib.sha256(('%s|%s|%d|%s|s6' % (repo_hash(), model_hash(), seed, tier)).encode()).hexdigest()[:24]
    d = os.path.join(CACHE, key)
    res_path = os.path.join(d, 's6.json')
    if os.path.exists(res_path):
        log('s6: cached result %s' % key)
        return json.load(open(res_path))
    t0 = time.time()
    build_front_ends()
    os.makedirs(d, exist_ok=True)
    tmp = os.path.join(BUILD, 's6tmp')
    shutil.rmtree(tmp, ignore_errors=True)
    os.makedirs(tmp)
    props, specs, nrun = [], {}, 0

    def fail(cid, what, detail, prop='C13'):
        props.append({'id': cid, 'prop': prop, 'detail': detail})
        specs[cid] = what
    fronts = []      # (case id, what was run, vector id or case line, bytes written/returned): the single-output oracles run over these
    vecs = gen_s6_vectors(seed, tier)
    vecs.append(dict(id='freg', protocol='2', seed=3, min=None, max=None, mutators=['bitflip'], rate=None, unsafe=0, ext=0, buf=0))
    # the options of the one LARGE batch below
    vecs.append(dict(id='fbig', protocol=str(2 + seed % 4), seed=77 + seed, min=1, max=3, mutators=['offbyone', 'bitflip'], rate=0.5, unsafe=0, ext=1, buf=0))
    vp = os.path.join(tmp, 'vectors.txt')
    open(vp, 'w').write('\n'.join(vec_line(v) for v in vecs) + '\n')
    p = subprocess.run([DRIVER, 'front', vp], stdout=subprocess.PIPE, stderr=subprocess.PIPE, text=True, env=ENV, timeout=600)
    if p.returncode != 0:
        raise Infra('driver front failed: ' + p.stderr[-1000:])
    cases = [l for l in p.stdout.splitlines() if l.startswith('id=')]
    expect = {}
    cur = None
    for l in library_bytes(cases).splitlines():
        if l.startswith('CASE '):
            cur = re.search(r'\bid=(\S+)', l).group(1)
        elif l.startswith('RESULT ') and cur:
            expect[cur] = bytes.fromhex(l.split()[2]) if l.startswith('RESULT ok') and l.split()[2] != '-' else None
    envb = dict(os.environ, PATH=os.path.dirname(PFBIN) + ':' + os.environ.get('PATH', ''))
    # 1. single-file mode
    for vi, v in enumerate(vecs):
        out = os.path.join(tmp, v['id'] + '.pkl')
        if vi % 4 == 1:
            # the output path already holds a (longer) file from an earlier run: it must be REPLACED, not written into
            open(out, 'wb').write(b'\x80\x04' + b'stale' * 40000 + b'.')
        argv = [PFBIN, out] + vec_argv(v)          # FILE first: --mutators takes any number of values
        q = subprocess.run(argv, stdout=subprocess.PIPE, stderr=subprocess.PIPE, timeout=300)
        nrun += 1
        what = 'cli single: pickle-fuzzer ' + ' '.join(vec_argv(v)) + ' FILE'
        if q.returncode != 0 or not os.path.exists(out):
            fail(v['id'], what, 'exit status %d: %s' % (q.returncode, q.stderr.decode()[-200:]))
            continue
        got = open(out, 'rb').read()
        fronts.append((v['id'], what, v['id'], got))
        idnum = int(v['id'][1:]) if v['id'][1:].isdigit() else -1
        if len(v['mutators']) > 1 or idnum % 4 == 0:
            # C07 through the CLI: further processes (fresh hash seeds, fresh address space) must write the same bytes
            for rep in range(3):
                q2 = subprocess.run(argv, stdout=subprocess.PIPE, stderr=subprocess.PIPE, timeout=300)
                nrun += 1
                again = open(out, 'rb').read() if q2.returncode == 0 and os.path.exists(out) else None
                if again != got:
                    props.append({'id': v['id'] + '-rerun', 'prop': 'C07', 'detail': 'the same command line wrote different bytes in another process (run %d: %s..., first run %s...)' % (
                        rep + 2, (again or b'').hex()[:32], got.hex()[:32])})
                    specs[v['id'] + '-rerun'] = what
                    break
        if expect.get(v['id']) is None:
            fail(v['id'], what, 'the library call for the configuration computed by the model did not return a pickle')
        elif got != expect[v['id']]:
            fail(v['id'], what, 'file bytes differ from the library bytes for the corresponding configuration (file %s..., library %s...)' % (
                got[:24].hex(), expect[v['id']][:24].hex()))
    # 2. batch mode, three worker counts; 3. failure contract
    for j, v in enumerate(vecs[:: max(1, len(vecs) // (12 if tier == 'quick' else 60))]):
        for threads, samples in ((1, 3), (3, 7), (16, 5)):
            dd = os.path.join(tmp, 'batch_%s_%d' % (v['id'], threads))
            if threads == 3:
                # a directory that already holds the files of an earlier, larger run
                os.makedirs(dd)
                for i_ in range(samples):
                    open(os.path.join(dd, '%d.pkl' % i_), 'wb').write(b'\x80\x04' + b'stale' * 40000 + b'.')
            argv = [PFBIN, '--dir', dd, '--samples', str(samples)] + vec_argv(v)
            q = subprocess.run(argv, stdout=subprocess.PIPE, stderr=subprocess.PIPE, timeout=300, env=dict(envb, RAYON_NUM_THREADS=str(threads)))
            nrun += 1
            what = 'cli batch (RAYON_NUM_THREADS=%d): pickle-fuzzer --dir D --samples %d %s' % (threads, samples, ' '.join(vec_argv(v)))
            files = sorted(os.listdir(dd)) if os.path.isdir(dd) else []
            want = sorted('%d.pkl' % i for i in range(samples))
            if q.returncode != 0:
                fail(v['id'] + '-batch', what, 'exit status %d' % q.returncode)
            elif files != want:
                fail(v['id'] + '-batch', what, 'files written: %s, expected %s' % (files, want))
            else:
                for f in files:
                    fronts.append((v['id'] + '-batch', what + ' [' + f + ']', v['id'], open(os.path.join(dd, f), 'rb').read()))
                for f in files:
                    if open(os.path.join(dd, f), 'rb').read() != expect.get(v['id']):
                        fail(v['id'] + '-batch', what, 'file %s differs from the library bytes' % f)
                        break
            shutil.rmtree(dd, ignore_errors=True)
        if j == 1:
            # a LARGE batch (the CLI's default is 10000 samples): how a parallel iterator splits the index range depends on the
            # number of workers and on work stealing only once there is enough to split; every file must still be the library's
            # pickle for these options, whatever the worker count
            big = 1500 if tier == 'quick' else 10000
            vb = [x_ for x_ in vecs if x_['id'] == 'fbig'][0]
            eb = expect.get('fbig')
            big_first = None
            for ti, threads in enumerate((1, 2, 5, 16, 16)):
                dd = os.path.join(tmp, 'big_%d_%d' % (threads, ti))
                argv = [PFBIN, '--dir', dd, '--samples', str(big)] + vec_argv(vb)
                q = subprocess.run(argv, stdout=subprocess.PIPE, stderr=subprocess.PIPE, timeout=600, env=dict(envb, RAYON_NUM_THREADS=str(threads)))
                nrun += 1
                what = 'cli batch (RAYON_NUM_THREADS=%d): pickle-fuzzer --dir D --samples %d %s' % (threads, big, ' '.join(vec_argv(vb)))
                files = set(os.listdir(dd)) if os.path.isdir(dd) else set()
                if q.returncode != 0:
                    fail('fbig-batch', what, 'exit status %d' % q.returncode)
                elif files != set('%d.pkl' % i for i in range(big)):
                    fail('fbig-batch', what, '%d files written, expected 0.pkl .. %d.pkl' % (len(files), big - 1))
                else:
                    content = {f_: open(os.path.join(dd, f_), 'rb').read() for f_ in files}
                    if eb is not None:
                        bad = [f_ for f_ in sorted(files, key=lambda x_: int(x_[:-4])) if content[f_] != eb]
                        if bad:
                            fail('fbig-batch', what, '%d of %d files differ from the library bytes for these options (first: %s)' % (len(bad), big, bad[0]))
                    # C07: the same command under another number of workers (and once more under the same number) writes the same files
                    if big_first is None:
                        big_first = (threads, content)
                    else:
                        bad = [f_ for f_ in sorted(files, key=lambda x_: int(x_[:-4])) if content[f_] != big_first[1].get(f_)]
                        if bad:
                            fail('fbig-workers', what, '%d of %d files differ from the ones the same command wrote with RAYON_NUM_THREADS=%d (first: %s): '
                                 'the output depends on how the batch is split over workers' % (len(bad), big, big_first[0], bad[0]), prop='C07')
                shutil.rmtree(dd, ignore_errors=True)
        if j % 3 == 0:
            dd = os.path.join(tmp, 'fail_%s' % v['id'])
            os.makedirs(os.path.join(dd, '1.pkl'))           # a directory where a file should be written
            q = subprocess.run([PFBIN, '--dir', dd, '--samples', '4'] + vec_argv(v), stdout=subprocess.PIPE, stderr=subprocess.PIPE, timeout=300, env=envb)
            nrun += 1
            what = 'cli batch with an unwritable 1.pkl: pickle-fuzzer --dir D --samples 4 ' + ' '.join(vec_argv(v))
            others = [f for f in ('0.pkl', '2.pkl', '3.pkl') if os.path.isfile(os.path.join(dd, f)) and open(os.path.join(dd, f), 'rb').read() == expect.get(v['id'])]
            if q.returncode == 0:
                fail(v['id'] + '-fail', what, 'exit status 0 although one of the files could not be written')
            elif len(others) != 3:
                fail(v['id'] + '-fail', what, 'only %s of the other files were written with the library bytes' % others)
            shutil.rmtree(dd, ignore_errors=True)
    # 4. the action wrapper
    script = os.path.join(REPO, 'scripts', 'action-run.sh')
    # regression (finding L): mutators directly followed by the output file
    act_vecs = [vecs[-1]] + [v for v in vecs[:: max(1, len(vecs) // (15 if tier == 'quick' else 80))] if v['rate'] is None or v['rate'] >= 0]
    act_vecs += [v for v in vecs if v.get('seed_text') or v['seed'] >= 2**63 and v['mutators'] == [] and v['protocol'] == '-'][:10]
    for v in act_vecs:
        out = os.path.join(tmp, 'act_%s.pkl' % v['id'])
        q = subprocess.run(['bash', script], stdout=subprocess.PIPE, stderr=subprocess.PIPE, timeout=300,
                           env=dict({k: x for k, x in envb.items() if not k.startswith('INPUT_')}, **vec_env(v, out_file=out)))
        nrun += 1
        what = 'action-run.sh with ' + ' '.join('%s=%s' % kv for kv in sorted(vec_env(v, out_file='FILE').items()))
        if q.returncode != 0 or not os.path.exists(out):
            fail(v['id'] + '-action', what, 'exit status %d: %s' % (q.returncode, q.stderr.decode()[-200:]))
        elif open(out, 'rb').read() != expect.get(v['id']):
            fail(v['id'] + '-action', what, 'file bytes differ from the library bytes')
        if os.path.exists(out):
            fronts.append((v['id'] + '-action', what, v['id'], open(out, 'rb').read()))
        dd = os.path.join(tmp, 'actd_%s' % v['id'])
        q = subprocess.run(['bash', script], stdout=subprocess.PIPE, stderr=subprocess.PIPE, timeout=300,
                           env=dict({k: x for k, x in envb.items() if not k.startswith('INPUT_')}, **vec_env(v, out_dir=dd, samples=2)))
        nrun += 1
        files = sorted(os.listdir(dd)) if os.path.isdir(dd) else []
        for f in files:
            if os.path.isfile(os.path.join(dd, f)):
                fronts.append((v['id'] + '-action-dir', what.replace('FILE', 'DIR') + ' [' + f + ']', v['id'], open(os.path.join(dd, f), 'rb').read()))
        if q.returncode != 0 or files != ['0.pkl', '1.pkl'] or any(open(os.path.join(dd, f), 'rb').read() != expect.get(v['id']) for f in files):
            fail(v['id'] + '-action-dir', what.replace('FILE', 'DIR'), 'exit %d, files %s (or contents differ from the library)' % (q.returncode, files))
        shutil.rmtree(dd, ignore_errors=True)
    v = vecs[0]
    base = {k: x for k, x in envb.items() if not k.startswith('INPUT_')}
    q = subprocess.run(['bash', script], stdout=subprocess.PIPE, stderr=subprocess.PIPE, env=dict(base, INPUT_OUTPUT_DIR=os.path.join(tmp, 'x'), INPUT_OUTPUT_FILE=os.path.join(tmp, 'x.pkl')))
    if q.returncode != 1:
        fail('action-both', 'action-run.sh with both output_dir and output_file', 'exit status %d, expected 1' % q.returncode)
    raw = os.path.join(tmp, 'raw.pkl')
    q = subprocess.run(['bash', script], stdout=subprocess.PIPE, stderr=subprocess.PIPE, env=dict(base, INPUT_ARGS=raw + ' ' + ' '.join(vec_argv(v))))   # FILE first: `--mutators` takes any number of values
    nrun += 2
    if q.returncode != 0 or not os.path.exists(raw) or open(raw, 'rb').read() != expect.get(v['id']):
        fail('action-args', 'action-run.sh with INPUT_ARGS=FILE ' + ' '.join(vec_argv(v)), 'exit %d or bytes differ from the library' % q.returncode)
    # 5. the Python extension module and PickleMutator: call sequences on one object = histories on one Generator
    rng = SplitMix64(seed ^ 0x9713)
    seqs, hist_cases = [], []
    for i in range(40 if tier == 'quick' else 300):
        proto = rng.below(6)
        sd = rng.choice([0, 7, 123456789, 2**64 - 1, rng.below(1 << 32)])
        rangeset = rng.choice([None, (5, 9), (3, 3), (9, 4), (0, 0), (100, 101)])
        calls = []
        for _ in range(1 + rng.below(4)):
            r = rng.below(4)
            calls.append(('g',) if r == 0 else ('b', rand_bytes(rng, 24).hex()) if r < 3 else ('m', rand_bytes(rng, 24).hex(), rng.choice([0, 1, 5, 20, 10000])))
        seqs.append(dict(id='y%d' % i, protocol=proto, seed=sd, range=rangeset, calls=calls, setter_at=rng.below(2)))
        mn, mx = rangeset if rangeset else (60, 300)
        hist = ';'.join('s:%d' % sd if c[0] == 'g' else 'b:' + (c[1] or '-') for c in calls)
        # with setter_at = 1 the first call runs with the default range: two histories on fresh generators are not comparable,
        # so the setter is always applied before the first generation call; setter_at only selects constructor-vs-later timing
        hist_cases.append('%s hist=%s' % (spec('y%d' % i, proto, mn, mx, RATES['0.1'], 0, 0, 0, [], 'none'), hist))
    exp_h, cur = {}, None
    for l in library_bytes(hist_cases, 'hist').splitlines():
        if l.startswith('CASE '):
            cur = re.search(r'\bid=(\S+)', l).group(1)
            exp_h[cur] = []
        elif l.startswith('H ') and cur:
            w = l.split()
            exp_h[cur].append(bytes.fromhex(w[4]) if w[2] == 'RESULT' and w[3] == 'ok' and w[4] != '-' else b'')
    py = 'python3-vt' if shutil.which('python3-vt') else 'python3'
    prog = os.path.join(tmp, 'pyseq.py')
    open(prog, 'w').write("""import sys, json
try:
    import atheris
except ImportError:
    sys.path.append(%r)
sys.path.insert(0, %r)
import pickle_fuzzer
from pickle_fuzzer.fuzzer import PickleMutator
out = {}
for s in json.load(open(sys.argv[1])):
    use_mut = any(c[0] == 'm' for c in s['calls'])
    if use_mut:
        pm = PickleMutator(protocol=s['protocol'], seed=s['seed'])
        g = pm.generator
    else:
        g = pickle_fuzzer.Generator(protocol=s['protocol'], seed=s['seed']) if s['seed'] is not None else pickle_fuzzer.Generator(s['protocol'])
    if s['range']:
        g.set_opcode_range(*s['range'])
    def do(c, g, pm):
        if c[0] == 'g':
            return g.generate().hex()
        if c[0] == 'b':
            return g.generate_from_bytes(bytes.fromhex(c[1])).hex()
        return pm.mutate(bytes.fromhex(c[1]), c[2]).hex()
    res = [do(c, g, pm if use_mut else None) for c in s['calls']]
    out[s['id']] = res
    # C08 on the Python objects themselves: the last call of the sequence on a FRESH object with the same settings
    if use_mut:
        pm2 = PickleMutator(protocol=s['protocol'], seed=s['seed'])
        g2 = pm2.generator
    else:
        pm2 = None
        g2 = pickle_fuzzer.Generator(protocol=s['protocol'], seed=s['seed']) if s['seed'] is not None else pickle_fuzzer.Generator(s['protocol'])
    if s['range']:
        g2.set_opcode_range(*s['range'])
    out[s['id'] + ':fresh'] = do(s['calls'][-1], g2, pm2)
json.dump(out, sys.stdout)
""" % (os.path.join(PYPKG, 'stub'), PYPKG))
    sp = os.path.join(tmp, 'seqs.json')
    json.dump(seqs, open(sp, 'w'))
    q = subprocess.run([py, prog, sp], stdout=subprocess.PIPE, stderr=subprocess.PIPE, text=True, timeout=600)
    if q.returncode != 0:
        fail('python', 'python call sequences', 'the python driver failed: ' + q.stderr[-400:])
    else:
        got = json.loads(q.stdout)
        for sq in seqs:
            nrun += 1
            what = 'python: Generator(protocol=%d, seed=%d)%s; %s' % (
                sq['protocol'], sq['seed'], '; set_opcode_range%s' % (tuple(sq['range']),) if sq['range'] else '',
                '; '.join('generate()' if c[0] == 'g' else 'generate_from_bytes(%s)' % c[1] if c[0] == 'b' else 'PickleMutator.mutate(%s, %d)' % (c[1], c[2]) for c in sq['calls']))
            for k_, c in enumerate(sq['calls']):
                if c[0] != 'm':
                    fronts.append((sq['id'], what + ' [call %d]' % k_, hist_cases[int(sq['id'][1:])].split(' hist=')[0], bytes.fromhex(got[sq['id']][k_])))
            if got.get(sq['id'] + ':fresh') is not None and got[sq['id']] and got[sq['id']][-1] != got[sq['id'] + ':fresh']:
                props.append({'id': sq['id'], 'prop': 'C08', 'detail': 'the last call returns %s... after the earlier calls of the sequence but %s... on a fresh object with the same settings' % (
                    got[sq['id']][-1][:32], got[sq['id'] + ':fresh'][:32])})
                specs[sq['id']] = what
            for k_, c in enumerate(sq['calls']):
                e = exp_h.get(sq['id'], [])[k_] if k_ < len(exp_h.get(sq['id'], [])) else None
                if c[0] == 'm' and e is not None:
                    e = e[:c[2]]
                if e is None or bytes.fromhex(got[sq['id']][k_]) != e:
                    fail(sq['id'], what, 'call %d returns %s..., the library %s...' % (k_, got[sq['id']][k_][:32], (e or b'').hex()[:32]))
                    break
    # the statements about one output alone (C01-C06, C10, C11: extracted oracles) on what the FRONT ENDS wrote, under the
    # configuration the options denote (Front.cli_config): a flag that a front end mis-forwards shows here under its own property
    cfg_of = dict((re.search(r'\bid=(\S+)', c).group(1), c) for c in cases)
    op = os.path.join(tmp, 'front_outputs.txt')
    with open(op, 'w') as f:
        for k_, (cid, what, vid, got) in enumerate(fronts):
            line = cfg_of.get(vid, vid if ' v=' in vid else None)
            if line is None or not got:
                continue
            fid = 'f%d:%s' % (k_, cid)
            f.write('CASE %s\nRESULT ok %s\nEND\n' % (re.sub(r'\bid=\S+', 'id=' + fid, line, 1), got.hex()))
            specs[fid] = what
    shards = shard_trace(op, 16)
    procs = [subprocess.Popen([DRIVER, 'oracles', s_], stdout=subprocess.PIPE, stderr=subprocess.STDOUT, text=True, env=ENV) for s_ in shards]
    outs = [q.communicate(timeout=3000)[0] for q in procs]
    n13 = len([p_ for p_ in props if p_['prop'] == 'C13'])
    for pr in parse_verdicts('\n'.join(outs))['props']:
        pr['detail'] += ' (output of a front end, judged under the configuration its options denote)'
        props.append(pr)
    shutil.rmtree(tmp, ignore_errors=True)
    res = dict(ok=[], diffs=[], props=props, stats={}, ncases=nrun, okn=nrun - n13, nops=nrun, specs=specs, front_outputs_judged=len(fronts),
               samples=['pickle-fuzzer ' + ' '.join(vec_argv(vecs[0])) + ' FILE', 'pickle-fuzzer ' + ' '.join(vec_argv(vecs[1])) + ' FILE'])
    json.dump(res, open(res_path, 'w'))
    log('s6: %d front-end executions (cli single/batch, action wrapper, python), %d differ from the library, %.1fs' % (nrun, len(props), time.time() - t0))
    return res


def run_s7(seed, tier, log):
    """C14 / aliasing: traced runs with Rc identities compared step by step with Heap.v; then the same call measured with
    a counting allocator: bytes still live after reset + drop must be 0 unless the model's cell graph has a cycle"""
    rng = SplitMix64(seed ^ 0x5707)
    cases = []
    k = 0
    n = 360 if tier == 'quick' else 4000
    for i in range(n):
        v = i % 6
        mn, mx = rng.choice([(60, 300), (60, 300), (20, 40), (5, 9), (100, 101), (200, 400)])
        muts = [] if rng.below(2) else [m for m in SAFE_MUTS if rng.below(3) == 0]
        unsafe = 0
        if rng.below(8) == 0:
            unsafe = 1
            muts = muts + [rng.choice(UNSAFE_MUTS)]
        src = 'seed:%d' % rng.below(1 << 32) if rng.below(3) else 'bytes:' + (rand_bytes(rng, 300).hex() or '-')
        cases.append(spec('k%d' % k, v, mn, mx, RATES['0.5'], unsafe, int(rng.below(3) == 0), int(rng.below(3) == 0), muts, src))
        k += 1
    # the recorded witness of the known finding and the directed aliasing paths
    cases.append(spec('kw', 3, 60, 300, RATES['0.1'], 0, 0, 0, [], 'seed:99'))
    cases += [c.replace('id=p', 'id=kp', 1) for c in compiled_paths(log)]
    res = run_lines_suite('s7', 'leak', 's7', cases, seed, tier, log)
    return res


KNOWN_DEEP = dict(v=2, n=40000, stack_kb=2048)


def run_s9(seed, tier, log):
    """C09 beyond what a theorem can show: native stack use of deeply nested objects (generation and teardown), in child
    processes. Depths inside the property's range on a default-size thread stack must survive."""
    t0 = time.time()
    props, runs = [], []
    depths = [(2, 1000, 2048), (0, 3000, 2048), (5, 8192, 2048), (2, 16000, 2048), (2, 30000, 0), (2, 100000, 512), (4, 250000, 2048)]
    if tier == 'thorough':
        # (protocol 0 has no TUPLE1: the path degenerates into a WIDE stack, whose guards scan it on every step - quadratic -,
        # so its depth stays moderate)
        depths += [(1, 16000, 2048), (4, 16000, 2048), (3, 40000, 0), (2, 1000000, 2048), (5, 1000000, 256), (0, 30000, 2048)]
    for (v, n, kb) in depths + [(KNOWN_DEEP['v'], KNOWN_DEEP['n'], KNOWN_DEEP['stack_kb'])]:
        p = subprocess.run([HBIN, 'deep', str(v), str(n), str(kb)], stdout=subprocess.PIPE, stderr=subprocess.PIPE, env=ENV, timeout=600, text=True)
        ok = p.returncode == 0 and 'DEEP-OK' in p.stdout
        runs.append(dict(v=v, n=n, stack_kb=kb, ok=ok, rc=p.returncode))
        if not ok:
            props.append({'id': 'deep-v%d-n%d-stack%d' % (v, n, kb), 'prop': 'C09',
                          'detail': 'nesting depth %d on a %s stack: process died (rc %d) %s' % (
                              n, ('%d KiB thread' % kb) if kb else 'main-thread', p.returncode, (p.stderr or '').strip()[-120:])})
    # deep objects at every structural position: guards (can_emit and its helpers run before every opcode), the stack
    # simulation, memo clones, aliasing, the registry of cells modified in place and the teardown all meet a nested object
    # - paths compiled by the model, one child process each
    n = 30000 if tier == 'quick' else 200000
    shapes = {2: ['EMPTY_DICT;NONE;TUPLE1*%d;NONE' % n, 'MARK;NONE;TUPLE1*%d;NONE;NONE' % n, 'EMPTY_LIST;NONE;TUPLE1*%d;APPEND;NONE' % n,
                  'NONE;TUPLE1*%d;BINPUT;BINGET;TUPLE2;BINGET' % n, 'NONE;TUPLE1*%d;DUP;TUPLE2;DUP' % n,
                  'GLOBAL;NONE;TUPLE1*%d;REDUCE;NONE;TUPLE1;BUILD' % n, 'EMPTY_DICT;NONE;NONE;TUPLE1*%d;SETITEM;NONE' % n,
                  'EMPTY_LIST;MARK;NONE;TUPLE1*%d;APPENDS;DUP;APPEND' % n],
              4: ['EMPTY_SET;MARK;NONE;TUPLE1*%d;ADDITEMS;NONE' % n, 'MARK;NONE;TUPLE1*%d;FROZENSET;MEMOIZE;NONE' % n,
                  'NONE;TUPLE1*%d;MEMOIZE;BINGET;TUPLE2' % n],
              # protocol 1 has no TUPLE1: nest lists through MARK ... LIST
              1: ['NONE' + ';MARK;NONE;LIST' * 3, 'EMPTY_LIST;DUP;APPEND;MARK;NONE;LIST']}
    # chains of INSTANCES nested through their argument tuples (deeppath only: `(A;B)*n` repeats a group)
    chains = {2: ['GLOBAL*%d;EMPTY_TUPLE;(REDUCE;TUPLE1)*%d;POP' % (n, n), 'GLOBAL*%d;EMPTY_TUPLE;(NEWOBJ;TUPLE1)*%d' % (n, n),
                  'GLOBAL;EMPTY_TUPLE;REDUCE;(NONE;TUPLE1;BUILD;TUPLE1;GLOBAL;EMPTY_TUPLE;REDUCE;DUP;POP)*3;NONE'],
              4: ['GLOBAL*%d;EMPTY_TUPLE;(EMPTY_DICT;NEWOBJ_EX;TUPLE1)*%d' % (n, n), 'GLOBAL*%d;EMPTY_TUPLE;(REDUCE;MEMOIZE;TUPLE1)*%d' % (n // 10, n // 10)]}
    pf = os.path.join(BUILD, 'deep.paths')
    plines = ['v=%d path=%s' % (v, sh_) for v, ss in shapes.items() for sh_ in ss]
    open(pf, 'w').write('\n'.join(plines) + '\n')
    q = subprocess.run([DRIVER, 'paths', pf], stdout=subprocess.PIPE, stderr=subprocess.PIPE, text=True, env=ENV, timeout=1200)
    dcases = [l.replace('id=p', 'id=deep', 1) for l in q.stdout.splitlines() if l.startswith('id=')]
    for l in q.stderr.splitlines():
        log('s9 paths: ' + l)
    dspecs = {}
    for k_, dc in enumerate(dcases):
        cp = os.path.join(BUILD, 'deepcase%d.txt' % k_)
        open(cp, 'w').write(dc + '\n')
        did = re.search(r'\bid=(\S+)', dc).group(1)
        p = subprocess.run([HBIN, 'deepcase', cp, '2048'], stdout=subprocess.PIPE, stderr=subprocess.PIPE, env=ENV, timeout=900, text=True)
        ok = p.returncode == 0 and 'DEEP-OK' in p.stdout and ' RESULT ok' in p.stdout
        runs.append(dict(case=did, path=plines[k_][:80] if k_ < len(plines) else '', stack_kb=2048, ok=ok, rc=p.returncode))
        os.remove(cp)
        if not ok:
            dspecs['deepcase-' + did] = dc
            props.append({'id': 'deepcase-' + did, 'prop': 'C09',
                          'detail': 'deeply nested object (%s) on a 2 MiB thread: %s' % (plines[k_][:70] if k_ < len(plines) else did,
                                    ('process died (rc %d) %s' % (p.returncode, (p.stderr or '').strip()[-120:])) if 'DEEP-OK' not in p.stdout else p.stdout.strip()[-100:])})
    # wide instead of deep: tens of thousands of items on the simulated stack when the collapse tail starts (exhausted fuzzer
    # bytes make every step push an integer), run without tracing; every output is judged by all single-output oracles (the
    # collapse must leave exactly one object, in the protocol's own opcodes) - the regression cases of findings B and E
    wide = [spec('wide%d' % i, v, n_, n_, RATES['0.1'], 0, 0, 0, [], 'bytes:-') for i, (v, n_) in
            enumerate([(0, 12000), (1, 10500), (2, 12000), (3, 10001), (5, 14000)] + ([] if tier == 'quick' else [(2, 30000), (4, 40000)]))]
    # (the extracted reference machine is quadratic in the stack depth - list length per step -, hence these sizes: just
    # beyond the 10 000 of finding B; one driver process per case)
    wout = library_bytes(wide)
    wprocs = []
    for i, blk in enumerate(b_ for b_ in wout.split('END\n') if b_.strip()):
        wt = os.path.join(BUILD, 'wide_results%d.txt' % i)
        open(wt, 'w').write(blk + 'END\n')
        wprocs.append((wt, subprocess.Popen([DRIVER, 'oracles', wt], stdout=subprocess.PIPE, stderr=subprocess.STDOUT, text=True, env=ENV)))
    wprops = []
    for wt, q_ in wprocs:
        wprops += parse_verdicts(q_.communicate(timeout=3000)[0])['props']
        os.remove(wt)
    for c_ in wide:
        wid = re.search(r'\bid=(\S+)', c_).group(1)
        bad = [p_ for p_ in wprops if p_['id'] == wid]
        runs.append(dict(case=wid, path=c_[:80], stack_kb=0, ok=not bad and ('CASE ' + c_) in wout, rc=0))
        if bad:
            dspecs[wid] = c_
    props += wprops
    # the same shapes applied to the implementation DIRECTLY (hooks emit_one / valid_opcodes / finish): nobody's candidate list
    # decides the next opcode, so a change of the guards cannot derail the path; the guards are evaluated on the way
    nd = 100000 if tier == 'quick' else 1000000
    for v, ss in ([(v_, ss_ + chains.get(v_, [])) for v_, ss_ in shapes.items()] if hooks_ext() else []):
        for sh_ in ss:
            sh_ = sh_.replace('*%d' % n, '*%d' % nd).replace('*%d' % (n // 10), '*%d' % (nd // 10))
            p = subprocess.run([HBIN, 'deeppath', str(v), '2048', sh_], stdout=subprocess.PIPE, stderr=subprocess.PIPE, env=ENV, timeout=900, text=True)
            ok = p.returncode == 0 and 'DEEP-OK' in p.stdout
            did = 'deeppath-v%d-%s' % (v, hashlib.md5(sh_.encode()).hexdigest()[:8])
            runs.append(dict(case=did, path=sh_[:80], stack_kb=2048, ok=ok, rc=p.returncode))
            if not ok:
                dspecs[did] = 'deeppath v=%d stack_kb=2048 path=%s' % (v, sh_)
                props.append({'id': did, 'prop': 'C09',
                              'detail': 'opcode path %s applied to the implementation on a 2 MiB thread (guards evaluated on the way, then collapse tail and teardown): process died (rc %d) %s' % (
                                  sh_[:70], p.returncode, (p.stderr or '').strip()[-160:])})
    res = dict(ok=[], diffs=[], props=props, stats={}, ncases=len(runs), okn=sum(r['ok'] for r in runs), nops=len(runs),
               specs=dspecs, samples=runs[:3], runs=runs)
    for pr in props:
        res['specs'].setdefault(pr['id'], pr['id'] + ' (pf-harness deep: NONE then TUPLE1 x n, generate and drop)')
    log('s9: %d deep-nesting child processes, %d died, %.1fs' % (len(runs), len(props), time.time() - t0))
    return res



# ----------------------------------------------------------------------------- suites S3 (direct calls) and S5 (histories)
GRID = [0, 1, 2, 3, 5, 94, 95, 255, 256, 257, 1000, 65535, 65536, 65537, 2**31 - 1, 2**31, 2**32 - 1, 2**32, 2**32 + 1,
        2**63, 2**64 - 2, 2**64 - 1]
MUT_NAMES = ['bitflip', 'boundary', 'offbyone', 'stringlen', 'character', 'memoindex.0', 'memoindex.1', 'typeconf.0', 'typeconf.1']
I32S = [0, 1, 0xFFFFFFFF, 0x7FFFFFFF, 0x80000000, 0x80000001, 0x7FFFFFFE, 5, 0xAAAAAAAA]
I64S = [0, 1, 2**64 - 1, 2**63 - 1, 2**63, 2**63 + 1, 2**63 - 2, 12345678901234]
F64S = ['0', '3ff0000000000000', '7ff8000000000000', '7ff0000000000000', 'bff0000000000000', '4059000000000000']
STRS = ['', '61', '616263', 'c3a9e282acf09f9880', '5c27220a', '41' * 64, 'e282ac' * 20, 'f09f9880' * 5 + '7a']
BYTS = ['', '00', 'ff', '000102', 'ff' * 64, '5c0a27' * 10, '80' * 33]
MEMOS = [0, 1, 2, 255, 256, 999, 1000, 2**32, 2**64 - 2, 2**64 - 1]
DELTAS = ['', '4e', '4a01020304', '28', '8c0568656c6c6f', '5d', '7d', '29', '88', '89', '47' + '00' * 8, '49310a', '2e', '90', '8f', '91', '95',
          '85', '86', '87', '64', '6c', '74', '43026162', '8e' + '00' * 8, '54' + '00' * 4, '55016f', '58' + '00' * 4, '8d' + '00' * 8, '5631320a',
          '532761270a', '46312e350a', '4c354c0a', '8a0105', '8b0100000005', '4b07', '4d0700', '42' + '00' * 4]


def s3_ops_pool():
    ops = ['u8', 'u16', 'u32', 'i32', 'i64', 'f64', 'bool', 'sm', 'ac', 'by:0', 'by:1', 'by:3', 'by:4', 'by:5', 'by:9', 'by:21']
    ops += ['ci:%x' % n for n in GRID]
    ops += ['gr:%x:%x' % (a, b) for a in GRID for b in GRID]
    for m in MUT_NAMES:
        ops += ['mi:%s:%x' % (m, v) for v in I32S]
        ops += ['ml:%s:%x' % (m, v) for v in I64S]
        ops += ['mf:%s:%s' % (m, v) for v in F64S]
        ops += ['ms:%s:%s' % (m, v or '-') for v in STRS]
        ops += ['mb:%s:%s' % (m, v or '-') for v in BYTS]
        ops += ['mm:%s:%x' % (m, v) for v in MEMOS]
        ops += ['pp:%s:%s:%s' % (m, d or '-', pre) for d in DELTAS for pre in ('-', '8002')]
    return ops


def gen_s3_cases(seed, tier):
    rng = SplitMix64(seed ^ 0x5333)
    pool = s3_ops_pool()
    rates = ['0', '8000000000000000', '3ff0000000000000', '3fe0000000000000', '3fb999999999999a', '7ff8000000000000',
             'bff0000000000000', '4000000000000000', '1', '3fefffffffffffff', '7ff0000000000000']
    srcs = ['bytes:-'] + ['bytes:%02x' % b for b in range(256)]
    if tier == 'thorough':
        srcs += ['bytes:%04x' % b for b in range(65536)]
    nrand = 500 if tier == 'quick' else 4000
    for _ in range(nrand):
        style = rng.below(4)
        n = 2 + rng.below(15) if style else 2 + rng.below(60)
        if style == 1:
            data = bytes([rng.choice([0, 0xff, 0x7f, 0x80, 1])]) * n
        else:
            data = rng.bytes(n)
        srcs.append('bytes:' + data.hex())
    srcs += ['seed:%d' % rng.below(1 << 40) for _ in range(60 if tier == 'quick' else 600)]
    cases, k, pi = [], 0, 0
    nops = 10
    # systematic sweep: every op of the pool is the FIRST op of some case for each of a few source shapes
    # (so that it runs on a full source), and appears later in sequences (so that it runs on an exhausted one)
    heads = ['bytes:-', 'bytes:ff', 'bytes:' + 'ff' * 40, 'bytes:' + '00' * 40, 'bytes:0102030405060708090a0b0c0d0e0f101112131415161718191a1b1c1d1e1f',
             'bytes:fffffffffffffffffe', 'seed:7', 'seed:123456789']
    for op in pool:
        for h in (heads if tier == 'thorough' else heads[:1] + [heads[(pi % 7) + 1]]):
            rate = rates[pi % len(rates)] if op[0] in 'mp' and op[:2] != 'by' else rates[2]
            ops = [op] + [pool[(pi * 7 + j * 13) % len(pool)] for j in range(1, 4)]
            cases.append('id=a%d rate=%s src=%s ops=%s' % (k, rate, h, ';'.join(ops)))
            k += 1
        pi += 1
    # directed: memo-index mutations whose range draw hits a chosen value (the draw equal to the input index, the ends of
    # the range): 8 zero bytes open the gate at any positive rate, the next two bytes are the big-endian range draw
    for m in ('memoindex.1', 'memoindex.0', 'offbyone'):
        for v in MEMOS + [998, 3, 500]:
            for d in sorted(set([v % 1000, (v + 1) % 1000, 0, 1, 998, 999])):
                cases.append('id=a%d rate=%s src=bytes:%s ops=%s' % (k, rates[2], '00' * 8 + '%04x' % d + '00' * 10,
                                                                  'mm:%s:%x;mm:%s:%x' % (m, v, m, v)))
                k += 1
    # directed: the sequence mutators on every string / byte-string of the pool, gate open (8 zero bytes at rate 1), each
    # strategy byte, each value of the following draw (cut position, count of extra items, position and replacement)
    for m in ('stringlen', 'character'):
        for kind, vals in (('ms', STRS), ('mb', BYTS)):
            for val in vals:
                for strat in range(3):
                    for dr in (range(48) if tier == 'quick' else range(256)):
                        cases.append('id=a%d rate=%s src=bytes:%s ops=%s:%s:%s' % (k, rates[2], '00' * 8 + '%02x%02x' % (strat, dr) + '61' * 12, kind, m, val or '-'))
                        k += 1
    # the character mutator on strings whose characters sit at the ends of the printable range ('~', '!', ' '): every position,
    # EVERY value of the replacement draw (the replacement must stay printable, the length must stay)
    for val in ('7e', '617e62', '21', '7e7e', '20', '7e21'):
        for pos in range(len(val) // 2):
            for dr in range(256):
                cases.append('id=a%d rate=%s src=bytes:%s ops=ms:character:%s' % (k, rates[2], '00' * 8 + '%02x%02x' % (pos, dr) + '61' * 4, val))
                k += 1
    # the generator's own dispatch over LISTS of mutators (hook dispatch_*): first applicable mutator wins; gate open / shut,
    # each first draw, inputs at the ends of their ranges
    dlists = {'dm': ['offbyone+memoindex.1', 'offbyone+memoindex.0', 'memoindex.0+offbyone', 'bitflip+offbyone+memoindex.1', 'memoindex.1+offbyone', 'stringlen+memoindex.0'],
              'di': ['bitflip+boundary', 'offbyone+bitflip', 'boundary+offbyone+bitflip', 'stringlen+offbyone', 'memoindex.0+boundary'],
              'df': ['boundary+bitflip', 'bitflip+boundary', 'offbyone+boundary'],
              'ds': ['stringlen+character', 'character+stringlen', 'bitflip+character'],
              'db': ['stringlen+character', 'character+stringlen', 'offbyone+stringlen']}
    dvals = {'dm': ['%x' % v for v in MEMOS], 'di': ['%x' % v for v in I32S], 'df': F64S, 'ds': [v or '-' for v in STRS], 'db': [v or '-' for v in BYTS]}
    dsrcs = ['bytes:' + '00' * 8 + '%02x' % b + t for b in (0, 1, 2, 3, 7, 0xff) for t in ('00' * 12, 'ff' * 12, '0102030405060708090a0b0c')]
    dsrcs += ['bytes:-', 'bytes:' + 'ff' * 30, 'seed:5', 'seed:77', 'seed:12345', 'seed:999999']
    for kind in ('dm', 'di', 'df', 'ds', 'db'):
        for ml in dlists[kind]:
            for val in dvals[kind]:
                for si, src in enumerate(dsrcs):
                    if tier == 'quick' and (si + len(val) + len(ml)) % 2:
                        continue
                    rate = rates[2] if si % 5 else rates[si % 3 if si % 3 != 2 else 0]
                    cases.append('id=a%d rate=%s src=%s ops=%s:%s:%s;%s:%s:%s' % (k, rate, src, kind, ml, val, kind, ml, val))
                    k += 1
    # the type-confusion mutator over EVERY opcode byte as the first byte of the emission (its classification table has 256
    # entries), every value of the kind draw (one fuzzer byte, 9 kinds), unsafe mode and - gate opened by eight zero bytes -
    # safe mode: the replacement must push a value of another kind, or leave the emission alone
    for b in range(256):
        delta = '%02x' % b + '00' * 12
        for c in range(9 if tier == 'quick' else 18):
            cases.append('id=a%d rate=%s src=bytes:%s ops=pp:typeconf.1:%s:-' % (k, rates[2], '00' * 8 + '%02x' % c + '00' * 4, delta))
            k += 1
            if c % 3 == 0 or tier != 'quick':
                cases.append('id=a%d rate=%s src=bytes:%s ops=pp:typeconf.0:%s:8002' % (k, rates[2], '00' * 8 + '%02x' % c + '00' * 4, delta))
                k += 1
    for sidx, src in enumerate(srcs):
        ops = [pool[rng.below(len(pool))] for _ in range(nops)]
        cases.append('id=a%d rate=%s src=%s ops=%s' % (k, rates[rng.below(len(rates))], src, ';'.join(ops)))
        k += 1
    return cases


def gen_s5_cases(seed, tier):
    rng = SplitMix64(seed ^ 0x5555)
    cases, k = [], 0
    n = 400 if tier == 'quick' else 4000

    def call():
        r = rng.below(10)
        if r < 5:
            return 'b:' + (rand_bytes(rng, 40 if rng.below(3) else 400).hex() or '-')
        if r < 8:
            return 's:%d' % rng.below(1 << 32)
        return 'r'
    for i in range(n):
        v = i % 6
        mn, mx = rng.choice([(60, 300), (5, 9), (1, 1), (0, 0), (3, 2), (20, 40), (2, 4)])
        muts = [] if rng.below(3) == 0 else [m for m in SAFE_MUTS if rng.below(3) == 0]
        unsafe = 0
        if rng.below(6) == 0:
            unsafe = 1
            muts = muts + [rng.choice(UNSAFE_MUTS)]
        rate = RATES[rng.choice(['0.5', '1', '0.1'])]
        shape = rng.below(8)
        x = 'b:' + (rand_bytes(rng, 30).hex() or '-')
        if shape == 0:
            hist = [x, x]
        elif shape == 1:
            hist = [x, 's:%d' % rng.below(1 << 32), x]
        elif shape == 2:
            hist = ['b:-', 'b:-', x] if rng.below(2) else ['b:-', x, 'b:-']
        elif shape == 3:
            hist = [x, x, x, 'r', x]
        else:
            hist = [call() for _ in range(1 + rng.below(6))]
            if hist[-1] == 'r':
                hist.append(call() if rng.below(2) else x)
            if hist[-1] == 'r':
                hist[-1] = x
        cases.append('%s hist=%s' % (spec('h%d' % k, v, mn, mx, rate, unsafe, int(rng.below(3) == 0), int(rng.below(3) == 0), muts, 'none'),
                                     ';'.join(hist)))
        k += 1
    # a caller changes a public setting of the SAME generator between two calls (fields are pub, the builder methods give the
    # object back): the next call must behave like a fresh generator with the new settings - nothing computed under the old
    # ones (candidate lists, flags, ranges) may survive
    for i in range(120 if tier == 'quick' else 1200):
        v = i % 6
        mn, mx = rng.choice([(60, 300), (20, 40), (5, 9)])
        u0 = rng.below(2)
        e0, b0 = rng.below(2), rng.below(2)
        x = 'b:' + (rand_bytes(rng, 60).hex() or '-')
        first = [call() for _ in range(1 + rng.below(3))]
        first = [c_ for c_ in first if c_ != 'r'] or [x]
        toggles = rng.choice([['c:unsafe=%d' % (1 - u0)], ['c:ext=%d' % (1 - e0)], ['c:buf=%d' % (1 - b0)], ['c:min=3', 'c:max=7'],
                              ['c:unsafe=%d' % (1 - u0), 'c:ext=%d' % (1 - e0), 'c:buf=%d' % (1 - b0)], ['c:max=%d' % (mx + 50)],
                              ['c:rate=%s' % RATES[rng.choice(['0', '1'])]]])
        last = rng.choice([x, 's:%d' % rng.below(1 << 32)])
        muts = [] if rng.below(2) else [m for m in SAFE_MUTS if rng.below(3) == 0]
        cases.append('%s hist=%s' % (spec('h%d' % k, v, mn, mx, RATES['0.5'], u0, e0, b0, muts, 'none'), ';'.join(first + toggles + [last])))
        k += 1
    # a permissive setting switched OFF on a used generator, then several more pickles (default budget): anything remembered
    # from the permissive phase (candidate lists, flags) would let opcodes through that the strict setting forbids
    for i in range(48 if tier == 'quick' else 480):
        v = (2, 3, 4, 5, 4, 5)[i % 6]
        which = ('unsafe', 'ext', 'buf', 'unsafe')[i % 4]
        on = dict(unsafe=0, ext=0, buf=0)
        on[which] = 1
        hist = ['s:%d' % rng.below(1 << 32), 's:%d' % rng.below(1 << 32), 'c:%s=0' % which] + ['s:%d' % (i * 8 + j) for j in range(6)]
        cases.append('%s hist=%s' % (spec('h%d' % k, v, 60, 300, RATES['0.1'], on['unsafe'], on['ext'], on['buf'], [], 'none'), ';'.join(hist)))
        k += 1
    # LONG histories on one generator (C08 speaks of any history): whatever a generator accumulates over its lifetime - a
    # counter, a budget, a table that fills up - shows only after enough volume; every call is still compared with the model's
    # fresh-state answer.  Mutators at rate 1 so that the mutation paths see the volume too.
    for i in range(6 if tier == 'quick' else 36):
        v = (3, 4, 5, 2, 1, 0)[i % 6]
        ncalls = (25, 40)[i % 2] if tier == 'quick' else (60, 120, 200)[i % 3]
        muts = list(SAFE_MUTS) if i % 3 != 2 else []
        unsafe = 1 if i % 6 == 4 else 0
        if unsafe:
            muts = muts + list(UNSAFE_MUTS)
        hist = []
        for j in range(ncalls):
            r = rng.below(8)
            hist.append('r' if r == 0 and j + 1 < ncalls else ('b:' + rand_bytes(rng, 300).hex()) if r < 3 else 's:%d' % rng.below(1 << 32))
        cases.append('%s hist=%s' % (spec('h%d' % k, v, 60, 300, RATES['1'], unsafe, int(i % 4 == 1), int(i % 4 == 3), muts, 'none'), ';'.join(hist)))
        k += 1
    return cases


def run_lines_suite(name, mode_h, mode_d, cases, seed, tier, log):
    """generic: harness <mode_h> cases -> driver <mode_d>; cached"""
    key = hashlib.sha256(('%s|%s|%d|%s|%s' % (repo_hash(), model_hash(), seed, tier, name)).encode()).hexdigest()[:24]
    d = os.path.join(CACHE, key)
    res_path = os.path.join(d, name + '.json')
    if os.path.exists(res_path):
        log('%s: cached result %s' % (name, key))
        os.utime(d)
        return json.load(open(res_path))
    os.makedirs(d, exist_ok=True)
    cpath = os.path.join(d, 'cases.txt')
    with open(cpath, 'w') as f:
        f.write('\n'.join(cases) + '\n')
    tpath = os.path.join(d, 'trace.txt')
    t0 = time.time()
    hung = run_harness(mode_h, cpath, tpath, [], log)
    shards = shard_trace(tpath, 16)
    procs = [subprocess.Popen([DRIVER, mode_d, s], stdout=subprocess.PIPE, stderr=subprocess.STDOUT, text=True, env=ENV) for s in shards]
    outs = [p.communicate(timeout=3000)[0] for p in procs]
    for p, o in zip(procs, outs):
        if p.returncode != 0:
            raise Infra('driver failed: %s' % o[-2000:])
    text = '\n'.join(outs)
    res = parse_verdicts(text)
    have = set((p_['id'], p_['prop']) for p_ in res['props'])
    res['props'] += [p_ for p_ in hang_props(hung) if (p_['id'], 'C09') not in have]
    res['okn'] = sum(1 for l in text.splitlines() if l.startswith('OK'))
    res['nops'] = sum(int(m.group(1)) for m in re.finditer(r'^OK\d \S+ (?:ops|calls)=(\d+)', text, re.M))
    res['ncases'] = len(cases)
    res['specs'] = {c.split()[0][3:]: c for c in cases}
    res['samples'] = cases[:2] + cases[-1:]
    for s_ in shards:
        os.remove(s_)
    os.remove(tpath)
    json.dump(res, open(res_path, 'w'))
    log('%s: %d cases, %d agree, %d disagreements, %d oracle failures in %.1fs' % (
        name, len(cases), res['okn'], len(res['diffs']), len(res['props']), time.time() - t0))
    prune_cache()
    return res


def run_words(seed, tier, log):
    """the model's ChaCha8 (ChaCha.v, extracted) against the rand_chacha crate: the first words of the stream of many
    seeds (edge seeds, random ones), beyond the cached blocks too"""
    key = hashlib.sha256(('%s|%s|%d|%s|words' % (repo_hash(), model_hash(), seed, tier)).encode()).hexdigest()[:24]
    d = os.path.join(CACHE, key)
    res_path = os.path.join(d, 'words.json')
    if os.path.exists(res_path):
        log('words: cached result %s' % key)
        os.utime(d)
        return json.load(open(res_path))
    os.makedirs(d, exist_ok=True)
    t0 = time.time()
    rng = SplitMix64(seed ^ 0xC8AC8A)
    seeds = [0, 1, 2, 7, 42, 99, 255, 256, 65535, 65536, 2**31 - 1, 2**31, 2**32 - 1, 2**32, 2**32 + 1, 2**53, 2**63 - 1, 2**63, 2**63 + 1, 2**64 - 2, 2**64 - 1]
    seeds += [rng.below(1 << 64) for _ in range(150 if tier == 'quick' else 3000)] + [rng.below(1 << 16) for _ in range(50)]
    diffs, okn = [], 0
    def one(sd, n):
        a = subprocess.run([HBIN, 'words', str(sd), str(n)], stdout=subprocess.PIPE, text=True, env=ENV, timeout=600).stdout.strip()
        b = subprocess.run([DRIVER, 'words', str(sd), str(n)], stdout=subprocess.PIPE, text=True, env=ENV, timeout=600).stdout.strip()
        return a, b
    with ThreadPoolExecutor(16) as ex:
        # every 10th seed far beyond the 64 cached blocks (1024 words)
        results = list(ex.map(lambda t: one(t[1], 2100 if t[0] % 10 == 0 else 300), enumerate(seeds)))
    for sd, (a, b) in zip(seeds, results):
        if a and a == b:
            okn += 1
        else:
            wa, wb = a.split(), b.split()
            k = next((i for i in range(min(len(wa), len(wb))) if wa[i] != wb[i]), min(len(wa), len(wb)))
            diffs.append(dict(id='seed%d' % sd, step='word %d' % max(0, k - 2), what='words-stream', detail='rand_chacha %s model %s' % (' '.join(wa[k:k + 2]), ' '.join(wb[k:k + 2]))))
    res = dict(ok=[], diffs=diffs, props=[], stats={}, ncases=len(seeds), okn=okn, nops=sum(len(r[0].split()) for r in results),
               specs={'seed%d' % sd: 'ChaCha8Rng::seed_from_u64(%d)' % sd for sd in seeds}, samples=['seed %d: %s' % (seeds[4], results[4][1][:80])])
    json.dump(res, open(res_path, 'w'))
    log('words: ChaCha8 streams of %d seeds, %d agree with rand_chacha, %.1fs' % (len(seeds), okn, time.time() - t0))
    return res


def gen_seedwit():
    """census of the implementation -> coq/gen/SeedWit.v + shards (witness seeds for Properties/C12s.v)"""
    rc, out = sh([sys.executable, os.path.join(VERIF, 'tools', 'gen_seedwit.py'), HBIN, COQ])
    if rc not in (0, 3):
        raise Infra('gen_seedwit failed:\n' + out[-1500:])
    return rc == 0


def gen_s8_cases(seed, tier):
    """states built by hand in the implementation: every stack of depth <= 2 over all 15 reachable kinds, every stack of
    depth 3 over a reduced alphabet, random deeper ones (MARK-heavy), with empty and non-empty memo tables; for each: the
    candidate set, one emission of every opcode of the protocol's row on two entropy inputs, and the collapse tail"""
    rng = SplitMix64(seed ^ 0x58585858)
    full, red = 'IFBNYSALTDEZMCO', 'ISLDETMCOY'
    stacks = ['-'] + [a for a in full] + [a + b for a in full for b in full]
    stacks3 = [a + b + c for a in red for b in red for c in red]
    deep = []
    for _ in range(400 if tier == 'quick' else 6000):
        n = 4 + rng.below(4)
        deep.append(''.join(rng.choice('MMLDETSCOIN' if rng.below(2) else full) for _ in range(n)))
    p = subprocess.run([DRIVER, 'vocab'], stdout=subprocess.PIPE, text=True, env=ENV, timeout=600)
    rows = {}
    for l in p.stdout.splitlines():
        m = re.match(r'VOCAB v=(\d) (.*)', l)
        if m:
            rows[int(m.group(1))] = [x.split(':')[1] for x in m.group(2).split(',') if x.split(':')[1] not in ('PROTO', 'FRAME', 'STOP')]
    memos = ['-', '0:L,1:I', '0:D,1:S,2:O,3:T']
    srcs = ['-', '0102030405060708090a0b0c0d0e0f101112131415161718191a1b1c1d1e1f20212223242526272829']
    cases, k = [], 0
    def add(v, stack, memo, ops, src, unsafe=0, ext=0, buf=0, muts=None, extra=''):
        nonlocal k
        cases.append('id=e%d v=%d min=0 max=0 rate=%s unsafe=%d ext=%d buf=%d muts=%s stack=%s memo=%s ops=%s src=bytes:%s%s' % (
            k, v, RATES['0.1'], unsafe, ext, buf, ','.join(muts) if muts else '-', stack, memo, ','.join(ops) if ops else '-', src, extra))
        k += 1
    for v in range(6):
        # candidate sets (and tails) everywhere; emissions where the volume allows
        for st in stacks:
            for mi, memo in enumerate(memos):
                add(v, st, memo, rows[v] if (v in (0, 2, 5) or tier != 'quick') and mi < 2 else [], srcs[mi % 2], ext=int(v >= 2), buf=int(v == 5))
        for i, st in enumerate(stacks3):
            add(v, st, memos[i % 3], rows[v] if (v in (1, 4) and i % 4 == 0) or tier != 'quick' else [], srcs[i % 2], ext=i % 2, buf=(i // 2) % 2)
        for i, st in enumerate(deep):
            add(v, st, memos[i % 3], rows[v] if i % 3 == 0 else [], srcs[i % 2], unsafe=int(i % 5 == 0), ext=i % 2, buf=(i // 2) % 2)
    # float sweep: Rust's `Display for f64` is outside the model (hypothesis fmt_ok of the ..._generated theorems): FLOAT on the
    # empty stack with the eight entropy bytes = the bit pattern, for every (quick: every fourth) exponent x edge and random
    # mantissas x both signs; the driver requires FLOAT-lexable text that denotes the drawn value
    for e in range(0, 2048, 4 if tier == 'quick' else 1):
        for mant in (0, 1, 1 << 51, (1 << 52) - 1, rng.below(1 << 52), rng.below(1 << 52)):
            for sign in (0, 1):
                bits = (sign << 63) | (e << 52) | mant
                add(e % 2, '-', '-', ['FLOAT'], bits.to_bytes(8, 'little').hex())
    # content-insensitivity (fact F1 of DESIGN section 1, on which the kind-level model rests): the same states with NON-EMPTY
    # containers and objects (a dict with seven mixed entries, lists / tuples / sets with items, instances with arguments): same
    # candidate sets, same emissions, same tails as the model computes from the kinds alone; and each state is built eight
    # times over - fresh hash keys and addresses every time - and must offer the same candidates every time (C07)
    cont = 'LTDEZOC'
    for v in (1, 3, 5):
        sts = [a + b for a in cont for b in full] + [a + b + c_ for a in cont for b in 'LTDM' + 'SI' for c_ in cont] + \
              [a + b + c_ for a in 'CO' for b in 'TL' for c_ in 'DT'] + ['M' + a + b for a in cont for b in cont]
        for i, st in enumerate(sts):
            add(v, st, memos[i % 2], rows[v] if i % 3 == 0 else [], srcs[1], ext=1, buf=int(v == 5), extra=' fill=1 rebuild=8')
    # aliasing: DUP leaves ONE cell in two slots.  The same small states with every run of equal kinds sharing a cell
    # (`alias=1`): every opcode from them, tails included - a simulation step that borrows, moves out of or compares its
    # operands cell-wise behaves differently only here
    nm = [c_ for c_ in full if c_ != 'M']
    for v in range(6):
        sts = [a + a for a in nm] + [a + a + a for a in nm] + [b + a + a for a in nm for b in 'MLDS'] + [a + a + b for a in nm for b in 'MTI'] + \
              ['M' + a + a + a for a in 'SILT'] + ['L' + 'M' + a + a for a in nm]
        for i, st in enumerate(sts):
            add(v, st, memos[i % 2], rows[v], srcs[1], unsafe=int(i % 7 == 0), ext=1, buf=int(v == 5), extra=' alias=1' + (' fill=1' if i % 2 else ''))
    # LARGE memo tables (a default-sized pickle never has more than a few dozen entries): the index formats change with the
    # size - one byte up to 255, four bytes or text beyond, three-digit text from 100 - and so may whatever decodes them again
    memo_ops = ['PUT', 'BINPUT', 'LONG_BINPUT', 'MEMOIZE', 'GET', 'BINGET', 'LONG_BINGET', 'DUP', 'POP']
    big_srcs = [srcs[1], 'ff' * 40, '00' * 40, '63' * 40, 'e7030000' * 10]
    for v in range(6):
        for size in (10, 99, 100, 101, 255, 256, 257, 999, 1000, 1001, 1023, 1024, 1025, 2048, 4096) if tier == 'quick' else (10, 99, 100, 101, 127, 128, 254, 255, 256, 257, 300, 511, 512, 999, 1000, 1001, 1023, 1024, 1025, 2047, 2048, 4095, 4096, 9999, 10000, 65535, 65536):
            memo = ','.join('%d:%s' % (i, 'ISLD'[i % 4]) for i in range(size))
            for si, st in enumerate(('S', 'L', 'MI', '-')):
                for bi, bsrc in enumerate(big_srcs if si == 0 else big_srcs[:2]):
                    add(v, st, memo, [o for o in memo_ops if o in rows[v]], bsrc, unsafe=int(bi == 4), ext=0, buf=0,
                        muts=['memoindex:%d' % int(bi == 4), 'offbyone'] if bi >= 3 else None)
    # unsafe mode relaxes guards (STACK_GLOBAL): depth <= 2 again
    for v in (4, 5):
        for st in stacks:
            add(v, st, '-', rows[v], srcs[1], unsafe=1, ext=1, buf=1)
    return cases


def run_s8(seed, tier, log):
    """S8: bounded-exhaustive one-step comparison (see gen_s8_cases) - the hand-written Sim.v / Gen.v against
    can_emit + utils.rs, emit_and_process + process_stack_ops and cleanup_for_stop on states built directly in the implementation"""
    if not hooks_ext():
        log('s8: skipped - the harness was built without the extension hooks (they no longer compile against this source)')
        return degraded_result('s8', 'extension hooks do not compile against this source')
    cases = gen_s8_cases(seed, tier)
    key = hashlib.sha256(('%s|%s|%d|%s|s8' % (repo_hash(), model_hash(), seed, tier)).encode()).hexdigest()[:24]
    d = os.path.join(CACHE, key)
    res_path = os.path.join(d, 's8.json')
    if os.path.exists(res_path):
        log('s8: cached result %s' % key)
        os.utime(d)
        return json.load(open(res_path))
    os.makedirs(d, exist_ok=True)
    t0 = time.time()
    nsh = 16
    paths = []
    for i in range(nsh):
        cp = os.path.join(d, 'cases%d.txt' % i)
        open(cp, 'w').write('\n'.join(cases[i::nsh]) + '\n')
        paths.append(cp)
    hp = [subprocess.Popen([HBIN, 's8', cp], stdout=open(cp + '.trace', 'w'), stderr=subprocess.PIPE, env=ENV) for cp in paths]
    for q in hp:
        _, err = q.communicate(timeout=3000)
        if q.returncode != 0:
            raise Infra('harness s8 failed: %s' % err.decode()[-1500:])
    dp = [subprocess.Popen([DRIVER, 's8', cp + '.trace'], stdout=subprocess.PIPE, stderr=subprocess.STDOUT, text=True, env=ENV) for cp in paths]
    outs = [q.communicate(timeout=3000)[0] for q in dp]
    for q, o in zip(dp, outs):
        if q.returncode != 0:
            raise Infra('driver s8 failed: %s' % o[-1500:])
    text = '\n'.join(outs)
    res = parse_verdicts(text)
    res['okn'] = sum(1 for l in text.splitlines() if l.startswith('OK8'))
    res['nops'] = sum(int(m.group(1)) for m in re.finditer(r'^OK8 \S+ ops=(\d+)', text, re.M))
    res['ncases'] = len(cases)
    res['specs'] = {c.split()[0][3:]: c for c in cases}
    res['samples'] = cases[300:301] + cases[-1:]
    for cp in paths:
        os.remove(cp)
        os.remove(cp + '.trace')
    json.dump(res, open(res_path, 'w'))
    res['float_texts_swept'] = sum(1 for c in cases if ' ops=FLOAT ' in c)
    log('s8: %d hand-built states, %d agree, %d one-step emissions compared, %d disagreements, float sweep %d values (%d where the OCaml formatter differs from Rust but denotes the same f64) in %.1fs' % (
        len(cases), res['okn'], res['nops'], len(res['diffs']), res['float_texts_swept'], len(res.get('notes', [])), time.time() - t0))
    prune_cache()
    return res


PYREF = r"""
import sys, io, pickletools
out = []
for line in open(sys.argv[1]):
    w = line.split()
    if len(w) != 2:
        continue
    data = bytes.fromhex(w[1]) if w[1] != '-' else b''
    # lexer level: genops decodes every opcode up to and including the first STOP; trailing bytes are not its business
    try:
        n = 0
        last = None
        for op, arg, pos in pickletools.genops(data):
            n += 1
            last = (op, pos)
        lex, whole = 1, int(last is not None and last[0].name == 'STOP' and last[1] == len(data) - 1)
        lmsg = ''
    except Exception as e:
        lex, whole, lmsg = 0, 0, type(e).__name__ + ':' + str(e)[:60].replace(' ', '_')
    try:
        pickletools.dis(data, out=io.StringIO())
        dis, dmsg = 1, ''
    except Exception as e:
        dis, dmsg = 0, type(e).__name__ + ':' + str(e)[:60].replace(' ', '_')
    print('P', w[0], 'lex=%d' % lex, 'whole=%d' % whole, 'dis=%d' % dis, lmsg or '-', dmsg or '-')
"""


def run_ref(seed, tier, log):
    """the SPECIFICATION side against CPython itself: the formal lexer (Lex.lex_all) and reference machine (Ref.ref_accepts,
    memo rules) on implementation outputs and on corrupted variants of them (flipped / dropped / inserted bytes, truncations,
    swapped and duplicated opcodes), compared with pickletools.genops / pickletools.dis of the interpreter on this machine.
    Direction that carries C01 / C02 / C04: whatever the formal reference accepts, CPython accepts.  The other direction is
    reported too, minus the documented points where the properties ask for more than CPython checks."""
    key = hashlib.sha256(('%s|%s|%d|%s|ref' % (repo_hash(), model_hash(), seed, tier)).encode()).hexdigest()[:24]
    d = os.path.join(CACHE, key)
    res_path = os.path.join(d, 'ref.json')
    if os.path.exists(res_path):
        log('ref: cached result %s' % key)
        os.utime(d)
        return json.load(open(res_path))
    os.makedirs(d, exist_ok=True)
    t0 = time.time()
    rng = SplitMix64(seed ^ 0x4EF4EF)
    base = [c for c in gen_cases(seed, 'quick') if c.startswith('id=g')][:(500 if tier == 'quick' else 1400)]
    outs = []
    for l in library_bytes(base).splitlines():
        if l.startswith('RESULT ok '):
            outs.append(bytes.fromhex(l.split()[2]))
    items = []
    for i, o in enumerate(outs):
        items.append(('o%d' % i, o))
        for j in range(6 if tier == 'quick' else 20):
            b = bytearray(o)
            kind = rng.below(7)
            if not b:
                continue
            pos = rng.below(len(b))
            if kind == 0:
                b[pos] ^= 1 << rng.below(8)
            elif kind == 1:
                del b[pos]
            elif kind == 2:
                b.insert(pos, rng.choice([0x28, 0x30, 0x2e, 0x65, 0x75, 0x74, 0x68, 0x71, 0x94, 0x85, 0x4e, 0x32, 0x31, 0x90, 0x52, 0x62]))
            elif kind == 3:
                b = b[:pos]
            elif kind == 4:
                b = b[:pos] + b[pos:pos + 1 + rng.below(4)] + b[pos:]
            elif kind == 5:
                b[pos:pos + 2] = bytes(reversed(b[pos:pos + 2]))
            else:
                b += bytes([rng.choice([0x2e, 0x4e, 0x00, 0x30])])
            items.append(('m%d_%d' % (i, j), bytes(b)))
    fp = os.path.join(d, 'ref_items.txt')
    with open(fp, 'w') as f:
        for iid, b in items:
            f.write('%s %s\n' % (iid, b.hex() or '-'))
    pyp = os.path.join(d, 'pyref.py')
    open(pyp, 'w').write(PYREF)
    pr = subprocess.run([sys.executable, pyp, fp], stdout=subprocess.PIPE, stderr=subprocess.PIPE, text=True, timeout=1800)
    if pr.returncode != 0:
        raise Infra('pickletools reference run failed: ' + pr.stderr[-800:])
    mr = subprocess.run([DRIVER, 'refcheck', fp], stdout=subprocess.PIPE, stderr=subprocess.PIPE, text=True, env=ENV, timeout=1800)
    if mr.returncode != 0:
        raise Infra('driver refcheck failed: ' + mr.stderr[-800:])
    py = {}
    for l in pr.stdout.splitlines():
        w = l.split()
        if w and w[0] == 'P':
            py[w[1]] = dict(lex=w[2] == 'lex=1', whole=w[3] == 'whole=1', dis=w[4] == 'dis=1', lmsg=w[5], dmsg=w[6])
    diffs, stats = [], dict(model_accepts=0, cpython_accepts=0, both_reject=0, lex_both=0, excused=0)
    byid = dict(items)
    for l in mr.stdout.splitlines():
        w = l.split()
        if not w or w[0] != 'R' or w[1] not in py:
            continue
        iid, mlex, mref, mmemo = w[1], w[2] == 'lex=1', w[3] == 'ref=1', w[4] == 'memo=1'
        p_ = py[iid]
        stats['model_accepts'] += mref
        stats['cpython_accepts'] += p_['dis']
        stats['both_reject'] += (not mref and not p_['dis'])
        stats['lex_both'] += (mlex and p_['lex'])
        hx = byid[iid].hex()[:120]
        if mlex and not (p_['lex'] and p_['whole']):
            diffs.append(dict(id=iid, step='-', what='ref-lexer-unsound', detail='the formal lexer accepts %s but pickletools.genops: %s' % (hx, p_['lmsg'])))
        if mref and not p_['dis']:
            diffs.append(dict(id=iid, step='-', what='ref-machine-unsound', detail='the formal reference machine accepts %s but pickletools.dis: %s' % (hx, p_['dmsg'])))
        if p_['dis'] and p_['whole'] and not mref:
            # where the properties deliberately ask for more than dis checks (DESIGN appendix A.6 / C02 / C04): the formal lexer's
            # domain checks (C04) and the memo discipline "PUT-family never on a MARK / empty stack" that dis also has; everything
            # else is a disagreement of my reading of pickletools
            if not mlex or not mmemo:
                stats['excused'] += 1
            else:
                # a reference that asks for more than CPython cannot hide a violation (it could only raise one, on a concrete
                # output): recorded, not a broken obligation
                stats.setdefault('stricter', []).append(hx)
    res = dict(ok=[], diffs=diffs, props=[], stats={}, ncases=len(items), okn=len(items) - len(diffs), nops=len(items),
               specs={iid: 'bytes ' + b.hex()[:400] for iid, b in items if any(d_['id'] == iid for d_ in diffs)},
               samples=[dict(id=items[1][0], bytes=items[1][1].hex()[:80], cpython=py.get(items[1][0]))],
               ref_stats={k_: (v_ if not isinstance(v_, list) else v_[:5]) for k_, v_ in stats.items()})
    json.dump(res, open(res_path, 'w'))
    log('ref: %d byte strings (%d implementation outputs + corrupted variants): formal reference accepts %d, pickletools.dis accepts %d, both reject %d, '
        '%d stricter-by-design, %d disagreements, %.1fs' % (len(items), len(outs), stats['model_accepts'], stats['cpython_accepts'], stats['both_reject'],
                                                          stats['excused'], len(diffs), time.time() - t0))
    return res


def run_s3(seed, tier, log):
    cases = gen_s3_cases(seed, tier)
    if not hooks_ext():
        n0 = len(cases)
        cases = [c for c in cases if not re.search(r'ops=(\S*;)?d[ifsbm]:', c)]
        log('s3: %d dispatch cases skipped - the harness was built without the extension hooks' % (n0 - len(cases)))
    return run_lines_suite('s3', 'adapt', 's3', cases, seed, tier, log)


def run_s5(seed, tier, log):
    cases = [l for l in corpus_lines('hist')] + gen_s5_cases(seed, tier)
    res = run_lines_suite('s5', 'hist', 's5', cases, seed, tier, log)
    if res.get('searched') or not res['diffs'] or any(p['prop'] == 'C08' for p in res['props']):
        return res
    # search for a failing input of C08: a call in the MIDDLE of a history differs from the model's (fresh-state) answer, but
    # the property's own comparison - the implementation against a fresh generator of its own - is made for the LAST call of a
    # history only.  Cut each such history right after the disagreeing call and run it again: that call is now the last one.
    cut = []
    for d in res['diffs'][:40]:
        m = re.match(r's5-result call=', d['what'])
        line = res['specs'].get(d['id'])
        if not m or not line or ' hist=' not in line:
            continue
        i = int(d['step'].split('=')[1])
        head, hist = line.split(' hist=', 1)
        calls = hist.split(';')
        if i + 1 < len(calls):
            cut.append(re.sub(r'\bid=(\S+)', r'id=\1.cut%d' % i, head, 1) + ' hist=' + ';'.join(calls[:i + 1]))
    if cut:
        tmp = os.path.join(BUILD, 's5cut')
        shutil.rmtree(tmp, ignore_errors=True)
        os.makedirs(tmp)
        cp, tp = os.path.join(tmp, 'cases.txt'), os.path.join(tmp, 'trace.txt')
        open(cp, 'w').write('\n'.join(cut) + '\n')
        run_harness('hist', cp, tp, [], log)
        out = subprocess.run([DRIVER, 's5', tp], stdout=subprocess.PIPE, stderr=subprocess.STDOUT, text=True, env=ENV, timeout=3000).stdout
        found = [p for p in parse_verdicts(out)['props'] if p['prop'] == 'C08']
        for p in found:
            p['detail'] += ' (found by cutting the history right after the call that disagrees with the model)'
            res['specs'][p['id']] = [c for c in cut if c.split()[0][3:] == p['id']][0]
        res['props'] += found
        log('s5: %d histories cut after the disagreeing call: %d show the call differing from a fresh generator of the implementation' % (len(cut), len(found)))
        shutil.rmtree(tmp, ignore_errors=True)
    res['searched'] = True
    return res


def corpus_lines(ext):
    out = []
    cdir = os.path.join(VERIF, 'corpus')
    for f in sorted(os.listdir(cdir)) if os.path.isdir(cdir) else []:
        if f.endswith('.' + ext):
            out += [l.strip() for l in open(os.path.join(cdir, f)) if l.strip() and not l.startswith('#')]
    return out


def shard_trace(tpath, n):
    outs = [open('%s.%d' % (tpath, i), 'w') for i in range(n)]
    i = 0
    with open(tpath) as f:
        for line in f:
            outs[i % n].write(line)
            if line.startswith('END'):
                i += 1
    for o in outs:
        o.close()
    return ['%s.%d' % (tpath, i) for i in range(n)]


def fuzz_search(prop, broken, seed, tier, log, n=None):
    """Last resort of the search for a failing input: an obligation or a correspondence broke, and neither the sampled cases
    nor the steered searches show the property failing on a concrete output.  The cases named in the broken correspondences
    tell WHERE implementation and model part ways (protocol, flags, mutator list); run the implementation many more times
    around those configurations - fresh seeds, the rates 1 / 0.5 / 0.25 next to the case's own, every rotation of its mutator
    list (the first applicable mutator wins), larger opcode budgets - and judge every output with the extracted oracles alone
    (no trace comparison: that is what makes volume affordable).  Random search: it can only FIND an input, never excuse one."""
    n = n or (24000 if tier == 'quick' else 200000)
    bases, seen = [], set()
    for what, detail in broken:
        for m in re.finditer(r'id=\S+ (v=\d[^|\]]*)', detail):
            kvs = dict(w.split('=', 1) for w in m.group(1).split() if '=' in w)
            if not all(k in kvs for k in ('v', 'unsafe', 'ext', 'buf', 'muts', 'rate')):
                continue
            sig = tuple(kvs[k] for k in ('v', 'unsafe', 'ext', 'buf', 'muts'))
            if sig not in seen and len(bases) < 6:
                seen.add(sig)
                bases.append(kvs)
    if not bases:
        # nothing to aim at (a proof obligation broke, no case named): the default grid
        for v in range(6):
            bases.append(dict(v=str(v), unsafe=str(v % 2), ext='1', buf=str(int(v == 5)), muts=','.join(SAFE_MUTS[:5] + (UNSAFE_MUTS if v % 2 else SAFE_MUTS[5:])), rate=RATES['0.5']))
    rng = SplitMix64(seed ^ 0xF022)
    cases = []
    for i in range(n):
        b = bases[i % len(bases)]
        muts = [x for x in b['muts'].split(',') if x and x != '-']
        if muts:
            r = rng.below(len(muts))
            muts = muts[r:] + muts[:r]
            if rng.below(5) == 0:
                muts = muts[:1 + rng.below(len(muts))]
        rate = rng.choice([b['rate'], RATES['1'], RATES['0.5'], RATES['0.25'] if '0.25' in RATES else RATES['0.5']])
        mn, mx = rng.choice([(60, 300), (200, 400), (20, 40), (400, 800)])
        cases.append('id=w.z%d v=%s min=%d max=%d rate=%s unsafe=%s ext=%s buf=%s muts=%s src=seed:%d' % (
            i, b['v'], mn, mx, rate, b['unsafe'], b['ext'], b['buf'], ','.join(muts) or '-', rng.below(1 << 48)))
    t0 = time.time()
    tmp = os.path.join(BUILD, 'fuzz')
    shutil.rmtree(tmp, ignore_errors=True)
    os.makedirs(tmp)
    shards, procs = 12, []
    for k in range(shards):
        cp, tp = os.path.join(tmp, 'c%d.txt' % k), os.path.join(tmp, 't%d.txt' % k)
        open(cp, 'w').write('\n'.join(cases[k::shards]) + '\n')
        procs.append((tp, subprocess.Popen('%s results %s 1 > %s 2>/dev/null && %s oracles %s' % (HBIN, cp, tp, DRIVER, tp), shell=True, stdout=subprocess.PIPE,
                                           stderr=subprocess.STDOUT, text=True, env=ENV)))
    props, specs = [], {}
    byid = {c.split()[0][3:]: c for c in cases}
    for tp, p in procs:
        out, _ = p.communicate(timeout=3000)
        for pr in parse_verdicts(out)['props']:
            if pr['prop'] == prop:
                pr['detail'] += ' (found by the oracle-only random search around the configurations of the broken correspondence)'
                props.append(pr)
                specs[pr['id']] = byid.get(pr['id'], pr['id'])
    shutil.rmtree(tmp, ignore_errors=True)
    log('search: %d further implementation runs around %d configuration(s) of the broken obligations, judged by the oracles alone: %d show %s failing, %.1fs' % (
        n, len(bases), len(props), prop, time.time() - t0))
    return props, specs


def hist_fuzz_search(broken, seed, tier, log, n=None):
    """C08's analogue of fuzz_search: a correspondence broke, but no history of the suites shows a call on a used generator
    differing from the same call on a FRESH generator of the implementation itself.  Run many more short histories around the
    configurations named by the broken correspondences (two to four calls, seeds and fuzzer bytes, resets in between, big
    pickles first) and compare, in the implementation alone, the last call with a fresh generator's answer."""
    n = n or (6000 if tier == 'quick' else 60000)
    bases, seen = [], set()
    for what, detail in broken:
        for m in re.finditer(r'id=\S+ (v=\d[^|\]]*)', detail):
            kvs = dict(w.split('=', 1) for w in m.group(1).split() if '=' in w)
            if not all(k in kvs for k in ('v', 'unsafe', 'ext', 'buf', 'muts', 'rate')):
                continue
            sig = tuple(kvs[k] for k in ('v', 'unsafe', 'ext', 'buf', 'muts'))
            if sig not in seen and len(bases) < 6:
                seen.add(sig)
                bases.append(kvs)
    if not bases:
        return [], {}
    rng = SplitMix64(seed ^ 0xC08F)
    cases = []
    for i in range(n):
        b = bases[i % len(bases)]
        def call():
            r = rng.below(6)
            return 'r' if r == 0 else 'b:' + rand_bytes(rng, 40 if r < 3 else 300).hex() if r < 4 else 's:%d' % rng.below(1 << 32)
        hist = ['s:%d' % rng.below(1 << 32)] + [call() for _ in range(rng.below(3))] + [rng.choice(['s:%d' % rng.below(1 << 32), 'b:' + rand_bytes(rng, 60).hex()])]
        rate = rng.choice([b['rate'], RATES['1'], RATES['0.5']])
        mn, mx = rng.choice([(60, 300), (20, 40), (100, 101), (5, 9)])
        vs = [int(b['v'])] + ([rng.below(6)] if i % 4 == 3 else [])
        cases.append('id=hz%d v=%d min=%d max=%d rate=%s unsafe=%s ext=%s buf=%s muts=%s src=none hist=%s' % (
            i, vs[-1], mn, mx, rate, b['unsafe'], b['ext'], b['buf'], b['muts'], ';'.join(hist)))
    t0 = time.time()
    tmp = os.path.join(BUILD, 'histfuzz')
    shutil.rmtree(tmp, ignore_errors=True)
    os.makedirs(tmp)
    cp, tp = os.path.join(tmp, 'cases.txt'), os.path.join(tmp, 'trace.txt')
    open(cp, 'w').write('\n'.join(cases) + '\n')
    run_harness('hist', cp, tp, [], log)
    props, specs, cur, last = [], {}, None, None
    for l in open(tp):
        if l.startswith('CASE '):
            cur, last = l[5:].strip(), None
        elif l.startswith('H '):
            w = l.split(' ', 2)
            if len(w) > 2 and w[2].startswith('RESULT'):
                last = w[2].strip()
        elif l.startswith('FRESH ') and cur and last is not None:
            fr = l[6:].strip()
            if fr != last:
                cid = re.search(r'\bid=(\S+)', cur).group(1)
                nh = len(cur.split(' hist=')[1].split(';'))
                props.append({'id': cid, 'prop': 'C08', 'detail': 'the last call of a history of %d calls returns %s... but a fresh generator with the same settings returns %s... '
                              '(found by the implementation-only search over short histories around the configurations of the broken correspondence)' % (nh, last[:60], fr[:60])})
                specs[cid] = cur
    shutil.rmtree(tmp, ignore_errors=True)
    log('search: %d further short histories around %d configuration(s) of the broken obligations, last call against a fresh generator of the implementation: %d differ, %.1fs' % (
        n, len(bases), len(props), time.time() - t0))
    return props, specs


def parse_verdicts(text):
    ok, diffs, props, stats, ok2, notes = [], [], [], {}, [], []
    for l in text.splitlines():
        w = l.split(' ', 3)
        if w[0] == 'OK':
            ok.append(w[1])
        elif w[0] == 'OK2':
            ok2.append(w[1])
        elif w[0] == 'NOTE':
            notes.append(l)
        elif w[0] == 'DIFF':
            diffs.append({'id': w[1], 'step': w[2], 'what': w[3] if len(w) > 3 else ''})
        elif w[0] == 'PROP':
            rest = l.split(' ', 4)
            props.append({'id': rest[1], 'prop': rest[2], 'detail': rest[4] if len(rest) > 4 else ''})
        elif w[0] == 'STAT':
            stats[w[1]] = dict(x.split('=') for x in l.split()[2:])
    return {'ok': ok, 'diffs': diffs, 'props': props, 'stats': stats, 's2_ok': ok2, 'notes': notes}


def prune_cache(keep=40):
    if not os.path.isdir(CACHE):
        return
    ds = sorted((os.path.getmtime(os.path.join(CACHE, x)), x) for x in os.listdir(CACHE) if re.fullmatch(r'[0-9a-f]{24}', x))
    for _, x in ds[:-keep]:
        shutil.rmtree(os.path.join(CACHE, x), ignore_errors=True)
