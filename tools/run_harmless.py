#!/usr/bin/env python3
"""run_harmless.py [names...] : behaviour-preserving refactorings (seeded/harmless/*.diff): apply each to /repo, run the
quick check of every property, undo, and record verdicts in seeded/harmless/results.json.  Every VIOLATION here is a
false alarm of the machinery (or a translator that cannot read the rewritten source)."""
import json, os, re, subprocess, sys, time, glob
VERIF = os.path.dirname(os.path.dirname(os.path.abspath(__file__)))
PROPS = ['C%02d' % i for i in range(1, 19)]
def sh(cmd):
    return subprocess.run(cmd, shell=True, text=True, capture_output=True)
def main():
    args = sys.argv[1:]
    REPO, RUN, sb = '/repo', VERIF, None
    if args and args[0] == '--sandbox':
        sys.path.insert(0, os.path.join(VERIF, 'tools'))
        import sandbox
        sb = args[1]
        RUN, REPO = sandbox.make(sb)
        args = args[2:]
    os.environ['VERIF_REPO'] = REPO
    try:
        return run(args, REPO, RUN)
    finally:
        if sb:
            import sandbox
            sandbox.destroy(sb)


def run(args, REPO, RUN):
    hd = os.path.join(VERIF, 'seeded', 'harmless')
    names = args or sorted(os.path.basename(f)[:-5] for f in glob.glob(hd + '/*.diff'))
    rp = os.path.join(hd, 'results.json')
    results = json.load(open(rp)) if os.path.exists(rp) else {}
    for nm in names:
        patch = os.path.join(hd, nm + '.diff')
        if sh('git -C %s status --porcelain --untracked-files=no' % REPO).stdout.strip():
            print('REFUSING: /repo dirty'); return 2
        if sh('git -C %s apply %s' % (REPO, patch)).returncode != 0:
            print(nm, 'PATCH DOES NOT APPLY'); results[nm] = {'applies': False}; continue
        res = {}
        try:
            for p in PROPS:
                t = time.time()
                r = sh('cd %s && ./check %s quick' % (RUN, p))
                v = [l for l in r.stdout.splitlines() if l.startswith('VIOLATION')]
                info = dict(exit=r.returncode, seconds=round(time.time() - t))
                if v:
                    info['violation_line'] = v[0]
                    m = re.search(r'replay=(\S+)', v[0])
                    try:
                        d = json.load(open(m.group(1)))
                        info['what'] = {k: str(d[k])[:500] for k in d if k in ('kind', 'config', 'oracle_message', 'theorem_or_suite', 'detail', 'found_by')}
                    except Exception:
                        pass
                if r.returncode == 2:
                    info['infra'] = r.stdout[-600:]
                res[p] = info
                print(nm, p, 'exit=%d' % r.returncode, (v[0][:150] if v else ''), flush=True)
        finally:
            sh('git -C %s apply -R %s' % (REPO, patch))
            if sh('git -C %s status --porcelain --untracked-files=no' % REPO).stdout.strip():
                sh('git -C %s checkout -- .' % REPO)
        results[nm] = dict(applies=True, description=open(os.path.join(hd, nm + '.md')).read().strip()[:400] if os.path.exists(os.path.join(hd, nm + '.md')) else '',
                           checks=res, false_alarms=[p for p in res if res[p]['exit'] != 0])
        json.dump(results, open(rp, 'w'), indent=1)
    return 0
if __name__ == '__main__':
    sys.exit(main())
