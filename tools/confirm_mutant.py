#!/usr/bin/env python3
"""confirm_mutant.py <seeded dir> ... : in a scratch worktree of /repo (outside /repo and /verif)
confirm for each seeded change that (1) the patch applies, (2) the repository's tests pass with it,
(3) it builds with --features verif-hooks, (4) the demonstration fails with it and (5) passes
without it.  Writes <dir>/confirm.json.  The worktree and its build output are removed at the end."""
import subprocess, sys, os, json, shutil, glob, time
WT = '/tmp/wt/confirm'
ENV = dict(os.environ, CARGO_NET_OFFLINE='true', CARGO_TARGET_DIR=WT + '/target')
def sh(cmd, cwd=WT, timeout=3000):
    p = subprocess.run('set -o pipefail; ' + cmd, shell=True, executable='/bin/bash', cwd=cwd, env=ENV, text=True, capture_output=True, timeout=timeout)
    return p.returncode, (p.stdout + p.stderr)
def main():
    dirs = [os.path.abspath(d) for d in sys.argv[1:]]
    subprocess.run('git -C /repo worktree remove --force %s' % WT, shell=True, capture_output=True)
    os.makedirs('/tmp/wt', exist_ok=True)
    subprocess.run('git -C /repo worktree add --detach %s HEAD' % WT, shell=True, check=True, capture_output=True)
    try:
        for d in dirs:
            res = dict(dir=os.path.basename(d), at=time.strftime('%Y-%m-%dT%H:%M:%S'))
            demos = [f for f in glob.glob(d + '/demo*') ]
            rs = [f for f in demos if f.endswith('.rs')]
            sh('git checkout -- . && git clean -fdq -e target')
            rc, out = sh('git apply %s/patch.diff' % d)
            res['applies'] = rc == 0
            if rc == 0:
                rc, out = sh('cargo test --workspace --no-fail-fast --offline 2>&1 | grep -E "^test result|FAILED|failed" | head -20')
                res['tests_with_mutant'] = out.strip().splitlines()
                res['tests_pass_with_mutant'] = ('FAILED' not in out and 'failed;' in out and all(' 0 failed' in l for l in out.splitlines() if l.startswith('test result')))
                rc, out = sh('cargo build --offline --features verif-hooks 2>&1 | tail -3')
                res['builds_with_hooks'] = rc == 0 and 'error' not in out
                shs = [f for f in demos if f.endswith('.sh')]
                notes_txt = open(d + '/notes.md').read()
                demo_txt = ''.join(open(f).read() for f in rs)
                feat = ' --features verif-hooks' if ('features verif-hooks --test' in notes_txt or (
                    'verif-hooks' in notes_txt and ('GenerationSource' in demo_txt or 'verif::' in demo_txt) and 'cfg(feature' not in demo_txt)) else ''
                if shs:
                    # script-driven demo: expects itself under <worktree>/out/
                    os.makedirs(WT + '/out', exist_ok=True)
                    for f in demos:
                        shutil.copy(f, WT + '/out/')
                    rc, out = sh('bash out/%s 2>&1 | tail -30' % os.path.basename(shs[0]))
                    res['demo_with_mutant_rc'] = rc
                    res['demo_with_mutant_tail'] = out.strip().splitlines()[-6:]
                    sh('git apply -R %s/patch.diff' % d)
                    rc, out = sh('bash out/%s 2>&1 | tail -30' % os.path.basename(shs[0]))
                    res['demo_without_mutant_rc'] = rc
                    res['demo_without_mutant_tail'] = out.strip().splitlines()[-4:]
                    shutil.rmtree(WT + '/out', ignore_errors=True)
                    rs = []
                for f in rs:
                    name = os.path.splitext(os.path.basename(f))[0].lower()
                    shutil.copy(f, WT + '/tests/%s.rs' % name)
                    for extra in glob.glob(d + '/*.py'):
                        shutil.copy(extra, WT + '/tests/')
                    rc, out = sh('cargo test --offline%s --test %s 2>&1 | tail -30' % (feat, name))
                    res['demo_with_mutant_rc'] = rc
                    res['demo_with_mutant_tail'] = out.strip().splitlines()[-6:]
                    sh('git apply -R %s/patch.diff' % d)
                    rc, out = sh('cargo test --offline%s --test %s 2>&1 | tail -30' % (feat, name))
                    res['demo_without_mutant_rc'] = rc
                    res['demo_without_mutant_tail'] = out.strip().splitlines()[-4:]
                    os.remove(WT + '/tests/%s.rs' % name)
                res['confirmed'] = bool(res.get('tests_pass_with_mutant') and res.get('builds_with_hooks')
                                        and res.get('demo_with_mutant_rc', 0) != 0 and res.get('demo_without_mutant_rc', 1) == 0)
            json.dump(res, open(d + '/confirm.json', 'w'), indent=1)
            print(res['dir'], 'confirmed' if res.get('confirmed') else 'NOT CONFIRMED', flush=True)
    finally:
        subprocess.run('git -C /repo worktree remove --force %s' % WT, shell=True, capture_output=True)
if __name__ == '__main__':
    main()
