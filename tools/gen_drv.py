#!/usr/bin/env python3
"""Translator for the driver: the entropy-consuming decisions of `Generator::generate_internal` (core.rs: the FRAME
decision, the 9 reserved bytes, the target number of opcodes) and the opcode choices of `cleanup_for_stop`
(stack_ops.rs: the MARK-closing loop, the collapse loop's if-chain and guard, the empty-stack case)
-> coq/gen/SrcDrv.v, written over the monad of SrcDrvPrims.v.  SrcEqDrv.v proves them equal to the pieces of the
hand-written Gen.generate_internal / Sim.cleanup_for_stop; Properties/C11r.v states the consequences.

The Rust subset: `let x = e;` with e built from `&&`, `>=`, `>`, `==`, `+`, `if c { e } else { e }`, `.saturating_sub(e)`,
`self.state.version`, `Version::Vn`, `self.min_opcodes`, `self.max_opcodes`, `source.gen_bool()`, `source.choose_index(e)`,
let-bound names and integer literals; in cleanup_for_stop `while g { .. }` loops whose bodies are `self.emit_opcode(X);` or an
if-chain over `matches!(self.state.version, Version::A | Version::B)` / comparisons of `stack_len`, with `break;` arms.
Anything else raises TranslateError (exit 3): that tie then rests on the correspondence suites S1/S2/S8 alone, which
is reported, not hidden."""
import os, re, sys

sys.path.insert(0, os.path.dirname(os.path.abspath(__file__)))
from gen_src import TranslateError, fn_body, cpython_names, rust_to_cp, write_if_changed
from gen_mut import tokenize


def strip_cfg(body):
    """drop `#[cfg(feature = "verif-hooks..")]` and the statement that follows it (hooks are add-only)"""
    out, i = [], 0
    lines = body.split('\n')
    while i < len(lines):
        if re.match(r'\s*#\[cfg\(feature\s*=\s*"verif-hooks', lines[i]):
            i += 1
            depth = 0
            while i < len(lines):
                depth += lines[i].count('(') - lines[i].count(')') + lines[i].count('{') - lines[i].count('}')
                done = depth <= 0 and lines[i].rstrip().endswith((';', '}'))
                i += 1
                if done:
                    break
            continue
        out.append(lines[i])
        i += 1
    return '\n'.join(out)


class P:
    def __init__(self, toks, env, rmap):
        self.t, self.i, self.env, self.rmap = toks, 0, dict(env), rmap
        self.fresh = 0

    def peek(self, k=0):
        return self.t[self.i + k] if self.i + k < len(self.t) else ('eof', '')

    def next(self):
        tok = self.peek()
        self.i += 1
        return tok

    def accept(self, v):
        if self.peek()[1] == v:
            self.i += 1
            return True
        return False

    def expect(self, v):
        tok = self.next()
        if tok[1] != v:
            raise TranslateError('expected %r, got %r near: %s' % (v, tok[1], ' '.join(x[1] for x in self.t[max(0, self.i - 8):self.i + 4])))

    # every expression is (type, purity, text): type in {bool, N, version}; purity 'p' (a Gallina term) or 'm' (an `M type`)
    def lift(self, e):
        return e if e[1] == 'm' else (e[0], 'm', '(ret %s)' % e[2])

    def bin(self, ty, f, a, b):
        """f : pure Gallina function text with two holes"""
        if a[1] == 'p' and b[1] == 'p':
            return (ty, 'p', '(' + f % (a[2], b[2]) + ')')
        self.fresh += 2
        x, y = 'x%d' % (self.fresh - 1), 'x%d' % self.fresh
        return (ty, 'm', '(mbind %s (fun %s => mbind %s (fun %s => ret (%s))))' % (self.lift(a)[2], x, self.lift(b)[2], y, f % (x, y)))

    def expr(self):
        a = self.cmp()
        while self.accept('&&'):
            b = self.cmp()
            if a[0] != 'bool' or b[0] != 'bool':
                raise TranslateError('&& on non-boolean operands')
            if a[1] == 'p' and b[1] == 'p':
                a = ('bool', 'p', '(%s && %s)' % (a[2], b[2]))
            else:       # short circuit: the right operand draws only when the left one is true
                a = ('bool', 'm', '(m_and %s %s)' % (self.lift(a)[2], self.lift(b)[2]))
        return a

    def cmp(self):
        a = self.add()
        op = self.peek()[1]
        if op in ('>=', '>', '==', '<', '<='):
            self.next()
            b = self.add()
            if a[0] != b[0]:
                raise TranslateError('comparison between %s and %s' % (a[0], b[0]))
            if a[0] == 'version':
                if op in ('<', '<='):
                    a, b = b, a
                    op = {'<': '>', '<=': '>='}[op]
                return self.bin('bool', {'>=': 'version_ge %s %s', '>': 'version_gt %s %s', '==': 'version_eqb %s %s'}[op], a, b)
            if a[0] != 'N':
                raise TranslateError('comparison of %s values' % a[0])
            if op in ('>', '>='):
                a, b = b, a
                op = {'>': '<', '>=': '<='}[op]
            return self.bin('bool', {'<': '%s <? %s', '<=': '%s <=? %s', '==': '%s =? %s'}[op], a, b)
        return a

    def add(self):
        a = self.postfix()
        while self.peek()[1] == '+':
            self.next()
            b = self.postfix()
            if a[0] != 'N' or b[0] != 'N':
                raise TranslateError('+ on non-usize operands')
            # usize addition: overflow is a panic in builds with overflow checks (never reached: see C11)
            self.fresh += 2
            x, y = 'x%d' % (self.fresh - 1), 'x%d' % self.fresh
            a = ('N', 'm', '(mbind %s (fun %s => mbind %s (fun %s => m_add %s %s)))' % (self.lift(a)[2], x, self.lift(b)[2], y, x, y))
        return a

    def postfix(self):
        e = self.atom()
        while self.peek()[1] == '.' and self.peek(1)[1] == 'saturating_sub':
            self.next(); self.next()
            self.expect('(')
            b = self.expr()
            self.expect(')')
            e = self.bin('N', 'u_saturating_sub %s %s', e, b)
        return e

    def atom(self):
        kind, val = self.peek()
        if val == '(':
            self.next()
            e = self.expr()
            self.expect(')')
            return e
        if kind == 'num':
            self.next()
            return ('N', 'p', re.sub(r'_?[ui](8|16|32|64|size)$', '', val).replace('_', ''))
        if val == 'if':
            self.next()
            c = self.expr()
            self.expect('{'); a = self.expr(); self.expect('}')
            self.expect('else')
            self.expect('{'); b = self.expr(); self.expect('}')
            if c[0] != 'bool' or a[0] != b[0]:
                raise TranslateError('ill-typed if')
            if c[1] == 'p' and a[1] == 'p' and b[1] == 'p':
                return (a[0], 'p', '(if %s then %s else %s)' % (c[2], a[2], b[2]))
            if c[1] == 'p':
                return (a[0], 'm', '(if %s then %s else %s)' % (c[2], self.lift(a)[2], self.lift(b)[2]))
            self.fresh += 1
            x = 'x%d' % self.fresh
            return (a[0], 'm', '(mbind %s (fun %s => if %s then %s else %s))' % (c[2], x, x, self.lift(a)[2], self.lift(b)[2]))
        if val == 'matches':
            self.next(); self.expect('!'); self.expect('(')
            e = self.expr()
            self.expect(',')
            alts = []
            while True:
                self.expect('Version'); self.expect('::')
                alts.append(self.next()[1])
                if not self.accept('|'):
                    break
            self.expect(')')
            if e[0] != 'version' or e[1] != 'p':
                raise TranslateError('matches! on something other than the version')
            return ('bool', 'p', '(version_in %s [%s])' % (e[2], '; '.join(alts)))
        if val == 'self':
            path = []
            while self.peek()[1] == 'self' or (self.peek()[1] == '.' and self.peek(1)[0] == 'id' and self.peek(1)[1] != 'saturating_sub'):
                if self.peek()[1] == '.':
                    self.next()
                path.append(self.next()[1])
            if self.peek()[1] == '(':
                self.expect('('); self.expect(')')
                path.append('()')
            key = '.'.join(path)
            table = {'self.state.version': ('version', 'p', 'v'), 'self.min_opcodes': ('N', 'p', 'min_opcodes'),
                     'self.max_opcodes': ('N', 'p', 'max_opcodes'), 'self.state.stack.len.()': ('N', 'p', 'stack_len'),
                     'self.has_mark.()': ('bool', 'p', 'has_mark')}
            if key not in table:
                raise TranslateError('unknown self path %s' % key)
            return table[key]
        if val == 'Version' and self.peek(1)[1] == '::':
            self.next(); self.next()
            return ('version', 'p', self.next()[1])
        if val == 'source':
            self.next(); self.expect('.')
            m = self.next()[1]
            self.expect('(')
            if m == 'gen_bool':
                self.expect(')')
                return ('bool', 'm', 'm_gen_bool')
            if m == 'choose_index':
                a = self.expr()
                self.expect(')')
                if a[0] != 'N':
                    raise TranslateError('choose_index of a non-usize')
                if a[1] == 'p':
                    return ('N', 'm', '(m_choose_index %s)' % a[2])
                self.fresh += 1
                return ('N', 'm', '(mbind %s (fun x%d => m_choose_index x%d))' % (a[2], self.fresh, self.fresh))
            raise TranslateError('source method %s is not part of the subset' % m)
        if kind == 'id' and val in self.env:
            self.next()
            return self.env[val]
        raise TranslateError('expression form not understood at %r' % val)


def statements(body):
    """top-level statements of a function body (comments removed), whitespace-normalised"""
    body = nocomment(body)
    out, depth, start, j = [], 0, 0, 0
    while j < len(body):
        c = body[j]
        if c in '({[':
            depth += 1
        elif c in ')}]':
            depth -= 1
            if c == '}' and depth == 0:
                rest = body[j + 1:].lstrip()
                if not rest.startswith(('else', ';', '.', ')', '?')):
                    out.append(body[start:j + 1])
                    start = j + 1
        elif c == ';' and depth == 0:
            out.append(body[start:j + 1])
            start = j + 1
        j += 1
    if body[start:].strip():
        out.append(body[start:])
    return [' '.join(x.split()) for x in out if x.strip()]


def skeleton(what, stmts, patterns):
    """every top-level statement must be the expected one, in order: a statement the translator does not model must
    not be passed over in silence"""
    if len(stmts) != len(patterns):
        raise TranslateError('%s has %d top-level statements, the modelled shape has %d' % (what, len(stmts), len(patterns)))
    for st, pat in zip(stmts, patterns):
        if not re.fullmatch(pat, st, re.S):
            raise TranslateError('%s: statement outside the modelled shape: %s' % (what, st[:80]))


GEN_SKELETON = [
    r'self\.reset\(\);',
    r'let use_frame = .*;',
    r'self\.emit_proto\(source\);',
    r'let frame_position = if use_frame \{ let pos = self\.output\.len\(\); self\.output\.extend_from_slice\(&\[0u8; \d+\]\); Some\(pos\) \} else \{ None \};',
    r'let range = .*;',
    r'let target_opcodes = .*;',
    r'for _ in 0\.\.target_opcodes \{ let valid_ops = self\.get_valid_opcodes\(\); if valid_ops\.is_empty\(\) \{ break; \} let chosen = self\.weighted_choice\(valid_ops, source\); self\.emit_and_process\(chosen, source\)\?; \}',
    r'self\.cleanup_for_stop\(\);',
    r'self\.emit_opcode\(OpcodeKind::Stop\);',
    r'if let Some\(pos\) = frame_position \{ let frame_size = self\.output\.len\(\)\.checked_sub\(pos \+ \d+\)\.ok_or_else\(.*\)\?; if frame_size > u64::MAX as usize \{ return Err\(.*\); \} self\.output\[pos\] = OpcodeKind::Frame\.as_u8\(\); self\.output\[pos \+ 1\.\.pos \+ 9\]\.copy_from_slice\(&\(frame_size as u64\)\.to_le_bytes\(\)\); \}',
    r'Ok\(self\.output\.clone\(\)\)',
]
CLEANUP_SKELETON = [
    r'use OpcodeKind::\*;',
    r'while .*\}',
    r'while .*\}',
    r'if .*\}',
    r'if let Some\(top\) = self\.peek\(\) \{ if matches!\(\*top\.borrow\(\), StackObject::Mark\) \{ self\.pop\(\); if self\.state\.stack\.len\(\) == 0 \{ self\.emit_opcode\(None\); \} \} \}',
]


def let_expr(body, name, env, rmap):
    m = re.search(r'\blet\s+(?:mut\s+)?' + name + r'\s*(?::[^=]+)?=', body)
    if not m:
        raise TranslateError('`let %s = ..` not found in generate_internal' % name)
    # up to the `;` at nesting depth 0
    depth, j = 0, m.end()
    while j < len(body):
        c = body[j]
        if c in '({[':
            depth += 1
        elif c in ')}]':
            depth -= 1
        elif c == ';' and depth == 0:
            break
        j += 1
    p = P(tokenize(body[m.end():j]), env, rmap)
    e = p.expr()
    if p.peek()[0] != 'eof':
        raise TranslateError('trailing tokens after the value of %s: %r' % (name, p.peek()[1]))
    return e, m.start()


def translate_version(repo):
    """`>=` on Version is derive(PartialOrd): the declaration order of the variants"""
    src = nocomment(open(os.path.join(repo, 'src', 'protocol.rs')).read())
    m = re.search(r'#\[derive\(([^)]*)\)\]\s*pub enum Version\s*\{([^}]*)\}', src)
    if not m:
        raise TranslateError('`#[derive(..)] pub enum Version { .. }` not found in protocol.rs')
    if 'PartialOrd' not in [x.strip() for x in m.group(1).split(',')]:
        raise TranslateError('Version does not derive PartialOrd: its `>=` is not the declaration order')
    if re.search(r'impl\s+(PartialOrd|Ord)\s+for\s+Version', src):
        raise TranslateError('hand-written ordering on Version')
    body = re.sub(r'#\[[^\]]*\]', '', m.group(2))
    variants = [x.strip() for x in body.split(',') if x.strip()]
    for x in variants:
        if not re.fullmatch(r'V[0-5]', x):
            raise TranslateError('variant %r of Version is not one of V0..V5 without a discriminant' % x)
    return 'Definition src_version_order : list version := [%s].\n' % '; '.join(variants)


VALID_SKELETON = [
    r'let version = self\.state\.version as u8;',
    r'let Some\(all_opcodes\) = PICKLE_OPCODES\.get\(&version\) else \{ return vec!\[\]; \};',
    r'all_opcodes \.iter\(\) \.filter\(\|&&op\| self\.can_emit\(op\)\) \.copied\(\) \.collect\(\)',
]
CHOICE_SKELETON = [
    r'if opcodes\.is_empty\(\) \{ return OpcodeKind::(\w+); \}',
    r'let idx = source\.choose_index\(opcodes\.len\(\)\);',
    r'opcodes\[idx\]',
]


def translate_choice(repo, rmap):
    """get_valid_opcodes = the protocol's row, in its order, filtered by can_emit; weighted_choice = the opcode at a uniformly
    drawn index (both recognised as a whole: every statement must be the modelled one)"""
    src = open(os.path.join(repo, 'src', 'generator', 'validation.rs')).read()
    skeleton('get_valid_opcodes', statements(strip_cfg(fn_body(src, 'get_valid_opcodes'))), VALID_SKELETON)
    st = statements(strip_cfg(fn_body(src, 'weighted_choice')))
    skeleton('weighted_choice', st, CHOICE_SKELETON)
    fb = re.fullmatch(CHOICE_SKELETON[0], st[0]).group(1).lower()
    if fb not in rmap:
        raise TranslateError('unknown fallback opcode in weighted_choice')
    return ('Definition src_get_valid (can_emit : opcode -> bool) (row : list opcode) : list opcode := filter can_emit row.\n'
            'Definition src_weighted_choice (opcodes : list opcode) : M opcode :=\n'
            '  match opcodes with\n  | [] => ret %s\n  | _ => mbind (m_choose_index (N.of_nat (length opcodes))) (fun idx => m_index opcodes idx)\n  end.\n' % rmap[fb])


def translate_generate(repo, rmap):
    src = open(os.path.join(repo, 'src', 'generator', 'core.rs')).read()
    body = strip_cfg(fn_body(src, 'generate_internal'))
    skeleton('generate_internal', statements(body), GEN_SKELETON)
    uf, pos_uf = let_expr(body, 'use_frame', {}, rmap)
    if uf[0] != 'bool':
        raise TranslateError('use_frame is not boolean')
    rng, pos_rng = let_expr(body, 'range', {}, rmap)
    if rng[0] != 'N' or rng[1] != 'p':
        raise TranslateError('range is not a pure usize expression')
    tgt, pos_tgt = let_expr(body, 'target_opcodes', {'range': ('N', 'p', 'range')}, rmap)
    if tgt[0] != 'N':
        raise TranslateError('target_opcodes is not a usize')
    # the order in which the decisions draw entropy, and where the header is written
    pos_proto = body.find('self.emit_proto(')
    pos_loop = body.find('for _ in 0..target_opcodes')
    if pos_proto < 0 or pos_loop < 0:
        raise TranslateError('emit_proto call or the generation loop `for _ in 0..target_opcodes` not found')
    if not (pos_uf < pos_proto < pos_tgt < pos_loop and pos_rng < pos_tgt):
        raise TranslateError('order of use_frame / emit_proto / target_opcodes / loop differs from the modelled one')
    m = re.search(r'extend_from_slice\(\s*&\[\s*0u8\s*;\s*(\d+)\s*\]\s*\)', body)
    if not m:
        raise TranslateError('FRAME reservation `extend_from_slice(&[0u8; N])` not found')
    reserve = int(m.group(1))
    m2 = re.search(r'checked_sub\(\s*pos\s*\+\s*(\d+)\s*\)', body)
    if not m2:
        raise TranslateError('FRAME size `checked_sub(pos + N)` not found')
    out = []
    out.append('Definition src_use_frame (v : version) : M bool :=\n  %s.\n' % P([], {}, rmap).lift(uf)[2])
    out.append('Definition src_frame_reserve : N := %d.\nDefinition src_frame_skip : N := %d.\n' % (reserve, int(m2.group(1))))
    out.append('Definition src_target (min_opcodes max_opcodes : N) : M N :=\n  let range := %s in\n  %s.\n' % (rng[2], P([], {}, rmap).lift(tgt)[2]))
    return '\n'.join(out)


def block_at(text, start):
    """text of the brace block that opens at or after `start`; returns (inner, end)"""
    i = text.index('{', start)
    depth, j = 0, i
    while j < len(text):
        if text.startswith('//', j):
            j = text.index('\n', j)
            continue
        if text[j] == '{':
            depth += 1
        elif text[j] == '}':
            depth -= 1
            if depth == 0:
                return text[i + 1:j], j + 1
        j += 1
    raise TranslateError('unbalanced braces')


def emit_of(stmts, rmap):
    m = re.fullmatch(r'\s*self\.emit_opcode\(\s*(?:OpcodeKind::)?(\w+)\s*\)\s*;\s*', stmts)
    if m:
        n = m.group(1).lower()
        if n not in rmap:
            raise TranslateError('unknown opcode %s' % m.group(1))
        return 'Some %s' % rmap[n]
    if re.fullmatch(r'\s*break\s*;\s*', stmts):
        return 'None'
    raise TranslateError('loop arm is neither one emit_opcode nor break: %r' % stmts.strip()[:60])


def nocomment(s):
    return re.sub(r'//[^\n]*', '', s)


def translate_cleanup(repo, rmap):
    src = open(os.path.join(repo, 'src', 'generator', 'stack_ops.rs')).read()
    body = nocomment(strip_cfg(fn_body(src, 'cleanup_for_stop')))
    skeleton('cleanup_for_stop', statements(body), CLEANUP_SKELETON)
    whiles = [m for m in re.finditer(r'\bwhile\b', body)]
    if len(whiles) != 2:
        raise TranslateError('cleanup_for_stop has %d while loops, the model has 2' % len(whiles))
    env = {'stack_len': ('N', 'p', 'stack_len')}
    out = []
    # loop 1
    g1 = P(tokenize(body[whiles[0].end():body.index('{', whiles[0].end())]), env, rmap).expr()
    b1, e1 = block_at(body, whiles[0].end())
    if g1[2] != 'has_mark':
        raise TranslateError('first loop guard is not self.has_mark()')
    op1 = emit_of(b1, rmap)
    if not op1.startswith('Some '):
        raise TranslateError('first loop does not emit an opcode')
    out.append('Definition src_close_marks_op : opcode := %s.\n' % op1[5:])
    # loop 2
    g2 = P(tokenize(body[whiles[1].end():body.index('{', whiles[1].end())]), env, rmap).expr()
    if g2[0] != 'bool' or g2[1] != 'p':
        raise TranslateError('second loop guard is not a pure condition')
    b2, e2 = block_at(body, whiles[1].end())
    if whiles[1].start() < e1:
        raise TranslateError('loops are nested')
    b2 = re.sub(r'^\s*let\s+stack_len\s*=\s*self\.state\.stack\.len\(\)\s*;', '', b2)
    # if-chain
    chain, rest = [], b2.strip()
    while True:
        m = re.match(r'if\b', rest)
        if not m:
            raise TranslateError('collapse loop body is not an if-chain')
        ci = rest.index('{')
        # the condition may contain braces only inside matches!(...), which has none
        cond = P(tokenize(rest[2:ci]), env, rmap).expr()
        if cond[0] != 'bool' or cond[1] != 'p':
            raise TranslateError('collapse condition is not pure')
        arm, end = block_at(rest, 0)
        chain.append((cond[2], emit_of(arm, rmap)))
        rest = rest[end:].strip()
        if not rest:
            raise TranslateError('collapse if-chain has no else arm')
        if not rest.startswith('else'):
            raise TranslateError('statement after the collapse if-chain')
        rest = rest[4:].strip()
        if rest.startswith('if'):
            continue
        arm, end = block_at(rest, 0)
        final = emit_of(arm, rmap)
        if rest[end:].strip():
            raise TranslateError('statement after the collapse if-chain')
        break
    txt = ''.join('if %s then %s\n  else ' % (c, a) for c, a in chain) + final
    out.append('Definition src_collapse_guard (stack_len : N) : bool := %s.\n' % g2[2])
    out.append('Definition src_collapse_choice (v : version) (stack_len : N) : option opcode :=\n  %s.\n' % txt)
    # after the loops: `if self.state.stack.len() == 0 { self.emit_opcode(None); }`
    tail = body[e2:]
    m = re.match(r'\s*if\b', tail)
    if not m:
        raise TranslateError('no empty-stack case after the collapse loop')
    ci = tail.index('{')
    cond = P(tokenize(tail[m.end():ci]), env, rmap).expr()
    arm, end = block_at(tail, 0)
    op3 = emit_of(arm, rmap)
    out.append('Definition src_empty_guard (stack_len : N) : bool := %s.\nDefinition src_empty_op : option opcode := %s.\n' % (cond[2], op3))
    return '\n'.join(out)


HEADER = '''(* GENERATED by tools/gen_drv.py from src/generator/core.rs (generate_internal) and src/generator/stack_ops.rs
   (cleanup_for_stop) - do not edit.  SrcEqDrv.v proves these equal to the hand-written model. *)
From Coq Require Import List NArith Bool.
Import ListNotations.
From PF Require Import Opcodes Config Entropy SrcPrims SrcDrvPrims.
Local Open Scope N_scope.
Local Open Scope bool_scope.

'''


def main():
    repo, outdir = sys.argv[1], sys.argv[2]
    rmap = rust_to_cp(cpython_names())
    try:
        text = HEADER + translate_version(repo) + '\n' + translate_generate(repo, rmap) + '\n' + translate_cleanup(repo, rmap) + '\n' + translate_choice(repo, rmap)
    except (TranslateError, ValueError, IndexError, KeyError) as e:
        # ValueError & co.: a `.index()` / lookup that found nothing - a source shape outside the subset, too
        print('TRANSLATE-ERROR SrcDrv.v: %s: %s' % (type(e).__name__, e))
        sys.exit(3)
    write_if_changed(os.path.join(outdir, 'SrcDrv.v'), text)
    print('gen_drv: ok')


if __name__ == '__main__':
    main()
