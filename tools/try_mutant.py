#!/usr/bin/env python3
"""try_mutant.py <patch.diff> <prop> [<prop> ...] : apply a seeded change to /repo, run the
quick checks of the given properties, undo the change.  Prints one line per check."""
import subprocess, sys, os, re, time
patch = os.path.abspath(sys.argv[1]); props = sys.argv[2:]
def sh(cmd, **kw):
    return subprocess.run(cmd, shell=True, text=True, capture_output=True, **kw)
st = sh('git -C /repo status --porcelain --untracked-files=no')
if st.stdout.strip():
    print('REFUSING: /repo has local modifications'); sys.exit(2)
r = sh('git -C /repo apply %s' % patch)
if r.returncode != 0:
    print('PATCH DOES NOT APPLY', r.stderr); sys.exit(2)
try:
    for p in props:
        t = time.time()
        r = sh('cd /verif && ./check %s %s' % (p, os.environ.get('TIER', 'quick')))
        v = [l for l in r.stdout.splitlines() if l.startswith('VIOLATION') or l.startswith('INFRA') or l.startswith('KNOWN')]
        print('%s exit=%d %.0fs %s' % (p, r.returncode, time.time() - t, ' | '.join(v)), flush=True)
        if v and 'replay=' in v[0]:
            f = re.search(r'replay=(\S+)', v[0]).group(1)
            try:
                import json
                d = json.load(open(f))
                print('   ', {k: (str(d[k])[:300]) for k in d if k in ('kind', 'config', 'oracle_message', 'theorem_or_suite', 'detail', 'found_by')})
            except Exception as e:
                print('    (replay unreadable: %s)' % e)
finally:
    sh('git -C /repo apply -R %s' % patch)
    st = sh('git -C /repo status --porcelain --untracked-files=no')
    if st.stdout.strip():
        sh('git -C /repo checkout -- .')
    print('reverted; repo status:', sh('git -C /repo status --porcelain').stdout.strip() or 'clean')
