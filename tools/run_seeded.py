#!/usr/bin/env python3
"""run_seeded.py [ids...] : for every seeded change under /verif/seeded apply it to /repo, run the quick check of the
property it targets (and of the neighbours listed in TARGETS), undo it, and record the outcome in meta.json."""
import json, os, re, subprocess, sys, time
VERIF = os.path.dirname(os.path.dirname(os.path.abspath(__file__)))
EXTRA = {'C05_1': ['C07'], 'C06_1': ['C08'], 'C10_2': ['C13'], 'C17_2': ['C02'], 'C02_2': ['C01'], 'C07_2': ['C05'], 'C03_2': ['C17'],
         'C01_1': ['C03'], 'C06_2': ['C10'], 'C09_1': ['C18'], 'C11_2': ['C09'],
         # round 2
         'C02_3': ['C08'], 'C05_4': ['C07'], 'C07_3': ['C05'], 'C07_4': ['C13'], 'C08_3': ['C02'], 'C10_3': ['C13'], 'C10_4': ['C07'],
         'C13_3': ['C10'], 'C06_3': ['C08'], 'C17_4': ['C08', 'C02'], 'C11_4': ['C16'], 'C06_4': ['C05', 'C04'], 'C03_3': ['C17'],
         'C17_3': ['C02'], 'C09_4': ['C02'], 'C12_4': ['C04'], 'C15_3': ['C16'], 'C01_3': ['C17'],
         # round 3
         'C06_5': ['C05', 'C08'], 'C02_6': ['C08'], 'C05_6': ['C07'], 'C10_5': ['C07'], 'C12_5': ['C10', 'C07'], 'C01_5': ['C17'],
         'C01_6': ['C03'], 'C17_6': ['C01'], 'C11_5': ['C02'], 'C04_6': ['C16'],
         # round 4
         'C01_7': ['C17'], 'C10_7': ['C16'], 'C06_7': ['C16', 'C04'], 'C16_7': ['C04'], 'C08_7': ['C06'], 'C17_7': ['C01'], 'C02_7': ['C16'], 'C03_7': ['C13'],
         'C05_7': ['C16'], 'C13_7': ['C07'], 'C07_7': ['C13']}
def sh(cmd):
    return subprocess.run(cmd, shell=True, text=True, capture_output=True)
def main():
    global VERIF
    args = sys.argv[1:]
    REPO, RUN, sb = '/repo', VERIF, None
    if args and args[0] == '--sandbox':
        # run in a private copy of /verif against a scratch worktree of /repo (tools/sandbox.py): /repo itself is not touched
        sys.path.insert(0, os.path.join(VERIF, 'tools'))
        import sandbox
        sb = args[1]
        RUN, REPO = sandbox.make(sb)
        args = args[2:]
    os.environ['VERIF_REPO'] = REPO
    try:
        return run(args, REPO, RUN)
    finally:
        if sb:
            import sandbox
            sandbox.destroy(sb)


def run(args, REPO, RUN):
    ids = args or sorted(d for d in os.listdir(os.path.join(VERIF, 'seeded')) if os.path.isdir(os.path.join(VERIF, 'seeded', d)))
    for mid in ids:
        d = os.path.join(VERIF, 'seeded', mid)
        prop = mid.split('_')[0]
        props = [prop] + EXTRA.get(mid, [])
        if sh('git -C %s status --porcelain --untracked-files=no' % REPO).stdout.strip():
            print('REFUSING: /repo dirty'); return 2
        if sh('git -C %s apply %s/patch.diff' % (REPO, d)).returncode != 0:
            print(mid, 'PATCH DOES NOT APPLY'); continue
        results = {}
        try:
            for p in props:
                t = time.time()
                r = sh('cd %s && ./check %s quick' % (RUN, p))
                v = [l for l in r.stdout.splitlines() if l.startswith('VIOLATION')]
                info = dict(exit=r.returncode, seconds=round(time.time() - t), violation_line=v[0] if v else None)
                if v:
                    m = re.search(r'replay=(\S+)', v[0])
                    try:
                        rp = json.load(open(m.group(1)))
                        info['kind'] = rp.get('kind')
                        info['replay'] = {k: str(rp[k])[:400] for k in rp if k in ('config', 'oracle_message', 'theorem_or_suite', 'detail', 'found_by')}
                    except Exception:
                        pass
                results[p] = info
                print(mid, p, 'exit=%d' % r.returncode, (v[0][:120] if v else ''), flush=True)
        finally:
            sh('git -C %s apply -R %s/patch.diff' % (REPO, d))
            if sh('git -C %s status --porcelain --untracked-files=no' % REPO).stdout.strip():
                sh('git -C %s checkout -- .' % REPO)
        meta_p = os.path.join(d, 'meta.json')
        meta = json.load(open(meta_p)) if os.path.exists(meta_p) else {}
        conf = json.load(open(os.path.join(d, 'confirm.json'))) if os.path.exists(os.path.join(d, 'confirm.json')) else {}
        notes = open(os.path.join(d, 'notes.md')).read() if os.path.exists(os.path.join(d, 'notes.md')) else ''
        meta.update(dict(
            id=mid, breaks_property=prop,
            origin='written by a sub-agent that saw only the property text and a scratch worktree of /repo (nothing from /verif)',
            needs_to_manifest=meta.get('needs_to_manifest') or ' '.join(notes.split())[:900],
            confirmed=dict(applies=conf.get('applies'), repo_tests_pass_with_change=conf.get('tests_pass_with_mutant'),
                           builds_with_hooks=conf.get('builds_with_hooks'),
                           demo_fails_with_change=(conf.get('demo_with_mutant_rc', 0) != 0), demo_passes_without=(conf.get('demo_without_mutant_rc', 1) == 0),
                           how='tools/confirm_mutant.py in a scratch worktree /tmp/wt/confirm: git apply; cargo test --workspace --offline; cargo build --features verif-hooks; demo as tests/<demo>.rs with and without the change'),
            checks_run='git -C %s apply patch.diff; ./check <P> quick for P in %s (in %s, VERIF_REPO=%s); git apply -R patch.diff' % (REPO, props, RUN, REPO),
            check_results=results,
            detected=any(r['exit'] == 1 for r in results.values()),
            detected_with_concrete_input=any(r.get('kind') == 'counterexample' for r in results.values())))
        json.dump(meta, open(meta_p, 'w'), indent=1)
    return 0
if __name__ == '__main__':
    sys.exit(main())
