#!/usr/bin/env python3
"""Regenerate DESIGN.md section 12 (table of seeded changes) from seeded/*/meta.json and notes.md."""
import json, os, re, glob
V = os.path.dirname(os.path.dirname(os.path.abspath(__file__)))
rows = []
for d in sorted(glob.glob(os.path.join(V, 'seeded', '*'))):
    mp = os.path.join(d, 'meta.json')
    if not os.path.exists(mp):
        continue
    m = json.load(open(mp))
    notes = open(os.path.join(d, 'notes.md')).read() if os.path.exists(os.path.join(d, 'notes.md')) else ''
    title = re.sub(r'^#+\s*', '', notes.strip().splitlines()[0]) if notes.strip() else ''
    title = re.sub(r'^[Mm]utant\s*\S+\s*[-—:]+\s*', '', title)
    needs = ''
    mm = re.search(r'(?:What (?:it|is) need\w*[^\n]*?manifest\W*|needed to manifest\W*|Needs\W*|Trigger\w*\W*)(.*?)(?:\n\s*\n|\Z)', notes, re.S | re.I)
    if mm:
        needs = ' '.join(mm.group(1).split())
    needs = re.sub(r'[*`|]', '', needs)[:230]
    res = []
    for p, r in m.get('check_results', {}).items():
        if not isinstance(r, dict):
            continue
        if r.get('exit') == 1:
            res.append('**%s** %s' % (p, 'concrete input (%s)' % (r.get('replay') or {}).get('found_by', '?') if r.get('kind') == 'counterexample'
                                      else 'no-failing-input-found (%s)' % (r.get('replay') or {}).get('theorem_or_suite', r.get('kind', '?'))))
        else:
            res.append('%s: passes' % p)
    rows.append('| %s | %s | %s | %s |' % (os.path.basename(d), re.sub(r'[|`*]', '', title)[:150], needs, '; '.join(res)))
hdr = ('| id | change | needs, to manifest | quick checks run against it → verdict |\n|---|---|---|---|\n')
table = hdr + '\n'.join(rows) + '\n'
dp = os.path.join(V, 'DESIGN.md')
s = open(dp).read()
a, b = '<!-- SEEDED-TABLE-BEGIN -->', '<!-- SEEDED-TABLE-END -->'
if a in s:
    s = s[:s.index(a) + len(a)] + '\n' + table + s[s.index(b):]
    open(dp, 'w').write(s)
else:
    print(table)
print('%d rows' % len(rows))
